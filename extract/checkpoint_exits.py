#!/usr/bin/env python3
"""Extract, from the current source of `handle_checkpoint` (src/commands/git_ai_handlers.rs):

  * every `std::process::exit(N)` site with its code N and a label naming the modelled exit
    (`ExitSite` of Model/Routing.lean) it corresponds to; sites that match no modelled exit are
    emitted as `.other <line>` (the Lean side then fails to prove `exit_zero` unless N = 0 and
    reports the unmodelled site);
  * the preset arms of `match args[0].as_str()` (names, whether the arm runs a preset, whether
    it copies `repo_working_dir` into `repository_working_dir`);
  * every `.unwrap()` / `.expect(` in the function, classified as
      env      — payload-independent (`current_dir().unwrap()`): environmental assumption,
      guarded  — on a value that the immediately preceding code proves `Some`/`Ok`
                 (the guard is checked textually, see `classify_unwrap`),
      unguarded — anything else (treated as possibly payload-derived; must be empty);
  * the exit taken by `main` after `handle_git_ai` returns (src/main.rs);
  * unwrap/expect/index counts of the preset sources (agent_v1_preset.rs must have none;
    the others are reported for the evidence only).

Writes lean/GitAiModel/Extracted/CheckpointExits.lean and returns a JSON-able summary.
Any unexpected shape raises ExtractError (a broken tie, handled by the check as such)."""
import json, os, re, sys

sys.path.insert(0, os.path.dirname(os.path.dirname(os.path.abspath(__file__))))
from vlib import common as C

OUT = os.path.join(C.LEAN, "GitAiModel", "Extracted", "CheckpointExits.lean")

PRESET_CTORS = {
    "claude": ".claude", "codex": ".codex", "gemini": ".gemini", "continue-cli": ".continueCli",
    "cursor": ".cursor", "github-copilot": ".githubCopilot", "amp": ".amp", "ai_tab": ".aiTab",
    "agent-v1": ".agentV1", "droid": ".droid", "opencode": ".opencode",
}

# message fragment (of the closest preceding eprintln!) -> modelled exit site
MESSAGE_SITES = [
    ("Failed to read stdin for hook input", ".stdinReadErr"),
    ("No hook input provided", ".stdinEmpty"),
    ("--hook-input requires a value or 'stdin'", ".hookInputNoValue"),
    ("Error: --hook-input requires a value", ".hookInputBlank"),
    ("Skipping checkpoint because repository is excluded", ".notAllowed"),
    ("Failed to find any git repositories for the edited files", ".noRepoForFiles"),
    ("workspace root is not a git repository and no edited files provided", ".noRepoNoFiles"),
]


class ExtractError(Exception):
    pass


def blank_comments(src):
    """Replace // and /* */ comments (outside string/char literals) by spaces, keeping offsets
    and newlines, so that positions map to source lines."""
    out, i, n = list(src), 0, len(src)
    while i < n:
        c = src[i]
        if c == '"':
            j = i + 1
            while j < n and src[j] != '"':
                j += 2 if src[j] == "\\" else 1
            i = j + 1
        elif c == "r" and src.startswith('r#"', i):
            j = src.find('"#', i + 3)
            i = n if j < 0 else j + 2
        elif c == "'" and i + 2 < n and (src[i + 2] == "'" or (src[i + 1] == "\\" and i + 3 < n and src[i + 3] == "'")):
            i += 3 if src[i + 2] == "'" else 4
        elif src.startswith("//", i):
            while i < n and src[i] != "\n":
                out[i] = " "; i += 1
        elif src.startswith("/*", i):
            j = src.find("*/", i + 2)
            j = n if j < 0 else j + 2
            for k in range(i, j):
                if out[k] != "\n":
                    out[k] = " "
            i = j
        else:
            i += 1
    return "".join(out)


def blank_strings(src):
    """string-literal contents replaced by spaces (offsets kept)"""
    out, i, n = list(src), 0, len(src)
    while i < n:
        if src[i] == '"':
            j = i + 1
            while j < n and src[j] != '"':
                if src[j] == "\\":
                    out[j] = " "
                    if j + 1 < n:
                        out[j + 1] = " "
                    j += 2
                else:
                    if out[j] != "\n":
                        out[j] = " "
                    j += 1
            i = j + 1
        else:
            i += 1
    return "".join(out)


def match_brace(src, open_pos):
    """offset of the `}` matching the `{` at open_pos (string-literal aware)."""
    depth, i, n = 0, open_pos, len(src)
    while i < n:
        c = src[i]
        if c == '"':
            j = i + 1
            while j < n and src[j] != '"':
                j += 2 if src[j] == "\\" else 1
            i = j + 1; continue
        if c == "'" and i + 2 < n and (src[i + 2] == "'" or (src[i + 1] == "\\" and i + 3 < n and src[i + 3] == "'")):
            i += 3 if src[i + 2] == "'" else 4; continue
        if c == "{":
            depth += 1
        elif c == "}":
            depth -= 1
            if depth == 0:
                return i
        i += 1
    raise ExtractError("unbalanced braces")


def fn_span(src, header_re):
    m = re.search(header_re, src)
    if not m:
        raise ExtractError(f"function not found: {header_re}")
    o = src.index("{", m.end() - 1)
    return o, match_brace(src, o)


def line_of(src, pos):
    return src.count("\n", 0, pos) + 1


def lean_chars(s):
    def one(c):
        if c == "'":
            return "'\\''"
        if c == "\\":
            return "'\\\\'"
        return f"'{c}'"
    return "[" + ", ".join(one(c) for c in s) + "]"


def classify_unwrap(body, pos):
    """(class, why) for the `.unwrap()`/`.expect(` at body[pos:]."""
    before = body[max(0, pos - 500):pos]
    stmt = before[max(before.rfind(";"), before.rfind("{"), before.rfind("}")) + 1:]
    chain = re.sub(r"\s+", "", stmt)
    if chain.endswith("current_dir()"):
        return "env", "std::env::current_dir() — independent of the payload"
    if chain.endswith("hook_input.as_ref()"):
        # must be preceded (same branch) by an assignment `hook_input = Some(`
        k = before.rfind("hook_input = Some(")
        if k >= 0 and "hook_input = None" not in before[k:]:
            return "guarded", "hook_input was assigned Some(..) immediately before"
        return "unguarded", "hook_input.as_ref().unwrap() without a preceding Some assignment"
    if chain.endswith("agent_run.repo_working_dir.clone()"):
        flat = re.sub(r"\s+", " ", before)
        if flat.endswith("if agent_run.repo_working_dir.is_some() { repository_working_dir = agent_run.repo_working_dir.clone()"):
            return "guarded", "inside `if agent_run.repo_working_dir.is_some()`"
        return "unguarded", "repo_working_dir.clone().unwrap() without the is_some() guard"
    if chain.endswith("repo_result"):
        whole = body
        g = re.search(r"let\s+needs_file_based_repo_detection\s*=\s*repo_result\.is_err\(\)\s*;", whole)
        b = re.search(r"if\s+needs_file_based_repo_detection\s*\{", whole)
        if g and b and b.start() < pos:
            e = match_brace(whole, whole.index("{", b.start()))
            tail = re.sub(r"\s+", "", whole[max(b.start(), e - 120):e])
            if e < pos and re.search(r"std::process::exit\(\d+\);\}?$", tail):
                return "guarded", "the `repo_result.is_err()` branch never falls through (ends in process::exit)"
        return "unguarded", "repo_result.unwrap() without the diverging is_err() branch before it"
    return "unguarded", "receiver: " + chain[-80:]


def count_panicky(src):
    s = blank_comments(src)
    # strip test modules
    m = re.search(r"#\[cfg\(test\)\]", s)
    if m:
        s = s[:m.start()]
    return {
        "unwrap": len(re.findall(r"\.unwrap\(\)", s)),
        "expect": len(re.findall(r"\.expect\(", s)),
        "index_or_slice": len(re.findall(r"[A-Za-z_\)\]]\[[^\]\[\"']*(?:\.\.|[0-9]|len\(\))[^\]\[\"']*\]", s)),
    }


REVIEWED = os.path.join(os.path.dirname(os.path.abspath(__file__)), "preset_panic_sites_reviewed.json")


def preset_panic_sites():
    """Every panic-capable expression in the non-test code of src/commands/checkpoint_agent/*.rs:
    `.unwrap()`, `.expect(`, panic-family macros, asserts, and index / slice expressions `recv[..]`.
    Classes:
      jsonIndex  — `recv["literal"]` in a function whose receiver is a serde_json::Value (Index<&str> on a Value
                   yields Null instead of panicking); the (file, fn) pairs are listed in the reviewed file;
      reviewed   — the exact (file, fn, normalised text) is listed in preset_panic_sites_reviewed.json with the
                   reason it cannot fail for any payload;
      unreviewed — anything else (must be empty: a new unwrap / slice in a decoder is a candidate crash on some payload)."""
    rv = json.load(open(REVIEWED))
    json_fns = {(e["file"], e["fn"]) for e in rv["json_index_functions"]}
    reviewed = {(e["file"], e["fn"], e["text"]) for e in rv["sites"]}
    pdir = os.path.join(C.REPO, "src", "commands", "checkpoint_agent")
    out = []
    for fname in sorted(os.listdir(pdir)):
        if not fname.endswith(".rs"):
            continue
        raw = open(os.path.join(pdir, fname)).read()
        s = blank_comments(raw)
        m = re.search(r"#\[cfg\(test\)\]", s)
        if m:
            s = s[:m.start()]
        sb = blank_strings(s)
        fns = [(mm.start(), mm.group(1)) for mm in re.finditer(r"\bfn\s+([A-Za-z_]\w*)", sb)]

        def fn_at(pos):
            name = "<top>"
            for st, nm in fns:
                if st <= pos:
                    name = nm
                else:
                    break
            return name

        found = []
        for mm in re.finditer(r"\.unwrap\(\)|\.expect\(|\b(?:unreachable|panic|todo|unimplemented|assert|assert_eq|assert_ne)!\s*\(", sb):
            a = max(sb.rfind(";", 0, mm.start()), sb.rfind("{", 0, mm.start()), sb.rfind("}", 0, mm.start())) + 1
            found.append((mm.start(), "call", re.sub(r"\s+", " ", s[a:mm.end()]).strip()[-160:]))
        for mm in re.finditer(r"([A-Za-z_][\w]*(?:\.[A-Za-z_]\w*)*|\)|\])\[([^\[\]]*)\]", sb):
            inner = s[mm.start(2):mm.end(2)]
            pre = sb[max(0, mm.start() - 8):mm.start(1)]
            if re.search(r"#!?\s*$", pre) or mm.group(1) in ("vec",) or sb[mm.start(1) - 1:mm.start(1)] == "!" \
                    or ";" in inner or inner.strip() == "" or re.match(r"^\s*(u8|u16|u32|u64|usize|i32|i64|String|&str|&'static str|char|bool|f32|f64)\b", inner):
                continue      # attributes, macros, array types / literals
            if sb[mm.end(1):mm.end(1) + 1] != "[":
                continue
            # array literal `&[a, b]` / `= [..]` are preceded by an operator, not by an identifier: excluded by the regex
            found.append((mm.start(), "index", re.sub(r"\s+", " ", s[mm.start():mm.end()]).strip()))
        for pos, kind, text in sorted(found):
            fn = fn_at(pos)
            is_lit = kind == "index" and re.search(r"\[\s*\"[^\"]*\"\s*\]$", text) is not None
            if is_lit and (fname, fn) in json_fns:
                cls = "jsonIndex"
            elif (fname, fn, text) in reviewed:
                cls = "reviewed"
            else:
                cls = "unreviewed"
            out.append({"file": fname, "fn": fn, "line": line_of(s, pos), "kind": kind, "text": text, "class": cls})
    return out


def extract():
    path = os.path.join(C.REPO, "src", "commands", "git_ai_handlers.rs")
    raw = open(path).read()
    src = blank_comments(raw)
    o, e = fn_span(src, r"\bfn\s+handle_checkpoint\s*\(")
    body = src[o:e + 1]
    base_line = line_of(src, o)

    def ln(pos):
        return base_line + body.count("\n", 0, pos)

    # ---- preset arms
    mm = re.search(r"match\s+args\[0\]\.as_str\(\)\s*\{", body)
    if not mm:
        raise ExtractError("`match args[0].as_str()` not found in handle_checkpoint")
    mo = body.index("{", mm.start())
    me = match_brace(body, mo)
    arms = []
    for am in re.finditer(r'"([^"]+)"\s*=>\s*\{', body[mo:me]):
        a_open = mo + am.end() - 1
        # only arms directly inside the match (depth 1)
        depth = body[mo:mo + am.start()].count("{") - body[mo:mo + am.start()].count("}")
        if depth != 1:
            continue
        a_close = match_brace(body, a_open)
        text = body[a_open:a_close]
        arms.append({"name": am.group(1), "span": (a_open, a_close), "runs_preset": ".run(" in text,
                     "copies_dir": "repository_working_dir = agent_run.repo_working_dir" in re.sub(r"\s+", " ", text)})
    if not arms:
        raise ExtractError("no preset arms found")
    run_arms = [a for a in arms if a["runs_preset"]]
    for a in run_arms:
        if a["name"] not in PRESET_CTORS:
            raise ExtractError(f"preset arm {a['name']!r} is not modelled (Preset in Model/Routing.lean)")

    # ---- exit sites
    sites = []
    for m in re.finditer(r"\b(?:std::)?process::exit\s*\(\s*([^)]*?)\s*\)", body):
        pos, code_txt = m.start(), m.group(1)
        code = int(code_txt) if re.fullmatch(r"\d+", code_txt) else None
        label = None
        arm = next((a for a in run_arms if a["span"][0] < pos < a["span"][1]), None)
        if arm is not None:
            seg = blank_strings(body[arm["span"][0]:pos])
            if re.search(r"Err\s*\(\s*\w+\s*\)\s*=>\s*\{[^{}]*$", seg):
                label = f"(.presetErr {PRESET_CTORS[arm['name']]})"
        if label is None:
            seg = body[max(0, pos - 700):pos]
            best = -1
            for frag, site in MESSAGE_SITES:
                k = seg.rfind(frag)
                if k > best:
                    # the message must be the closest eprintln! before the exit
                    best, label = k, site
            last_e = seg.rfind("eprintln!")
            if best < 0 or (last_e >= 0 and best < last_e and not any(seg.find(f, last_e) >= 0 for f, _ in MESSAGE_SITES)):
                label = None
            if label is None and re.search(r"if\s+local_checkpoint_failed\s*\{\s*$", seg):
                label = ".localFailed"
        line = ln(pos)
        if label is None:
            label = f"(.other {line})"
        sites.append({"line": line, "code": code, "code_text": code_txt, "label": label})
    if not sites:
        raise ExtractError("no process::exit sites found in handle_checkpoint")

    # ---- main(): what happens after handle_git_ai returns
    msrc = blank_comments(open(os.path.join(C.REPO, "src", "main.rs")).read())
    mm2 = re.search(r"handle_git_ai\s*\([^;]*\)\s*;\s*(?:std::)?process::exit\s*\(\s*([^)]*?)\s*\)\s*;", msrc)
    if not mm2:
        raise ExtractError("src/main.rs: `handle_git_ai(..); std::process::exit(N);` not found")
    mcode = int(mm2.group(1)) if re.fullmatch(r"\d+", mm2.group(1)) else None
    sites.append({"line": line_of(msrc, mm2.start()), "code": mcode, "code_text": mm2.group(1), "label": ".mainReturn",
                  "file": "src/main.rs"})

    # ---- unwrap / expect inventory of handle_checkpoint
    unwraps = []
    for m in re.finditer(r"\.unwrap\(\)|\.expect\(", body):
        cls, why = classify_unwrap(body, m.start())
        unwraps.append({"line": ln(m.start()), "class": cls, "why": why,
                        "text": re.sub(r"\s+", " ", body[max(0, m.start() - 60):m.end()]).strip()})

    for m in re.finditer(r"\b(?:panic|unreachable|unimplemented|todo)!\s*\(|process::abort\s*\(", blank_strings(body)):
        unwraps.append({"line": ln(m.start()), "class": "unguarded", "why": "explicit panic/abort",
                        "text": re.sub(r"\s+", " ", body[m.start():m.start() + 60]).strip()})

    # ---- presets' own sources
    pdir = os.path.join(C.REPO, "src", "commands", "checkpoint_agent")
    preset_counts = {}
    for fn in sorted(os.listdir(pdir)):
        if fn.endswith(".rs"):
            preset_counts[fn] = count_panicky(open(os.path.join(pdir, fn)).read())
    av1 = preset_counts.get("agent_v1_preset.rs")
    if av1 is None:
        raise ExtractError("agent_v1_preset.rs not found")

    return {"sites": sites, "arms": [{k: v for k, v in a.items() if k != "span"} for a in arms],
            "unwraps": unwraps, "preset_counts": preset_counts,
            "agent_v1_panicky": av1["unwrap"] + av1["expect"] + av1["index_or_slice"],
            "preset_sites": preset_panic_sites()}


def render(x):
    L = []
    L.append("/-\n  Extracted/CheckpointExits.lean — GENERATED by /verif/extract/checkpoint_exits.py from\n"
             "  src/commands/git_ai_handlers.rs (fn handle_checkpoint), src/main.rs and\n"
             "  src/commands/checkpoint_agent/*.rs on every check run. Do not edit.\n-/")
    L.append("import GitAiModel.Model.Routing\nnamespace GitAi.CheckpointExits\nopen GitAi GitAi.Routing\n")
    L.append("/-- every `process::exit(N)` reachable from `git-ai checkpoint`: (modelled site, N).\n"
             "    A non-literal argument is recorded as 255. -/")
    L.append("def exitSites : List (ExitSite × Nat) := [")
    rows = []
    for k, s in enumerate(x["sites"]):
        code = 255 if s["code"] is None else s["code"]
        comma = "," if k + 1 < len(x["sites"]) else ""
        rows.append(f"  ({s['label']}, {code}){comma}  -- {s.get('file', 'git_ai_handlers.rs')}:{s['line']}  exit({s['code_text']})")
    L.append("\n".join(rows))
    L.append("]\n")
    run_arms = [a for a in x["arms"] if a["runs_preset"]]
    L.append("/-- arms of `match args[0].as_str()` that run a preset, in source order: (name, copies\n"
             "    `repo_working_dir` into `repository_working_dir`) -/")
    L.append("def presetArms : List (Str × Bool) := [")
    L.append(",\n".join(f"  ({lean_chars(a['name'])}, {'true' if a['copies_dir'] else 'false'})" for a in run_arms))
    L.append("]\n")
    L.append("/-- other string arms (no preset decoder behind them) -/")
    L.append("def otherArms : List Str := [" + ", ".join(lean_chars(a["name"]) for a in x["arms"] if not a["runs_preset"]) + "]\n")
    for cls, doc in (("unguarded", "`.unwrap()`/`.expect(` in handle_checkpoint on a value not proved Some/Ok by the code just before it (source lines)"),
                     ("guarded", "unwraps whose guard was found textually (source lines)"),
                     ("env", "payload-independent unwraps = environmental assumptions (source lines)")):
        L.append(f"/-- {doc} -/")
        L.append(f"def {cls}Unwraps : List Nat := [" + ", ".join(str(u["line"]) for u in x["unwraps"] if u["class"] == cls) + "]\n")
    L.append("/-- `.unwrap()` + `.expect(` + index/slice expressions in agent_v1_preset.rs (non-test code) -/")
    L.append(f"def agentV1Panicky : Nat := {x['agent_v1_panicky']}\n")
    ps = x["preset_sites"]
    L.append("/-- panic-capable expressions (unwrap / expect / panic-family macros / index and slice expressions) in the\n"
             "    non-test code of src/commands/checkpoint_agent/*.rs, by class: 0 = string-literal index on a\n"
             "    serde_json::Value (cannot panic), 1 = reviewed (extract/preset_panic_sites_reviewed.json), 2 = unreviewed -/")
    L.append("def presetPanicSites : List (Nat × Nat) := [")
    rows = []
    for k, u in enumerate(ps):
        comma = "," if k + 1 < len(ps) else ""
        code = {"jsonIndex": 0, "reviewed": 1, "unreviewed": 2}[u["class"]]
        txt = u["text"].replace("-/", "- /").replace("/-", "/ -")
        rows.append(f"  ({u['line']}, {code}){comma}  -- {u['file']} fn {u['fn']}: {txt[:110]}")
    L.append("\n".join(rows))
    L.append("]\n")
    L.append("end GitAi.CheckpointExits\n")
    return "\n".join(L)


def main(write=True):
    x = extract()
    if write:
        C.write_if_changed(OUT, render(x))
    return x


if __name__ == "__main__":
    try:
        x = main()
    except ExtractError as e:
        print("EXTRACT-ERROR:", e); sys.exit(1)
    print(json.dumps(x, indent=1))
