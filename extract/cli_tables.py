#!/usr/bin/env python3
"""Extract the option tables of /repo/src/git/cli_parser.rs into
lean/GitAiModel/Extracted/CliTables.lean (regenerated on every run; DESIGN §3.1).

What is read (and nothing else is assumed about the file):
  * fn classify            -> ordered rule list (exact-token arms, `tok == L || is_eq_form(tok, L)`,
                              `tok == P || tok.starts_with(P)`, `tok.starts_with('-')`, default)
  * the `let key = if tok.starts_with(..) {..} else if .. else { "" }` chain of the main loop
  * fn take_valueish       -> the sticky short keys; the rest of the body must have the known skeleton
  * fn is_eq_form          -> must have the known skeleton
  * pre_has_help / pre_has_version closures -> help and version token sets; every other
    help/version comparison in the function must use the same sets
  * fn is_flag_with_value  -> token list
Any other shape raises ExtractError (a broken tie, handled by the check as such).
"""
import os, re, sys

sys.path.insert(0, os.path.dirname(os.path.dirname(os.path.abspath(__file__))))
from vlib import common as C

SRC = os.path.join(C.REPO, "src", "git", "cli_parser.rs")
OUT = os.path.join(C.LEAN, "GitAiModel", "Extracted", "CliTables.lean")

KINDS = {"GlobalNoValue": ".globalNoValue", "GlobalTakesValue": ".globalTakesValue",
         "MetaNoValue": ".metaNoValue", "Unknown": ".unknown"}


class ExtractError(Exception):
    pass


def strip_comments(src):
    """Remove // comments and /* */ comments outside string/char literals."""
    out, i, n = [], 0, len(src)
    while i < n:
        c = src[i]
        if c == '"':
            j = i + 1
            while j < n and src[j] != '"':
                j += 2 if src[j] == "\\" else 1
            out.append(src[i:j + 1]); i = j + 1
        elif c == "'" and i + 2 < n and (src[i + 2] == "'" or (src[i + 1] == "\\" and i + 3 < n and src[i + 3] == "'")):
            j = i + (3 if src[i + 2] == "'" else 4)
            out.append(src[i:j]); i = j
        elif src.startswith("//", i):
            while i < n and src[i] != "\n":
                i += 1
        elif src.startswith("/*", i):
            j = src.find("*/", i + 2)
            i = n if j < 0 else j + 2
        else:
            out.append(c); i += 1
    return "".join(out)


def fn_body(src, header_re):
    """Text between the braces of the first fn whose header matches."""
    m = re.search(header_re, src)
    if not m:
        raise ExtractError(f"function not found: {header_re}")
    i = src.index("{", m.end() - 1)
    depth, j, n = 0, i, len(src)
    while j < n:
        c = src[j]
        if c == '"':
            j += 1
            while src[j] != '"':
                j += 2 if src[j] == "\\" else 1
        elif c == "'" and j + 2 < n and src[j + 2] == "'":
            j += 2
        elif c == "{":
            depth += 1
        elif c == "}":
            depth -= 1
            if depth == 0:
                return src[i + 1:j]
        j += 1
    raise ExtractError("unbalanced braces")


def squash(s):
    return re.sub(r"\s+", " ", s).strip()


def lits(s):
    """string literals of `"a" | "b" | ...` (exactly that shape)."""
    s = squash(s)
    if not re.fullmatch(r'\|?\s*"[^"\\]*"(\s*\|\s*"[^"\\]*")*', s):
        raise ExtractError(f"not a literal alternative list: {s[:120]}")
    return re.findall(r'"([^"\\]*)"', s)


def parse_classify(body):
    """Ordered rule list from the statement sequence of `classify`."""
    rules, rest = [], squash(body)
    pat_match = re.compile(r'^match tok \{(.*?)_ => \{\} \}')
    pat_eq = re.compile(r'^if tok == "([^"]*)" \|\| is_eq_form\(tok, "([^"]*)"\) \{ return (\w+); \}')
    pat_pref = re.compile(r'^if tok == "([^"]*)" \|\| tok\.starts_with\("([^"]*)"\) \{ return (\w+); \}')
    pat_exact1 = re.compile(r'^if tok == "([^"]*)" \{ return (\w+); \}')
    pat_dash = re.compile(r"^if tok\.starts_with\('-'\) \{ return (\w+); \}")
    while rest:
        m = pat_match.match(rest)
        if m:
            arms = m.group(1)
            for am in re.finditer(r'((?:\|?\s*"[^"]*"\s*)+)=> return (\w+),', arms):
                rules.append(("exact", lits(am.group(1)), am.group(2)))
            leftover = re.sub(r'((?:\|?\s*"[^"]*"\s*)+)=> return (\w+),', "", arms).strip()
            if leftover:
                raise ExtractError(f"classify: unrecognised match arm text: {leftover[:120]}")
            rest = rest[m.end():].strip(); continue
        m = pat_eq.match(rest)
        if m:
            if m.group(1) != m.group(2):
                raise ExtractError("classify: eq-form rule with two different literals")
            rules.append(("eqLong", m.group(1), m.group(3))); rest = rest[m.end():].strip(); continue
        m = pat_pref.match(rest)
        if m:
            if m.group(1) != m.group(2):
                raise ExtractError("classify: prefix rule with two different literals")
            rules.append(("pref", m.group(1), m.group(3))); rest = rest[m.end():].strip(); continue
        m = pat_exact1.match(rest)
        if m:
            rules.append(("exact", [m.group(1)], m.group(2))); rest = rest[m.end():].strip(); continue
        m = pat_dash.match(rest)
        if m:
            rules.append(("dash", None, m.group(1))); rest = rest[m.end():].strip(); continue
        if rest in KINDS:
            return rules, rest
        raise ExtractError(f"classify: unrecognised statement: {rest[:160]}")
    raise ExtractError("classify: no default expression")


TAKE_SKELETON = squash('''
let tok = &all[i];
if let Some(eq) = tok.find('=') && eq > 0 && tok.starts_with("--") { return (vec![tok.clone()], 1); }
@STICKY@
if i + 1 < all.len() { return (vec![tok.clone(), all[i + 1].clone()], 2); }
(vec![tok.clone()], 1)
''')
EQFORM_SKELETON = squash("tok.len() > long.len() + 1 && tok.starts_with(long) && tok.as_bytes()[long.len()] == b'='")


def parse_take_valueish(body):
    b = squash(body)
    sticky = []
    pat = re.compile(r'if key == "([^"]*)" && tok != "([^"]*)" && tok\.starts_with\("([^"]*)"\) \{ return \(vec!\[tok\.clone\(\)\], 1\); \}')
    for m in pat.finditer(b):
        if not (m.group(1) == m.group(2) == m.group(3)):
            raise ExtractError("take_valueish: sticky rule with different literals")
        sticky.append(m.group(1))
    skeleton = squash(pat.sub("", b, count=0))
    skeleton_expected = squash(TAKE_SKELETON.replace("@STICKY@", ""))
    if skeleton != skeleton_expected:
        raise ExtractError(f"take_valueish: unexpected body shape:\n  got      {skeleton}\n  expected {skeleton_expected}")
    # the sticky rules must sit between the '=' rule and the next-token rule
    first, last = b.find('if key =='), b.rfind('if key ==')
    if sticky and not (b.find('starts_with("--")') < first and last < b.find("if i + 1 < all.len()")):
        raise ExtractError("take_valueish: sticky rules are not between the '=' rule and the next-token rule")
    return sticky


def parse_key_chain(body):
    m = re.search(r'let key = (if tok\.starts_with.*?else \{ "" \});', squash(body))
    if not m:
        raise ExtractError("key chain (`let key = if tok.starts_with(..)`) not found")
    chain = m.group(1)
    keys = []
    for cm in re.finditer(r'if tok\.starts_with\("([^"]*)"\) \{ "([^"]*)" \}', chain):
        if cm.group(1) != cm.group(2):
            raise ExtractError("key chain: prefix and key differ")
        keys.append(cm.group(1))
    left = re.sub(r'(else )?if tok\.starts_with\("([^"]*)"\) \{ "([^"]*)" \}', "", chain).strip()
    if left != 'else { "" }':
        raise ExtractError(f"key chain: unexpected text {left[:100]}")
    return keys


def parse_meta_sets(body):
    b = squash(body)
    def closure_tokens(s):
        if not re.fullmatch(r't == "[^"]*"( \|\| t == "[^"]*")*', s):
            raise ExtractError(f"unexpected comparison shape: {s}")
        return re.findall(r't == "([^"]*)"', s)
    m = re.search(r'let pre_has_help = pre_command_meta\.iter\(\)\.any\(\|t\| ([^)]*)\);', b)
    if not m:
        raise ExtractError("pre_has_help not found")
    help_t = closure_tokens(m.group(1))
    m = re.search(r'let pre_has_version = pre_command_meta \.iter\(\) \.any\(\|t\| ([^)]*)\);', b) or \
        re.search(r'let pre_has_version = pre_command_meta\.iter\(\)\.any\(\|t\| ([^)]*)\);', b)
    if not m:
        raise ExtractError("pre_has_version not found")
    ver_t = closure_tokens(m.group(1))
    # every help/version comparison in the rewrite block must use exactly these sets
    for m in re.finditer(r'\((t == "[^"]*"(?: \|\| t == "[^"]*")+)\)|if (t == "[^"]*"(?: \|\| t == "[^"]*")+) \{|any\(\|t\| (t == "[^"]*"(?: \|\| t == "[^"]*")+)\)', b):
        toks = set(re.findall(r'"([^"]*)"', next(g for g in m.groups() if g)))
        if toks not in (set(help_t), set(ver_t), set(help_t) | set(ver_t)):
            raise ExtractError(f"help/version comparison with an unexpected token set: {sorted(toks)}")
    return help_t, ver_t


def lean_char(c):
    if ord(c) < 32 or ord(c) > 126:
        raise ExtractError(f"non-printable / non-ASCII character in table literal: {c!r}")
    if c == "'":
        return "'\\''"
    if c == "\\":
        return "'\\\\'"
    return f"'{c}'"


def lean_str(s):
    return "[" + ", ".join(lean_char(c) for c in s) + "]"


def lean_list(xs):
    return "[" + ", ".join(lean_str(x) for x in xs) + "]"


def generate():
    raw = open(SRC).read()
    src = strip_comments(raw)
    parse_body = fn_body(src, r"pub fn parse_git_cli_args\s*\(")
    classify_body = fn_body(parse_body, r"fn classify\s*\(\s*tok: &str\s*\)\s*->\s*Kind\s*\{")
    rules, default = parse_classify(classify_body)
    eq_body = squash(fn_body(parse_body, r"fn is_eq_form\s*\(\s*tok: &str,\s*long: &str\s*\)\s*->\s*bool\s*\{"))
    if eq_body != EQFORM_SKELETON:
        raise ExtractError(f"is_eq_form: unexpected body: {eq_body}")
    sticky = parse_take_valueish(fn_body(parse_body, r"fn take_valueish\s*\("))
    keys = parse_key_chain(parse_body)
    help_t, ver_t = parse_meta_sets(parse_body)
    fwv_body = fn_body(src, r"pub fn is_flag_with_value\s*\(")
    m = re.fullmatch(r"matches!\(\s*flag,(.*)\)", squash(fwv_body))
    if not m:
        raise ExtractError("is_flag_with_value: not a single matches!(flag, ..)")
    flags = lits(m.group(1))
    for kind in [r[2] for r in rules] + [default]:
        if kind not in KINDS:
            raise ExtractError(f"unknown Kind {kind}")
    if not rules or not keys or not help_t or not ver_t or not flags:
        raise ExtractError("an extracted table is empty")

    def rule(r):
        k, v, kind = r
        if k == "exact":
            return f"  .exact {lean_list(v)} {KINDS[kind]}"
        if k == "eqLong":
            return f"  .eqLong {lean_str(v)} {KINDS[kind]}"
        if k == "pref":
            return f"  .pref {lean_str(v)} {KINDS[kind]}"
        return f"  .dash {KINDS[kind]}"

    def doc(xs):
        return " ".join(xs)

    out = f"""/-
  Extracted/CliTables.lean — GENERATED by /verif/extract/cli_tables.py from
  /repo/src/git/cli_parser.rs on every check run. Do not edit.
-/
import GitAiModel.Model.CliTypes
namespace GitAi.CliTables
open GitAi GitAi.Cli

/-- `classify`: the statement sequence, in source order; the first rule that matches decides. -/
def classifyRules : List Rule := [
{(",%s" % chr(10)).join(rule(r) for r in rules)}
]

/-- `classify`: the trailing expression. -/
def classifyDefault : Kind := {KINDS[default]}

/-- main loop, `let key = if tok.starts_with(..)` chain: {doc(keys)} -/
def keyChain : List Str := {lean_list(keys)}

/-- `take_valueish`: keys with a sticky short form: {doc(sticky)} -/
def stickyKeys : List Str := {lean_list(sticky)}

/-- tokens compared in `pre_has_help`: {doc(help_t)} -/
def helpTokens : List Str := {lean_list(help_t)}

/-- tokens compared in `pre_has_version`: {doc(ver_t)} -/
def versionTokens : List Str := {lean_list(ver_t)}

/-- `is_flag_with_value` -/
def flagsWithValue : List Str := {lean_list(flags)}

end GitAi.CliTables
"""
    return out


def main():
    out = generate()
    changed = C.write_if_changed(OUT, out)
    print(f"cli_tables: {'rewrote' if changed else 'unchanged'} {os.path.relpath(OUT, C.VERIF)}")


if __name__ == "__main__":
    try:
        main()
    except ExtractError as e:
        print(f"cli_tables: EXTRACT ERROR: {e}", file=sys.stderr)
        sys.exit(3)
