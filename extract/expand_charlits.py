#!/usr/bin/env python3
"""one-off authoring aid: expands ⟪text⟫ into an explicit List Char literal (model files cannot use string
literals: they do not reduce in the kernel, and model files may not import Lean for `chars%`)."""
import re, sys
def ch(c):
    if c == "'": return "'\\''"
    if c == "\\": return "'\\\\'"
    if c == "\n": return "'\\n'"
    if c == "\t": return "'\\t'"
    return f"'{c}'"
def exp(m):
    return "[" + ", ".join(ch(c) for c in m.group(1)) + "]"
src = open(sys.argv[1], encoding="utf-8").read()
open(sys.argv[2], "w", encoding="utf-8").write(re.sub(r"⟪(.*?)⟫", exp, src))
