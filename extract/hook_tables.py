#!/usr/bin/env python3
"""Extract the hook tables of git-ai into lean/GitAiModel/Extracted/HookTables.lean (regenerated on every C13
run; DESIGN §3.1). Read from C.REPO/src (non-test code):

  commands/git_hook_handlers.rs
    * CORE_GIT_HOOK_NAMES, MANAGED_GIT_HOOK_NAMES, REBASE_TERMINAL_HOOK_NAMES (constant slices)
    * ENV_SKIP_ALL_HOOKS, ENV_SKIP_MANAGED_HOOKS, ENV_SKIP_MANAGED_HOOKS_LEGACY (constants)
    * the side-state file constants (PULL_HOOK_STATE_FILE, REBASE_HOOK_MASK_STATE_FILE, STASH_REF_TX_STATE_FILE,
      CHERRY_PICK_BATCH_STATE_FILE)
    * run_managed_hook: the arms of `match hook_name { "…" => { … } }` — hook name → the handler functions its
      arm calls (module-qualified hook functions, maybe_*/handle_* helpers, rewrite-log event constructors)
    * handle_git_hook_invocation: the ENV_SKIP_ALL_HOOKS early return, `skip_managed_hooks` built from the two
      skip variables compared with "1", and run_managed_hook called only under `!skip_managed_hooks && …`
    * is_git_hook_binary_name: membership in CORE_GIT_HOOK_NAMES; hook_has_no_managed_behavior: not in MANAGED
  commands/git_handlers.rs
    * command_uses_managed_hooks: the `matches!` alternatives
    * run_pre_command_hooks / run_post_command_hooks: arms `Some("cmd") => …` → subcommand → hook function, and
      whether the call is gated by `feature_flags().rewrite_stash`
    * proxy_to_git: every `Command::new(config::Config::get().git_cmd())` is followed (before its spawn) by
      `cmd.env(ENV_SKIP_MANAGED_HOOKS, "1")`
    * resolve_child_git_hooks_path_override: guarded by command_uses_managed_hooks + has_repo_hook_state,
      falling back to platform_null_hooks_path()
  authorship/rebase_authorship.rs
    * rewrite_authorship_if_needed: the RewriteLogEvent kinds with an arm of their own (all others fall into `_ => {}`)
  git/rewrite_log.rs
    * the variants of `enum RewriteLogEvent`
Anything of unexpected shape raises ExtractError (a broken tie).
"""
import os, re, sys

sys.path.insert(0, os.path.dirname(os.path.dirname(os.path.abspath(__file__))))
from vlib import common as C

OUT = os.path.join(C.LEAN, "GitAiModel", "Extracted", "HookTables.lean")


class ExtractError(Exception):
    pass


# ------------------------------------------------------------------ small Rust lexer helpers
def strip_comments(src):
    """remove // and /* */ comments, keep string literals intact"""
    out, i, n = [], 0, len(src)
    while i < n:
        c = src[i]
        if src.startswith("//", i):
            j = src.find("\n", i)
            i = n if j < 0 else j
        elif src.startswith("/*", i):
            j = src.find("*/", i + 2)
            i = n if j < 0 else j + 2
        elif c == '"':
            j = i + 1
            while j < n and src[j] != '"':
                j += 2 if src[j] == "\\" else 1
            out.append(src[i:j + 1]); i = j + 1
        elif c == "'" and re.match(r"'(\\.|[^\\'])'", src[i:i + 4]):
            m = re.match(r"'(\\.|[^\\'])'", src[i:i + 4])
            out.append(m.group(0)); i += len(m.group(0))
        else:
            out.append(c); i += 1
    return "".join(out)


def match_brace(code, i, open_ch="{", close_ch="}"):
    depth, j, n = 0, i, len(code)
    in_str = False
    while j < n:
        ch = code[j]
        if in_str:
            if ch == "\\": j += 1
            elif ch == '"': in_str = False
        elif ch == '"': in_str = True
        elif ch == open_ch: depth += 1
        elif ch == close_ch:
            depth -= 1
            if depth == 0: return j
        j += 1
    raise ExtractError("unbalanced braces")


def cut_tests(code):
    m = re.search(r"#\[cfg\(test\)\]\s*mod\s+tests\s*\{", code)
    return code[:m.start()] if m else code


def fn_body(code, name):
    ms = list(re.finditer(r"\bfn\s+" + re.escape(name) + r"\s*(?:<[^>]*>)?\s*\(", code))
    if len(ms) != 1:
        raise ExtractError(f"fn {name}: found {len(ms)} definitions, expected 1")
    j = code.find("{", match_brace(code, ms[0].end() - 1, "(", ")"))
    return code[j:match_brace(code, j) + 1]


def const_slice(code, name):
    m = re.search(r"\bconst\s+" + name + r"\s*:\s*&\[&str\]\s*=\s*&\[(.*?)\]\s*;", code, re.S)
    if not m:
        raise ExtractError(f"const {name}: &[&str] not found")
    items = re.findall(r'"([^"\\]*)"', m.group(1))
    rest = re.sub(r'"[^"\\]*"', "", m.group(1)).replace(",", "").strip()
    if rest or not items:
        raise ExtractError(f"const {name}: unexpected contents {rest!r}")
    return items


def const_str(code, name):
    m = re.search(r"\bconst\s+" + name + r"\s*:\s*&str\s*=\s*\"([^\"\\]*)\"\s*;", code)
    if not m:
        raise ExtractError(f"const {name}: &str not found")
    return m.group(1)


def match_arms(body, head_re):
    """arms of the first `match <head> {` in body: [(pattern_text, arm_text)]"""
    m = re.search(r"\bmatch\s+" + head_re + r"\s*\{", body)
    if not m:
        raise ExtractError(f"match on {head_re} not found")
    s = m.end() - 1
    e = match_brace(body, s)
    inner = body[s + 1:e]
    arms, i, n = [], 0, len(inner)
    while i < n:
        while i < n and inner[i] in " \t\r\n,":
            i += 1
        if i >= n:
            break
        j = inner.find("=>", i)
        if j < 0:
            raise ExtractError(f"match on {head_re}: arm without =>: {inner[i:i + 60]!r}")
        pat = inner[i:j].strip()
        k = j + 2
        while k < n and inner[k] in " \t\r\n":
            k += 1
        if k < n and inner[k] == "{":
            ke = match_brace(inner, k)
            arm = inner[k:ke + 1]; i = ke + 1
        else:
            # expression arm: up to the comma at depth 0
            depth, q, in_str = 0, k, False
            while q < n:
                ch = inner[q]
                if in_str:
                    if ch == "\\": q += 1
                    elif ch == '"': in_str = False
                elif ch == '"': in_str = True
                elif ch in "([{": depth += 1
                elif ch in ")]}": depth -= 1
                elif ch == "," and depth == 0: break
                q += 1
            arm = inner[k:q]; i = q + 1
        arms.append((pat, arm))
    return arms


CALL_RE = re.compile(r"\b((?:[a-z_]+_hooks|commit_hooks|merge_hooks|push_hooks|stash_hooks|checkout_hooks|switch_hooks|rebase_hooks|reset_hooks|cherry_pick_hooks|fetch_hooks|clone_hooks)::[a-z_0-9]+)\s*\(")


# ------------------------------------------------------------------ extraction
def extract():
    src = os.path.join(C.REPO, "src")
    def read(rel):
        p = os.path.join(src, rel)
        try:
            return cut_tests(strip_comments(open(p, encoding="utf-8").read()))
        except OSError as e:
            raise ExtractError(f"cannot read {p}: {e}")
    hh = read("commands/git_hook_handlers.rs")
    gh = read("commands/git_handlers.rs")
    ra = read("authorship/rebase_authorship.rs")
    rl = read("git/rewrite_log.rs")
    x = {}

    # --- constants
    x["core"] = const_slice(hh, "CORE_GIT_HOOK_NAMES")
    x["managed"] = const_slice(hh, "MANAGED_GIT_HOOK_NAMES")
    x["terminal"] = const_slice(hh, "REBASE_TERMINAL_HOOK_NAMES")
    x["env_all"] = const_str(hh, "ENV_SKIP_ALL_HOOKS")
    x["env_managed"] = const_str(hh, "ENV_SKIP_MANAGED_HOOKS")
    x["env_legacy"] = const_str(hh, "ENV_SKIP_MANAGED_HOOKS_LEGACY")
    x["side_files"] = [const_str(hh, k) for k in ("PULL_HOOK_STATE_FILE", "REBASE_HOOK_MASK_STATE_FILE",
                                                   "STASH_REF_TX_STATE_FILE", "CHERRY_PICK_BATCH_STATE_FILE")]
    if not set(x["managed"]) <= set(x["core"]):
        raise ExtractError("MANAGED_GIT_HOOK_NAMES is not a subset of CORE_GIT_HOOK_NAMES")
    if not set(x["terminal"]) <= set(x["managed"]):
        raise ExtractError("REBASE_TERMINAL_HOOK_NAMES is not a subset of MANAGED_GIT_HOOK_NAMES")

    b = fn_body(hh, "is_git_hook_binary_name")
    if not re.fullmatch(r"\{\s*CORE_GIT_HOOK_NAMES\.contains\(&binary_name\)\s*\}", b):
        raise ExtractError("is_git_hook_binary_name: unexpected body")
    b = fn_body(hh, "hook_has_no_managed_behavior")
    if not re.fullmatch(r"\{\s*!MANAGED_GIT_HOOK_NAMES\.contains\(&hook_name\)\s*\}", b):
        raise ExtractError("hook_has_no_managed_behavior: unexpected body")

    # --- managed dispatch
    rm = fn_body(hh, "run_managed_hook")
    arms = match_arms(rm, r"hook_name")
    disp = []
    saw_default = False
    for pat, arm in arms:
        if pat == "_":
            if arm.strip() != "0":
                raise ExtractError("run_managed_hook: the wildcard arm does something")
            saw_default = True
            continue
        names = re.findall(r'"([^"\\]*)"', pat)
        if not names or re.sub(r'"[^"\\]*"|\||\s', "", pat):
            raise ExtractError(f"run_managed_hook: unexpected arm pattern {pat!r}")
        calls = []
        for m in re.finditer(r"(?<![.\w:])((?:[a-z_]+_hooks)::[a-z_0-9]+|maybe_[a-z_0-9]+|handle_[a-z_0-9]+|is_[a-z_0-9]+|pull_rebase_todo_is_empty|force_restore_rebase_hooks|fetch_authorship_notes)\s*\(|(RewriteLogEvent::[a-z_]+)\s*\(", arm):
            c = m.group(1) or m.group(2)
            if c in ("handle_rewrite_log_event",):
                continue
            if c not in calls:
                calls.append(c)
        for nm in names:
            disp.append((nm, calls))
    if not saw_default:
        raise ExtractError("run_managed_hook: no wildcard arm")
    if sorted(n for n, _ in disp) != sorted(x["managed"]):
        raise ExtractError(f"run_managed_hook arms {sorted(n for n, _ in disp)} != MANAGED_GIT_HOOK_NAMES {sorted(x['managed'])}")
    x["dispatch"] = disp
    # the prelude of run_managed_hook
    pre = rm[:re.search(r"\bmatch\s+hook_name", rm).start()]
    x["prelude"] = [c for c in ("is_allowed_repository", "maybe_restore_stale_rebase_hooks", "maybe_finalize_stale_cherry_pick_batch_state") if c in pre]
    if len(x["prelude"]) != 3:
        raise ExtractError(f"run_managed_hook prelude changed: {x['prelude']}")

    # --- the post-checkout fallback for rebases with nothing to replay: the `if` that guards the first
    #     force_restore_rebase_hooks of the arm — is it limited to `pull --rebase`?
    pc = dict(arms).get('"post-checkout"')
    if pc is None:
        raise ExtractError("run_managed_hook: no post-checkout arm")
    gm = None
    for m in re.finditer(r"\bif\s+((?:[^{};]|\n)*?pull_rebase_todo_is_empty\(&repo\)(?:[^{};]|\n)*?)\{", pc):
        gm = m
        break
    if gm is None:
        raise ExtractError("post-checkout arm: the empty-todo fallback has an unexpected shape")
    blk = pc[gm.end() - 1: match_brace(pc, gm.end() - 1) + 1]
    cond = re.sub(r"\s+", " ", gm.group(1)).strip()
    conj = sorted(c.strip() for c in cond.split("&&"))
    base = sorted(['repo.path().join("rebase-merge").is_dir()', "pull_rebase_todo_is_empty(&repo)"])
    if conj == base:
        x["noop_restore_pull_only"] = False
    elif conj == sorted(base + ["is_pull_reflog_action()"]):
        x["noop_restore_pull_only"] = True
    else:
        raise ExtractError(f"post-checkout arm: empty-todo fallback guarded by {cond!r}")
    x["noop_restore_forces"] = bool(re.search(r"\bforce_restore_rebase_hooks\(&repo\)", blk)) and \
        bool(re.search(r"\bmaybe_handle_pull_post_rewrite\(&mut repo\)", blk))

    # --- the checkpoint entry point (checkpoint.rs / git_ai_handlers.rs call it before every checkpoint)
    ce = fn_body(hh, "ensure_repo_level_hooks_for_checkpoint")
    x["checkpoint_entry"] = re.findall(r"\b([a-z_0-9]+)\s*\(\s*repo\s*\)", ce)
    cp_src = read("commands/checkpoint.rs")
    run_body = fn_body(cp_src, "run")
    if "ensure_repo_level_hooks_for_checkpoint(repo)" not in re.sub(r"\s+", "", run_body).replace("crate::commands::git_hook_handlers::", ""):
        raise ExtractError("checkpoint::run no longer calls ensure_repo_level_hooks_for_checkpoint")
    ms = fn_body(hh, "maybe_restore_stale_rebase_hooks")
    if not re.search(r"if\s+!is_rebase_in_progress\(repo\)\s*\{\s*restore_rebase_hooks_for_repo\(repo,\s*true\);\s*\}", ms):
        raise ExtractError("maybe_restore_stale_rebase_hooks: unexpected shape")

    # --- handle_git_hook_invocation: the skip logic
    hg = fn_body(hh, "handle_git_hook_invocation")
    p_all = re.search(r'if\s+std::env::var\(ENV_SKIP_ALL_HOOKS\)\.as_deref\(\)\s*==\s*Ok\("1"\)\s*\{\s*return\s+0;\s*\}', hg)
    p_skip = re.search(r'let\s+skip_managed_hooks\s*=\s*std::env::var\((ENV_[A-Z_]+)\)\.as_deref\(\)\s*==\s*Ok\("1"\)\s*\|\|\s*std::env::var\((ENV_[A-Z_]+)\)\.as_deref\(\)\s*==\s*Ok\("1"\)\s*;', hg)
    p_fast = re.search(r"if\s+skip_managed_hooks\s*&&\s*!forward_hooks_dir_exists\s*\{\s*return\s+0;\s*\}", hg)
    p_guard = re.search(r"if\s+!skip_managed_hooks\s*&&\s*hook_requires_managed_repo_lookup\(hook_name,\s*hook_args,\s*&stdin_data\)\s*\{", hg)
    calls = [m.start() for m in re.finditer(r"\brun_managed_hook\s*\(", hg)]
    if not (p_all and p_skip and p_fast and p_guard) or len(calls) != 1:
        raise ExtractError("handle_git_hook_invocation: skip logic has an unexpected shape")
    gs = p_guard.end() - 1
    ge = match_brace(hg, gs)
    if not (gs < calls[0] < ge):
        raise ExtractError("handle_git_hook_invocation: run_managed_hook is not inside the `!skip_managed_hooks` guard")
    if not (p_all.start() < p_skip.start() < p_guard.start()):
        raise ExtractError("handle_git_hook_invocation: order of the skip checks changed")
    x["skip_vars"] = sorted({p_skip.group(1), p_skip.group(2)})
    if x["skip_vars"] != ["ENV_SKIP_MANAGED_HOOKS", "ENV_SKIP_MANAGED_HOOKS_LEGACY"]:
        raise ExtractError(f"skip_managed_hooks reads {x['skip_vars']}")
    if len(re.findall(r"\brun_managed_hook\s*\(", hh)) != 2:      # definition + the one call
        raise ExtractError("run_managed_hook has call sites outside handle_git_hook_invocation")
    x["guarded"] = True

    # --- hook_requires_managed_repo_lookup: which hooks are always looked up
    hr = fn_body(hh, "hook_requires_managed_repo_lookup")
    larms = match_arms(hr, r"hook_name")
    x["lookup_arms"] = [re.sub(r"\s+", " ", p) for p, _ in larms]
    want = ['"pre-commit" | "post-commit"', "_ if hook_has_no_managed_behavior(hook_name)", '"prepare-commit-msg"', '"reference-transaction"', "_"]
    if x["lookup_arms"] != want:
        raise ExtractError(f"hook_requires_managed_repo_lookup arms changed: {x['lookup_arms']}")

    # --- wrapper tables
    m = re.search(r"fn\s+command_uses_managed_hooks\s*\(\s*command\s*:\s*Option<&str>\s*\)\s*->\s*bool\s*\{\s*matches!\(\s*command\s*,\s*Some\((.*?)\)\s*\)\s*\}", gh, re.S)
    if not m:
        raise ExtractError("command_uses_managed_hooks: unexpected shape")
    cm = re.findall(r'"([^"\\]*)"', m.group(1))
    if re.sub(r'"[^"\\]*"|\||\s', "", m.group(1)) or not cm:
        raise ExtractError("command_uses_managed_hooks: unexpected alternatives")
    x["uses_managed"] = cm

    def dispatch_of(fname):
        body = fn_body(gh, fname)
        if "disable_internal_git_hooks()" not in body.split("catch_unwind")[0]:
            raise ExtractError(f"{fname}: the internal-hooks guard is not taken before the hooks run")
        arms = match_arms(body, r"parsed_args\.command\.as_deref\(\)")
        rows, default = [], False
        for pat, arm in arms:
            if pat == "_":
                if arm.strip() not in ("{}", "{ }"):
                    raise ExtractError(f"{fname}: wildcard arm does something")
                default = True
                continue
            pm = re.fullmatch(r'Some\("([^"\\]*)"\)', pat)
            if not pm:
                raise ExtractError(f"{fname}: unexpected arm pattern {pat!r}")
            calls = [c for c in CALL_RE.findall(arm)]
            if len(calls) != 1:
                raise ExtractError(f"{fname}: arm {pat} calls {calls} (expected exactly one hook function)")
            gated = "rewrite_stash" in arm
            rows.append((pm.group(1), calls[0], gated))
        if not default:
            raise ExtractError(f"{fname}: no wildcard arm")
        return rows
    x["pre"] = dispatch_of("run_pre_command_hooks")
    x["post"] = dispatch_of("run_post_command_hooks")
    for cmd, _, _ in x["pre"] + x["post"]:
        if cmd not in x["uses_managed"]:
            raise ExtractError(f"wrapper hook for `{cmd}` but command_uses_managed_hooks does not list it")

    pg = fn_body(gh, "proxy_to_git")
    news = [m.start() for m in re.finditer(r"Command::new\(\s*config::Config::get\(\)\.git_cmd\(\)\s*\)", pg)]
    envs = [m.start() for m in re.finditer(r'cmd\.env\(\s*ENV_SKIP_MANAGED_HOOKS\s*,\s*"1"\s*\)', pg)]
    spawns = [m.start() for m in re.finditer(r"\bcmd\.spawn\(\)", pg)]
    x["spawn_sites"] = len(news)
    ok = 0
    for k, s in enumerate(news):
        nxt = news[k + 1] if k + 1 < len(news) else len(pg)
        sp = [p for p in spawns if s < p < nxt]
        en = [p for p in envs if s < p < nxt]
        if len(sp) != 1:
            raise ExtractError("proxy_to_git: a git Command without exactly one spawn")
        if en and en[0] < sp[0]:
            ok += 1
    x["spawn_sites_with_env"] = ok
    if not news:
        raise ExtractError("proxy_to_git: no git Command found")
    if len(re.findall(r"Command::new\(", pg)) != len(news):
        raise ExtractError("proxy_to_git: spawns a command other than the configured git")

    ro = fn_body(gh, "resolve_child_git_hooks_path_override")
    a = re.search(r"if\s+!command_uses_managed_hooks\(parsed_args\.command\.as_deref\(\)\)\s*\{\s*return\s+None;\s*\}", ro)
    b2 = re.search(r"if\s+!has_repo_hook_state\(repository\)\s*\{\s*return\s+None;\s*\}", ro)
    c2 = re.search(r"resolve_previous_non_managed_hooks_path\(repository\).*?unwrap_or_else\(\|\|\s*platform_null_hooks_path\(\)\.to_string\(\)\)", ro, re.S)
    x["override_shape"] = bool(a and b2 and c2 and a.start() < b2.start() < c2.start())
    if not x["override_shape"]:
        raise ExtractError("resolve_child_git_hooks_path_override: unexpected shape")
    hgit = fn_body(gh, "handle_git")
    if len(re.findall(r"resolve_child_git_hooks_path_override\(", hgit)) != 2 or len(re.findall(r"\bproxy_to_git\(", hgit)) != 4:
        raise ExtractError("handle_git: the child-spawning call sites changed")

    # --- the handler's own match
    rb = fn_body(ra, "rewrite_authorship_if_needed")
    harms = match_arms(rb, r"last_event")
    handled, default = [], False
    for pat, arm in harms:
        if pat == "_":
            if arm.strip() not in ("{}", "{ }"):
                raise ExtractError("rewrite_authorship_if_needed: wildcard arm does something")
            default = True
            continue
        pm = re.match(r"RewriteLogEvent::([A-Za-z]+)\s*\{", pat)
        if not pm:
            raise ExtractError(f"rewrite_authorship_if_needed: unexpected arm {pat!r}")
        handled.append(pm.group(1))
    if not default:
        raise ExtractError("rewrite_authorship_if_needed: no wildcard arm")
    x["handled"] = handled
    em = re.search(r"pub\s+enum\s+RewriteLogEvent\s*\{", rl)
    if not em:
        raise ExtractError("enum RewriteLogEvent not found")
    eb = rl[em.end() - 1: match_brace(rl, em.end() - 1) + 1]
    x["kinds"] = re.findall(r"\n\s{4}([A-Z][A-Za-z]+)\s*\{", eb)
    if not set(handled) <= set(x["kinds"]):
        raise ExtractError("handled kinds are not RewriteLogEvent variants")
    return x


# ------------------------------------------------------------------ rendering
def lc(s):
    return "[" + ", ".join("'" + (("\\" + ch) if ch in "'\\" else ch) + "'" for ch in s) + "]"


def ll(xs):
    return "[" + ", ".join(lc(s) for s in xs) + "]"


def render(x):
    L = []
    L.append("/-\n  Extracted/HookTables.lean — GENERATED by /verif/extract/hook_tables.py from src/commands/git_hook_handlers.rs,\n"
             "  src/commands/git_handlers.rs, src/authorship/rebase_authorship.rs and src/git/rewrite_log.rs on every C13\n"
             "  check run. Do not edit. Names are `List Char` literals so that `decide` can compare them.\n-/")
    L.append("namespace GitAi.Extracted.HookTables\n")
    L.append("abbrev Name := List Char\n")
    L.append("/-- `CORE_GIT_HOOK_NAMES` = `is_git_hook_binary_name` -/")
    L.append(f"def coreHookNames : List Name := {ll(x['core'])}\n")
    L.append("/-- `MANAGED_GIT_HOOK_NAMES` -/")
    L.append(f"def managedHookNames : List Name := {ll(x['managed'])}\n")
    L.append("/-- `REBASE_TERMINAL_HOOK_NAMES`: the managed hooks that stay installed while a rebase runs -/")
    L.append(f"def rebaseTerminalHookNames : List Name := {ll(x['terminal'])}\n")
    L.append("/-- `command_uses_managed_hooks` -/")
    L.append(f"def commandUsesManagedHooks : List Name := {ll(x['uses_managed'])}\n")
    def rows(rs):
        return "[\n" + ",\n".join(f"  ({lc(c)}, {lc(f)}, {str(g).lower()})" for c, f, g in rs) + "\n]"
    L.append("/-- `run_pre_command_hooks`: subcommand ↦ (hook function, gated by feature flag rewrite_stash) -/")
    L.append(f"def wrapperPre : List (Name × Name × Bool) := {rows(x['pre'])}\n")
    L.append("/-- `run_post_command_hooks` -/")
    L.append(f"def wrapperPost : List (Name × Name × Bool) := {rows(x['post'])}\n")
    L.append("/-- `run_managed_hook`: hook name ↦ handler functions called in its `match` arm (source order) -/")
    L.append("def managedDispatch : List (Name × List Name) := [\n" + ",\n".join(
        f"  ({lc(n)}, {ll(cs)})" for n, cs in x["dispatch"]) + "\n]\n")
    L.append("/-- `rewrite_authorship_if_needed`: RewriteLogEvent kinds with an arm (all others: `_ => {}`) -/")
    L.append(f"def handledKinds : List Name := {ll(x['handled'])}")
    L.append(f"def eventKinds : List Name := {ll(x['kinds'])}\n")
    L.append("/-- skip variables -/")
    L.append(f"def envSkipAll : Name := {lc(x['env_all'])}")
    L.append(f"def envSkipManaged : Name := {lc(x['env_managed'])}")
    L.append(f"def envSkipManagedLegacy : Name := {lc(x['env_legacy'])}")
    L.append("/-- `proxy_to_git`: git child commands built / of these, with `cmd.env(ENV_SKIP_MANAGED_HOOKS, \"1\")` before the spawn -/")
    L.append(f"def childSpawnSites : Nat := {x['spawn_sites']}")
    L.append(f"def childSpawnSitesWithSkipEnv : Nat := {x['spawn_sites_with_env']}")
    L.append("/-- `handle_git_hook_invocation`: `run_managed_hook` is called only under `!skip_managed_hooks`, where\n"
             "    skip_managed_hooks ⇔ ENV_SKIP_MANAGED_HOOKS = \"1\" ∨ the legacy variable = \"1\"; ENV_SKIP_ALL_HOOKS returns first -/")
    L.append(f"def managedRunGuardedBySkip : Bool := {str(x['guarded']).lower()}")
    L.append("/-- `resolve_child_git_hooks_path_override`: for commands in `commandUsesManagedHooks` of a repository with hook\n"
             "    state the child gets `-c core.hooksPath=<previous hooks dir | null device>` -/")
    L.append(f"def childHooksPathOverrideForManagedCommands : Bool := {str(x['override_shape']).lower()}")
    L.append("/-- post-checkout arm: the fallback that restores the masked entry points when the rebase todo is empty is\n"
             "    limited to `pull --rebase` / calls maybe_handle_pull_post_rewrite and force_restore_rebase_hooks -/")
    L.append(f"def noopRestorePullOnly : Bool := {str(x['noop_restore_pull_only']).lower()}")
    L.append(f"def noopRestoreForces : Bool := {str(x['noop_restore_forces']).lower()}")
    L.append("/-- `ensure_repo_level_hooks_for_checkpoint` (run by `checkpoint::run`): the functions it calls on the repository -/")
    L.append(f"def checkpointEntryCalls : List Name := {ll(x['checkpoint_entry'])}")
    L.append("/-- side-state files of the managed hooks -/")
    L.append(f"def sideStateFiles : List Name := {ll(x['side_files'])}")
    L.append("\nend GitAi.Extracted.HookTables\n")
    return "\n".join(L)


def main():
    x = extract()
    changed = C.write_if_changed(OUT, render(x))
    return x, changed


if __name__ == "__main__":
    try:
        x, changed = main()
    except ExtractError as e:
        print(f"EXTRACT-ERROR: {e}")
        sys.exit(1)
    for k in ("managed", "terminal", "uses_managed", "pre", "post", "dispatch", "handled", "kinds", "env_managed", "env_legacy",
              "env_all", "spawn_sites", "spawn_sites_with_env", "side_files", "prelude", "noop_restore_pull_only", "noop_restore_forces",
              "checkpoint_entry"):
        print(k, "=", x[k])
    print("written" if changed else "unchanged", OUT)
