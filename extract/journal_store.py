#!/usr/bin/env python3
"""Extract, from the current source, what the PRE-COMMIT checkpoint does when an operation on git-ai's own storage
(`.git/ai/working_logs/<HEAD>/…`) returns `Err` — the parameters of Model/JournalStore.lean:

  read      commands/checkpoint.rs:run, the statement `let mut checkpoints = if reset { … } else { <E> };`
            <E> = `working_log.read_all_checkpoints()?`                                   → refuse
            <E> = `match working_log.read_all_checkpoints() { Ok(c) => c, Err(e) if is_pre_commit => { …; Vec::new() }
                   Err(e) => return Err(e), }` where the block holds one call of the report function → tolerate
  snapshot  commands/checkpoint.rs:save_current_file_states: the `create_dir_all(&*blobs_dir)` and the `write(blob_path, …)`
            return their error only under `!tolerate_lost_snapshots` (a parameter of the function), and run passes
            `is_pre_commit` for it                                                         → tolerate
            either of them propagates unconditionally (`?` / `return Err` without that guard), or run passes `false` → refuse
  append    run: `working_log.append_checkpoint_locked(&checkpoint, &checkpoints_lock)?;`  → refuse
            `match working_log.append_checkpoint_locked(..) { Err(e) if is_pre_commit => { <report> } appended => appended?, }` → tolerate
  anything else is an ExtractError (the model has no such case; the check then searches with the corruption stream).

and three shape facts:
  failureReportOnlyPrints      the report function (`pre_commit_storage_failure`) is a single `eprintln!` — no exit, no panic, no Err
  preCommitPassesFlag          authorship/pre_commit.rs calls checkpoint::run with `is_pre_commit = true` (8th argument)
  prologueUnwrapsStorageSetup  git/repo_storage.rs:for_ai_dir still unwraps / `?`s ensure_config_directory (a panic before git, outside
                               catch_unwind, for every git command when `.git/ai/{working_logs,logs,rewrite_log}` cannot be set up)

Writes lean/GitAiModel/Extracted/JournalStore.lean. Sources are read via C.REPO (VERIF_REPO honoured)."""
import os, re, sys

sys.path.insert(0, os.path.dirname(os.path.dirname(os.path.abspath(__file__))))
from vlib import common as C

OUT = os.path.join(C.LEAN, "GitAiModel", "Extracted", "JournalStore.lean")
REPORT_FN = "pre_commit_storage_failure"


class ExtractError(Exception):
    pass


def strip_tests(src):
    m = re.search(r"#\[cfg\(test\)\]\s*mod\s+\w+\s*\{", src)
    return src[:m.start()] if m else src


def blank_comments(src):
    return re.sub(r"//[^\n]*", lambda m: " " * len(m.group(0)), src)


def match_close(src, i, open_c="(", close_c=")"):
    depth = 0
    for j in range(i, len(src)):
        if src[j] == open_c:
            depth += 1
        elif src[j] == close_c:
            depth -= 1
            if depth == 0:
                return j
    raise ExtractError("unbalanced " + open_c)


def fn_body(src, name):
    m = re.search(r"\bfn\s+" + re.escape(name) + r"\s*(<[^>{]*>)?\s*\(", src)
    if not m:
        raise ExtractError(f"fn {name} not found")
    p = match_close(src, src.index("(", m.end() - 1))
    b = src.find("{", p)
    return src[m.start():b], src[b:match_close(src, b, "{", "}") + 1]


def squash(s):
    return re.sub(r"\s+", " ", s).strip()


def load(rel):
    return blank_comments(strip_tests(open(os.path.join(C.REPO, rel), encoding="utf-8").read()))


def main():
    ck = load("src/commands/checkpoint.rs")
    _, run_body = fn_body(ck, "run")
    run_sq = squash(run_body)

    # ---- read
    m = re.search(r"let mut checkpoints = if reset \{ working_log\.reset_working_log\(\)\?; Vec::new\(\) \} else \{ (.*?) \}; debug_log", run_sq)
    if not m:
        raise ExtractError("checkpoint.rs:run: the `let mut checkpoints = if reset {…} else {…};` statement was not found")
    e = m.group(1)
    tol_read = re.fullmatch(r"match working_log\.read_all_checkpoints\(\) \{ Ok\((\w+)\) => \1, Err\((\w+)\) if is_pre_commit => \{ "
                            + REPORT_FN + r"\([^{};]*\); Vec::new\(\) \} Err\((\w+)\) => return Err\(\3\), \}", e)
    if e == "working_log.read_all_checkpoints()?":
        read = "refuse"
    elif tol_read:
        read = "tolerate"
    elif re.fullmatch(r"match working_log\.read_all_checkpoints\(\) \{ Ok\((\w+)\) => \1,( Err\((\w+)\)( if [^=]*)? => return Err\(\3\),)+ \}", e):
        read = "refuse"
    else:
        raise ExtractError(f"checkpoint.rs:run: unrecognised handling of read_all_checkpoints(): {e[:200]}")

    # ---- snapshot
    sig, sv = fn_body(ck, "save_current_file_states")
    sv_sq = squash(sv)
    has_param = re.search(r"\btolerate_lost_snapshots\s*:\s*bool\b", sig) is not None
    call = re.search(r"save_current_file_states\(&working_log, &files(?:, (\w+))?\)\?", run_sq)
    if not call:
        raise ExtractError("checkpoint.rs:run: the call of save_current_file_states was not found")
    if sv_sq.count("create_dir_all(") != 1 or sv_sq.count("std::fs::write(") != 1:
        raise ExtractError("save_current_file_states: expected exactly one create_dir_all and one write")
    dir_tol = re.search(r"if let Err\((\w+)\) = std::fs::create_dir_all\(&\*blobs_dir\) && !tolerate_lost_snapshots \{ return Err\(\1\.into\(\)\); \}", sv_sq) is not None
    dir_ref = "std::fs::create_dir_all(&*blobs_dir)?;" in sv_sq
    wm = re.search(r"match std::fs::write\(blob_path, content\) \{ (.*?) _ => \{\} \}", sv_sq)
    wr_ref = "std::fs::write(blob_path, content)?;" in sv_sq
    wr_tol = False
    if wm:
        arms = wm.group(1)
        guards = re.findall(r"Err\(\w+\) if ([^=]*?) => return Err\(", arms)
        uncond = re.search(r"Err\(\w+\) => return Err\(", arms) is not None
        wr_tol = not uncond and all("!tolerate_lost_snapshots" in g for g in guards) and "?" not in arms
        wr_ref = wr_ref or uncond or any("!tolerate_lost_snapshots" not in g for g in guards)
    if has_param and call.group(1) == "is_pre_commit" and dir_tol and wr_tol:
        snapshot = "tolerate"
    elif dir_ref or wr_ref or not has_param or call.group(1) in (None, "false"):
        snapshot = "refuse"
    else:
        raise ExtractError("save_current_file_states: unrecognised handling of create_dir_all / write failures")

    # ---- append
    if run_sq.count("append_checkpoint_locked(") != 1:
        raise ExtractError("checkpoint.rs:run: expected exactly one append_checkpoint_locked call")
    if "working_log.append_checkpoint_locked(&checkpoint, &checkpoints_lock)?;" in run_sq:
        append = "refuse"
    elif re.search(r"match working_log\.append_checkpoint_locked\(&checkpoint, &checkpoints_lock\) \{ Err\((\w+)\) if is_pre_commit => \{ "
                   + REPORT_FN + r"\([^{};]*\) \} (\w+) => \2\?, \}", run_sq):
        append = "tolerate"
    else:
        raise ExtractError("checkpoint.rs:run: unrecognised handling of append_checkpoint_locked(..)")

    # ---- shape facts
    try:
        _, rep = fn_body(ck, REPORT_FN)
        rep_sq = squash(rep)
        only_prints = re.fullmatch(r"\{ eprintln!\(.*\); \}", rep_sq) is not None and not re.search(r"exit|panic|unwrap|return|\?", rep_sq)
    except ExtractError:
        only_prints = False
    pc = squash(load("src/authorship/pre_commit.rs"))
    pm = re.search(r"crate::commands::checkpoint::run\((.*?)\);", pc)
    flag = False
    if pm:
        args = [a.strip() for a in pm.group(1).rstrip(", ").split(",")]
        flag = len(args) == 8 and args[7] == "true" and args[2] == "CheckpointKind::Human"
    rs = load("src/git/repo_storage.rs")
    _, fa = fn_body(rs, "for_ai_dir")
    fa_sq = squash(fa)
    if "ensure_config_directory()" not in fa_sq:
        raise ExtractError("repo_storage.rs:for_ai_dir no longer calls ensure_config_directory")
    unwraps = re.search(r"ensure_config_directory\(\)\s*(\.unwrap\(\)|\.expect\(|\?)", fa_sq) is not None or "panic!" in fa_sq or "exit(" in fa_sq

    L = ["/- GENERATED by /verif/extract/journal_store.py from src/commands/checkpoint.rs, src/authorship/pre_commit.rs, src/git/repo_storage.rs "
         "(handling of storage failures on the pre-commit path) — do not edit. -/",
         "import GitAiModel.Model.JournalStore",
         "namespace GitAi.Extracted.JournalStore",
         "open GitAi.JournalStore",
         "",
         "/-- `checkpoint::run(.., is_pre_commit = true)`: read_all_checkpoints / save_current_file_states / append_checkpoint_locked on `Err` -/",
         f"def params : Params := ⟨.{read}, .{snapshot}, .{append}⟩",
         "/-- the function that reports a tolerated failure is a single `eprintln!` -/",
         f"def failureReportOnlyPrints : Bool := {'true' if only_prints else 'false'}",
         "/-- `pre_commit::pre_commit` calls `checkpoint::run(.., CheckpointKind::Human, .., is_pre_commit = true)` -/",
         f"def preCommitPassesFlag : Bool := {'true' if flag else 'false'}",
         "/-- `RepoStorage::for_ai_dir` unwraps `ensure_config_directory()` (outside catch_unwind, for every git command) -/",
         f"def prologueUnwrapsStorageSetup : Bool := {'true' if unwraps else 'false'}",
         "",
         "end GitAi.Extracted.JournalStore"]
    C.write_if_changed(OUT, "\n".join(L) + "\n")
    return {"read": read, "snapshot": snapshot, "append": append, "failureReportOnlyPrints": only_prints, "preCommitPassesFlag": flag,
            "prologueUnwrapsStorageSetup": unwraps}


if __name__ == "__main__":
    print(main())
