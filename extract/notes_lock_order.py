#!/usr/bin/env python3
"""Extract, for every function of git-ai that runs a git command which moves `refs/notes/ai`, the ORDER
of its {lock acquisition, tip read, ref write} statements into
lean/GitAiModel/Extracted/NotesLockOrder.lean (regenerated on every C11 run; DESIGN §3.1).

What is read from C.REPO/src (non-test, non-verif-hooks code; comments and cfg(test) items removed):
  * every `exec_git*(&<argv>, …)` call; the string literals pushed onto `<argv>` before the call say which
    git command it is:
        rev-parse … refs/notes/ai                          → `read`   (the tip the update is built on)
        fast-import (body has a `commit refs/notes/ai`)    → `write`  (class cas: refuses a moved ref)
        notes --ref=ai add|merge|append|copy|remove|prune|edit
                                                           → `read`, `write` in one statement (class blind:
                                                             git sets the ref without comparing)
        notes --ref=<other>, update-ref                    → see below
  * every `lock_notes_ref(` call → `lock`; `held` = the guard is bound by `let <name> =` to a name other than
    `_` (a `let _ =` drops it at once), the binding is at the top level of the function body (not inside a
    nested block, where it would be dropped at the block's end) and no `drop(<name>)` follows
  * the events of one function, in source order, are one row of `writers`
  * functions that run `update-ref` on a ref given by the caller (`copy_ref`, …) are followed to their call
    sites: a caller that names `refs/notes/ai` is an `unserialised` row unless the callee takes the lock.
    Such rows (and writers of other `refs/notes/ai-*` refs) must be in OUT_OF_QUANTIFIER with the reason why
    C11's quantifier (checkpoint, commit and rewrite operations) does not reach them; anything else raises
    ExtractError (a broken tie).
The Lean side (`Props/C11.lean: extracted_lock_order`) decides `lock < read < write ∧ held` for every row of
`writers`; `tableOf writers` is the `LockTable` of the `tbl` discipline that `mixed_writers_serializable` is
about.
"""
import os, re, sys

sys.path.insert(0, os.path.dirname(os.path.dirname(os.path.abspath(__file__))))
sys.path.insert(0, os.path.dirname(os.path.abspath(__file__)))
from vlib import common as C
import storage_mode_table as S

OUT = os.path.join(C.LEAN, "GitAiModel", "Extracted", "NotesLockOrder.lean")
MODEL_IMPORT = "GitAiModel.Model.Conc"

NOTES_WRITE_VERBS = {"add", "merge", "append", "copy", "remove", "prune", "edit"}
# writers of refs/notes/ai* that C11's quantifier does not reach: "<file>:<fn>" -> reason
OUT_OF_QUANTIFIER = {
    "src/git/sync_authorship.rs:fetch_authorship_notes->copy_ref":
        "fetch: creates refs/notes/ai from the tracking ref when no local notes exist (update-ref without lock "
        "after an unlocked ref_exists); not a checkpoint / commit / rewrite operation",
    "src/git/sync_authorship.rs:push_authorship_notes->copy_ref":
        "push: same initialisation before the notes push; not a checkpoint / commit / rewrite operation",
    "src/commands/hooks/stash_hooks.rs:save_stash_note":
        "refs/notes/ai-stash (stash bookkeeping, another ref); stash operations are outside the quantifier",
}


class ExtractError(Exception):
    pass


def load():
    root = os.path.join(C.REPO, "src")
    files = {}
    for d, _, fs in os.walk(root):
        for fn in sorted(fs):
            if not fn.endswith(".rs"):
                continue
            p = os.path.join(d, fn)
            raw = open(p, encoding="utf-8").read()
            # same length, so that offsets in the blanked text index the raw text (string literals)
            raw = re.sub(r'#\[cfg\(feature\s*=\s*"verif-hooks"\)\]',
                         lambda m: "#[cfg(VERIFHOOKS)]".ljust(len(m.group(0))), raw)
            try:
                code = S.strip_cfg_blocks(S.blank_noncode(raw))
            except S.ExtractError as e:
                raise ExtractError(f"{p}: {e}")
            if len(code) != len(raw):
                raise ExtractError(f"{p}: lexer changed the length of the text")
            files[os.path.relpath(p, C.REPO)] = (raw, code)
    if not files:
        raise ExtractError(f"no sources under {root}")
    return files


PUSH_RE = r"\b%s\s*\.\s*push\s*\(\s*(\"|format!\s*\(\s*\")"
CALL_RE = re.compile(r"\b(exec_git(?:_stdin)?(?:_with_profile)?)\s*\(\s*&\s*(?:mut\s+)?([A-Za-z_][A-Za-z0-9_]*)")
LOCK_RE = re.compile(r"\block_notes_ref\s*\(")
LET_LOCK_RE = re.compile(r"\blet\s+(?:mut\s+)?([A-Za-z_][A-Za-z0-9_]*)\s*(?::[^=;]+)?=\s*$")


def literal_at(raw, i):
    """raw[i] == '"' → text of the string literal"""
    j = i + 1
    while j < len(raw) and raw[j] != '"':
        j += 2 if raw[j] == "\\" else 1
    return raw[i + 1:j]


def argv_literals(raw, code, b0, pos, var):
    """string literals pushed onto `var` between the start of the body and `pos` (format! templates keep
    their `{}`; `AI_AUTHORSHIP_REFNAME` as format argument is substituted)"""
    out = []
    for m in re.finditer(PUSH_RE % re.escape(var), code[b0:pos]):
        q = b0 + m.end() - 1
        lit = literal_at(raw, q)
        if m.group(1) != '"':
            rest = code[q:code.find(")", q)]
            if "AI_AUTHORSHIP_REFNAME" in rest:
                lit = lit.replace("{}", "ai", 1)
        out.append(lit)
    return out


def depth_at(code, b0, pos):
    d = 0
    for ch in code[b0:pos]:
        if ch == "{":
            d += 1
        elif ch == "}":
            d -= 1
    return d


def classify(argv, body_raw):
    """→ (kind, ref) with kind in read / cas-write / blind / update-ref / None"""
    if "rev-parse" in argv and "refs/notes/ai" in argv:
        return "read", "refs/notes/ai"
    if "fast-import" in argv:
        m = re.search(r"commit (refs/notes/[A-Za-z0-9_/-]+)\\n", body_raw)
        return ("cas-write", m.group(1)) if m else (None, None)
    if "notes" in argv:
        ref = next((a[len("--ref="):] for a in argv if a.startswith("--ref=")), None)
        verb = next((a for a in argv if a in NOTES_WRITE_VERBS), None)
        if verb and ref is not None:
            return "blind", "refs/notes/" + ref
        return None, None
    if "update-ref" in argv:
        return "update-ref", None
    return None, None


def scan_function(path, raw, code, f):
    """events of one function: [(pos, ev, info)], lock-guard facts"""
    name, _, b0, b1 = f
    evs, locks = [], []
    for m in LOCK_RE.finditer(code, b0, b1):
        # the statement the call sits in: text back to the previous ';' / '{' / '}'
        st = max(code.rfind(";", b0, m.start()), code.rfind("{", b0, m.start()), code.rfind("}", b0, m.start())) + 1
        lm = LET_LOCK_RE.search(code[st:m.start()])
        var = lm.group(1) if lm else None
        held = bool(var) and var != "_" and depth_at(code, b0, m.start()) == 1 \
            and not re.search(r"\bdrop\s*\(\s*%s\s*\)" % re.escape(var), code[m.end():b1])
        locks.append({"var": var, "held": held})
        evs.append((m.start(), "lock", {"held": held}))
    for m in CALL_RE.finditer(code, b0, b1):
        argv = argv_literals(raw, code, b0, m.start(), m.group(2))
        kind, ref = classify(argv, raw[b0:b1])
        if kind:
            evs.append((m.start(), kind, {"argv": argv, "ref": ref}))
    evs.sort(key=lambda e: e[0])
    return evs, locks


def extract():
    files = load()
    rows, others, generic = [], [], {}
    allfns = {}
    for path, (raw, code) in sorted(files.items()):
        fns = S.functions(code)
        allfns[path] = fns
        for f in fns:
            # only innermost bodies: skip a function that merely contains nested fns with the calls
            evs, locks = scan_function(path, raw, code, f)
            inner = [g for g in fns if g is not f and f[2] < g[2] and g[3] < f[3]]
            evs = [e for e in evs if not any(g[2] <= e[0] <= g[3] for g in inner)]
            writes = [e for e in evs if e[1] in ("cas-write", "blind")]
            if any(e[1] == "update-ref" for e in evs):
                generic[f[0]] = {"file": path, "locks": any(e[1] == "lock" and e[2]["held"] for e in evs)}
            if not writes:
                continue
            refs = {e[2]["ref"] for e in writes}
            if len(refs) != 1:
                raise ExtractError(f"{path}:{f[0]}: writes several notes refs {sorted(refs)}")
            ref = refs.pop()
            if not ref.startswith("refs/notes/ai"):
                continue
            cls = "cas" if writes[0][1] == "cas-write" else "blind"
            if any((e[1] == "cas-write") != (cls == "cas") for e in writes):
                raise ExtractError(f"{path}:{f[0]}: mixes fast-import and git notes writes")
            seq = []
            for e in evs:
                if e[1] == "lock":
                    seq.append("lock")
                elif e[1] == "read":
                    seq.append("read")
                elif e[1] == "cas-write":
                    seq.append("write")
                elif e[1] == "blind":
                    seq += ["read", "write"]
            row = {"name": f[0], "file": path, "ref": ref, "cls": cls, "events": seq,
                   "held": bool(locks) and all(l["held"] for l in locks),
                   "line": raw.count("\n", 0, f[1]) + 1}
            if ref == "refs/notes/ai":
                rows.append(row)
            else:
                others.append(row)
    # callers of generic `update-ref` functions that name refs/notes/ai
    unserialised = []
    for path, (raw, code) in sorted(files.items()):
        for f in allfns[path]:
            body_raw, body = raw[f[2]:f[3]], code[f[2]:f[3]]
            for g, info in generic.items():
                if g == f[0]:
                    continue
                for m in re.finditer(r"(?<![A-Za-z0-9_])%s\s*\(" % re.escape(g), body):
                    if '"refs/notes/ai"' in body_raw:
                        r = {"name": f"{f[0]}->{g}", "file": path, "ref": "refs/notes/ai", "cls": "init",
                             "locked": info["locks"] or bool(LOCK_RE.search(body))}
                        if r not in unserialised:
                            unserialised.append(r)
    problems = []
    for r in others:
        key = f"{r['file']}:{r['name']}"
        if key not in OUT_OF_QUANTIFIER:
            problems.append(f"{key}: writer of {r['ref']} that is not accounted for")
    for r in unserialised:
        key = f"{r['file']}:{r['name']}"
        if not r["locked"] and key not in OUT_OF_QUANTIFIER:
            problems.append(f"{key}: update-ref of refs/notes/ai without the notes lock, not accounted for")
    want = {"notes_add": "blind", "notes_add_batch": "cas"}
    have = {r["name"]: r["cls"] for r in rows}
    for n, c in want.items():
        if have.get(n) != c:
            problems.append(f"src/git/refs.rs:{n}: expected a {c} writer of refs/notes/ai, found {have.get(n)}")
    if problems:
        raise ExtractError("; ".join(problems))
    return {"rows": rows, "others": others, "unserialised": unserialised,
            "out_of_quantifier": {k: v for k, v in OUT_OF_QUANTIFIER.items()}}


def lean_chars(s):
    return "[" + ", ".join("'" + (("\\" + ch) if ch in "'\\" else ch) + "'" for ch in s) + "]"


def render(x, model_import=MODEL_IMPORT):
    L = ["/-\n  Extracted/NotesLockOrder.lean — GENERATED by /verif/extract/notes_lock_order.py from src/**/*.rs on every\n"
         "  C11 check run: every function that runs a git command moving refs/notes/ai, with the order of its\n"
         "  lock / tip-read / ref-write statements. Do not edit.\n-/",
         f"import {model_import}", "namespace GitAi.Extracted.NotesLock", "open GitAi.Conc", "",
         "def writers : List NotesWriter := ["]
    for k, r in enumerate(x["rows"]):
        L.append(f"  -- {r['file']}:{r['line']} {r['name']}")
        L.append(f"  {{ name := {lean_chars(r['name'])}, cls := .{r['cls']},\n"
                 f"    events := [{', '.join('.' + e for e in r['events'])}], held := {str(r['held']).lower()} }}"
                 + ("," if k + 1 < len(x["rows"]) else ""))
    L += ["]", "", "end GitAi.Extracted.NotesLock", ""]
    return "\n".join(L)


def main(model_import=MODEL_IMPORT, out=OUT):
    x = extract()
    changed = C.write_if_changed(out, render(x, model_import))
    return x, changed


if __name__ == "__main__":
    try:
        x, changed = main()
    except ExtractError as e:
        print(f"EXTRACT-ERROR: {e}")
        sys.exit(1)
    for r in x["rows"]:
        print(f"{r['file']}:{r['line']} {r['name']}: {r['cls']} events={r['events']} held={r['held']}")
    print("other refs:", [(r["file"], r["name"], r["ref"], r["events"]) for r in x["others"]])
    print("update-ref callers naming refs/notes/ai:", x["unserialised"])
    print("written" if changed else "unchanged", OUT)
