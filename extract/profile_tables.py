#!/usr/bin/env python3
"""Extract the internal-git profile tables and the inventory of internal git call sites of
/repo/src into lean/GitAiModel/Extracted/ProfileTables.lean (regenerated on every run; DESIGN §3.1).

What is read:
  * repository.rs  fn profile_options            -> per profile: the options added (in order)
  * repository.rs  fn strip_profile_conflicts    -> per profile: the `should_drop` predicate as a list of
                                                    `arg == L` (exact) / `arg.starts_with(L)` (prefix) atoms;
                                                    the split-value rule (profiles + option names whose
                                                    following token is dropped too); the rest of the body must
                                                    have the known skeleton
  * repository.rs  fn first_git_subcommand_index -> the value-taking global options; known skeleton
  * repository.rs  fn args_with_internal_git_profile -> known skeleton
  * repository.rs  fn resolve_command_base_dir   -> known skeleton (the `-C` literal)
  * every call of exec_git / exec_git_with_profile / exec_git_stdin[...] in src/**/*.rs outside
    `#[cfg(test)]` modules and src/git/test_utils: file, enclosing fn, ordinal inside that fn, wrapper,
    profile, the argv tokens built for it (following `let NAME = ..`, `NAME.push(..)`, `NAME.extend(..)`,
    `vec![..]`, `&[..]` as far as this lexer can: literal / pattern with `?` holes / `?` one dynamic token /
    `?*` dynamic token sequence / `<G>` the repository's global args; tokens pushed under a condition or in
    a loop are flagged optional), and whether stdout is parsed.

`parsed` is the REVIEWED value for the call-site key `file::fn#k` (table REVIEWED below, each entry checked by
reading the code; it also pins the sub-command literal so that a reordering is noticed). A call site that is
not in REVIEWED gets the heuristic value (`.stdout` is used after the call / the output is returned) and is
reported as UNREVIEWED: the table is still written (so the Lean `parsed_calls_pinned` instance judges it), and
the extractor exits non-zero = broken tie. Any other unexpected shape raises ExtractError.
"""
import json, os, re, sys

sys.path.insert(0, os.path.dirname(os.path.dirname(os.path.abspath(__file__))))
from vlib import common as C

SRC_ROOT = os.path.join(C.REPO, "src")
REPO_RS = os.path.join(SRC_ROOT, "git", "repository.rs")
OUT = os.path.join(C.LEAN, "GitAiModel", "Extracted", "ProfileTables.lean")
OUT_JSON = os.path.join(C.BUILD, "c12-inventory.json")

PROFILES = ["General", "PatchParse", "NumstatParse", "RawDiffParse"]
LEAN_PROFILE = {"General": ".general", "PatchParse": ".patchParse", "NumstatParse": ".numstatParse",
                "RawDiffParse": ".rawDiffParse", "?": ".general"}


class ExtractError(Exception):
    pass


# ------------------------------------------------------------------------------------------ lexing

def clean_source(src):
    """Blank out comments (keeping newlines and length) so offsets stay valid; returns (text, mask) where
    mask[i] is True inside a string/char literal."""
    out = list(src)
    mask = [False] * len(src)
    i, n = 0, len(src)
    while i < n:
        c = src[i]
        if src.startswith("//", i):
            j = src.find("\n", i)
            j = n if j < 0 else j
            for k in range(i, j):
                out[k] = " "
            i = j
        elif src.startswith("/*", i):
            depth, j = 1, i + 2
            while j < n and depth:
                if src.startswith("/*", j):
                    depth += 1; j += 2
                elif src.startswith("*/", j):
                    depth -= 1; j += 2
                else:
                    j += 1
            for k in range(i, j):
                if out[k] != "\n":
                    out[k] = " "
            i = j
        elif c == "r" and re.match(r'r#*"', src[i:i + 8]) and (i == 0 or not (src[i - 1].isalnum() or src[i - 1] == "_")):
            m = re.match(r'r(#*)"', src[i:])
            close = '"' + m.group(1)
            j = src.find(close, i + len(m.group(0)))
            j = n if j < 0 else j + len(close)
            for k in range(i, j):
                mask[k] = True
            i = j
        elif c == '"':
            j = i + 1
            while j < n and src[j] != '"':
                j += 2 if src[j] == "\\" else 1
            for k in range(i, min(j + 1, n)):
                mask[k] = True
            i = j + 1
        elif c == "'":
            # char literal or lifetime
            m = re.match(r"'(\\.[^']*|[^\\'])'", src[i:i + 12])
            if m:
                for k in range(i, i + len(m.group(0))):
                    mask[k] = True
                i += len(m.group(0))
            else:
                i += 1
        else:
            i += 1
    return "".join(out), mask


def match_close(text, mask, i, open_c="{", close_c="}"):
    """index of the bracket closing the one at i"""
    depth, n = 0, len(text)
    j = i
    while j < n:
        if not mask[j]:
            if text[j] == open_c:
                depth += 1
            elif text[j] == close_c:
                depth -= 1
                if depth == 0:
                    return j
        j += 1
    raise ExtractError("unbalanced brackets")


def blank_test_modules(text, mask):
    """Remove `#[cfg(test)] mod x { .. }` and `#[cfg(test)] fn ..{..}` / `#[test] fn` bodies."""
    out = list(text)
    for m in re.finditer(r"#\[cfg\((?:all\()?test[^\]]*\]\s*(?:#\[[^\]]*\]\s*)*(?:pub(?:\([a-z]+\))?\s+)?(mod|fn|impl)\b", text):
        if mask[m.start()]:
            continue
        i = text.find("{", m.end())
        semi = text.find(";", m.end())
        if i < 0 or (0 <= semi < i):
            continue
        j = match_close(text, mask, i)
        for k in range(m.start(), j + 1):
            if out[k] != "\n":
                out[k] = " "
    return "".join(out)


def functions(text, mask):
    """[(name, body_start, body_end)] for every fn with a body (nested ones included)."""
    res = []
    for m in re.finditer(r"\bfn\s+([A-Za-z_][A-Za-z0-9_]*)", text):
        if mask[m.start()]:
            continue
        # find the body: first '{' at paren/angle depth 0 after the signature, before a ';'
        j, depth, n = m.end(), 0, len(text)
        body = -1
        while j < n:
            if not mask[j]:
                ch = text[j]
                if ch in "([":
                    depth += 1
                elif ch in ")]":
                    depth -= 1
                elif ch == ";" and depth == 0:
                    break
                elif ch == "{" and depth == 0:
                    body = j
                    break
            j += 1
        if body >= 0:
            res.append((m.group(1), body, match_close(text, mask, body)))
    return res


def split_top(s, sep=","):
    """split on sep at bracket depth 0, outside literals"""
    parts, depth, cur, i, n = [], 0, [], 0, len(s)
    while i < n:
        c = s[i]
        if c == '"':
            j = i + 1
            while j < n and s[j] != '"':
                j += 2 if s[j] == "\\" else 1
            cur.append(s[i:j + 1]); i = j + 1; continue
        if c in "([{":
            depth += 1
        elif c in ")]}":
            depth -= 1
        if c == sep and depth == 0:
            parts.append("".join(cur)); cur = []
        else:
            cur.append(c)
        i += 1
    if "".join(cur).strip():
        parts.append("".join(cur))
    return [p.strip() for p in parts]


def squash(s):
    return re.sub(r"\s+", " ", s).strip()


def unescape_rust(s):
    return (s.replace('\\"', '"').replace("\\\\", "\\").replace("\\n", "\n").replace("\\t", "\t"))


# ------------------------------------------------------------------------------------------ tokens

STR_LIT = r'"((?:[^"\\]|\\.)*)"'


def token_of(expr):
    """One argv element expression -> ("lit", s) | ("pat", s with ? holes) | ("dyn",)"""
    e = squash(expr)
    m = re.fullmatch(STR_LIT + r'(?:\s*\.\s*(?:to_string|into|to_owned)\(\))?', e)
    if m:
        return ("lit", unescape_rust(m.group(1)))
    m = re.fullmatch(r'String::from\(\s*' + STR_LIT + r'\s*\)', e)
    if m:
        return ("lit", unescape_rust(m.group(1)))
    m = re.fullmatch(r'format!\(\s*' + STR_LIT + r'(.*)\)', e)
    if m:
        fmt = unescape_rust(m.group(1))
        pat = re.sub(r"\{[^{}]*\}", "?", fmt.replace("{{", "\x00").replace("}}", "\x01"))
        pat = pat.replace("\x00", "{").replace("\x01", "}")
        if "?" not in pat:
            return ("lit", pat)
        return ("pat", pat)
    return ("dyn",)


def seq_of(expr, depth_opt=False):
    """An expression producing a Vec<String> -> list of token dicts"""
    e = squash(expr).rstrip(",").strip()
    e = re.sub(r"^&\s*", "", e)
    m = re.fullmatch(r"(?:vec!)?\[(.*)\](?:\s*\.\s*(?:to_vec|into_iter|iter)\(\))*"
                     r"(?:\s*\.\s*map\(\s*(?:\|s\|\s*s\.to_string\(\)|String::from|ToString::to_string|\|s\|\s*\(\*s\)\.to_string\(\))\s*\))?"
                     r"(?:\s*\.\s*collect(?:::<[^>]*>)?\(\))?", e)
    if m:
        inner = m.group(1).strip()
        toks = []
        for el in split_top(inner):
            t = token_of(el)
            toks.append(mk(t, depth_opt))
        return toks
    if re.fullmatch(r"[A-Za-z_][A-Za-z0-9_.]*\.global_args_for_exec\(\)", e):
        return [{"k": "globals", "opt": depth_opt}]
    if re.search(r"global_args_for_exec\(\)", e):
        # a helper that receives the global args and appends to them
        return [{"k": "globals", "opt": depth_opt}, {"k": "rest", "opt": depth_opt}]
    if re.fullmatch(r"[A-Za-z_.]*global_args[A-Za-z_]*(?:\s*\.\s*(?:to_owned|to_vec|clone)\(\))?", e):
        return [{"k": "globals", "opt": depth_opt}]
    if re.fullmatch(r"Vec(?:::<[^>]*>)?::(?:new\(\)|with_capacity\(.*\))", e):
        return []
    return [{"k": "rest", "opt": depth_opt}]


def mk(t, opt):
    if t[0] == "lit":
        return {"k": "lit", "s": t[1], "opt": opt}
    if t[0] == "pat":
        return {"k": "pat", "s": t[1], "opt": opt}
    return {"k": "dyn", "opt": opt}


def brace_depth_at(text, mask, start, pos):
    d = 0
    for k in range(start, pos):
        if not mask[k]:
            if text[k] == "{":
                d += 1
            elif text[k] == "}":
                d -= 1
    return d


def chain_for(text, mask, body_start, call_pos, name):
    """tokens accumulated in variable `name` between its last `let` and call_pos"""
    seg_start = body_start
    let_re = re.compile(r"\blet\s+(?:mut\s+)?" + re.escape(name) + r"\b\s*(?::[^=;]+)?=(?!=)")
    last = None
    for m in let_re.finditer(text, body_start, call_pos):
        if not mask[m.start()]:
            last = m
    if last is None:
        return [{"k": "rest", "opt": False}]      # a parameter / field: unknown sequence
    # initialiser: up to the ';' at depth 0
    j, depth = last.end(), 0
    while j < call_pos:
        if not mask[j]:
            ch = text[j]
            if ch in "([{":
                depth += 1
            elif ch in ")]}":
                depth -= 1
            elif ch == ";" and depth == 0:
                break
        j += 1
    init = text[last.end():j]
    base_depth = brace_depth_at(text, mask, body_start, last.start())
    toks = []
    init_s = squash(init)
    if re.match(r"^(if|match)\b", init_s):
        toks.append({"k": "rest", "opt": False})
    else:
        toks.extend(seq_of(init))
    prev_end, prev_depth = None, None
    op_re = re.compile(r"\b" + re.escape(name) + r"\s*\.\s*(push|extend|extend_from_slice|insert|append|retain|truncate|clear|pop|remove)\s*\(")
    for m in op_re.finditer(text, j, call_pos):
        if mask[m.start()]:
            continue
        close = match_close(text, mask, m.end() - 1, "(", ")")
        arg = text[m.end():close]
        d = brace_depth_at(text, mask, body_start, m.start())
        opt = d > base_depth
        op = m.group(1)
        if op == "push":
            t = mk(token_of(arg), opt)
            # `if c { v.push("--opt=a") } else { v.push("--opt=b") }` : one unconditional token `--opt=?`
            between = squash(text[prev_end:m.start()]) if prev_end is not None else None
            if (between is not None and re.fullmatch(r"\)?\s*;\s*\}\s*else\s*\{", between) and toks
                    and toks[-1]["k"] == "lit" and t["k"] == "lit" and "=" in t["s"]
                    and toks[-1]["s"].split("=", 1)[0] == t["s"].split("=", 1)[0] and prev_depth == d):
                toks[-1] = {"k": "pat", "s": t["s"].split("=", 1)[0] + "=?", "opt": d - 1 > base_depth}
            else:
                toks.append(t)
            prev_end, prev_depth = close, d
        elif op in ("extend", "extend_from_slice", "append"):
            sub = seq_of(arg, opt)
            for t in sub:
                t["opt"] = opt
                if t["k"] == "globals":
                    t["k"] = "rest"
            toks.extend(sub)
        elif op == "insert":
            toks.append({"k": "rest", "opt": True})
        else:
            raise ExtractError(f"argv variable `{name}` is modified by .{op}(): not handled by the lexer")
    return toks


# ------------------------------------------------------------------------------------------ call sites

CALL_RE = re.compile(r"\b(exec_git(?:_stdin)?(?:_with_env)?(?:_with_profile)?)\s*\(")
WRAPPERS = {"exec_git", "exec_git_with_profile", "exec_git_stdin", "exec_git_stdin_with_profile",
            "exec_git_stdin_with_env", "exec_git_stdin_with_env_with_profile"}


def source_files():
    res = []
    for root, dirs, files in os.walk(SRC_ROOT):
        rel = os.path.relpath(root, SRC_ROOT)
        if rel.startswith(os.path.join("git", "test_utils")) or "/tests" in "/" + rel or rel == "tests":
            continue
        for fn in sorted(files):
            if fn.endswith(".rs") and fn not in ("tests.rs",) and not fn.endswith("_tests.rs") and not fn.endswith("_test.rs"):
                res.append(os.path.join(root, fn))
    return sorted(res)


def heuristic_parsed(text, mask, call_start, call_end, fn_end, next_call):
    """`.stdout` used after the call (before the next call site of the fn), or the output value is the
    function's/closure's result."""
    stop = min(fn_end, next_call if next_call else fn_end)
    after = text[call_end:stop]
    if re.search(r"\.\s*stdout\b", after):
        return True
    tail = squash(text[call_end:call_end + 40])
    # `exec_git(..)` immediately closing the block => returned
    if re.match(r"^\)?\s*\}", tail) or re.match(r"^\s*\.map\(|^\s*\.and_then\(|^\s*\.ok\(\)\s*\.", tail):
        return True
    return False


def extract_calls():
    calls = []
    for path in source_files():
        raw = open(path, encoding="utf-8").read()
        text, mask = clean_source(raw)
        text = blank_test_modules(text, mask)
        fns = functions(text, mask)
        rel = os.path.relpath(path, C.REPO)
        sites = []
        for m in CALL_RE.finditer(text):
            if mask[m.start()]:
                continue
            if m.group(1) not in WRAPPERS:
                raise ExtractError(f"{rel}: unknown exec_git wrapper {m.group(1)}")
            before = text[max(0, m.start() - 12):m.start()]
            if re.search(r"\bfn\s+$", before):
                continue
            if any(f[0] in WRAPPERS and f[1] < m.start() < f[2] for f in fns):
                continue      # the wrappers delegating to each other (shape checked in extract_profile_tables)
            # `use` lists and paths like repository::exec_git without '(' are excluded by the regex
            sites.append(m)
        per_fn = {}
        for idx, m in enumerate(sites):
            encl = [f for f in fns if f[1] < m.start() < f[2]]
            if not encl:
                raise ExtractError(f"{rel}: exec_git call outside any fn at offset {m.start()}")
            fn = max(encl, key=lambda f: f[1])
            # for closures/nested helper fns use the outermost named fn for the key, innermost for the chain
            outer = min(encl, key=lambda f: f[1])
            fname = outer[0] if outer[0] == fn[0] else f"{outer[0]}.{fn[0]}"
            close = match_close(text, mask, m.end() - 1, "(", ")")
            argl = split_top(text[m.end():close])
            if not argl:
                raise ExtractError(f"{rel}:{fname}: exec_git call without arguments")
            wrapper = m.group(1)
            profile = "General"
            if wrapper.endswith("with_profile"):
                pm = re.fullmatch(r"(?:[A-Za-z_:]*::)?InternalGitProfile::(\w+)", squash(argl[-1]))
                if pm:
                    if pm.group(1) not in PROFILES:
                        raise ExtractError(f"{rel}:{fname}: unknown profile {pm.group(1)}")
                    profile = pm.group(1)
                else:
                    profile = "?"
            a0 = squash(argl[0])
            vm = re.fullmatch(r"&\s*(?:mut\s+)?([A-Za-z_][A-Za-z0-9_]*)(?:\s*\.\s*clone\(\))?", a0)
            if vm:
                toks = chain_for(text, mask, fn[1], m.start(), vm.group(1))
            elif re.match(r"^&?\s*(?:vec!)?\[", a0):
                toks = seq_of(a0)
            elif re.fullmatch(r"[A-Za-z_][A-Za-z0-9_]*", a0):
                toks = chain_for(text, mask, fn[1], m.start(), a0)
            else:
                toks = [{"k": "rest", "opt": False}]
            k = per_fn.get(fname, 0)
            per_fn[fname] = k + 1
            nxt = sites[idx + 1].start() if idx + 1 < len(sites) and sites[idx + 1].start() < fn[2] else None
            line = text.count("\n", 0, m.start()) + 1
            calls.append({"file": rel, "fn": fname, "k": k, "key": f"{rel}::{fname}#{k}", "line": line,
                          "wrapper": wrapper, "stdin": "stdin" in wrapper, "profile": profile, "tokens": toks,
                          "heur_parsed": heuristic_parsed(text, mask, m.start(), close + 1, fn[2], nxt)})
    return calls


def subcommand_of(toks):
    """first literal token not starting with '-' that follows the global-args prefix; '?' if dynamic"""
    for t in toks:
        if t["k"] in ("globals",):
            continue
        if t["k"] == "lit":
            if t["s"].startswith("-"):
                continue
            return t["s"]
        if t["k"] == "rest":
            return "?"
        if t["k"] in ("dyn", "pat"):
            return "?"
    return "?"


# ------------------------------------------------------------------------------------------ profile tables

def fn_text(text, mask, name):
    for (n, a, b) in functions(text, mask):
        if n == name:
            return text[a + 1:b]
    raise ExtractError(f"repository.rs: fn {name} not found")


FIRST_SUBCMD_SKELETON = squash('''
let mut index = 0usize;
while index < args.len() {
    let arg = &args[index];
    if !arg.starts_with('-') { return Some(index); }
    let takes_value = matches!( arg.as_str(), @LITS@ );
    index += if takes_value { 2 } else { 1 };
}
None
''')

ARGS_WITH_PROFILE_SKELETON = squash('''
if profile == InternalGitProfile::General { return args.to_vec(); }
let args = strip_profile_conflicts(args.to_vec(), profile);
let Some(command_index) = first_git_subcommand_index(&args) else { return args; };
let options = profile_options(profile);
if options.is_empty() { return args; }
let options_end = args[command_index + 1..].iter().position(|arg| arg == "--").map_or(args.len(), |offset| command_index + 1 + offset);
let mut out = Vec::with_capacity(args.len() + options.len());
out.extend(args[..=command_index].iter().cloned());
for option in options { if !args[command_index + 1..options_end].iter().any(|arg| arg == option) { out.push((*option).to_string()); } }
out.extend(args[command_index + 1..].iter().cloned());
out
''')

STRIP_SKELETON = squash('''
if profile == InternalGitProfile::General { return args; }
let Some(command_index) = first_git_subcommand_index(&args) else { return args; };
let should_drop = |arg: &str| -> bool { match profile { @ARMS@ } };
let mut out = Vec::with_capacity(args.len());
out.extend(args[..=command_index].iter().cloned());
let mut index = command_index + 1;
while index < args.len() {
    if args[index] == "--" { out.extend(args[index..].iter().cloned()); return out; }
    let drop_current = should_drop(&args[index]);
    if !drop_current { out.push(args[index].clone()); index += 1; continue; }
    if @SPLITCOND@ { index += 1; if index < args.len() && args[index] != "--" { index += 1; } continue; }
    index += 1;
}
out
''')

BASE_DIR_SKELETON = squash('''
let mut base = std::env::current_dir().map_err(GitAiError::IoError)?;
let mut idx = 0usize;
while idx < global_args.len() {
    if global_args[idx] == "-C" {
        let path_arg = global_args.get(idx + 1).ok_or_else(|| { GitAiError::Generic("Missing path after -C in global git args".to_string()) })?;
        let next_base = PathBuf::from(path_arg);
        base = if next_base.is_absolute() { next_base } else { base.join(next_base) };
        idx += 2;
        continue;
    }
    idx += 1;
}
Ok(base)
''')


def norm_ws(s):
    """squash whitespace and drop the optional spaces rustfmt puts around brackets / trailing commas"""
    s = squash(s)
    s = re.sub(r",\s*([)\]}])", r" \1", s)
    s = re.sub(r"\s*([()\[\]{};,|])\s*", r"\1", s)
    return s


def extract_profile_tables():
    raw = open(REPO_RS, encoding="utf-8").read()
    text, mask = clean_source(raw)
    text = blank_test_modules(text, mask)

    # --- profile_options
    body = squash(fn_text(text, mask, "profile_options"))
    m = re.fullmatch(r"match profile \{(.*)\}", body)
    if not m:
        raise ExtractError("profile_options: body is not a single `match profile`")
    options = {}
    arms = m.group(1)
    pos = 0
    arm_re = re.compile(r"\s*InternalGitProfile::(\w+) => &\[(.*?)\],?")
    while pos < len(arms) and arms[pos:].strip():
        am = arm_re.match(arms, pos)
        if not am:
            raise ExtractError(f"profile_options: unrecognised arm text: {arms[pos:pos + 100]}")
        items = [x for x in split_top(am.group(2)) if x]
        vals = []
        for it in items:
            lm = re.fullmatch(STR_LIT, it)
            if not lm:
                raise ExtractError(f"profile_options: non-literal option {it}")
            vals.append(lm.group(1))
        if am.group(1) in options:
            raise ExtractError("profile_options: duplicate arm")
        options[am.group(1)] = vals
        pos = am.end()
    if sorted(options) != sorted(PROFILES):
        raise ExtractError(f"profile_options: arms {sorted(options)} != profiles {sorted(PROFILES)}")

    # --- enum InternalGitProfile
    em = re.search(r"pub enum InternalGitProfile \{([^}]*)\}", text)
    if not em or [v.strip() for v in em.group(1).split(",") if v.strip()] != PROFILES:
        raise ExtractError("enum InternalGitProfile: variants changed")

    # --- strip_profile_conflicts
    body = fn_text(text, mask, "strip_profile_conflicts")
    sm = re.search(r"let should_drop = \|arg: &str\| -> bool \{\s*match profile \{(.*?)\n\s*\}\s*\};", body, re.S)
    if not sm:
        raise ExtractError("strip_profile_conflicts: should_drop closure not found")
    arms_txt = sm.group(1)
    drops = {}
    # arms: `InternalGitProfile::X => false,` or `InternalGitProfile::X => { a || b || c }`
    pos = 0
    arm_head = re.compile(r"\s*InternalGitProfile::(\w+) =>\s*")
    while arms_txt[pos:].strip():
        hm = arm_head.match(arms_txt, pos)
        if not hm:
            raise ExtractError(f"should_drop: unrecognised arm: {arms_txt[pos:pos + 80]!r}")
        p = hm.end()
        if arms_txt.startswith("false", p):
            drops[hm.group(1)] = []
            p += len("false")
            p = p + 1 if arms_txt[p:p + 1] == "," else p
        elif arms_txt[p] == "{":
            amask = [False] * len(arms_txt)
            for lm in re.finditer(STR_LIT, arms_txt):
                for k in range(lm.start(), lm.end()):
                    amask[k] = True
            q = match_close(arms_txt, amask, p)
            atoms = []
            for atom in squash(arms_txt[p + 1:q]).split("||"):
                atom = atom.strip()
                m1 = re.fullmatch(r'arg == ' + STR_LIT, atom)
                m2 = re.fullmatch(r'arg\.starts_with\(' + STR_LIT + r'\)', atom)
                if m1:
                    atoms.append(("exact", m1.group(1)))
                elif m2:
                    atoms.append(("pref", m2.group(1)))
                else:
                    raise ExtractError(f"should_drop: unrecognised atom `{atom}`")
            drops[hm.group(1)] = atoms
            p = q + 1
            p = p + 1 if arms_txt[p:p + 1] == "," else p
        else:
            raise ExtractError(f"should_drop: unrecognised arm body: {arms_txt[p:p + 80]!r}")
        pos = p
    if sorted(drops) != sorted(PROFILES):
        raise ExtractError(f"should_drop: arms {sorted(drops)}")
    # split-value rule
    spm = re.search(r"if matches!\(profile, ([^)]*)\)\s*&&\s*\(([^)]*)\)\s*\{", body)
    if not spm:
        raise ExtractError("strip_profile_conflicts: split-value rule not found")
    split_profiles = [x.strip().replace("InternalGitProfile::", "") for x in spm.group(1).split("|")]
    split_opts = []
    for atom in spm.group(2).split("||"):
        am = re.fullmatch(r'args\[index\] == ' + STR_LIT, squash(atom))
        if not am:
            raise ExtractError(f"split-value rule: unrecognised atom {atom}")
        split_opts.append(am.group(1))
    for p in split_profiles:
        if p not in PROFILES:
            raise ExtractError(f"split-value rule: unknown profile {p}")
    skeleton = norm_ws(STRIP_SKELETON)
    got = norm_ws(body)
    got = got.replace(norm_ws(arms_txt), "@ARMS@")
    got = got.replace(norm_ws("matches!(profile, " + spm.group(1) + ") && (" + spm.group(2) + ")"), "@SPLITCOND@")
    if got != skeleton:
        raise ExtractError("strip_profile_conflicts: body no longer has the modelled skeleton:\n  got  " + got + "\n  want " + skeleton)

    # --- first_git_subcommand_index
    body = fn_text(text, mask, "first_git_subcommand_index")
    vm = re.search(r"matches!\(\s*arg\.as_str\(\),(.*?)\);", body, re.S)
    if not vm:
        raise ExtractError("first_git_subcommand_index: matches! not found")
    value_opts = []
    for it in vm.group(1).split("|"):
        lm = re.fullmatch(STR_LIT, it.strip())
        if not lm:
            raise ExtractError(f"first_git_subcommand_index: non-literal {it}")
        value_opts.append(lm.group(1))
    got = norm_ws(body).replace(norm_ws(vm.group(1)), "@LITS@")
    if got != norm_ws(FIRST_SUBCMD_SKELETON):
        raise ExtractError("first_git_subcommand_index: body no longer has the modelled skeleton:\n  got  " + got + "\n  want " + norm_ws(FIRST_SUBCMD_SKELETON))

    # --- args_with_internal_git_profile / resolve_command_base_dir skeletons
    for name, skel in (("args_with_internal_git_profile", ARGS_WITH_PROFILE_SKELETON),
                       ("resolve_command_base_dir", BASE_DIR_SKELETON)):
        got = norm_ws(fn_text(text, mask, name))
        if got != norm_ws(skel):
            raise ExtractError(f"{name}: body no longer has the modelled skeleton:\n  got  {got}\n  want {norm_ws(skel)}")

    # --- exec_git_with_profile composes hooks-disabling then the profile, and clears the env
    for name in ("exec_git_with_profile", "exec_git_stdin_with_profile", "exec_git_stdin_with_env_with_profile"):
        b = norm_ws(fn_text(text, mask, name))
        if norm_ws("args_with_internal_git_profile(&args_with_disabled_hooks_if_needed(args), profile)") not in b:
            raise ExtractError(f"{name}: does not apply args_with_internal_git_profile(args_with_disabled_hooks_if_needed(args), profile)")
        if b.count("cmd.args(&effective_args)") != 1:
            raise ExtractError(f"{name}: cmd.args(&effective_args) not found exactly once")
        for v in ("GIT_EXTERNAL_DIFF", "GIT_DIFF_OPTS"):
            if norm_ws(f'cmd.env_remove("{v}")') not in b:
                raise ExtractError(f"{name}: no longer clears {v}")
    for name, inner in (("exec_git", "exec_git_with_profile(args,InternalGitProfile::General)"),
                        ("exec_git_stdin", "exec_git_stdin_with_profile(args,stdin_data,InternalGitProfile::General)"),
                        ("exec_git_stdin_with_env", "exec_git_stdin_with_env_with_profile(args,env,stdin_data,InternalGitProfile::General)")):
        if norm_ws(fn_text(text, mask, name)) != inner:
            raise ExtractError(f"{name}: is no longer a plain General-profile wrapper")

    # --- unescape_git_path skeleton hash is checked by correspondence, not here
    return {"options": options, "drops": drops, "split_profiles": split_profiles, "split_opts": split_opts,
            "value_opts": value_opts}


# ------------------------------------------------------------------------------------------ reviewed list

# key  sub-command-literal-as-extracted  parsed|unparsed      (reviewed by reading each call site)
# parsed   = bytes of stdout are interpreted by git-ai (split / trimmed / decoded into a value it computes with)
# unparsed = only success/failure is used, or stdout is passed through verbatim for display / debug logging
REVIEWED_TEXT = r"""
src/authorship/range_authorship.rs::range_authorship#0 fetch unparsed
src/authorship/range_authorship.rs::get_git_diff_stats_for_range#0 diff parsed
src/authorship/rebase_authorship.rs::batch_read_blob_contents#0 cat-file parsed
src/authorship/rebase_authorship.rs::get_empty_tree_oid#0 rev-parse parsed
src/authorship/rebase_authorship.rs::load_commit_metadata_batch#0 cat-file parsed
src/authorship/rebase_authorship.rs::collect_changed_file_contents_for_commit_pairs#0 diff-tree parsed
src/authorship/rebase_authorship.rs::walk_commits_to_base#0 merge-base unparsed
src/authorship/rebase_authorship.rs::walk_commits_to_base#1 rev-list parsed
src/authorship/rebase_authorship.rs::get_pathspecs_from_commits#0 diff-tree parsed
src/authorship/rebase_authorship.rs::tracked_paths_match_for_commit_pairs#0 diff-tree parsed
src/authorship/stats.rs::get_git_diff_stats#0 show parsed
src/ci/github.rs::get_github_ci_context#0 clone unparsed
src/ci/github.rs::get_github_ci_context#1 ? unparsed
src/ci/gitlab.rs::get_gitlab_ci_context#0 clone unparsed
src/ci/gitlab.rs::get_gitlab_ci_context#1 ? unparsed
src/ci/gitlab.rs::get_gitlab_ci_context#2 ? unparsed
src/commands/blame.rs::resolve_blame_abbrev_shas_batched#0 rev-parse parsed
src/commands/blame.rs::blame_hunks_for_ranges#0 blame parsed   # the stdin branch of the same `let output = if .. else ..`; parsed by parse_blame_line_porcelain
src/commands/blame.rs::blame_hunks_for_ranges#1 blame parsed
src/commands/continue_session.rs::from_commit_sha#0 log parsed
src/commands/continue_session.rs::from_commit_sha#1 log parsed
src/commands/continue_session.rs::get_commit_diff#0 show unparsed   # verbatim text handed to the resumed agent session (display), only truncated
src/commands/continue_session.rs::get_git_status_info#0 branch parsed
src/commands/continue_session.rs::get_git_status_info#1 log unparsed   # `log --oneline -5` copied verbatim into the session context (display)
src/commands/diff.rs::resolve_commit#0 rev-parse parsed
src/commands/diff.rs::resolve_parent#0 rev-parse parsed
src/commands/diff.rs::get_diff_with_line_numbers#0 diff parsed
src/commands/diff.rs::get_diff_split_by_file#0 diff parsed
src/commands/diff.rs::format_annotated_diff#0 diff parsed
src/commands/git_hook_handlers.rs::was_fast_forward_pull#0 reflog parsed
src/commands/git_hook_handlers.rs::latest_head_reflog_subject#0 reflog parsed
src/commands/git_hook_handlers.rs::stash_entry_count#0 stash parsed
src/commands/hooks/cherry_pick_hooks.rs::expand_commit_range#0 rev-list parsed
src/commands/hooks/cherry_pick_hooks.rs::resolve_commit_sha#0 rev-parse parsed
src/commands/hooks/fetch_hooks.rs::was_fast_forward_pull#0 reflog parsed
src/commands/hooks/rebase_hooks.rs::is_ancestor#0 merge-base unparsed
src/commands/hooks/reset_hooks.rs::is_ancestor#0 merge-base unparsed
src/commands/hooks/stash_hooks.rs::save_stash_note#0 notes unparsed
src/commands/hooks/stash_hooks.rs::read_stash_note#0 notes parsed
src/commands/hooks/stash_hooks.rs::resolve_stash_to_sha#0 rev-parse parsed
src/commands/prompts_db.rs::get_commits_since#0 log parsed
src/commands/prompts_db.rs::get_notes_list#0 notes parsed
src/commands/prompts_db.rs::batch_read_blobs#0 cat-file parsed
src/commands/search.rs::search_by_commit_range#0 rev-list parsed
src/commands/status.rs::get_working_dir_diff_stats#0 diff parsed
src/git/authorship_traversal.rs::batch_read_blobs_with_oids#0 cat-file parsed
src/git/diff_tree_to_tree.rs::diff_tree_to_tree#0 rev-parse parsed
src/git/diff_tree_to_tree.rs::diff_tree_to_tree#1 diff parsed
src/git/refs.rs::notes_add#0 notes unparsed
src/git/refs.rs::note_blob_oids_for_commits#0 cat-file parsed
src/git/refs.rs::notes_add_batch#0 rev-parse parsed
src/git/refs.rs::notes_add_batch#1 fast-import unparsed
src/git/refs.rs::notes_add_blob_batch#0 rev-parse parsed
src/git/refs.rs::notes_add_blob_batch#1 fast-import unparsed
src/git/refs.rs::get_commits_with_notes_from_list#0 rev-list parsed
src/git/refs.rs::show_authorship_note#0 notes parsed
src/git/refs.rs::ref_exists#0 show-ref unparsed
src/git/refs.rs::merge_notes_from_ref#0 notes unparsed
src/git/refs.rs::copy_ref#0 update-ref unparsed
src/git/refs.rs::grep_ai_notes#0 grep parsed
src/git/refs.rs::grep_ai_notes#1 log parsed
src/git/repository.rs::peel_to_commit#0 rev-parse parsed
src/git/repository.rs::new_infer_refname#0 for-each-ref parsed
src/git/repository.rs::is_valid#0 merge-base unparsed
src/git/repository.rs::is_valid#1 merge-base unparsed
src/git/repository.rs::is_valid#2 merge-base unparsed
src/git/repository.rs::length#0 rev-list parsed
src/git/repository.rs::into_iter#0 rev-list parsed
src/git/repository.rs::tree#0 rev-parse parsed
src/git/repository.rs::parent#0 rev-parse parsed
src/git/repository.rs::parents#0 show parsed
src/git/repository.rs::summary#0 show parsed
src/git/repository.rs::body#0 show parsed
src/git/repository.rs::author#0 show parsed
src/git/repository.rs::committer#0 show parsed
src/git/repository.rs::parent_on_refname#0 rev-parse parsed
src/git/repository.rs::parent_on_refname#1 merge-base unparsed
src/git/repository.rs::get_path#0 ls-tree parsed
src/git/repository.rs::content#0 cat-file parsed
src/git/repository.rs::shorthand#0 rev-parse parsed
src/git/repository.rs::target#0 rev-parse parsed
src/git/repository.rs::peel_to_blob#0 rev-parse parsed
src/git/repository.rs::peel_to_commit#1 rev-parse parsed
src/git/repository.rs::git#0 ? unparsed   # generic pass-through helper `Repository::git`, #[allow(dead_code)]; the extractor checks it has no callers
src/git/repository.rs::object_type#0 cat-file parsed
src/git/repository.rs::head#0 symbolic-ref parsed
src/git/repository.rs::is_bare_repository#0 rev-parse parsed
src/git/repository.rs::remotes#0 remote parsed
src/git/repository.rs::remotes_with_urls#0 remote parsed
src/git/repository.rs::git_version#0 ? parsed
src/git/repository.rs::blob#0 hash-object parsed
src/git/repository.rs::reference#0 update-ref unparsed
src/git/repository.rs::remote_head#0 symbolic-ref parsed
src/git/repository.rs::find_reference#0 show-ref unparsed
src/git/repository.rs::merge_base#0 merge-base parsed
src/git/repository.rs::merge_trees_favor_ours#0 merge-tree parsed
src/git/repository.rs::commit_range_on_branch#0 rev-parse parsed
src/git/repository.rs::commit_range_on_branch#1 rev-parse parsed
src/git/repository.rs::commit_range_on_branch#2 log parsed
src/git/repository.rs::commit#0 commit-tree parsed
src/git/repository.rs::commit#1 rev-parse parsed
src/git/repository.rs::commit#2 update-ref unparsed
src/git/repository.rs::revparse_single#0 rev-parse parsed
src/git/repository.rs::upstream_remote#0 branch parsed
src/git/repository.rs::resolve_author_spec#0 rev-list parsed
src/git/repository.rs::resolve_author_spec#1 show parsed
src/git/repository.rs::references#0 for-each-ref parsed
src/git/repository.rs::get_file_content#0 show parsed
src/git/repository.rs::get_all_staged_files_content#0 show parsed
src/git/repository.rs::list_commit_files#0 diff-tree parsed
src/git/repository.rs::diff_added_lines#0 diff parsed
src/git/repository.rs::diff_changed_files#0 diff parsed
src/git/repository.rs::diff_workdir_added_lines#0 diff parsed
src/git/repository.rs::diff_workdir_added_lines_with_insertions#0 diff parsed
src/git/repository.rs::diff_workdir_hunks#0 diff parsed
src/git/repository.rs::fetch_branch#0 fetch unparsed
src/git/repository.rs::find_repository#0 rev-parse parsed
src/git/repository.rs::find_repository#1 rev-parse parsed
src/git/status.rs::get_staged_filenames#0 diff parsed
src/git/status.rs::get_staged_and_unstaged_filenames#0 status parsed
src/git/status.rs::status_impl#0 status parsed
src/git/sync_authorship.rs::fetch_authorship_notes#0 ls-remote parsed
src/git/sync_authorship.rs::fetch_authorship_notes#1 ? unparsed   # stdout only goes to debug_log
src/git/sync_authorship.rs::push_authorship_notes#0 ? unparsed
src/git/sync_authorship.rs::push_authorship_notes#1 ? unparsed
src/mdm/ensure_git_symlinks.rs::ensure_git_symlinks#0 ? parsed
"""


def load_reviewed():
    res = {}
    for ln in REVIEWED_TEXT.split("\n"):
        ln = ln.split(" # ", 1)[0].rstrip() if not ln.lstrip().startswith("# ") else ""
        if not ln.strip():
            continue
        parts = ln.split()
        if len(parts) != 3 or parts[2] not in ("parsed", "unparsed"):
            raise ExtractError(f"REVIEWED_TEXT: bad line {ln!r}")
        res[parts[0]] = (parts[1], parts[2] == "parsed")
    return res


# ------------------------------------------------------------------------------------------ Lean rendering

def lchars(s):
    def ch(c):
        if c == "'":
            return "'\\''"
        if c == "\\":
            return "'\\\\'"
        if c == "\n":
            return "'\\n'"
        if c == "\t":
            return "'\\t'"
        if ord(c) < 32 or ord(c) == 127:
            return f"'\\x{ord(c):02x}'"
        return f"'{c}'"
    return "[" + ", ".join(ch(c) for c in s) + "]"


def ltok(t):
    o = "true" if t["opt"] else "false"
    if t["k"] == "lit":
        return f"⟨.lit {lchars(t['s'])}, {o}⟩"
    if t["k"] == "pat":
        return f"⟨.pat {lchars(t['s'])}, {o}⟩"
    if t["k"] == "dyn":
        return f"⟨.dyn, {o}⟩"
    if t["k"] == "globals":
        return f"⟨.globals, {o}⟩"
    return f"⟨.rest, {o}⟩"


def render(tables, calls):
    L = []
    L.append("/-\n  Extracted/ProfileTables.lean — GENERATED by /verif/extract/profile_tables.py from\n"
             "  /repo/src/git/repository.rs (profile tables) and every exec_git* call site of /repo/src\n"
             "  (call inventory) on every check run. Do not edit.\n-/")
    L.append("import GitAiModel.Model.ProfileTypes\nnamespace GitAi.ProfileTables\nopen GitAi GitAi.Profile\n")
    L.append("/-- `first_git_subcommand_index`: global options that consume the following token: "
             + " ".join(tables["value_opts"]) + " -/")
    L.append("def valueOpts : List Str := [" + ", ".join(lchars(s) for s in tables["value_opts"]) + "]\n")
    L.append("/-- `profile_options`, in source order. -/")
    L.append("def options : InternalGitProfile → List Str")
    for p in PROFILES:
        L.append(f"  | {LEAN_PROFILE[p]} => [" + ", ".join(lchars(s) for s in tables["options"][p]) + "]"
                 + (f"  -- {' '.join(tables['options'][p])}" if tables["options"][p] else ""))
    L.append("")
    L.append("/-- `strip_profile_conflicts`: the `should_drop` disjunction per profile, in source order. -/")
    L.append("def drops : InternalGitProfile → List DropRule")
    for p in PROFILES:
        L.append(f"  | {LEAN_PROFILE[p]} => [" + ", ".join(
            ("." + k + " " + lchars(s)) for k, s in tables["drops"][p]) + "]")
    L.append("")
    L.append("/-- profiles for which a dropped split-form option also drops the following token -/")
    L.append("def splitProfiles : List InternalGitProfile := [" + ", ".join(LEAN_PROFILE[p] for p in tables["split_profiles"]) + "]")
    L.append("/-- the split-form options: " + " ".join(tables["split_opts"]) + " -/")
    L.append("def splitOpts : List Str := [" + ", ".join(lchars(s) for s in tables["split_opts"]) + "]\n")
    L.append("/-- Call inventory: every `exec_git*` call site outside tests (file, fn, ordinal in fn, stdin?, profile,\n"
             "    argv tokens as far as the lexer follows them, stdout parsed?). -/")
    L.append("def calls : List Call := [")
    rows = []
    for c in calls:
        rows.append("  { file := " + lchars(c["file"]) + ", fn := " + lchars(c["fn"]) + f", k := {c['k']}, stdin := "
                    + ("true" if c["stdin"] else "false") + f", profile := {LEAN_PROFILE[c['profile']]}, profileKnown := "
                    + ("false" if c["profile"] == "?" else "true")
                    + ",\n    tokens := [" + ", ".join(ltok(t) for t in c["tokens"]) + "],\n    parsed := "
                    + ("true" if c["parsed"] else "false") + ", reviewed := " + ("true" if c["reviewed"] else "false")
                    + " }" + f"  -- {c['key']} : {show_tokens(c['tokens'])}")
    # comments must come after the comma: render with the comma before the comment
    fixed = []
    for k, r in enumerate(rows):
        head, _, comment = r.rpartition("  -- ")
        fixed.append(head + ("," if k + 1 < len(rows) else "") + "  -- " + comment.replace("\n", "\\n"))
    L.extend(fixed)
    L.append("]\n")
    L.append("end GitAi.ProfileTables")
    return "\n".join(L) + "\n"


def show_tokens(toks):
    out = []
    for t in toks:
        s = {"lit": t.get("s"), "pat": t.get("s"), "dyn": "?", "globals": "<G>", "rest": "?*"}[t["k"]]
        if t["k"] == "lit" and (s == "" or " " in s):
            s = repr(s)
        out.append(("[" + s + "]") if t["opt"] else s)
    return " ".join(out)


# ------------------------------------------------------------------------------------------ main

def extract():
    """Returns (tables, calls, unreviewed list, problems list). Raises ExtractError on a shape error."""
    tables = extract_profile_tables()
    calls = extract_calls()
    reviewed = load_reviewed()
    unreviewed, problems = [], []
    seen = set()
    for c in calls:
        c["sub"] = subcommand_of(c["tokens"])
        seen.add(c["key"])
        r = reviewed.get(c["key"])
        if r is None:
            c["parsed"], c["reviewed"] = c["heur_parsed"], False
            unreviewed.append(c["key"])
        else:
            if r[0] != c["sub"]:
                problems.append(f"{c['key']}: reviewed as `{r[0]}` but the call site now builds `{c['sub']}`")
                c["parsed"], c["reviewed"] = c["heur_parsed"] or r[1], False
            else:
                c["parsed"], c["reviewed"] = r[1], True
    # `Repository::git` is reviewed as a dead pass-through helper: it must have no callers
    for path in source_files():
        t, m = clean_source(open(path, encoding="utf-8").read())
        t = blank_test_modules(t, m)
        if re.search(r"(?:\brepo(?:sitory)?|\bself|\))\s*\.\s*git\s*\(\s*&", t):
            problems.append(f"{os.path.relpath(path, C.REPO)}: a caller of the pass-through helper Repository::git appeared; "
                            "its argv must be added to the inventory")
    for k in reviewed:
        if k not in seen:
            problems.append(f"{k}: reviewed call site no longer exists")
    return tables, calls, unreviewed, problems


def run(write=True):
    """Regenerates the Lean table. Returns dict(ok, changed, unreviewed, problems, tables, calls)."""
    tables, calls, unreviewed, problems = extract()
    changed = False
    if write:
        changed = C.write_if_changed(OUT, render(tables, calls))
        C.write_if_changed(OUT_JSON, json.dumps({"tables": tables, "calls": calls}, indent=1, sort_keys=True, default=list))
    return {"ok": not unreviewed and not problems, "changed": changed, "unreviewed": unreviewed,
            "problems": problems, "tables": tables, "calls": calls}


def main():
    try:
        r = run(write="--dry" not in sys.argv)
    except ExtractError as e:
        print(f"EXTRACT-ERROR profile_tables: {e}", file=sys.stderr)
        sys.exit(3)
    if "--list" in sys.argv:
        for c in r["calls"]:
            print(f"{c['key']:78s} L{c['line']:<5d} {c['profile']:13s} heur={'P' if c['heur_parsed'] else '-'} "
                  f"{'parsed  ' if c['parsed'] else 'unparsed'} {'' if c['reviewed'] else 'UNREVIEWED '}| {show_tokens(c['tokens'])}")
    if "--seed-reviewed" in sys.argv:
        for c in r["calls"]:
            print(f"{c['key']} {c['sub']} {'parsed' if c['heur_parsed'] else 'unparsed'}")
    for p in r["problems"]:
        print(f"EXTRACT-ERROR profile_tables: {p}", file=sys.stderr)
    for k in r["unreviewed"]:
        print(f"EXTRACT-ERROR profile_tables: UNREVIEWED call site {k} (not in REVIEWED_TEXT of extract/profile_tables.py)", file=sys.stderr)
    print(f"profile_tables: {len(r['calls'])} call sites, {sum(1 for c in r['calls'] if c['parsed'])} parsed, "
          f"changed={r['changed']} ok={r['ok']}")
    sys.exit(0 if r["ok"] else 3)


if __name__ == "__main__":
    main()
