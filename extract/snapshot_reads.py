#!/usr/bin/env python3
"""Extract, from the current source, every read of a working-log snapshot blob
(`PersistedWorkingLog::get_file_version`, `PersistedWorkingLog::initial_snapshot`) outside test code, what
the caller does when the read FAILS, and the two parameters of Model/Snapshot.lean:

  ckptLost     commands/checkpoint.rs:get_checkpoint_entry_for_file, the `let from_checkpoint = …` read of the
               latest entry's blob: `.unwrap_or_default()` → `.empty`; a fallback that mentions the current
               content → `.current`; anything else is an ExtractError (the model has no such case)
  initialLost  `.drop` when git/repo_storage.rs:read_initial_attributions ends with `self.<f>(&mut v); v }` where <f>
               removes from `files` the claims whose recorded snapshot `get_file_version(..).is_err()`; otherwise `.current`
               when a reader falls back to the file as it is now (checkpoint.rs
               `initial_snapshot.unwrap_or_else(|| current_content.clone())`, virtual_attribution.rs
               `line_attributions_to_attributions(line_attrs, &file_content, ..)`); else ExtractError
  skipsWhenUnchanged   the `if is_from_checkpoint && current_content == previous_content { return Ok(None) }` of
               get_checkpoint_entry_for_file is present (the second site that makes a `.current` fallback harmful)
  effectiveReadsNoBlob  virtual_attribution.rs:from_just_working_log applies an entry's line numbers to the file
               as it is now without reading the entry's blob (no `blob_sha` / `get_file_version` in its body)

Writes lean/GitAiModel/Extracted/SnapshotReads.lean. Sources are read via C.REPO (VERIF_REPO honoured)."""
import os, re, sys

sys.path.insert(0, os.path.dirname(os.path.dirname(os.path.abspath(__file__))))
from vlib import common as C

OUT = os.path.join(C.LEAN, "GitAiModel", "Extracted", "SnapshotReads.lean")


class ExtractError(Exception):
    pass


def strip_tests(src):
    """cut the `#[cfg(test)] mod tests { … }` tail (keeps offsets of what precedes it)"""
    m = re.search(r"#\[cfg\(test\)\]\s*mod\s+\w+\s*\{", src)
    return src[:m.start()] if m else src


def blank_comments(src):
    """replace // comments by spaces (same length, newlines kept) so that patterns do not match prose"""
    def rep(m):
        return " " * len(m.group(0))
    return re.sub(r"//[^\n]*", rep, src)


def match_close(src, i, open_c="(", close_c=")"):
    depth = 0
    j = i
    while j < len(src):
        if src[j] == open_c:
            depth += 1
        elif src[j] == close_c:
            depth -= 1
            if depth == 0:
                return j
        j += 1
    raise ExtractError("unbalanced " + open_c)


def fn_spans(src):
    """[(name, start_of_body, end_of_body)] of every `fn name(...) {...}`"""
    out = []
    for m in re.finditer(r"\bfn\s+(\w+)\s*(<[^>{]*>)?\s*\(", src):
        p = match_close(src, src.index("(", m.end() - 1))
        b = src.find("{", p)
        semi = src.find(";", p)
        if b < 0 or (0 <= semi < b):
            continue
        e = match_close(src, b, "{", "}")
        out.append((m.group(1), b, e))
    return out


def enclosing_fn(spans, pos):
    best = None
    for name, b, e in spans:
        if b <= pos <= e and (best is None or b > best[1]):
            best = (name, b, e)
    return best


def chain_after(src, close_paren):
    """the method chain that consumes the call's value: [(method, args_text)] / '?'"""
    out = []
    j = close_paren + 1
    while True:
        m = re.compile(r"\s*\?").match(src, j)
        if m:
            out.append(("?", ""))
            j = m.end()
            continue
        m = re.compile(r"\s*\.\s*(\w+)\s*\(").match(src, j)
        if not m:
            return out
        e = match_close(src, m.end() - 1)
        out.append((m.group(1), src[m.end():e]))
        j = e + 1


def handler_of(chain):
    if not chain:
        return "other"
    m, args = chain[0]
    if m == "unwrap_or_default":
        return "empty"
    if m in ("unwrap_or_else", "unwrap_or"):
        return "current" if re.search(r"current|content", args) else "other"
    if m == "ok":
        return "option"
    if m == "is_err" or m == "is_ok":
        return "probe"
    if m == "?":
        return "propagate"
    if m in ("filter", "map", "and_then"):      # on the Option returned by initial_snapshot()
        return "option"
    return "other"


def stmt_start(src, pos):
    """start of the `let … =` statement containing pos (or of the enclosing block)"""
    i = max(src.rfind(";", 0, pos), src.rfind("{\n", 0, pos))
    return i + 1


def sites_of(rel, src_full):
    src = blank_comments(strip_tests(src_full))
    spans = fn_spans(src)
    out = []
    for m in re.finditer(r"\b(get_file_version|initial_snapshot)\s*\(", src):
        if re.search(r"\bfn\s+$", src[max(0, m.start() - 8):m.start()]):
            continue                                  # the definition
        callee = m.group(1)
        if callee == "initial_snapshot" and not re.search(r"\.\s*$", src[max(0, m.start() - 4):m.start()]):
            continue                                  # a local variable / not a method call
        close = match_close(src, m.end() - 1)
        chain = chain_after(src, close)
        f = enclosing_fn(spans, m.start())
        fname = f[0] if f else "?"
        line = src.count("\n", 0, m.start()) + 1
        # the `let x =` this read feeds (looking back over closures)
        back = src[max(0, m.start() - 400):m.start()]
        lets = re.findall(r"let\s+(?:mut\s+)?(\w+)\s*(?::[^=]+)?=", back)
        handler = handler_of(chain)
        # `let Ok(x) = <read> else { continue; };` — a failed read skips this file (loses its attribution): an `Option`
        if not chain and re.search(r"let\s+Ok\s*\(\s*\w+\s*\)\s*=\s*[\w.\s]*$", src[max(0, m.start() - 120):m.start()]) \
                and re.match(r"\s*else\s*\{\s*continue\s*;\s*\}", src[close + 1:close + 60]):
            handler, chain = "option", [("let-else-continue", "")]
        out.append({"file": rel, "line": line, "fn": fname, "callee": callee, "handler": handler,
                    "let": lets[-1] if lets else None, "chain": [c[0] for c in chain]})
    return out


def role_of(s):
    f, fn, let, callee = s["file"], s["fn"], s["let"], s["callee"]
    if f.endswith("commands/checkpoint.rs") and fn == "get_checkpoint_entry_for_file" and callee == "get_file_version":
        return {"from_checkpoint": "ckptPrevious", "previous_content": "ckptHumanOnly", "initial_snapshot": "ckptInitialSnapshot"}.get(let, "unknown")
    if f.endswith("git/repo_storage.rs") and callee == "get_file_version":
        if fn == "initial_snapshot":
            return "initialSnapshotFn"
        if s["handler"] == "probe":
            return "initialValidate"
        return "unknown"
    if callee == "initial_snapshot":
        if f.endswith("authorship/virtual_attribution.rs") and fn == "from_just_working_log":
            return "vaInitial"
        if f.endswith("authorship/rebase_authorship.rs"):
            return "rebaseCarry"
    # /repo 74442911: lines an agent's checkpoint recorded while a rebase / cherry-pick was stopped, carried over to the
    # continued commit through the entry's snapshot (post-rewrite path; not the commit path of Model/Snapshot.lean)
    if f.endswith("authorship/rebase_authorship.rs") and fn == "credit_lines_recorded_while_stopped" and callee == "get_file_version":
        return "rebaseStopped"
    return "unknown"


def body_of(src, name):
    for n, b, e in fn_spans(src):
        if n == name:
            return src[b:e + 1]
    raise ExtractError(f"function {name} not found")


def initial_lost(repo_storage, checkpoint, va):
    rs = blank_comments(strip_tests(repo_storage))
    body = body_of(rs, "read_initial_attributions")
    # after the file was read and decoded (whatever arm), the function hands the value to a method of self and
    # returns it: `self.<f>(&mut <v>); <v> }` — <f> probes each recorded snapshot and removes the claims of the lost ones
    drops = False
    for m in re.finditer(r"self\s*\.\s*(\w+)\s*\(\s*&mut\s+(\w+)\s*\)\s*;\s*(\w+)\s*\}\s*$", body):
        if m.group(2) != m.group(3) or not re.search(r"\bfn\s+" + m.group(1) + r"\b", rs):
            continue
        t = body_of(rs, m.group(1))
        if re.search(r"get_file_version\s*\([^)]*\)\s*\.\s*is_err\s*\(\s*\)", t) and re.search(r"\.files\s*\.\s*remove\s*\(", t):
            drops = True
    if drops:
        return "drop"
    ck = blank_comments(strip_tests(checkpoint))
    vb = body_of(blank_comments(strip_tests(va)), "from_just_working_log")
    if re.search(r"initial_snapshot\s*\.\s*unwrap_or_else\s*\(\s*\|\|\s*current_content", ck) or \
            re.search(r"line_attributions_to_attributions\s*\(\s*line_attrs\s*,\s*&file_content", vb):
        return "current"
    raise ExtractError("what a lost INITIAL snapshot becomes could not be determined")


def main():
    def rd(rel):
        return open(os.path.join(C.REPO, rel), encoding="utf-8").read()
    sites = []
    for root, _, fns in os.walk(os.path.join(C.REPO, "src")):
        for fn in sorted(fns):
            if fn.endswith(".rs"):
                p = os.path.join(root, fn)
                rel = os.path.relpath(p, C.REPO)
                txt = open(p, encoding="utf-8").read()
                if "get_file_version" in txt or "initial_snapshot" in txt:
                    sites += sites_of(rel, txt)
    sites.sort(key=lambda s: (s["file"], s["line"]))
    for s in sites:
        s["role"] = role_of(s)
    ck_src = rd("src/commands/checkpoint.rs")
    prev = [s for s in sites if s["role"] == "ckptPrevious"]
    if len(prev) != 1:
        raise ExtractError(f"expected exactly one `let from_checkpoint` snapshot read in get_checkpoint_entry_for_file, found {len(prev)}")
    if prev[0]["handler"] not in ("empty", "current"):
        raise ExtractError(f"from_checkpoint read: fallback {prev[0]['chain']} is neither empty nor the current content")
    ckpt_lost = prev[0]["handler"]
    init_lost = initial_lost(rd("src/git/repo_storage.rs"), ck_src, rd("src/authorship/virtual_attribution.rs"))
    ck_body = body_of(blank_comments(strip_tests(ck_src)), "get_checkpoint_entry_for_file")
    skips = bool(re.search(r"if\s+is_from_checkpoint\s*&&\s*current_content\s*==\s*previous_content\s*\{\s*return\s+Ok\s*\(\s*None\s*\)", ck_body))
    va_body = body_of(blank_comments(strip_tests(rd("src/authorship/virtual_attribution.rs"))), "from_just_working_log")
    eff_no_blob = not re.search(r"blob_sha|get_file_version", va_body)
    L = ["/- GENERATED by /verif/extract/snapshot_reads.py from src/**/*.rs (reads of working-log snapshot blobs) — do not edit. -/",
         "import GitAiModel.Model.Snapshot", "namespace GitAi.Extracted.SnapshotReads", "open GitAi.Snapshot", "",
         "/-- the modelled read sites -/",
         "inductive Role where",
         "  | ckptPrevious | ckptHumanOnly | ckptInitialSnapshot | initialSnapshotFn | initialValidate | vaInitial | rebaseCarry | rebaseStopped | unknown",
         "  deriving DecidableEq, Repr", "",
         "/-- what the caller does with a failed read: `\"\"`, the current content, an `Option` (`.ok()`), a test (`.is_err()`), `?`, other -/",
         "inductive Handler where", "  | empty | current | option | probe | propagate | other", "  deriving DecidableEq, Repr", "",
         "structure Site where", "  role : Role", "  handler : Handler", "  deriving DecidableEq, Repr", "",
         "def sites : List Site := ["]
    for i, s in enumerate(sites):
        L.append(f"  ⟨.{s['role']}, .{s['handler']}⟩{',' if i + 1 < len(sites) else ''}  -- {s['file']}:{s['line']} fn {s['fn']}: {s['callee']}(..)"
                 f"{''.join('.' + c if c != '?' else '?' for c in s['chain'])}")
    L += ["]", "",
          "/-- parameters of Model/Snapshot.lean as the source has them now -/",
          f"def params : Params := ⟨.{ckpt_lost}, .{init_lost}⟩", "",
          "/-- `if is_from_checkpoint && current_content == previous_content { return Ok(None) }` is present -/",
          f"def skipsWhenUnchanged : Bool := {str(skips).lower()}", "",
          "/-- `from_just_working_log` applies an entry's line numbers without reading its blob -/",
          f"def effectiveReadsNoBlob : Bool := {str(eff_no_blob).lower()}", "",
          "end GitAi.Extracted.SnapshotReads"]
    C.write_if_changed(OUT, "\n".join(L) + "\n")
    return {"sites": sites, "ckptLost": ckpt_lost, "initialLost": init_lost, "skipsWhenUnchanged": skips, "effectiveReadsNoBlob": eff_no_blob}


if __name__ == "__main__":
    import json
    print(json.dumps(main(), indent=1))
