#!/usr/bin/env python3
"""Extract, from the current source of `rewrite_authorship_after_squash_or_rebase`
(src/authorship/rebase_authorship.rs), WHICH commit five call sites name:

  finalState    2nd argument of  get_committed_files_content(repo, <X>, &changed_files)
  baseSha       right-hand side of  authorship_log.metadata.base_commit_sha = <X>.to_string();
  noteOn        2nd argument of the LAST  notes_add(repo, <X>, &authorship_json)
  metaBaseSha   3rd argument of  build_metadata_only_authorship_log_from_source_notes(repo, &source_commits, <X>)
  metaNoteOn    2nd argument of the FIRST  notes_add(repo, <X>, &authorship_json)  (the "no AI-touched file" branch)

and that `build_metadata_only_authorship_log_from_source_notes` assigns its third parameter to
`base_commit_sha`. Each <X> must be one of the three commit variables the function knows
(`source_head_sha`, `target_branch_head_sha`, `merge_commit_sha`, possibly behind `&` / `.as_str()` /
`.clone()`); anything else raises ExtractError (the check reports it as a broken tie).

Writes lean/GitAiModel/Extracted/SquashArgs.lean."""
import os, re, sys

sys.path.insert(0, os.path.dirname(os.path.dirname(os.path.abspath(__file__))))
from vlib import common as C

OUT = os.path.join(C.LEAN, "GitAiModel", "Extracted", "SquashArgs.lean")
SRC = "src/authorship/rebase_authorship.rs"
VARS = {"source_head_sha": ".sourceHead", "target_branch_head_sha": ".targetHead", "merge_commit_sha": ".mergeCommit"}


class ExtractError(Exception):
    pass


def fn_body(src, name):
    m = re.search(r"fn\s+" + re.escape(name) + r"\s*\(", src)
    if not m:
        raise ExtractError(f"function {name} not found")
    i = src.index("{", m.end())
    depth, j = 0, i
    while j < len(src):
        if src[j] == "{":
            depth += 1
        elif src[j] == "}":
            depth -= 1
            if depth == 0:
                return src[i:j + 1]
        j += 1
    raise ExtractError(f"unbalanced braces in {name}")


def strip_comments(s):
    return re.sub(r"//[^\n]*", "", s)


def which(expr, what):
    e = expr.strip()
    e = re.sub(r"^&\s*", "", e)
    e = re.sub(r"\.(as_str|clone|to_string|to_owned)\(\)$", "", e).strip()
    if e not in VARS:
        raise ExtractError(f"{what}: argument {expr.strip()!r} is not one of {sorted(VARS)}")
    return VARS[e]


def call_args(body, callee, what):
    """argument lists (split at top-level commas) of every call of `callee` in `body`, in order"""
    out = []
    for m in re.finditer(r"(?<![A-Za-z0-9_])" + re.escape(callee) + r"\s*\(", body):
        i = m.end()
        depth, j, args, cur = 1, i, [], ""
        while j < len(body) and depth:
            ch = body[j]
            if ch in "([{":
                depth += 1
            elif ch in ")]}":
                depth -= 1
                if depth == 0:
                    break
            if ch == "," and depth == 1:
                args.append(cur); cur = ""
            else:
                cur += ch
            j += 1
        if cur.strip():
            args.append(cur)
        out.append([a.strip() for a in args])
    if not out:
        raise ExtractError(f"{what}: no call of {callee}")
    return out


def extract():
    src = open(os.path.join(C.REPO, SRC), encoding="utf-8").read()
    body = strip_comments(fn_body(src, "rewrite_authorship_after_squash_or_rebase"))
    # the commit variables mean what the model takes them to mean
    if not re.search(r"source_head_sha\s*:\s*&str", src[src.index("fn rewrite_authorship_after_squash_or_rebase"):][:400]) or \
       not re.search(r"merge_commit_sha\s*:\s*&str", src[src.index("fn rewrite_authorship_after_squash_or_rebase"):][:400]):
        raise ExtractError("parameters source_head_sha / merge_commit_sha not found")
    if not re.search(r"let\s+target_branch_head\s*=\s*merge_commit\s*\.\s*parent_on_refname\s*\(\s*merge_ref\s*\)", body) or \
       not re.search(r"let\s+merge_commit\s*=\s*repo\s*\.\s*find_commit\s*\(\s*merge_commit_sha\s*\.to_string\(\)\s*\)", body) or \
       not re.search(r"let\s+target_branch_head_sha\s*=\s*target_branch_head\s*\.\s*id\(\)\s*\.to_string\(\)", body):
        raise ExtractError("target_branch_head_sha is no longer the parent of merge_commit_sha on merge_ref")
    g = call_args(body, "get_committed_files_content", "finalState")
    if len(g) != 1 or len(g[0]) != 3 or g[0][2].replace(" ", "") != "&changed_files":
        raise ExtractError(f"get_committed_files_content: unexpected call shape {g}")
    final_state = which(g[0][1], "finalState")
    ms = re.findall(r"authorship_log\s*\.\s*metadata\s*\.\s*base_commit_sha\s*=\s*([^;]+);", body)
    if len(ms) != 1:
        raise ExtractError(f"base_commit_sha assigned {len(ms)} times")
    base_sha = which(ms[0], "baseSha")
    n = call_args(body, "notes_add", "noteOn")
    if len(n) != 2 or any(len(a) != 3 or a[2].replace(" ", "") != "&authorship_json" for a in n):
        raise ExtractError(f"notes_add: unexpected call shapes {n}")
    meta_note_on, note_on = which(n[0][1], "metaNoteOn"), which(n[1][1], "noteOn")
    b = call_args(body, "build_metadata_only_authorship_log_from_source_notes", "metaBaseSha")
    if len(b) != 1 or len(b[0]) != 3:
        raise ExtractError(f"build_metadata_only_authorship_log_from_source_notes: unexpected call shape {b}")
    meta_base = which(b[0][2], "metaBaseSha")
    # the merged attributions are projected onto exactly that final state, target first
    if not re.search(r"merge_attributions_favoring_first\s*\(\s*target_va\s*,\s*source_va\s*,\s*committed_files\s*\)", body):
        raise ExtractError("merge_attributions_favoring_first(target_va, source_va, committed_files) not found")
    if not re.search(r"let\s+committed_files\s*=\s*get_committed_files_content", body):
        raise ExtractError("committed_files is not bound to get_committed_files_content's result")
    mb = strip_comments(fn_body(src, "build_metadata_only_authorship_log_from_source_notes"))
    sig = src[src.index("fn build_metadata_only_authorship_log_from_source_notes"):][:300]
    if not re.search(r"repo\s*:[^,]+,\s*source_commits\s*:[^,]+,\s*target_commit_sha\s*:\s*&str", sig) or \
       not re.search(r"authorship_log\s*\.\s*metadata\s*\.\s*base_commit_sha\s*=\s*target_commit_sha\s*\.to_string\(\)", mb):
        raise ExtractError("build_metadata_only_authorship_log_from_source_notes no longer records its 3rd parameter as base")
    return {"finalState": final_state, "baseSha": base_sha, "noteOn": note_on, "metaBaseSha": meta_base, "metaNoteOn": meta_note_on}


def main():
    a = extract()
    lines = [f"/- GENERATED by /verif/extract/squash_args.py from {SRC} (rewrite_authorship_after_squash_or_rebase) — do not edit. -/",
             "import GitAiModel.Model.SquashNote", "namespace GitAi.Extracted.SquashArgs", "open GitAi.SquashNote", "",
             "/-- which commit each call site of `rewrite_authorship_after_squash_or_rebase` names -/",
             f"def args : Args := {{ finalState := {a['finalState']}, baseSha := {a['baseSha']}, noteOn := {a['noteOn']}, "
             f"metaBaseSha := {a['metaBaseSha']}, metaNoteOn := {a['metaNoteOn']} }}", "",
             "end GitAi.Extracted.SquashArgs"]
    C.write_if_changed(OUT, "\n".join(lines) + "\n")
    return a


if __name__ == "__main__":
    print(main())
