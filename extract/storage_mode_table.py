#!/usr/bin/env python3
"""Extract the note-writer inventory and the storage-mode filter shape of git-ai into
lean/GitAiModel/Extracted/StorageModeTable.lean (regenerated on every C08 run; DESIGN §3.1).

What is read from C.REPO/src (non-test, non-verif-hooks code only):
  * every call site of `notes_add(`, `notes_add_batch(`, `notes_add_blob_batch(`, `save_stash_note(`
    and `.serialize_to_string(`; the innermost enclosing `fn` of a notes-writing call is a *writer*
  * per writer: the target ref (refs/notes/ai, or refs/notes/ai-stash for `save_stash_note`),
    whether its prompts can come from the working log (body mentions a working-log source, or calls
    — transitively, by unique function name — a function that does), and whether the storage-mode
    filter `apply_prompt_storage_mode(repo, &mut X.metadata.prompts)` (or the same `match` inline)
    runs on the object X that is serialised, before the serialisation
    — or, second recognised shape, the filter applied to a local map that is then merged:
    `apply_prompt_storage_mode(repo, &mut M); X.metadata.prompts.extend(M)` with nothing else entering X's prompts
  * the filter itself: `post_commit.rs: apply_prompt_storage_mode` must be a `match` on
    `effective_prompt_storage(..)` with arms Local / Notes / Default; each arm is classified as
    strip / redact / uploadThenStrip / keep
  * `enqueue_prompt_messages_to_cas` clears the messages of every prompt it uploads; its control
    flow (`EnqShape`): what a failing `serde_json::to_value` / `enqueue_cas_object` inside the loop does
    (`?` = propagate, or log-and-`continue` = skip), whether url-set and `messages.clear()` follow the
    enqueue unconditionally, that every other exit of the function is an `Err` (`?`) and the only `Ok` is
    the final `Ok(())`; and of the Default arm: strip on `Err`, strip when not enqueueing
  * secrets.rs constants MIN_SECRET_LENGTH, MAX_SECRET_LENGTH, REDACT_VISIBLE_CHARS, the extra
    characters of `is_secret_char`, the number of `*` in `redact_secret`, and which `Message`
    variants `redact_secrets_from_prompts` rewrites
Every `.serialize_to_string(` outside a writer must be in NON_WRITER_SERIALIZERS (with the reason it
cannot put prompts under refs/notes/ai). Anything else raises ExtractError (a broken tie).
"""
import os, re, sys

sys.path.insert(0, os.path.dirname(os.path.dirname(os.path.abspath(__file__))))
from vlib import common as C

OUT = os.path.join(C.LEAN, "GitAiModel", "Extracted", "StorageModeTable.lean")

NOTE_WRITE_CALLS = ["notes_add", "notes_add_batch", "notes_add_blob_batch", "save_stash_note"]
WL_SOURCES = ["working_log_for_base_commit", "read_all_checkpoints", "read_initial_attributions"]
FILTER_FN = "apply_prompt_storage_mode"
# serialisers that are not note writers: fn name -> why prompts serialised there cannot reach refs/notes/ai
NON_WRITER_SERIALIZERS = {
    "_serialize_to_writer": "generic writer adaptor (no caller in src)",
    "remap_note_content_for_target_commit": "re-serialises an existing note text (input is a note); returned to the remap writers, which are rows of the table",
    "show_authorship": "commands/show.rs: prints the note to stdout (println!), writes nothing",
    "note_carried_over_without_lines": "rebase_authorship.rs (082b3ae9): returns either an existing note's text "
        "(remap_note_content_for_target_commit) or the serialised COMPUTED note of a rewritten commit; both callers "
        "(rewrite_authorship_after_rebase_v2, rewrite_authorship_after_cherry_pick - rows of the table) call it only in the "
        "else-branch of `if computed_note_has_payload`, where the computed note has no attestations and an EMPTY prompts map, "
        "and what those writers hold is note-derived anyway (no working-log read reachable). Checked below: CLEAN_CALLERS_ONLY",
}
# non-writer serialisers whose text goes back to a writer: every call site must be inside a writer that is a row of the table
# and from which no working-log read is reachable (a new caller on a working-log path breaks the tie instead of passing)
CLEAN_CALLERS_ONLY = ["note_carried_over_without_lines"]
# definitions of the low-level writers themselves (they take text, not prompts)
PRIMITIVES = {"notes_add", "notes_add_batch", "notes_add_blob_batch", "save_stash_note"}


class ExtractError(Exception):
    pass


# ------------------------------------------------------------------ a small Rust lexer

def blank_noncode(src):
    """Return src with comments removed and the *contents* of string/char literals blanked
    (same length, newlines kept), so that braces and identifiers can be matched textually."""
    out, i, n = [], 0, len(src)

    def blank(seg):
        return "".join("\n" if ch == "\n" else " " for ch in seg)

    while i < n:
        c = src[i]
        if src.startswith("//", i):
            j = src.find("\n", i)
            j = n if j < 0 else j
            out.append(blank(src[i:j])); i = j
        elif src.startswith("/*", i):
            depth, j = 1, i + 2
            while j < n and depth:
                if src.startswith("/*", j): depth += 1; j += 2
                elif src.startswith("*/", j): depth -= 1; j += 2
                else: j += 1
            out.append(blank(src[i:j])); i = j
        elif c == "r" and re.match(r'r#*"', src[i:i + 8]) and (i == 0 or not (src[i - 1].isalnum() or src[i - 1] == "_")):
            m = re.match(r'r(#*)"', src[i:])
            close = '"' + m.group(1)
            j = src.find(close, i + len(m.group(0)))
            j = n if j < 0 else j + len(close)
            out.append('r"' + blank(src[i + 2:j - 1]) + '"'); i = j
        elif c == '"':
            j = i + 1
            while j < n and src[j] != '"':
                j += 2 if src[j] == "\\" else 1
            out.append('"' + blank(src[i + 1:j]) + '"'); i = j + 1
        elif c == "'":
            # char literal or lifetime
            m = re.match(r"'(\\x[0-9a-fA-F]{2}|\\u\{[0-9a-fA-F]+\}|\\.|[^\\'])'", src[i:])
            if m:
                out.append("'" + " " * (len(m.group(0)) - 2) + "'"); i += len(m.group(0))
            else:
                out.append(c); i += 1
        else:
            out.append(c); i += 1
    return "".join(out)


def match_brace(code, i):
    """code[i] == '{' → index of the matching '}'."""
    depth, j, n = 0, i, len(code)
    while j < n:
        if code[j] == "{": depth += 1
        elif code[j] == "}":
            depth -= 1
            if depth == 0: return j
        j += 1
    raise ExtractError("unbalanced braces")


def strip_cfg_blocks(code):
    """Blank out `#[cfg(test)]` items and `#[cfg(feature = "verif-hooks")]` items (mods / fns):
    they are not part of the shipped note-writing code."""
    # string contents are blanked, so the feature name is gone: match `#[cfg(feature = "...")]` on raw text beforehand
    pat = re.compile(r"#\[cfg\((?:test|all\(test[^\]]*|VERIFHOOKS)\)\]\s*(?:#\[[^\]]*\]\s*)*(?:pub(?:\([^)]*\))?\s+)?(mod|fn|use|static|const|impl)\b")
    out = code
    while True:
        m = pat.search(out)
        if not m: break
        kind = m.group(1)
        if kind in ("mod", "fn", "impl"):
            b = out.find("{", m.end())
            semi = out.find(";", m.end())
            if semi != -1 and (b == -1 or semi < b):
                e = semi
            else:
                e = match_brace(out, b)
        else:
            e = out.find(";", m.end())
        seg = out[m.start():e + 1]
        out = out[:m.start()] + "".join("\n" if ch == "\n" else " " for ch in seg) + out[e + 1:]
    return out


FN_RE = re.compile(r"\bfn\s+([A-Za-z_][A-Za-z0-9_]*)\s*(?:<[^>{;(]*(?:<[^>]*>[^>{;(]*)*>)?\s*\(")


def functions(code):
    """[(name, header_start, body_start, body_end)] for every fn with a body."""
    res = []
    for m in FN_RE.finditer(code):
        # find the body '{' before any ';' at depth 0 of parens
        j, depth = m.end() - 1, 0
        n = len(code)
        while j < n:
            ch = code[j]
            if ch in "([": depth += 1
            elif ch in ")]": depth -= 1
            elif ch == "{" and depth == 0: break
            elif ch == ";" and depth == 0: j = -1; break
            j += 1
        if j in (-1, n):
            continue
        res.append((m.group(1), m.start(), j, match_brace(code, j)))
    return res


def load_sources():
    root = os.path.join(C.REPO, "src")
    files = {}
    for d, _, fs in os.walk(root):
        for fn in fs:
            if fn.endswith(".rs"):
                p = os.path.join(d, fn)
                raw = open(p, encoding="utf-8").read()
                raw = re.sub(r'#\[cfg\(feature\s*=\s*"verif-hooks"\)\]', "#[cfg(VERIFHOOKS)]", raw)
                files[os.path.relpath(p, C.REPO)] = strip_cfg_blocks(blank_noncode(raw))
    if not files:
        raise ExtractError(f"no sources under {root}")
    return files


def innermost(fns, pos):
    best = None
    for f in fns:
        if f[2] <= pos <= f[3] and (best is None or f[2] > best[2]):
            best = f
    return best


# ------------------------------------------------------------------ extraction

def extract():
    files = load_sources()
    fn_index = {}          # name -> [(file, body)]
    per_file = {}
    for path, code in files.items():
        fns = functions(code)
        per_file[path] = fns
        for (name, hs, bs, be) in fns:
            fn_index.setdefault(name, []).append((path, code[bs:be + 1]))

    # --- taint: functions from which a working-log read is reachable (by unique fn name)
    def mentions(body, name):
        return re.search(r"\b" + re.escape(name) + r"\s*(?:::<[^>]*>)?\s*\(", body) is not None

    tainted = set()
    for name, defs in fn_index.items():
        if any(any(mentions(b, s) for s in WL_SOURCES) for _, b in defs):
            tainted.add(name)
    skipped_ambiguous = set()
    changed = True
    while changed:
        changed = False
        for name, defs in fn_index.items():
            if name in tainted: continue
            for _, b in defs:
                for t in list(tainted):
                    if len(fn_index.get(t, [])) != 1 or len(t) < 8:
                        # generic / overloaded names would taint everything: only follow unique, specific names
                        if t not in WL_SOURCES: skipped_ambiguous.add(t)
                        continue
                    if mentions(b, t):
                        tainted.add(name); changed = True; break
                if name in tainted: break
    # the propagation above is name based; make sure the names that matter are followed
    for must in ("from_just_working_log", "from_working_log_for_commit"):
        if must not in tainted:
            raise ExtractError(f"{must} is expected to read the working log (virtual_attribution.rs changed shape?)")

    # --- call sites
    writers, serializers = {}, []
    for path, code in files.items():
        fns = per_file[path]
        for call in NOTE_WRITE_CALLS:
            for m in re.finditer(r"(?<![A-Za-z0-9_])" + call + r"\s*\(", code):
                if re.search(r"\bfn\s+$", code[:m.start()]):
                    continue  # the definition
                f = innermost(fns, m.start())
                if f is None:
                    raise ExtractError(f"{path}: {call} call outside any fn")
                if f[0] in PRIMITIVES:
                    continue
                key = (path, f[0])
                w = writers.setdefault(key, {"calls": [], "fn": f})
                w["calls"].append((call, m.start()))
        for m in re.finditer(r"\.\s*serialize_to_string\s*\(", code):
            f = innermost(fns, m.start())
            if f is None:
                raise ExtractError(f"{path}: serialize_to_string call outside any fn")
            recv = re.search(r"([A-Za-z_][A-Za-z0-9_]*)\s*$", code[:m.start()])
            serializers.append((path, f, m.start(), recv.group(1) if recv else None))

    if not writers:
        raise ExtractError("no note-writing call sites found")

    rows = []
    for (path, name), w in sorted(writers.items()):
        code = files[path]
        _, hs, bs, be = w["fn"]
        body = code[bs:be + 1]
        target = "stashNotes" if all(c == "save_stash_note" for c, _ in w["calls"]) else "aiNotes"
        if target == "stashNotes" and any(c != "save_stash_note" for c, _ in w["calls"]):
            raise ExtractError(f"{name}: writes both refs")
        reads_wl = name in tainted
        # filter: applied to X.metadata.prompts where X is every receiver serialised in this fn
        sers = [(p, f, pos, recv) for (p, f, pos, recv) in serializers if p == path and f[0] == name]
        first_write = min(pos for _, pos in w["calls"])
        filt = [(m.start(), m.group(1)) for m in re.finditer(
            r"\b" + FILTER_FN + r"\s*\(\s*[A-Za-z_][A-Za-z0-9_]*\s*,\s*&mut\s+([A-Za-z_][A-Za-z0-9_]*)\s*\.\s*metadata\s*\.\s*prompts\s*\)", code[bs:be + 1])]
        # second recognised shape: the records that come from the working log are collected in a LOCAL map M, the filter is
        # applied to M, and M is then merged into the serialised object: `FILTER(repo, &mut M); X.metadata.prompts.extend(M)`.
        # Conditions: nothing is put into M between the filter and the merge; X.metadata.prompts receives nothing else in
        # this function (no other insert / extend / append / assignment); no message list is assigned or grown anywhere
        # in the function (records already in X may only have their counters updated).
        for m in re.finditer(r"\b" + FILTER_FN + r"\s*\(\s*[A-Za-z_][A-Za-z0-9_]*\s*,\s*&mut\s+([A-Za-z_][A-Za-z0-9_]*)\s*\)", body):
            M = m.group(1)
            mm = re.search(r"\b([A-Za-z_][A-Za-z0-9_]*)\s*\.\s*metadata\s*\.\s*prompts\s*\.\s*extend\s*\(\s*" + re.escape(M) + r"\s*\)", body[m.end():])
            if not mm:
                continue
            X = mm.group(1)
            between = body[m.end():m.end() + mm.start()]
            if re.search(r"\b" + re.escape(M) + r"\s*\.\s*(insert|extend|append|entry)\b", between) or re.search(r"\b" + re.escape(M) + r"\s*=[^=]", between):
                continue
            others = [o for o in re.finditer(re.escape(X) + r"\s*\.\s*metadata\s*\.\s*prompts\s*(=[^=]|\.\s*(insert|extend|append|entry)\b)", body)
                      if o.start() != m.end() + mm.start()]
            if others:
                continue
            if re.search(r"\.\s*messages\s*(=[^=]|\.\s*(push|extend|append|insert)\b)", body):
                continue
            filt.append((m.end() + mm.end(), X))      # effective position: after the sanctioned merge
        filt.sort()
        inline = re.search(r"match\s+[A-Za-z_][A-Za-z0-9_.()&: ]*\{[^}]*PromptStorageMode::Local", body) is not None
        if inline:
            raise ExtractError(f"{name}: inline PromptStorageMode match — the filter is expected to be the single function {FILTER_FN}")
        filters = False
        if filt:
            ok_all = True
            for (p, f, pos, recv) in sers:
                rel = pos - bs
                before = [x for (fp, x) in filt if fp < rel and x == recv]
                if not before:
                    ok_all = False
                    continue
                # no re-assignment of the prompts between the filter and the serialisation
                last = max(fp for (fp, x) in filt if fp < rel and x == recv)
                between = body[last:rel]
                if re.search(re.escape(recv) + r"\s*\.\s*metadata\s*\.\s*prompts\s*(=[^=]|\.\s*(insert|extend|append)\b)", between) or \
                   re.search(re.escape(recv) + r"\s*=[^=]", between):
                    ok_all = False
            # a writer that filters must serialise something itself, before the first write
            filters = ok_all and bool(sers) and all(fp + bs < max(pos for _, pos in w["calls"]) for fp, _ in filt)
        rows.append({"name": name, "file": path, "target": target, "reads_wl": reads_wl, "filters": filters,
                     "calls": sorted(set(c for c, _ in w["calls"])), "serializes": len(sers)})

    writer_names = {(r["file"], r["name"]) for r in rows}
    for (p, f, pos, recv) in serializers:
        if (p, f[0]) in writer_names: continue
        if f[0] == "serialize_to_string": continue
        if f[0] not in NON_WRITER_SERIALIZERS:
            raise ExtractError(f"{p}: fn {f[0]} serialises an authorship log but is neither a note writer nor a known non-writer")
    by_row = {(r["file"], r["name"]): r for r in rows}
    for helper in CLEAN_CALLERS_ONLY:
        if len(fn_index.get(helper, [])) > 1:
            raise ExtractError(f"{helper}: defined more than once")
        for path, code in files.items():
            for m in re.finditer(r"(?<![A-Za-z0-9_])" + re.escape(helper) + r"\s*\(", code):
                if re.search(r"\bfn\s+$", code[:m.start()]):
                    continue  # the definition
                f = innermost(per_file[path], m.start())
                row = by_row.get((path, f[0])) if f else None
                if row is None or row["reads_wl"] or helper in tainted:
                    raise ExtractError(f"{path}: {helper} is called from {f[0] if f else 'outside any fn'}, which is not a note writer "
                                       f"free of working-log reads (its NON_WRITER_SERIALIZERS reason no longer holds)")
                # the call site's own guard: it sits in the no-payload branch of the writer
                fbody_before = code[f[2]:m.start()]
                guard = re.findall(r"let\s+computed_note_has_payload\s*=\s*!\s*([A-Za-z_][A-Za-z0-9_]*)\s*\.\s*attestations", fbody_before)
                arg2 = re.match(r"\s*\(\s*[^,()]+,\s*&\s*([A-Za-z_][A-Za-z0-9_]*)\s*,", code[m.end() - 1:])
                if not guard or not arg2 or arg2.group(1) != guard[-1]:
                    raise ExtractError(f"{path}: {helper} call in {f[0]}: the note passed is not the one `computed_note_has_payload` was computed on")
                if not re.search(r"let\s+computed_note_has_payload\s*=\s*!\s*([A-Za-z_][A-Za-z0-9_]*)\s*\.\s*attestations\s*\.\s*is_empty\s*\(\s*\)\s*"
                                 r"\|\|\s*!\s*\1\s*\.\s*metadata\s*\.\s*prompts\s*\.\s*is_empty\s*\(\s*\)\s*;\s*"
                                 r"let\s+[A-Za-z_][A-Za-z0-9_]*\s*=\s*if\s+computed_note_has_payload\s*\{", fbody_before) \
                   or "} else {" not in fbody_before[fbody_before.rfind("computed_note_has_payload"):]:
                    raise ExtractError(f"{path}: {helper} call in {f[0]} is not in the else-branch of `if computed_note_has_payload` "
                                       f"(`!X.attestations.is_empty() || !X.metadata.prompts.is_empty()`)")

    # --- the filter
    pc = files.get(os.path.join("src", "authorship", "post_commit.rs"))
    if pc is None:
        raise ExtractError("post_commit.rs not found")
    fdefs = [f for f in per_file[os.path.join("src", "authorship", "post_commit.rs")] if f[0] == FILTER_FN]
    if len(fdefs) != 1:
        raise ExtractError(f"{FILTER_FN} not found exactly once in post_commit.rs")
    fbody = pc[fdefs[0][2]:fdefs[0][3] + 1]
    m = re.search(r"let\s+([a-z_]+)\s*=\s*Config::get\(\)\s*\.\s*effective_prompt_storage\s*\(\s*&Some\(\s*repo\.clone\(\)\s*\)\s*\)\s*;", fbody)
    if not m:
        raise ExtractError("filter: effective mode is not `Config::get().effective_prompt_storage(&Some(repo.clone()))`")
    mm = re.search(r"match\s+" + m.group(1) + r"\s*\{", fbody)
    if not mm:
        raise ExtractError("filter: no `match` on the effective mode")
    mb = fbody[mm.end() - 1: match_brace(fbody, mm.end() - 1) + 1]
    if fbody[match_brace(fbody, mm.end() - 1) + 1:].strip() not in ("}",):
        raise ExtractError("filter: code after the match")
    arms = {}
    for am in re.finditer(r"PromptStorageMode::(Local|Notes|Default)\s*=>\s*\{", mb):
        e = match_brace(mb, am.end() - 1)
        if am.group(1) in arms:
            raise ExtractError("filter: duplicate arm")
        arms[am.group(1)] = mb[am.end() - 1:e + 1]
    if set(arms) != {"Local", "Notes", "Default"} or re.search(r"\b_\s*=>", mb):
        raise ExtractError(f"filter: arms {sorted(arms)} (expected Local, Notes, Default, no wildcard)")

    def classify_arm(a):
        strip = len(re.findall(r"\bstrip_prompt_messages\s*\(\s*prompts\s*\)", a))
        red = len(re.findall(r"\bredact_secrets_from_prompts\s*\(\s*prompts\s*\)", a))
        enq = re.search(r"\benqueue_prompt_messages_to_cas\s*\(\s*repo\s*,\s*prompts\s*\)", a)
        if enq:
            # if C { redact; if let Err(..) = enqueue(..) { strip } } else { strip }
            im = re.search(r"\bif\s+([a-z_]+)\s*\{", a)
            if not im: return "keep"
            te = match_brace(a, im.end() - 1)
            then_b = a[im.end() - 1:te + 1]
            em = re.match(r"\s*else\s*\{", a[te + 1:])
            if not em: return "keep"
            else_b = a[te + 1 + em.end() - 1: match_brace(a, te + 1 + em.end() - 1) + 1]
            if not re.search(r"\bstrip_prompt_messages\s*\(\s*prompts\s*\)", else_b): return "keep"
            r_pos = then_b.find("redact_secrets_from_prompts")
            e_m = re.search(r"if\s+let\s+Err\s*\([^)]*\)\s*=\s*enqueue_prompt_messages_to_cas\s*\(\s*repo\s*,\s*prompts\s*\)\s*\{", then_b)
            if r_pos < 0 or not e_m or r_pos > e_m.start(): return "keep"
            err_b = then_b[e_m.end() - 1: match_brace(then_b, e_m.end() - 1) + 1]
            if not re.search(r"\bstrip_prompt_messages\s*\(\s*prompts\s*\)", err_b): return "keep"
            return "uploadThenStrip"
        if strip and not red: return "strip"
        if red and not strip: return "redact"
        if strip and red: return "strip"   # redact then strip: nothing is kept
        return "keep"

    policy = {k: classify_arm(v) for k, v in arms.items()}
    # the upload function has exactly one caller, the filter (the shape's `stripsOnErr` is a fact about that caller)
    enq_callers = []
    for path, code in files.items():
        for m in re.finditer(r"(?<![A-Za-z0-9_])enqueue_prompt_messages_to_cas\s*\(", code):
            if re.search(r"\bfn\s+$", code[:m.start()]):
                continue
            f = innermost(per_file[path], m.start())
            enq_callers.append((path, f[0] if f else None))
    if enq_callers != [(os.path.join("src", "authorship", "post_commit.rs"), FILTER_FN)]:
        raise ExtractError(f"enqueue_prompt_messages_to_cas is expected to be called once, from {FILTER_FN}; call sites: {enq_callers}")
    shape = enqueue_shape(pc, per_file[os.path.join("src", "authorship", "post_commit.rs")], arms["Default"])

    enq_defs = [f for f in per_file[os.path.join("src", "authorship", "post_commit.rs")] if f[0] == "enqueue_prompt_messages_to_cas"]
    if len(enq_defs) != 1:
        raise ExtractError("enqueue_prompt_messages_to_cas not found")
    eb = pc[enq_defs[0][2]:enq_defs[0][3] + 1]
    em = re.search(r"if\s*!\s*prompt\.messages\.is_empty\(\)\s*\{", eb)
    enqueue_clears = False
    if em:
        blk = eb[em.end() - 1: match_brace(eb, em.end() - 1) + 1]
        enqueue_clears = re.search(r"prompt\.messages\.clear\(\)\s*;", blk) is not None and "enqueue_cas_object" in blk
    if not enqueue_clears:
        raise ExtractError("enqueue_prompt_messages_to_cas: does not clear the messages of uploaded prompts")

    # --- secrets.rs
    sp = os.path.join(C.REPO, "src", "authorship", "secrets.rs")
    sraw = open(sp, encoding="utf-8").read()
    consts = {}
    for k in ("MIN_SECRET_LENGTH", "MAX_SECRET_LENGTH", "REDACT_VISIBLE_CHARS"):
        m = re.search(r"const\s+" + k + r"\s*:\s*usize\s*=\s*(\d+)\s*;", sraw)
        if not m: raise ExtractError(f"secrets.rs: const {k} not found")
        consts[k] = int(m.group(1))
    m = re.search(r"fn\s+is_secret_char\s*\(\s*b\s*:\s*u8\s*\)\s*->\s*bool\s*\{\s*b\.is_ascii_alphanumeric\(\)\s*\|\|\s*matches!\(\s*b\s*,([^)]*)\)\s*\}", sraw)
    if not m: raise ExtractError("secrets.rs: is_secret_char has an unexpected shape")
    extra = re.findall(r"b'(.)'", m.group(1))
    if len(extra) != len([x for x in m.group(1).split("|") if x.strip()]):
        raise ExtractError("secrets.rs: is_secret_char alternatives not all byte literals")
    m = re.search(r'fn\s+redact_secret\s*\([^)]*\)\s*->\s*String\s*\{(.*?)\n\}', sraw, re.S)
    if not m: raise ExtractError("secrets.rs: redact_secret not found")
    rb = m.group(1)
    fm = re.search(r'format!\(\s*"\{\}(\*+)\{\}"\s*,\s*prefix\s*,\s*suffix\s*\)', rb)
    if not fm or "REDACT_VISIBLE_CHARS * 2" not in rb or '"*".repeat(len)' not in rb \
            or "&secret[..REDACT_VISIBLE_CHARS]" not in rb or "&secret[len - REDACT_VISIBLE_CHARS..]" not in rb:
        raise ExtractError("secrets.rs: redact_secret has an unexpected shape")
    stars = len(fm.group(1))
    em_ = re.search(r"fn\s+extract_tokens\s*\([^)]*\)[^{]*\{(.*?)\n\}", sraw, re.S)
    if not em_ or "(MIN_SECRET_LENGTH..=MAX_SECRET_LENGTH).contains(&len)" not in em_.group(1):
        raise ExtractError("secrets.rs: extract_tokens window test has an unexpected shape")
    m = re.search(r"pub\s+fn\s+redact_secrets_from_prompts\s*\([^)]*\)[^{]*\{(.*?)\n\}", sraw, re.S)
    if not m: raise ExtractError("secrets.rs: redact_secrets_from_prompts not found")
    pb = blank_noncode(m.group(1))
    am = re.search(r"match\s+message\s*\{(.*)\}", pb, re.S)
    if not am: raise ExtractError("redact_secrets_from_prompts: no match on message")
    arm_txt = am.group(1)
    rm = re.search(r"((?:\s*\|?\s*Message::[A-Za-z]+\s*\{\s*text\s*,\s*\.\.\s*\})+)\s*=>\s*\{([^}]*)\}", arm_txt)
    if not rm or "redact_secrets_in_text(text)" not in rm.group(2) or "*text = redacted" not in rm.group(2):
        raise ExtractError("redact_secrets_from_prompts: text arm has an unexpected shape")
    kinds = re.findall(r"Message::([A-Za-z]+)", rm.group(1))
    rest = arm_txt[rm.end():]
    skipped = re.findall(r"Message::([A-Za-z]+)\s*\{\s*\.\.\s*\}\s*=>\s*\{\s*\}", rest)
    # arms that hand the tool input to the JSON traversal (and do nothing else)
    json_kinds = re.findall(r"Message::([A-Za-z]+)\s*\{\s*input\s*,\s*\.\.\s*\}\s*=>\s*\{\s*total_redactions\s*\+=\s*"
                            r"redact_secrets_in_json\(\s*input\s*\)\s*;\s*\}", rest)
    jshape = json_shape(sraw)
    tr = blank_noncode(open(os.path.join(C.REPO, "src", "authorship", "transcript.rs"), encoding="utf-8").read())
    em2 = re.search(r"pub\s+enum\s+Message\s*\{", tr)
    if not em2: raise ExtractError("transcript.rs: enum Message not found")
    eb2 = tr[em2.end() - 1: match_brace(tr, em2.end() - 1) + 1]
    variants = re.findall(r"\n\s{4}([A-Z][A-Za-z]+)\s*\{", eb2)
    if sorted(kinds + json_kinds + skipped) != sorted(variants):
        raise ExtractError(f"redact_secrets_from_prompts arms {kinds}+{json_kinds}+{skipped} do not cover Message variants {variants}")

    return {"rows": rows, "policy": policy, "shape": shape, "consts": consts, "extra": extra, "stars": stars,
            "kinds": kinds, "skipped": skipped, "json_kinds": json_kinds, "json_shape": jshape, "tainted": sorted(tainted), "skipped_ambiguous": sorted(skipped_ambiguous)}


JSON_SHAPE_FIELDS = ("redactsLeaves", "redactsKeys", "recursesArrays", "recursesObjects", "scalarsUntouched", "sortedMap")


def json_shape(sraw):
    """control-flow / data-flow facts of secrets.rs:redact_secrets_in_json (all False when the function does not exist):
    string leaves are replaced by redact_secrets_in_text's result; every array element and every object value is
    traversed; every object key goes through redact_secrets_in_text and the entry is re-inserted under the result, the
    rebuilt map replaces the old one; Null/Bool/Number do nothing; exactly these four arms, no early return;
    serde_json's Map is the sorted one (no `preserve_order` feature)."""
    shape = {k: False for k in JSON_SHAPE_FIELDS}
    m = re.search(r"pub\s+fn\s+redact_secrets_in_json\s*\(\s*value\s*:\s*&mut\s+serde_json::Value\s*\)\s*->\s*usize\s*\{(.*?)\n\}", sraw, re.S)
    if not m:
        return shape
    flat = re.sub(r"\s+", " ", blank_noncode(m.group(1))).replace("serde_json::Value::", "Value::").strip()
    mm = re.fullmatch(r"match value \{ (.*) \}", flat)
    if not mm or "return" in flat:
        return shape
    body = mm.group(1)
    four_arms = len(re.findall(r"Value::(?:String|Array|Object)\(\w+\) =>|Value::Null \| Value::Bool\(_\) \| Value::Number\(_\) =>", body)) == 4 \
        and len(re.findall(r"Value::\w+(?:\([^)]*\))?(?: \| Value::\w+(?:\([^)]*\))?)* =>", body)) == 4 and "_ =>" not in body
    if not four_arms:
        return shape
    shape["redactsLeaves"] = bool(re.search(
        r"Value::String\((\w+)\) => \{ let \((\w+), (\w+)\) = redact_secrets_in_text\(\1\); if \3 > 0 \{ \*\1 = \2; \} \3 \}", body))
    shape["recursesArrays"] = bool(re.search(r"Value::Array\((\w+)\) => \1\.iter_mut\(\)\.map\(redact_secrets_in_json\)\.sum\(\),", body))
    om = re.search(r"Value::Object\((\w+)\) => \{ let mut total = 0; let mut (\w+) = serde_json::Map::new\(\); "
                   r"for \((\w+), mut (\w+)\) in std::mem::take\(\1\) \{ (.*?) \} \*\1 = \2; total \}", body)
    if om:
        _, newmap, key, item, loop = om.groups()
        stmts = [x.strip() for x in loop.split(";") if x.strip()]
        rec = f"total += redact_secrets_in_json(&mut {item})"
        km = re.search(r"let \((\w+), (\w+)\) = redact_secrets_in_text\(&" + key + r"\)", loop)
        ins_plain = f"{newmap}.insert({key}, {item})"
        shape["recursesObjects"] = rec in stmts and stmts[-1].startswith(f"{newmap}.insert(") and len(stmts) in (2, 5)
        if km:
            shape["redactsKeys"] = (stmts == [rec, km.group(0), f"total += {km.group(2)}", f"{newmap}.insert({km.group(1)}, {item})"]
                                    or stmts == [km.group(0), f"total += {km.group(2)}", rec, f"{newmap}.insert({km.group(1)}, {item})"])
            shape["recursesObjects"] = shape["recursesObjects"] or (rec in stmts and shape["redactsKeys"])
        elif stmts == [rec, ins_plain]:
            shape["recursesObjects"] = True
    shape["scalarsUntouched"] = bool(re.search(r"Value::Null \| Value::Bool\(_\) \| Value::Number\(_\) => 0,?$", body))
    cargo = open(os.path.join(C.REPO, "Cargo.toml"), encoding="utf-8").read()
    shape["sortedMap"] = "preserve_order" not in cargo
    return shape


def stmt_of(block, pos):
    """the statement of `block` (a `{..}` text) that contains offset pos: (start, end) with end at the `;`
    (or the closing brace of a block statement) at brace/paren depth 0 relative to the block"""
    # statement starts after the previous `;`/`{`/`}` at depth 1
    depth, start = 0, 1
    i = 0
    while i < pos:
        ch = block[i]
        if ch in "{([": depth += 1
        elif ch in "})]": depth -= 1
        if depth == 1 and ch in ";{}" and i > 0:
            start = i + 1
        i += 1
    d, j = depth, pos
    while j < len(block):
        ch = block[j]
        if ch in "{([": d += 1
        elif ch in "})]": d -= 1
        elif ch == ";" and d == 1:
            return start, j
        if d == 0:
            return start, j
        j += 1
    raise ExtractError("statement end not found")


def call_end(text, open_paren):
    depth = 0
    for j in range(open_paren, len(text)):
        if text[j] in "([{": depth += 1
        elif text[j] in ")]}":
            depth -= 1
            if depth == 0: return j
    raise ExtractError("unbalanced call")


def on_err(block, call_re, what):
    """How a failing fallible call inside the loop block is handled: 'propagate' (`call(..)[.map_err(..)]?;`)
    or 'skip' (the call is the scrutinee of a `match` / `if let` / `let-else` whose error path `continue`s)."""
    ms = list(re.finditer(call_re, block))
    if len(ms) != 1:
        raise ExtractError(f"enqueue loop: expected exactly one {what} call, found {len(ms)}")
    m = ms[0]
    e = call_end(block, m.end() - 1)
    rest = block[e + 1:]
    # optional `.map_err(..)` adaptors
    while True:
        mm = re.match(r"\s*\.\s*map_err\s*\(", rest)
        if not mm: break
        ce = call_end(rest, mm.end() - 1)
        rest = rest[ce + 1:]
    st, en = stmt_of(block, m.start())
    stmt = block[st:en + 1]
    if re.match(r"\s*\?\s*;", rest):
        if re.search(r"\b(match|if|else|continue|break|return)\b", stmt):
            raise ExtractError(f"enqueue loop: {what}: `?` inside a compound statement: {stmt.strip()[:120]}")
        return "propagate", m.start(), en
    if re.search(r"\bcontinue\b", stmt) and re.search(r"\bErr\b|\belse\b", stmt) and not re.search(r"\b(break|return)\b", stmt):
        return "skip", m.start(), en
    raise ExtractError(f"enqueue loop: {what}: error handling is neither `?` nor log-and-continue: {stmt.strip()[:160]}")


def enqueue_shape(pc, fns, default_arm):
    """control-flow facts of enqueue_prompt_messages_to_cas and of the Default arm (model: EnqShape)"""
    defs = [f for f in fns if f[0] == "enqueue_prompt_messages_to_cas"]
    if len(defs) != 1:
        raise ExtractError("enqueue_prompt_messages_to_cas not found exactly once")
    body = pc[defs[0][2]:defs[0][3] + 1]
    hdr = pc[defs[0][1]:defs[0][2]]
    if not re.search(r"->\s*Result\s*<\s*\(\s*\)\s*,", hdr):
        raise ExtractError("enqueue_prompt_messages_to_cas: return type is not Result<(), _>")
    loops = list(re.finditer(r"\bfor\s*\(\s*_?[a-z_]*\s*,\s*prompt\s*\)\s*in\s+prompts\s*\.\s*iter_mut\s*\(\s*\)\s*\{", body))
    if len(loops) != 1:
        raise ExtractError("enqueue_prompt_messages_to_cas: expected exactly one `for (_, prompt) in prompts.iter_mut()` loop")
    lo = loops[0].end() - 1
    le = match_brace(body, lo)
    loop = body[lo:le + 1]
    before, after = body[1:loops[0].start()], body[le + 1:-1]
    # every exit other than the final Ok(()) must be an Err: no `return`, no `Ok(` before / inside the loop
    if re.search(r"\breturn\b", body):
        raise ExtractError("enqueue_prompt_messages_to_cas: explicit `return` (an early Ok would leave messages in place)")
    if after.strip() != "Ok(())":
        raise ExtractError(f"enqueue_prompt_messages_to_cas: code after the loop is not just `Ok(())`: {after.strip()[:80]}")
    if re.search(r"\bOk\s*\(\s*\(\s*\)\s*\)", before + loop):
        raise ExtractError("enqueue_prompt_messages_to_cas: `Ok(())` before the end of the function")
    if re.search(r"\bprompts?\b[^;]*\b(messages)\b", before):
        raise ExtractError("enqueue_prompt_messages_to_cas: prompts are touched before the loop")
    # the loop body is exactly `if !prompt.messages.is_empty() { BLOCK }`
    gm = re.match(r"\{\s*if\s*!\s*prompt\.messages\.is_empty\(\)\s*\{", loop)
    if not gm:
        raise ExtractError("enqueue loop: body does not start with `if !prompt.messages.is_empty() {`")
    bo = gm.end() - 1
    be = match_brace(loop, bo)
    if loop[be + 1:-1].strip():
        raise ExtractError("enqueue loop: code after the `if !prompt.messages.is_empty()` block")
    blk = loop[bo:be + 1]
    if re.search(r"\bbreak\b", blk):
        raise ExtractError("enqueue loop: `break` (not modelled)")
    ser, _, _ = on_err(blk, r"serde_json\s*::\s*to_value\s*\(", "serde_json::to_value")
    enq, enq_pos, enq_end = on_err(blk, r"\.\s*enqueue_cas_object\s*\(", "enqueue_cas_object")
    # after the enqueue statement, at depth 1 of the block, unconditionally
    tail = blk[enq_end + 1:-1]
    flat, depth = [], 0
    for ch in tail:
        if ch == "{": depth += 1
        if depth == 0: flat.append(ch)
        if ch == "}": depth -= 1
    flat = "".join(flat)
    if re.search(r"\b(if|match|continue|return|else)\b", flat) or "?" in flat:
        raise ExtractError(f"enqueue loop: conditional / fallible code after the enqueue: {flat.strip()[:120]}")
    sets_url = re.search(r"prompt\.messages_url\s*=\s*Some\s*\(", flat) is not None
    clears = re.search(r"prompt\.messages\.clear\(\)\s*;", flat) is not None
    if re.search(r"prompt\.messages\s*=[^=]|prompt\.messages\.(push|extend|insert)\b", blk):
        raise ExtractError("enqueue loop: messages are written other than by clear()")
    # the caller's Default arm
    a = default_arm
    strips_err = strips_else = False
    im = re.search(r"\bif\s+([a-z_]+)\s*\{", a)
    if im:
        te = match_brace(a, im.end() - 1)
        then_b = a[im.end() - 1:te + 1]
        em = re.match(r"\s*else\s*\{", a[te + 1:])
        if em:
            eo = te + 1 + em.end() - 1
            else_b = a[eo: match_brace(a, eo) + 1]
            strips_else = re.search(r"\bstrip_prompt_messages\s*\(\s*prompts\s*\)\s*;", else_b) is not None
        e_m = re.search(r"if\s+let\s+Err\s*\([^)]*\)\s*=\s*enqueue_prompt_messages_to_cas\s*\(\s*repo\s*,\s*prompts\s*\)\s*\{", then_b)
        if e_m:
            err_b = then_b[e_m.end() - 1: match_brace(then_b, e_m.end() - 1) + 1]
            flat_err, depth = [], 0
            for ch in err_b[1:-1]:
                if ch == "{": depth += 1
                if depth == 0: flat_err.append(ch)
                if ch == "}": depth -= 1
            strips_err = re.search(r"\bstrip_prompt_messages\s*\(\s*prompts\s*\)\s*;", "".join(flat_err)) is not None
    return {"onSerializeErr": ser, "onEnqueueErr": enq, "setsUrlOnOk": sets_url, "clearsOnOk": clears,
            "stripsOnErr": strips_err, "stripsWhenNotEnqueueing": strips_else}


def lean_str(s):
    return '"' + s.replace("\\", "\\\\").replace('"', '\\"') + '"'


def lean_chars(s):
    return "[" + ", ".join("'" + (("\\" + ch) if ch in "'\\" else ch) + "'" for ch in s) + "]"


def render(x):
    L = []
    L.append("/-\n  Extracted/StorageModeTable.lean — GENERATED by /verif/extract/storage_mode_table.py from\n"
             "  src/**/*.rs (note-writing call sites), src/authorship/post_commit.rs (the storage-mode filter)\n"
             "  and src/authorship/secrets.rs (constants) on every C08 check run. Do not edit.\n-/")
    L.append("import GitAiModel.Model.Redact\nnamespace GitAi.Extracted.StorageMode\nopen GitAi GitAi.Redact\n")
    L.append("/-- every non-test function of src/ that calls `notes_add*` / `save_stash_note` -/")
    L.append("def writers : List Writer := [")
    for k, r in enumerate(x["rows"]):
        L.append(f"  {{ name := {lean_str(r['name'])}, file := {lean_str(r['file'])}, target := .{r['target']},\n"
                 f"    readsWorkingLog := {str(r['reads_wl']).lower()}, filters := {str(r['filters']).lower()} }}" + ("," if k + 1 < len(x["rows"]) else ""))
    L.append("]\n")
    L.append("/-- `apply_prompt_storage_mode`: what each arm of the `match` does to the messages -/")
    L.append("def policy : List (Mode × Action) := [" + ", ".join(
        f"(.{k.lower()}, .{x['policy'][k]})" for k in ("Local", "Notes", "Default")) + "]\n")
    sh = x["shape"]
    b = lambda v: str(bool(v)).lower()
    L.append("/-- control flow of `enqueue_prompt_messages_to_cas` and of the `Default` arm -/")
    L.append("def enqueueShape : EnqShape :=\n"
             f"  {{ onSerializeErr := .{sh['onSerializeErr']}, onEnqueueErr := .{sh['onEnqueueErr']},\n"
             f"    setsUrlOnOk := {b(sh['setsUrlOnOk'])}, clearsOnOk := {b(sh['clearsOnOk'])},\n"
             f"    stripsOnErr := {b(sh['stripsOnErr'])}, stripsWhenNotEnqueueing := {b(sh['stripsWhenNotEnqueueing'])} }}\n")
    L.append(f"def minSecretLen : Nat := {x['consts']['MIN_SECRET_LENGTH']}")
    L.append(f"def maxSecretLen : Nat := {x['consts']['MAX_SECRET_LENGTH']}")
    L.append(f"def visibleChars : Nat := {x['consts']['REDACT_VISIBLE_CHARS']}")
    L.append(f"def maskStars : Nat := {x['stars']}")
    L.append("/-- `is_secret_char`: ASCII alphanumerics plus these -/")
    L.append(f"def secretExtraChars : List Char := {lean_chars(''.join(x['extra']))}")
    L.append("/-- `Message` variants whose text `redact_secrets_from_prompts` rewrites / leaves alone -/")
    L.append("def redactedKinds : List Str := [" + ", ".join(lean_chars(k) for k in x["kinds"]) + "]")
    L.append("def skippedKinds : List Str := [" + ", ".join(lean_chars(k) for k in x["skipped"]) + "]")
    L.append("/-- `Message` variants whose `input` goes through `redact_secrets_in_json` -/")
    L.append("def jsonKinds : List Str := [" + ", ".join(lean_chars(k) for k in x["json_kinds"]) + "]")
    L.append("/-- what `redact_secrets_in_json` does per arm (all false: no such function) -/")
    L.append("def jsonShape : JsonShape :=\n  { " + ", ".join(f"{k} := {b(x['json_shape'][k])}" for k in JSON_SHAPE_FIELDS) + " }")
    L.append("\nend GitAi.Extracted.StorageMode\n")
    return "\n".join(L)


def main():
    x = extract()
    changed = C.write_if_changed(OUT, render(x))
    return x, changed


if __name__ == "__main__":
    try:
        x, changed = main()
    except ExtractError as e:
        print(f"EXTRACT-ERROR: {e}")
        sys.exit(1)
    for r in x["rows"]:
        print(f"{r['file']}:{r['name']}: target={r['target']} reads_wl={r['reads_wl']} filters={r['filters']} calls={r['calls']} serializes={r['serializes']}")
    print("shape", x["shape"])
    print("policy", x["policy"], "consts", x["consts"], "extra", x["extra"], "stars", x["stars"], "kinds", x["kinds"], "skipped", x["skipped"], "json_kinds", x["json_kinds"], "json_shape", x["json_shape"])
    print("tainted:", x["tainted"])
    print("not followed (ambiguous/generic names):", x["skipped_ambiguous"])
    print("written" if changed else "unchanged", OUT)
