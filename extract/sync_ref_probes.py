#!/usr/bin/env python3
"""Extract HOW git-ai's notes sync asks "does this ref exist" into
lean/GitAiModel/Extracted/SyncRefProbes.lean (regenerated on every C10 run).

The sync model (Model/Sync.lean) takes the existence probe as a parameter; the theorems of C10 need it to
be `Faithful` (true exactly for refs that exist, loose or packed). What the code's probe is, is read here:

  * `refExists : ProbeImpl` — from the body of `pub fn ref_exists` in C.REPO/src/git/refs.rs (comments
    and string contents handled lexically):
        a `exec_git*(&<argv>)` call whose argv literals contain  show-ref … --verify  → showRefVerify
                                                                 rev-parse … --verify → revParseVerify
        (the ref asked about must be the function's parameter, the verdict must be the command's success,
         and the body must not touch the file system itself)
        no git command, a file test (`is_file` / `exists` / `metadata`) on a path built from the ref name
                                                                                       → looseFile
        anything else                                                                  → unknown
  * `helpers` — every function of refs.rs that sync_authorship.rs calls (its `use crate::git::refs::{…}`
    list and `crate::git::refs::f(` paths): does its body run git (`exec_git`), does it touch the file
    system itself. A helper that reads or writes a ref through the file system would see loose refs only.
  * `decisions` — for fetch_authorship_notes and push_authorship_notes: the ref-related statements after
    the fetch, in source order, and whether they are nested as
        if ref_exists(tracking) { if ref_exists(local) { merge_notes_from_ref } else { copy_ref } }
Props/C10.lean decides `Faithful (probeSem refExists)`, `∀ h ∈ helpers, h.fs = false` and
`∀ d ∈ decisions, d.ok` (`extracted_ref_probe`).
"""
import os, re, sys

sys.path.insert(0, os.path.dirname(os.path.dirname(os.path.abspath(__file__))))
from vlib import common as C

OUT = os.path.join(C.LEAN, "GitAiModel", "Extracted", "SyncRefProbes.lean")
MODEL_IMPORT = "GitAiModel.Model.Sync"
FS_MARKERS = [r"\.is_file\s*\(", r"\.exists\s*\(", r"\.is_dir\s*\(", r"\bmetadata\s*\(", r"\bstd::fs\b", r"\bfs::",
              r"\bFile::open\b", r"\bread_to_string\b", r"\bread_dir\b", r"\.join\s*\(", r"\bPathBuf\b", r"\bPath::new\b"]
KINDS = {"showRefVerify": "show-ref-verify", "revParseVerify": "rev-parse-verify", "looseFile": "loose-file",
         "unknown": "unknown"}


class ExtractError(Exception):
    pass


def _lex(src):
    """yield (kind, text) with kind in code / str / comment (Rust: //, nested /* */, "…" with escapes,
    r"…" / r#"…"#, byte strings, char literals vs lifetimes)."""
    i, n = 0, len(src)
    start = 0
    while i < n:
        c = src[i]
        if src.startswith("//", i):
            if start < i:
                yield "code", src[start:i]
            j = src.find("\n", i)
            j = n if j < 0 else j
            yield "comment", src[i:j]
            i = start = j
        elif src.startswith("/*", i):
            if start < i:
                yield "code", src[start:i]
            depth, j = 1, i + 2
            while j < n and depth:
                if src.startswith("/*", j):
                    depth += 1; j += 2
                elif src.startswith("*/", j):
                    depth -= 1; j += 2
                else:
                    j += 1
            yield "comment", src[i:j]
            i = start = j
        elif c == '"' or (c == "r" and re.match(r'r#*"', src[i:i + 12]) and not (i and (src[i - 1].isalnum() or src[i - 1] == "_"))):
            if start < i:
                yield "code", src[start:i]
            if c == '"':
                j = i + 1
                while j < n and src[j] != '"':
                    j += 2 if src[j] == "\\" else 1
                j += 1
            else:
                m = re.match(r'r(#*)"', src[i:])
                close = '"' + m.group(1)
                j = src.find(close, i + len(m.group(0)))
                j = n if j < 0 else j + len(close)
            yield "str", src[i:j]
            i = start = j
        elif c == "'":
            m = re.match(r"'(?:\\(?:x[0-9a-fA-F]{2}|u\{[0-9a-fA-F_]+\}|.)|[^'\\])'", src[i:i + 14])
            if m:
                if start < i:
                    yield "code", src[start:i]
                yield "str", m.group(0)
                i = start = i + len(m.group(0))
            else:
                i += 1          # a lifetime
        else:
            i += 1
    if start < n:
        yield "code", src[start:]


def strip_comments(src):
    """remove comments (line structure kept), keep string literals."""
    return "".join(re.sub(r"[^\n]", "", t) if k == "comment" else t for k, t in _lex(src))


def blank_strings(code):
    """string / char literal contents → spaces (same length), for brace matching and keyword searches."""
    return "".join((t[0] + re.sub(r"[^\n]", " ", t[1:-1]) + t[-1]) if k == "str" and len(t) >= 2 else t for k, t in _lex(code))


def match_brace(code, open_idx):
    """index of the `}` matching the `{` at open_idx (code with blanked strings)."""
    depth = 0
    for k in range(open_idx, len(code)):
        if code[k] == "{":
            depth += 1
        elif code[k] == "}":
            depth -= 1
            if depth == 0:
                return k
    raise ExtractError("unbalanced braces")


def non_test(code):
    """drop `#[cfg(test)] mod … { … }` and `#[cfg(feature = "verif-hooks")]` items."""
    b = blank_strings(code)
    for m in reversed(list(re.finditer(r'#\[cfg\((?:test|feature\s*=\s*"[^"]*")\)\]\s*(?:pub\s+)?mod\s+\w+\s*\{', b))):
        e = match_brace(b, m.end() - 1)
        code = code[:m.start()] + re.sub(r"[^\n]", " ", code[m.start():e + 1]) + code[e + 1:]
        b = b[:m.start()] + re.sub(r"[^\n]", " ", b[m.start():e + 1]) + b[e + 1:]
    # the cfg attribute written with blanked string: feature = "           "
    return code


def fn_body(code, name):
    """(line, signature, body) of `fn name` in comment-free code; None if absent."""
    b = blank_strings(code)
    m = re.search(r"\bfn\s+" + re.escape(name) + r"\s*(?:<[^>]*>)?\s*\(", b)
    if not m:
        return None
    o = b.find("{", m.end())
    e = match_brace(b, o)
    return code.count("\n", 0, m.start()) + 1, code[m.start():o], code[o:e + 1]


def fs_hits(body):
    b = blank_strings(body)
    return [p for p in FS_MARKERS if re.search(p, b)]


def classify_ref_exists(sig, body):
    """→ (kind, facts)"""
    lits = re.findall(r'"((?:[^"\\]|\\.)*)"', body)
    pm = re.search(r"\(\s*\w+\s*:\s*&\s*Repository\s*,\s*(\w+)\s*:\s*&\s*str", sig)
    param = pm.group(1) if pm else None
    b = blank_strings(body)
    execs = re.findall(r"\bexec_git\w*\s*\(", b)
    fs = fs_hits(body)
    facts = {"literals": lits, "param": param, "exec_git_calls": len(execs), "fs_markers": fs}
    if execs and not fs:
        asks_param = bool(param) and re.search(r"\.push\s*\(\s*" + re.escape(param) + r"\s*\.\s*(?:to_string|to_owned|into)\s*\(", b) is not None
        tail = b.rstrip()
        tail = tail[:-1].rstrip() if tail.endswith("}") else tail
        verdict = re.search(r"\bexec_git\w*\s*\(\s*&\s*\w+\s*\)\s*\.\s*is_ok\s*\(\s*\)$", tail) is not None
        facts["asks_param"], facts["verdict_is_success"] = asks_param, verdict
        if len(execs) == 1 and asks_param and verdict and "--verify" in lits:
            if "show-ref" in lits and "rev-parse" not in lits:
                return "showRefVerify", facts
            if "rev-parse" in lits and "show-ref" not in lits:
                return "revParseVerify", facts
        return "unknown", facts
    if not execs and fs:
        b2 = blank_strings(body)
        file_test = re.search(r"\.(?:is_file|exists)\s*\(\s*\)|\bmetadata\s*\(", b2) is not None
        from_name = bool(param) and re.search(r"\.join\s*\(\s*&?\s*" + re.escape(param) + r"\b", b2) is not None
        facts["file_test"], facts["path_from_ref_name"] = file_test, from_name
        reads_packed = any("packed-refs" in l for l in lits)
        if file_test and from_name and not reads_packed:
            return "looseFile", facts
    return "unknown", facts


def helpers_used(sync_code):
    names = set()
    for m in re.finditer(r"use\s+crate::git::refs::\{([^}]*)\}", sync_code):
        names |= {x.strip() for x in m.group(1).split(",") if x.strip()}
    for m in re.finditer(r"use\s+crate::git::refs::(\w+)\s*;", sync_code):
        names.add(m.group(1))
    names |= set(re.findall(r"crate::git::refs::(\w+)\s*\(", sync_code))
    return sorted(n for n in names if not n.isupper() and not re.fullmatch(r"[A-Z0-9_]+", n))


def decision(code, fn):
    fb = fn_body(code, fn)
    if not fb:
        raise ExtractError(f"src/git/sync_authorship.rs: fn {fn} not found")
    line, _, body = fb
    b = blank_strings(body)
    ev = []
    p_trk = r"ref_exists\s*\(\s*\w+\s*,\s*&?\s*tracking_ref\s*\)"
    p_loc = r"ref_exists\s*\(\s*\w+\s*,\s*&?\s*local_notes_ref\s*\)"
    pats = [("probeTrk", r"\b" + p_trk), ("probeLoc", r"\b" + p_loc),
            ("merge", r"\bmerge_notes_from_ref\s*\("), ("copy", r"\bcopy_ref\s*\(")]
    for nm, p in pats:
        for m in re.finditer(p, b):
            ev.append((m.start(), nm))
    other = [m.start() for m in re.finditer(r"\bref_exists\s*\(", b)]
    known = {pos for pos, nm in ev if nm.startswith("probe")}
    if any(o not in known for o in other):
        ev.append((min(o for o in other if o not in known), "probeOther"))
    ev.sort()
    stmts = [nm for _, nm in ev]
    # local_notes_ref must be the literal refs/notes/ai
    loc_ok = re.search(r'let\s+local_notes_ref\s*=\s*"refs/notes/ai"\s*;', body) is not None
    trk_ok = re.search(r"let\s+tracking_ref\s*=\s*tracking_ref_for_remote\s*\(", b) is not None
    nested = False
    m = re.search(r"\bif\s+(?:crate::git::refs::)?" + p_trk + r"\s*\{", b)
    if m and loc_ok and trk_ok:
        o = m.end() - 1
        e = match_brace(b, o)
        inner = b[o + 1:e]
        m2 = re.match(r"\s*if\s+(?:crate::git::refs::)?" + p_loc + r"\s*\{", inner)
        if m2:
            o2 = m2.end() - 1
            e2 = match_brace(inner, o2)
            then_b = inner[o2 + 1:e2]
            m3 = re.match(r"\s*else\s*\{", inner[e2 + 1:])
            if m3:
                o3 = e2 + 1 + m3.end() - 1
                e3 = match_brace(inner, o3)
                else_b = inner[o3 + 1:e3]
                rest = inner[e3 + 1:]
                nested = ("merge_notes_from_ref" in then_b and "copy_ref" not in then_b and "copy_ref" in else_b
                          and "merge_notes_from_ref" not in else_b and not re.search(r"\S", rest)
                          and "return" not in then_b and "return" not in else_b)
    return {"fn": fn, "line": line, "stmts": stmts, "nested": nested, "fs_markers": [h for h in fs_hits(body)]}


def extract():
    try:
        refs = non_test(strip_comments(open(os.path.join(C.REPO, "src/git/refs.rs")).read()))
        sync = non_test(strip_comments(open(os.path.join(C.REPO, "src/git/sync_authorship.rs")).read()))
    except OSError as e:
        raise ExtractError(f"cannot read sources: {e}")
    fb = fn_body(refs, "ref_exists")
    if not fb:
        raise ExtractError("src/git/refs.rs: fn ref_exists not found")
    line, sig, body = fb
    kind, facts = classify_ref_exists(sig, body)
    helpers = []
    for h in helpers_used(sync):
        hb = fn_body(refs, h)
        if not hb:
            raise ExtractError(f"src/git/refs.rs: helper {h} used by sync_authorship.rs not found")
        hl, _, hbody = hb
        helpers.append({"name": h, "line": hl, "git": re.search(r"\bexec_git\w*\s*\(", blank_strings(hbody)) is not None,
                        "fs": bool(fs_hits(hbody)), "fs_markers": fs_hits(hbody)})
    if "ref_exists" not in [h["name"] for h in helpers]:
        raise ExtractError("sync_authorship.rs no longer calls refs.rs:ref_exists — the probe of the model is gone")
    decisions = [decision(sync, "fetch_authorship_notes"), decision(sync, "push_authorship_notes")]
    return {"ref_exists": {"line": line, "kind": kind, "probe": KINDS[kind], "facts": facts},
            "helpers": helpers, "decisions": decisions}


def lean_chars(s):
    return "[" + ", ".join("'" + (("\\" + ch) if ch in "'\\" else ch) + "'" for ch in s) + "]"


def render(x, model_import=MODEL_IMPORT):
    r = x["ref_exists"]
    L = ["/-\n  Extracted/SyncRefProbes.lean — GENERATED by /verif/extract/sync_ref_probes.py from src/git/refs.rs and\n"
         "  src/git/sync_authorship.rs on every C10 check run: how `ref_exists` asks whether a ref exists, which refs.rs\n"
         "  helpers the notes sync calls (git command / own file-system access), and the shape of the merge-or-copy\n"
         "  decision of fetch_authorship_notes / push_authorship_notes. Do not edit.\n-/",
         f"import {model_import}", "namespace GitAi.Extracted.SyncProbes", "open GitAi.Sync", "",
         f"-- src/git/refs.rs:{r['line']} ref_exists; argv literals {r['facts'].get('literals')!r}; "
         f"own file-system access {r['facts'].get('fs_markers')!r}".replace("\n", " "),
         f"def refExists : ProbeImpl := .{r['kind']}", "",
         "def helpers : List RefHelper := ["]
    for k, h in enumerate(x["helpers"]):
        L.append(f"  -- src/git/refs.rs:{h['line']}")
        L.append(f"  {{ name := {lean_chars(h['name'])}, git := {str(h['git']).lower()}, fs := {str(h['fs']).lower()} }}"
                 + ("," if k + 1 < len(x["helpers"]) else ""))
    L += ["]", "", "def decisions : List SyncDecision := ["]
    for k, d in enumerate(x["decisions"]):
        L.append(f"  -- src/git/sync_authorship.rs:{d['line']}")
        stm = ", ".join("." + s for s in d["stmts"] if s != "probeOther")
        nested = d["nested"] and "probeOther" not in d["stmts"] and not d["fs_markers"]
        L.append(f"  {{ fn := {lean_chars(d['fn'])}, stmts := [{stm}], nested := {str(nested).lower()} }}"
                 + ("," if k + 1 < len(x["decisions"]) else ""))
    L += ["]", "", "end GitAi.Extracted.SyncProbes", ""]
    return "\n".join(L)


def main(model_import=MODEL_IMPORT, out=OUT):
    x = extract()
    changed = C.write_if_changed(out, render(x, model_import))
    return x, changed


if __name__ == "__main__":
    try:
        x, changed = main()
    except ExtractError as e:
        print(f"EXTRACT-ERROR: {e}")
        sys.exit(1)
    import json
    print(json.dumps(x, indent=1))
    print("written" if changed else "unchanged", OUT)
