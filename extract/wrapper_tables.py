#!/usr/bin/env python3
"""Extract the wrapper inventories of /repo/src into lean/GitAiModel/Extracted/WrapperTables.lean
(regenerated on every C06/C07 run; DESIGN §3.1, §8 C06/C07).

What is read (all through vlib.common.REPO, so VERIF_REPO works):

  (a) internal git invocations: the `exec_git*` call sites found by extract/profile_tables.py (reused, not
      duplicated) restricted to the functions reachable from `git_handlers.rs:handle_git` in a name+arity call
      graph of src/**/*.rs (over-approximation: `.m(..)` resolves to every method `m` with that many parameters,
      `T::f(..)` to `impl T`, bare `f(..)` to free functions), each with
        * its argv tokens, refined where the footprint depends on a dynamic token: constants, `format!` with
          constant arguments, helper functions that build an argv (`build_authorship_fetch_args` ..) are
          inlined, a parameter is replaced by what ALL callers pass (literal / local `let` / single-`format!` fn);
        * for `fast-import`: the ref names of the `commit <ref>` / `reset <ref>` literals of the script built in
          the enclosing function;
        * `guarded`: the site can only execute while a `disable_internal_git_hooks()` guard is alive (it is not
          reachable from handle_git / a spawned thread without passing through a function that takes the guard
          as its first statement);
        * the phases it is reachable from (prologue / pre hooks / post hooks / spawned thread).
      The *classification* (footprint, hooks-disabled) is computed in Lean from these tokens
      (Model/Wrapper.lean: `footprint`, `literalHooksOff`), not here.
  (b) file-system mutations (`fs::write/rename/remove*/create_dir*/copy/set_permissions`, `OpenOptions`,
      `File::create`, `symlink`) in reachable functions with the REVIEWED path root of their target
      (REVIEWED_WRITES pins the argument text; an unreviewed or changed site gets root `other`), and the gate
      `managedHooksMode` for sites that are only reachable through `maybe_spawn_repo_hook_self_heal` / `maybe_restore_stale_rebase_hooks`
      (whose first statement must be the `is_repo_hooks_enabled` early return).
  (c) every `process::exit` / `process::abort` site of git_handlers.rs, commands/hooks/*.rs and of every other
      reachable function, with its argument, enclosing fn, phases and whether an `eprintln!` precedes it.
  (d) the pre/post dispatch tables (`match parsed_args.command.as_deref()` arms of run_pre/post_command_hooks),
      `command_uses_managed_hooks`, and the control skeleton of handle_git / run_pre / run_post / exit_with_status
      (guard first, catch_unwind, status bound once from proxy_to_git and passed to exit_with_status).
  (e) direct `Command::new` spawns in reachable functions (the git program must only be spawned by exec_git* and
      proxy_to_git).

Any unexpected shape raises ExtractError (a broken tie)."""
import importlib.util, json, os, re, sys

sys.path.insert(0, os.path.dirname(os.path.dirname(os.path.abspath(__file__))))
from vlib import common as C

_spec = importlib.util.spec_from_file_location("profile_tables_for_wrapper", os.path.join(C.VERIF, "extract", "profile_tables.py"))
PT = importlib.util.module_from_spec(_spec)
_spec.loader.exec_module(PT)
ExtractError = PT.ExtractError

OUT = os.path.join(C.LEAN, "GitAiModel", "Extracted", "WrapperTables.lean")
OUT_JSON = os.path.join(C.BUILD, "wrapper-inventory" + C._ALT + ".json")

HANDLERS = "src/commands/git_handlers.rs"
HOOKS_DIR = "src/commands/hooks/"

# ------------------------------------------------------------------------------------------ token sources
# profile_tables' token_of/mk drop the source expression; keep it (needed for the refinement below).
_LAST = {"expr": None}
_orig_token_of, _orig_mk = PT.token_of, PT.mk


def _token_of(expr):
    _LAST["expr"] = expr
    return _orig_token_of(expr)


def _mk(t, opt):
    d = _orig_mk(t, opt)
    d["src"] = PT.squash(_LAST["expr"] or "")
    return d


PT.token_of, PT.mk = _token_of, _mk


# ------------------------------------------------------------------------------------------ function index

def split_params(s):
    parts, depth, cur, i = [], 0, [], 0
    while i < len(s):
        c = s[i]
        if c in "([{<":
            depth += 1
        elif c in ")]}":
            depth -= 1
        elif c == ">" and not (i > 0 and s[i - 1] in "-="):
            depth -= 1
        if c == "," and depth == 0:
            parts.append("".join(cur).strip()); cur = []
        else:
            cur.append(c)
        i += 1
    if "".join(cur).strip():
        parts.append("".join(cur).strip())
    return parts


class Index:
    def __init__(self):
        self.fns, self.texts = [], {}
        for path in PT.source_files():
            raw = open(path, encoding="utf-8").read()
            text, mask = PT.clean_source(raw)
            text = PT.blank_test_modules(text, mask)
            rel = os.path.relpath(path, C.REPO)
            self.texts[rel] = (text, mask)
            impls = []
            for m in re.finditer(r"\b(impl|trait)\b(?:\s*<[^>{]*>)?\s+([^{;]*?)\{", text):
                if mask[m.start()]:
                    continue
                ty = m.group(2).strip().split(" for ")[-1].strip()
                ty = re.sub(r"<.*", "", ty).strip().split("::")[-1].lstrip("&").strip()
                i = m.end() - 1
                impls.append((ty, i, PT.match_close(text, mask, i)))
            mod = os.path.basename(rel)[:-3]
            if mod == "mod":
                mod = os.path.basename(os.path.dirname(rel))
            for (name, a, b) in PT.functions(text, mask):
                encl = [i for i in impls if i[1] < a < i[2]]
                impl = max(encl, key=lambda i: i[1])[0] if encl else None
                sig = None
                for hm in re.compile(r"\bfn\s+" + re.escape(name) + r"\b").finditer(text, max(0, a - 4000), a):
                    sig = hm
                if sig is None:
                    raise ExtractError(f"{rel}: signature of fn {name} not found")
                po = text.find("(", sig.end())
                pc = PT.match_close(text, mask, po, "(", ")")
                params = [p for p in split_params(text[po + 1:pc]) if p]
                has_self = bool(params) and re.match(r"^(&\s*)?('\w+\s+)?(mut\s+)?self\b", params[0]) is not None
                pnames = []
                for p in params[1 if has_self else 0:]:
                    pm = re.match(r"^(?:mut\s+)?([A-Za-z_][A-Za-z0-9_]*)\s*:", p)
                    pnames.append(pm.group(1) if pm else "?")
                self.fns.append(dict(file=rel, mod=mod, impl=impl, name=name, start=a, end=b, sig=sig.start(),
                                     nparams=len(pnames), has_self=has_self, pnames=pnames))
        self.by_name = {}
        for k, f in enumerate(self.fns):
            self.by_name.setdefault(f["name"], []).append(k)
        self.types = {f["impl"] for f in self.fns if f["impl"]}
        self.mods = {f["mod"] for f in self.fns}
        self._sites = {}

    KW = {"if", "while", "for", "match", "return", "fn", "let", "loop", "Some", "Ok", "Err", "None", "in", "as", "move",
          "unsafe", "else", "use", "pub", "impl", "where", "mut", "ref"}

    def fn_at(self, file, pos):
        encl = [k for k, f in enumerate(self.fns) if f["file"] == file and f["start"] < pos < f["end"]]
        return max(encl, key=lambda k: self.fns[k]["start"]) if encl else None

    def find(self, file, name):
        r = [k for k in self.by_name.get(name, []) if self.fns[k]["file"] == file]
        if len(r) != 1:
            raise ExtractError(f"{file}: expected exactly one fn {name}, found {len(r)}")
        return r[0]

    def spawn_spans(self, k):
        f = self.fns[k]
        text, mask = self.texts[f["file"]]
        spans = []
        for m in re.finditer(r"\bthread::spawn\s*\(", text[f["start"]:f["end"]]):
            p = f["start"] + m.end() - 1
            if mask[p]:
                continue
            spans.append((p, PT.match_close(text, mask, p, "(", ")")))
        return spans

    def sites(self, k):
        """call sites in the body of fn k (nested fn bodies excluded): [(pos, targets, arg_exprs, in_spawn)]"""
        if k in self._sites:
            return self._sites[k]
        f = self.fns[k]
        text, mask = self.texts[f["file"]]
        nested = [(g["sig"], g["end"]) for g in self.fns if g["file"] == f["file"] and f["start"] < g["start"] < f["end"]]
        spawns = self.spawn_spans(k)
        out = []
        body = text[f["start"]:f["end"]]
        for m in re.finditer(r"(\b[A-Za-z_][A-Za-z0-9_]*\s*::\s*)?(\.\s*)?\b([a-z_][A-Za-z0-9_]*)\s*(?:::\s*<[^>()]*>\s*)?\(", body):
            pos = f["start"] + m.start(3)
            if mask[pos] or any(a <= pos <= b for a, b in nested):
                continue
            q, dot, name = m.group(1), m.group(2), m.group(3)
            if name in self.KW or name not in self.by_name:
                continue
            po = f["start"] + m.end() - 1
            try:
                pc = PT.match_close(text, mask, po, "(", ")")
            except ExtractError:
                continue
            args = [p for p in PT.split_top(text[po + 1:pc]) if p]
            n = len(args)
            cands = self.by_name[name]
            if dot:
                recv_self = re.search(r"\bself\s*$", body[max(0, m.start() - 6):m.start()]) is not None
                t = [c for c in cands if self.fns[c]["has_self"] and self.fns[c]["nparams"] == n]
                if recv_self and f["impl"]:
                    own = [c for c in t if self.fns[c]["impl"] == f["impl"]]
                    t = own or t
            elif q:
                Q = q.replace("::", "").strip()
                ok = lambda c: self.fns[c]["nparams"] == n or (self.fns[c]["has_self"] and self.fns[c]["nparams"] + 1 == n)
                if Q == "Self":
                    t = [c for c in cands if self.fns[c]["impl"] == f["impl"] and ok(c)]
                elif Q in self.types:
                    t = [c for c in cands if self.fns[c]["impl"] == Q and ok(c)]
                elif Q in self.mods or Q in ("super", "crate", "self"):
                    t = [c for c in cands if self.fns[c]["impl"] is None and ok(c)
                         and (self.fns[c]["mod"] == Q or Q in ("super", "crate", "self"))]
                else:
                    t = []
            else:
                t = [c for c in cands if self.fns[c]["impl"] is None and self.fns[c]["nparams"] == n]
                same = [c for c in t if self.fns[c]["file"] == f["file"]]
                t = same or t
            if t:
                out.append((pos, t, args, any(a <= pos <= b for a, b in spawns)))
        # function values passed as arguments: `.map(parse_line)`
        for m in re.finditer(r"[(,]\s*(?:[A-Za-z_][A-Za-z0-9_]*\s*::\s*)*([a-z_][A-Za-z0-9_]*)\s*[,)]", body):
            pos = f["start"] + m.start(1)
            name = m.group(1)
            if name in self.by_name and not mask[pos] and not any(a <= pos <= b for a, b in nested):
                t = [c for c in self.by_name[name] if self.fns[c]["impl"] is None and self.fns[c]["file"] == f["file"]]
                if t:
                    out.append((pos, t, None, any(a <= pos <= b for a, b in spawns)))
        self._sites[k] = out
        return out

    def reach(self, roots, stop=frozenset(), skip_spawn_edges=False):
        seen, todo = set(), list(roots)
        while todo:
            k = todo.pop()
            if k in seen or k in stop:
                continue
            seen.add(k)
            for (_, targets, _, in_spawn) in self.sites(k):
                if skip_spawn_edges and in_spawn:
                    continue
                todo.extend(t for t in targets if t not in seen)
        return seen

    def spawn_roots(self, fnset):
        """callees inside thread::spawn closures of the given functions"""
        r = set()
        for k in fnset:
            for (_, targets, _, in_spawn) in self.sites(k):
                if in_spawn:
                    r.update(targets)
        return r

    def body(self, k):
        f = self.fns[k]
        return self.texts[f["file"]][0][f["start"] + 1:f["end"]]

    def key(self, k):
        f = self.fns[k]
        return f"{f['file']}::{(f['impl'] + '.') if f['impl'] else ''}{f['name']}"


# ------------------------------------------------------------------------------------------ expression resolution

STRIP_RE = re.compile(r"^(?:&\s*(?:mut\s+)?)?\(?\s*([A-Za-z_][A-Za-z0-9_:]*(?:\(\))?)\s*\)?(?:\s*\.\s*(?:to_string|to_owned|clone|as_str|into|as_ref)\(\))*$")


class Resolver:
    def __init__(self, ix):
        self.ix = ix
        self.consts = {}
        for rel, (text, mask) in ix.texts.items():
            for m in re.finditer(r"\b(?:pub(?:\([a-z]+\))?\s+)?const\s+([A-Z][A-Z0-9_]*)\s*:\s*&(?:'static\s+)?str\s*=\s*" + PT.STR_LIT + r"\s*;", text):
                self.consts.setdefault(m.group(1), set()).add(PT.unescape_rust(m.group(2)))

    def const(self, name):
        v = self.consts.get(name.split("::")[-1])
        return next(iter(v)) if v and len(v) == 1 else None

    def literal_fn(self, name, file):
        """a free fn whose (non-windows) body is one string literal or one `format!`"""
        cands = [k for k in self.ix.by_name.get(name, []) if self.ix.fns[k]["impl"] is None]
        same = [k for k in cands if self.ix.fns[k]["file"] == file] or cands
        # `#[cfg(windows)] fn f` / `#[cfg(not(windows))] fn f` pairs: take the non-windows one
        pick = []
        for k in same:
            f = self.ix.fns[k]
            head = self.ix.texts[f["file"]][0][max(0, f["sig"] - 80):f["sig"]]
            if re.search(r"#\[cfg\(windows\)\]\s*(?:pub\s+)?$", head):
                continue
            pick.append(k)
        if len(pick) != 1:
            return None
        return pick[0]

    def resolve(self, expr, k, depth=0):
        """expr evaluated in the scope of fn k -> pattern string with `?` holes, or None (unknown)"""
        if depth > 6:
            return None
        e = PT.squash(expr)
        m = re.fullmatch(PT.STR_LIT + r"(?:\s*\.\s*(?:to_string|into|to_owned)\(\))?", e)
        if m:
            return PT.unescape_rust(m.group(1))
        m = re.fullmatch(r"(?:&\s*)?format!\(\s*" + PT.STR_LIT + r"\s*(?:,(.*))?\)", e)
        if m:
            fmt = PT.unescape_rust(m.group(1))
            args = [a for a in PT.split_top(m.group(2) or "") if a]
            parts = re.split(r"\{[^{}]*\}", fmt.replace("{{", "\x00").replace("}}", "\x01"))
            out = parts[0]
            holes = re.findall(r"\{([^{}]*)\}", fmt.replace("{{", "\x00").replace("}}", "\x01"))
            ai = 0
            for h, tail in zip(holes, parts[1:]):
                name = h.split(":")[0].strip()
                if name and re.fullmatch(r"[A-Za-z_][A-Za-z0-9_]*", name):
                    v = self.resolve(name, k, depth + 1)
                else:
                    v = self.resolve(args[ai], k, depth + 1) if ai < len(args) else None
                    ai += 1
                out += (v if v is not None else "?") + tail
            return out.replace("\x00", "{").replace("\x01", "}")
        m = STRIP_RE.fullmatch(e)
        if not m:
            cm = re.fullmatch(r"(?:&\s*)?([a-z_][A-Za-z0-9_]*)\((.*)\)(?:\s*\.\s*(?:to_string|as_str)\(\))?", e)
            if cm:
                return self.resolve_call(cm.group(1), k, depth)
            return None
        ident = m.group(1)
        if ident.endswith("()"):
            return self.resolve_call(ident[:-2], k, depth)
        c = self.const(ident)
        if c is not None:
            return c
        f = self.ix.fns[k]
        text, mask = self.ix.texts[f["file"]]
        # local let (last one before the end of the fn; shadowing by position is not tracked: all lets must agree)
        vals = set()
        for lm in re.finditer(r"\blet\s+(?:mut\s+)?" + re.escape(ident) + r"\b\s*(?::[^=;]+)?=(?!=)", text[f["start"]:f["end"]]):
            p = f["start"] + lm.end()
            j, d = p, 0
            while j < f["end"]:
                if not mask[j]:
                    ch = text[j]
                    if ch in "([{":
                        d += 1
                    elif ch in ")]}":
                        d -= 1
                    elif ch == ";" and d == 0:
                        break
                j += 1
            vals.add(self.resolve(text[p:j], k, depth + 1))
        if vals:
            return next(iter(vals)) if len(vals) == 1 else None
        if ident in f["pnames"]:
            i = f["pnames"].index(ident)
            got = set()
            for ck in range(len(self.ix.fns)):
                for (_, targets, args, _) in self.ix.sites(ck):
                    if k in targets and args is not None:
                        a = args[-f["nparams"]:] if f["nparams"] else []
                        got.add(self.resolve(a[i], ck, depth + 1) if i < len(a) else None)
            if got and None not in got and len(got) == 1:
                return next(iter(got))
            return None
        return None

    def resolve_call(self, name, k, depth):
        t = self.literal_fn(name, self.ix.fns[k]["file"])
        if t is None:
            return None
        b = PT.squash(self.ix.body(t))
        m = re.fullmatch(PT.STR_LIT, b)
        if m:
            return PT.unescape_rust(m.group(1))
        if re.fullmatch(r"format!\(.*\)", b):
            # parameters of the callee are unknown here: holes
            saved = self.ix.fns[t]["pnames"]
            return self.resolve(b, t, depth + 1) if not saved else re.sub(r"\?+", "?", self._format_with_holes(b))
        return None

    @staticmethod
    def _format_with_holes(b):
        m = re.fullmatch(r"format!\(\s*" + PT.STR_LIT + r".*\)", b)
        fmt = PT.unescape_rust(m.group(1))
        return re.sub(r"\{[^{}]*\}", "?", fmt)


def tok_from_pattern(p, opt):
    if p is None:
        return {"k": "dyn", "opt": opt}
    return {"k": "pat" if "?" in p else "lit", "s": p, "opt": opt}


def refine_tokens(ix, rs, call, k, pos):
    """Replace dynamic tokens by what the resolver can prove about them; inline argv-building helpers."""
    toks = [dict(t) for t in call["tokens"]]
    f = ix.fns[k]
    text, mask = ix.texts[f["file"]]
    # helper-built argv: `<G> ?*` where the argument variable is `let v = helper(args..)`
    if [t["k"] for t in toks] == ["globals", "rest"]:
        cm = PT.CALL_RE.search(text, pos - 1)
        close = PT.match_close(text, mask, cm.end() - 1, "(", ")")
        a0 = PT.squash(PT.split_top(text[cm.end():close])[0])
        vm = re.fullmatch(r"&\s*(?:mut\s+)?([A-Za-z_][A-Za-z0-9_]*)", a0)
        if vm:
            lets = list(re.finditer(r"\blet\s+(?:mut\s+)?" + re.escape(vm.group(1)) + r"\s*=\s*([a-z_][A-Za-z0-9_]*)\s*\(", text[f["start"]:pos]))
            if lets:
                lm = lets[-1]
                po = f["start"] + lm.end() - 1
                pc = PT.match_close(text, mask, po, "(", ")")
                args = [a for a in PT.split_top(text[po + 1:pc]) if a]
                inl = inline_helper(ix, rs, lm.group(1), f["file"], args, k, 0)
                if inl is not None:
                    return inl
        return toks
    out = []
    for t in toks:
        if t["k"] == "dyn" and t.get("src"):
            p = rs.resolve(t["src"], k)
            out.append(tok_from_pattern(p, t["opt"]) if p is not None else t)
        elif t["k"] == "pat" and t.get("src") and "?" in t["s"]:
            p = rs.resolve(t["src"], k)
            out.append(tok_from_pattern(p, t["opt"]) if p is not None and p.count("?") < t["s"].count("?") else t)
        else:
            out.append(t)
    return out


def inline_helper(ix, rs, name, file, arg_exprs, caller_k, depth):
    """tokens of `name(arg_exprs)` where `name` is a free fn of `file` of the shape
       `let mut args = <param | helper(param)>; args.push(..)*; args`  (else None)"""
    if depth > 3:
        return None
    cands = [k for k in ix.by_name.get(name, []) if ix.fns[k]["impl"] is None and ix.fns[k]["file"] == file]
    if len(cands) != 1:
        return None
    h = cands[0]
    hf = ix.fns[h]
    if len(arg_exprs) != hf["nparams"]:
        return None
    text, mask = ix.texts[file]
    body = PT.squash(ix.body(h))
    env = dict(zip(hf["pnames"], arg_exprs))

    def param_tokens(expr):
        e = PT.squash(expr)
        if re.fullmatch(r"[A-Za-z_][A-Za-z0-9_.]*\.global_args_for_exec\(\)", e):
            return [{"k": "globals", "opt": False}]
        return None

    # initial value of `args`
    m = re.match(r"^let mut args = ([A-Za-z_][A-Za-z0-9_]*)(?:\(([A-Za-z_][A-Za-z0-9_]*)\))? ; ?", body.replace(";", " ; ", 1))
    base = None
    sig_text = text[hf["sig"]:hf["start"]]
    pm = re.search(r"\(\s*mut\s+args\s*:", sig_text)
    if pm:
        base = param_tokens(env.get("args", "")) if depth == 0 else None
        if base is None and "args" in env:
            base = env["args"] if isinstance(env["args"], list) else None
    else:
        im = re.match(r"^let mut args = ([a-z_][A-Za-z0-9_]*)\(([A-Za-z_][A-Za-z0-9_]*)\);", body)
        if im and im.group(2) in env:
            inner_arg = env[im.group(2)]
            inner_tokens = inner_arg if isinstance(inner_arg, list) else param_tokens(inner_arg)
            if inner_tokens is None:
                return None
            base = inline_helper(ix, rs, im.group(1), file, [inner_tokens], caller_k, depth + 1)
        else:
            im = re.match(r"^let mut args = ([A-Za-z_][A-Za-z0-9_]*);", body)
            if im and im.group(1) in env:
                v = env[im.group(1)]
                base = v if isinstance(v, list) else param_tokens(v)
    if base is None:
        return None
    toks = list(base)
    for pm in re.finditer(r"\bargs\.push\((.*?)\);", body):
        e = pm.group(1)
        t = _orig_token_of(e)
        if t[0] in ("lit", "pat"):
            toks.append(_orig_mk(t, False))
            continue
        sm = STRIP_RE.fullmatch(PT.squash(e))
        ident = sm.group(1) if sm else None
        if ident and ident in env and not isinstance(env[ident], list):
            toks.append(tok_from_pattern(rs.resolve(env[ident], caller_k), False))
        else:
            toks.append(tok_from_pattern(rs.resolve(e, h), False))
    if not re.search(r"\bargs$", body):
        return None
    return toks


# ------------------------------------------------------------------------------------------ reviewed write roots

# key = file::fn#k  |  op  |  first-argument text (pinned)  |  root
#   repoAiDir   .git/ai/** of the repository (or the per-worktree ai dir under <common>/ai/worktrees/<name>)
#   homeGitAi   ~/.git-ai/** (git-ai's global private directory: config, internal DBs, logs, credentials)
#   gitConfig   the repository's git config file       (managed-hooks mode only)
#   hooksDir    .git/ai/hooks/** managed hook entries    (managed-hooks mode only)
REVIEWED_WRITES_TEXT = r"""
src/auth/credential_backend.rs::clear#0 | remove_file | &self.path | homeGitAi
src/auth/credential_backend.rs::store#0 | create_dir_all | parent | homeGitAi
src/auth/credential_backend.rs::store#1 | write | &self.path | homeGitAi
src/auth/credential_backend.rs::store#2 | set_permissions | &self.path | homeGitAi
src/authorship/internal_db.rs::new#0 | create_dir_all | parent | homeGitAi
src/metrics/db.rs::new#0 | create_dir_all | parent | homeGitAi
src/config.rs::get_or_create_distinct_id#0 | create_dir_all | parent | homeGitAi
src/config.rs::get_or_create_distinct_id#1 | write | &id_path | homeGitAi
src/observability/mod.rs::get_observability#0 | create_dir_all | &logs_dir | homeGitAi
src/observability/mod.rs::append_envelope#0 | OpenOptions | &log_path | homeGitAi
src/observability/mod.rs::should_spawn_background_flush#0 | create_dir_all | &internal_dir | homeGitAi
src/observability/mod.rs::should_spawn_background_flush#1 | write | &marker | homeGitAi
src/commands/checkpoint.rs::save_current_file_states#0 | create_dir_all | &*blobs_dir | repoAiDir
src/commands/checkpoint.rs::save_current_file_states#1 | write | blob_path | repoAiDir
src/git/repo_storage.rs::ensure_config_directory#0 | create_dir_all | &self.ai_dir | repoAiDir
src/git/repo_storage.rs::ensure_config_directory#1 | create_dir_all | &self.working_logs | repoAiDir
src/git/repo_storage.rs::ensure_config_directory#2 | create_dir_all | &self.logs | repoAiDir
src/git/repo_storage.rs::ensure_config_directory#3 | write | &self.rewrite_log | repoAiDir
src/git/repo_storage.rs::working_log_for_base_commit#0 | create_dir_all | &working_log_dir | repoAiDir
src/git/repo_storage.rs::delete_working_log_for_base_commit#0 | remove_dir_all | &old_dir | repoAiDir
src/git/repo_storage.rs::delete_working_log_for_base_commit#1 | rename | &working_log_dir | repoAiDir
src/git/repo_storage.rs::delete_working_log_for_base_commit#2 | remove_dir_all | &working_log_dir | repoAiDir
src/git/repo_storage.rs::rename_working_log#0 | rename | &old_dir | repoAiDir
src/git/repo_storage.rs::reset_working_log#0 | remove_dir_all | &blobs_dir | repoAiDir
src/git/repo_storage.rs::reset_working_log#1 | write | &checkpoints_file | repoAiDir
src/git/repo_storage.rs::reset_working_log#2 | remove_file | &self.initial_file | repoAiDir
src/git/repo_storage.rs::persist_file_version#0 | create_dir_all | &blobs_dir | repoAiDir
src/git/repo_storage.rs::persist_file_version#1 | write | blob_path | repoAiDir
src/git/repo_storage.rs::write_all_checkpoints#0 | write | &checkpoints_file | repoAiDir
src/git/repo_storage.rs::write_all_checkpoints#1 | write | &checkpoints_file | repoAiDir
src/git/repo_storage.rs::write_initial_data#0 | remove_file | &self.initial_file | repoAiDir
src/git/repo_storage.rs::write_initial_data#1 | write | &self.initial_file | repoAiDir
src/utils.rs::acquire#0 | OpenOptions | path | repoAiDir
src/git/rewrite_log.rs::append_event_to_file#0 | write | file_path | repoAiDir
src/git/rewrite_log.rs::append_event_to_file#1 | write | file_path | repoAiDir
src/git/rewrite_log.rs::append_event_to_file#2 | write | file_path | repoAiDir
src/commands/git_hook_handlers.rs::install_hook_entry#0 | symlink | target | hooksDir
src/commands/git_hook_handlers.rs::install_hook_entry#1 | copy | target | hooksDir
src/commands/git_hook_handlers.rs::write_config#0 | create_dir_all | parent | gitConfig
src/commands/git_hook_handlers.rs::write_config#1 | write | path | gitConfig
src/commands/git_hook_handlers.rs::save_repo_hook_state#0 | create_dir_all | parent | repoAiDir
src/commands/git_hook_handlers.rs::save_repo_hook_state#1 | write | path | repoAiDir
src/commands/git_hook_handlers.rs::delete_state_file#0 | remove_file | path | repoAiDir
src/commands/git_hook_handlers.rs::restore_rebase_hooks_for_repo#0 | remove_file | &hook_path | hooksDir
src/commands/git_hook_handlers.rs::restore_rebase_hooks_for_repo#1 | rename | masked_path | hooksDir
src/commands/git_hook_handlers.rs::remove_hook_entry#0 | remove_dir_all | hook_path | hooksDir
src/commands/git_hook_handlers.rs::remove_hook_entry#1 | remove_file | hook_path | hooksDir
src/commands/git_hook_handlers.rs::ensure_repo_hooks_installed#0 | create_dir_all | &managed_hooks_dir | hooksDir
"""
# facts the roots above rely on, re-checked textually on every run: (file, regex that must match the cleaned source)
ROOT_FACTS = [
    ("src/git/repo_storage.rs", r'let working_logs_dir = ai_dir\.join\("working_logs"\);'),
    ("src/git/repo_storage.rs", r'let rewrite_log_file = ai_dir\.join\("rewrite_log"\);'),
    ("src/git/repo_storage.rs", r'let logs_dir = ai_dir\.join\("logs"\);'),
    ("src/git/repo_storage.rs", r'Self::for_ai_dir\(&repo_path\.join\("ai"\), repo_workdir\)'),
    ("src/git/repo_storage.rs", r'let working_log_dir = self\.working_logs\.join\(sha\);'),
    ("src/git/repo_storage.rs", r'let old_dir = self\.working_logs\.join\(format!\("old-\{\}", sha\)\);'),
    ("src/git/repo_storage.rs", r'let old_dir = self\.working_logs\.join\(old_sha\);'),
    ("src/git/repo_storage.rs", r'let new_dir = self\.working_logs\.join\(new_sha\);'),
    ("src/git/repo_storage.rs", r'let initial_file = dir\.join\("INITIAL"\);'),
    ("src/git/repo_storage.rs", r'let blobs_dir = self\.dir\.join\("blobs"\);'),
    ("src/git/repo_storage.rs", r'let checkpoints_file = self\.dir\.join\("checkpoints\.jsonl"\);'),
    ("src/git/repo_storage.rs", r'append_event_to_file\(&self\.rewrite_log, event\)'),
    ("src/git/repository.rs", r'return git_common_dir\.join\("ai"\);'),
    ("src/git/repository.rs", r'git_common_dir\s*\.join\("ai"\)\s*\.join\("worktrees"\)'),
    ("src/commands/checkpoint.rs", r'let blobs_dir = working_log\.dir\.join\("blobs"\);'),
    ("src/commands/checkpoint.rs", r'let blob_path = blobs_dir\.join\(&sha\);'),
    ("src/observability/mod.rs", r'let logs_dir = home\.join\("\.git-ai"\)\.join\("internal"\)\.join\("logs"\);'),
    ("src/observability/mod.rs", r'let internal_dir = home\.join\("\.git-ai"\)\.join\("internal"\);'),
    ("src/observability/mod.rs", r'let marker = internal_dir\.join\("last_flush_trigger_ts"\);'),
]
# (regex over the cleaned text of all of src, exact number of matches): the lock files of LockFile::acquire are
# siblings `<file>.lock` of files under the ai dir, and nobody else creates lock files through it
COUNT_FACTS = [
    (r"\bLockFile::acquire\(", 1),
    (r"LockFile::acquire\(&file\.with_file_name\(lock_name\), STORAGE_LOCK_TIMEOUT\)", 1),
    (r"\block_for_update\(", 4),
    (r'lock_for_update\(&self\.dir\.join\("checkpoints\.jsonl"\)\)', 1),
    (r'lock_for_update\(&repo\.common_dir\(\)\.join\("ai"\)\.join\("notes"\)\)', 1),
    (r"let _lock = crate::git::repo_storage::lock_for_update\(file_path\);", 1),
]
# target expressions that are reviewed independently of the enclosing function: fields of RepoStorage /
# PersistedWorkingLog, each assigned exactly once from the ai dir (pinned by ROOT_FACTS and FIELD_FACTS); a refactoring
# that moves such a write into another function of the same file keeps its root
REVIEWED_FIELD_TARGETS = {
    "src/git/repo_storage.rs": {"&self.initial_file": "repoAiDir", "&self.rewrite_log": "repoAiDir", "&self.ai_dir": "repoAiDir",
                                "&self.working_logs": "repoAiDir", "&self.logs": "repoAiDir"},
}
FIELD_FACTS = [
    ("src/git/repo_storage.rs", r"let config = RepoStorage \{ ai_dir: ai_dir\.to_path_buf\(\), repo_workdir: repo_workdir\.to_path_buf\(\), working_logs: working_logs_dir, rewrite_log: rewrite_log_file, logs: logs_dir, \};"),
    ("src/git/repo_storage.rs", r"Self \{ dir, base_commit: base_commit\.to_string\(\), repo_workdir: repo_root, canonical_workdir, dirty_files, initial_file, \}"),
]
ROOTS = ["repoAiDir", "homeGitAi", "gitConfig", "hooksDir", "other"]

FS_RE = re.compile(r"\b(?:std::)?fs::(write|rename|remove_file|remove_dir_all|remove_dir|create_dir_all|create_dir|copy|set_permissions|hard_link)\s*\("
                   r"|\b(OpenOptions)::new\(\)|\bFile::(create(?:_new)?)\s*\(|\b(symlink)\s*\(")


def load_reviewed_writes():
    res = {}
    for ln in REVIEWED_WRITES_TEXT.strip().split("\n"):
        parts = [p.strip() for p in ln.split(" | ")]
        if len(parts) != 4 or parts[3] not in ROOTS:
            raise ExtractError(f"REVIEWED_WRITES_TEXT: bad line {ln!r}")
        res[parts[0]] = (parts[1], parts[2], parts[3])
    return res


# ------------------------------------------------------------------------------------------ extraction proper

def line_of(text, pos):
    return text.count("\n", 0, pos) + 1


def extract():
    ix = Index()
    rs = Resolver(ix)
    problems = []
    H = lambda name: ix.find(HANDLERS, name)
    k_handle, k_pre, k_post = H("handle_git"), H("run_pre_command_hooks"), H("run_post_command_hooks")
    k_proxy, k_exit = H("proxy_to_git"), H("exit_with_status")

    # ---- reachability
    ALL = ix.reach([k_handle])
    guarded_fns = set()
    for k in range(len(ix.fns)):
        b = PT.squash(ix.body(k))
        if re.match(r"^let _[A-Za-z0-9_]* = (?:[a-z_]+::)*disable_internal_git_hooks\(\);", b):
            guarded_fns.add(k)
    for k in (k_pre, k_post):
        if k not in guarded_fns:
            problems.append(f"{ix.key(k)}: does not take the disable_internal_git_hooks() guard as its first statement")
    PRE, POST = ix.reach([k_pre]), ix.reach([k_post])
    spawn_roots = ix.spawn_roots(ALL)
    THREAD = ix.reach(spawn_roots)
    PROLOGUE = ix.reach([k_handle], stop=frozenset([k_pre, k_post]), skip_spawn_edges=True)
    UG = ix.reach([k_handle], stop=frozenset(guarded_fns), skip_spawn_edges=True) | ix.reach(spawn_roots, stop=frozenset(guarded_fns))
    k_heal = ix.find("src/commands/git_hook_handlers.rs", "maybe_spawn_repo_hook_self_heal")
    if not re.match(r"^if !is_repo_hooks_enabled\(repo\) \{ return; \}", PT.squash(ix.body(k_heal))):
        problems.append("maybe_spawn_repo_hook_self_heal: first statement is no longer the is_repo_hooks_enabled early return")
    # Second entry into managed-hooks-mode code (a1769f45): `ensure_repo_level_hooks_for_checkpoint` calls
    # `maybe_restore_stale_rebase_hooks` in front of the self-heal. It returns at once unless rebase_hook_mask_state.json exists, and
    # that file is written by `maybe_enable_rebase_hook_mask` only, which only the managed pre-rebase hook (`run_managed_hook`, never
    # reachable from handle_git) calls: in wrapper mode the sites behind it cannot execute. Each of these facts is checked here.
    HH = "src/commands/git_hook_handlers.rs"
    k_stale = ix.find(HH, "maybe_restore_stale_rebase_hooks")
    if not re.match(r"^let state_path = rebase_hook_mask_state_path\(repo\); if !state_path\.exists\(\) \{ return; \}", PT.squash(ix.body(k_stale))):
        problems.append("maybe_restore_stale_rebase_hooks: first statements are no longer the `rebase_hook_mask_state_path(repo).exists()` early return")
    hh_text, hh_mask = ix.texts[HH]

    def callers_of(name):
        out = set()
        for m in re.finditer(r"(?<![\w.])" + re.escape(name) + r"\s*\(", hh_text):
            if hh_mask[m.start()] or re.search(r"\bfn\s+$", hh_text[max(0, m.start() - 8):m.start()]):
                continue
            k = ix.fn_at(HH, m.start())
            out.add(ix.fns[k]["name"] if k is not None else None)
        return out
    for rel, (text, mask) in ix.texts.items():
        if rel != HH and re.search(r"\b(save_rebase_hook_mask_state|maybe_enable_rebase_hook_mask|delete_state_file|restore_rebase_hooks_for_repo)\s*\(", text):
            problems.append(f"{rel}: calls a rebase-hook-mask helper of git_hook_handlers.rs")
    if callers_of("save_rebase_hook_mask_state") != {"maybe_enable_rebase_hook_mask"}:
        problems.append(f"save_rebase_hook_mask_state is called from {sorted(map(str, callers_of('save_rebase_hook_mask_state')))} (expected maybe_enable_rebase_hook_mask only)")
    if callers_of("maybe_enable_rebase_hook_mask") != {"run_managed_hook"}:
        problems.append(f"maybe_enable_rebase_hook_mask is called from {sorted(map(str, callers_of('maybe_enable_rebase_hook_mask')))} (expected run_managed_hook only)")
    if ix.find(HH, "run_managed_hook") in ALL:
        problems.append("run_managed_hook became reachable from handle_git: the rebase-hook-mask state is no longer a managed-hooks-mode artefact")
    if callers_of("restore_rebase_hooks_for_repo") - {"maybe_restore_stale_rebase_hooks", "force_restore_rebase_hooks"}:
        problems.append("restore_rebase_hooks_for_repo has a caller other than maybe_restore_stale_rebase_hooks / force_restore_rebase_hooks")
    if callers_of("force_restore_rebase_hooks") - {"run_managed_hook"}:
        problems.append("force_restore_rebase_hooks is called outside run_managed_hook")
    # review of `delete_state_file(path)` = repoAiDir: every caller passes one of the three state paths under <git dir>/ai
    for m in re.finditer(r"(?<![\w.])delete_state_file\s*\(\s*([^,]+),", hh_text):
        if hh_mask[m.start()] or re.search(r"\bfn\s+$", hh_text[max(0, m.start() - 8):m.start()]):
            continue
        if m.group(1).strip() not in ("&state_path", "&enablement_path", "&rebase_state_path"):
            problems.append(f"delete_state_file is called on `{m.group(1).strip()}` (reviewed: the repo hook state / enablement / rebase mask state paths only)")
    for var, helper in (("state_path", r"(?:repo_state_path|rebase_hook_mask_state_path)"), ("enablement_path", "repo_enablement_path"), ("rebase_state_path", "rebase_hook_mask_state_path")):
        for fname in ("remove_repo_hooks", "restore_rebase_hooks_for_repo"):
            b = PT.squash(ix.body(ix.find(HH, fname)))
            for lm in re.finditer(r"let " + var + r" = ([^;]*);", b):
                if not re.fullmatch(helper + r"\(repo\)", lm.group(1).strip()):
                    problems.append(f"{fname}: `{var}` is bound to `{lm.group(1).strip()}`")
    for helper, base in (("repo_state_path", "repo_ai_dir"), ("repo_enablement_path", "repo_ai_dir"), ("rebase_hook_mask_state_path", "repo_worktree_ai_dir"),
                         ("managed_git_hooks_dir_for_repo", "repo_ai_dir")):
        if not re.fullmatch(base + r"\(repo\)\.join\([A-Z_]+\)", PT.squash(ix.body(ix.find(HH, helper)))):
            problems.append(f"{helper}: is no longer `{base}(repo).join(<constant>)`")
    # review of the two sites of restore_rebase_hooks_for_repo = hooksDir: since /repo b96235ca the directory is always
    # managed_git_hooks_dir_for_repo(repo) (the directory recorded in rebase_hook_mask_state.json is ignored) and only names in
    # MANAGED_GIT_HOOK_NAMES are joined to it — no assumption about the content of the state file is needed any more
    rb = PT.squash(ix.body(ix.find(HH, "restore_rebase_hooks_for_repo")))
    if not ("let managed_hooks_dir = managed_git_hooks_dir_for_repo(repo);" in rb and "state.managed_hooks_path" not in rb
            and re.search(r"for hook_name in &state\.masked_hooks \{ if !MANAGED_GIT_HOOK_NAMES\.contains\(&hook_name\.as_str\(\)\) \{ continue; \}", rb)
            and "let hook_path = managed_hooks_dir.join(hook_name);" in rb and "let masked_path = rebase_masked_hook_path(&managed_hooks_dir, hook_name);" in rb):
        problems.append("restore_rebase_hooks_for_repo: the restored paths are no longer <managed hooks dir>/<managed hook name>")
    eb = PT.squash(ix.body(ix.find(HH, "maybe_enable_rebase_hook_mask")))
    if not ("let managed_hooks_dir = managed_git_hooks_dir_for_repo(repo);" in eb and "managed_hooks_path: managed_hooks_dir.to_string_lossy().to_string()," in eb):
        problems.append("maybe_enable_rebase_hook_mask: no longer records managed_git_hooks_dir_for_repo(repo) as managed_hooks_path")
    WITHOUT_HEAL = ix.reach([k_handle], stop=frozenset([k_heal, k_stale]))

    def phases(k, in_spawn=False):
        return {"prologue": k in PROLOGUE, "pre": k in PRE, "post": k in POST, "thread": k in THREAD or in_spawn}

    # ---- (a) internal git calls
    calls = []
    for c in PT.extract_calls():
        text, mask = ix.texts[c["file"]]
        inner = c["fn"].split(".")[-1]
        cand = [k for k in ix.by_name.get(inner, []) if ix.fns[k]["file"] == c["file"]
                and line_of(text, ix.fns[k]["start"]) <= c["line"] <= line_of(text, ix.fns[k]["end"])]
        if not cand:
            raise ExtractError(f"{c['key']}: enclosing fn not found in the index")
        k = max(cand, key=lambda k: ix.fns[k]["start"])
        if k not in ALL:
            continue
        # position of the call inside the fn (k-th exec_git* call on that line)
        pos = None
        for m in PT.CALL_RE.finditer(text, ix.fns[k]["start"], ix.fns[k]["end"]):
            if not mask[m.start()] and line_of(text, m.start()) == c["line"]:
                pos = m.start()
                break
        if pos is None:
            raise ExtractError(f"{c['key']}: call position not found")
        in_spawn = any(a <= pos <= b for a, b in ix.spawn_spans(k))
        toks = refine_tokens(ix, rs, c, k, pos + 1)
        script_refs = []
        if any(t["k"] == "lit" and t["s"] == "fast-import" for t in toks):
            body = ix.texts[c["file"]][0][ix.fns[k]["start"]:ix.fns[k]["end"]]
            raw_body = open(os.path.join(C.REPO, c["file"]), encoding="utf-8").read()[ix.fns[k]["start"]:ix.fns[k]["end"]]
            for sm in re.finditer(r'b?"(commit|reset|tag|feature|option)\s+([^"\\]*)(?:\\n)?"', raw_body):
                if sm.group(1) in ("commit", "reset"):
                    script_refs.append(sm.group(2).strip())
                else:
                    script_refs.append(f"<{sm.group(1)}>")
            if re.search(r'format!\(\s*"(?:commit|reset)\s', raw_body):
                script_refs.append("<dynamic>")
        calls.append({"key": c["key"], "file": c["file"], "fn": c["fn"], "k": c["k"], "line": c["line"], "stdin": c["stdin"], "profile": c["profile"],
                      "tokens": [{kk: v for kk, v in t.items() if kk != "src"} for t in toks],
                      "raw_tokens": PT.show_tokens(c["tokens"]), "script_refs": script_refs,
                      "guarded": (k not in UG) and not in_spawn, "phases": phases(k, in_spawn)})

    # ---- (b) fs writes
    reviewed = load_reviewed_writes()
    for rel, rx in ROOT_FACTS:
        if not re.search(rx, ix.texts[rel][0]):
            problems.append(f"{rel}: path-root fact no longer holds: /{rx}/")
    for rel, rx in FIELD_FACTS:
        if not re.search(rx, PT.squash(ix.texts[rel][0])):
            problems.append(f"{rel}: field assignment fact no longer holds: /{rx}/")
    alltext = "\n".join(t for t, _ in ix.texts.values())
    for rx, n in COUNT_FACTS:
        got = len(re.findall(rx, alltext))
        if got != n:
            problems.append(f"path-root fact: /{rx}/ occurs {got} times in src, reviewed with {n}")
    writes, seen_keys, wcount = [], set(), {}
    for k in sorted(ALL, key=lambda k: (ix.fns[k]["file"], ix.fns[k]["start"])):
        f = ix.fns[k]
        text, mask = ix.texts[f["file"]]
        for m in FS_RE.finditer(text, f["start"], f["end"]):
            if mask[m.start()] or ix.fn_at(f["file"], m.start()) != k:
                continue
            op = m.group(1) or m.group(2) or m.group(3) or m.group(4)
            if op == "OpenOptions":
                om = re.compile(r"\.open\(").search(text, m.end(), f["end"])
                arg = PT.squash(text[om.end():PT.match_close(text, mask, om.end() - 1, "(", ")")]) if om else "?"
                # read-only opens are not mutations
                chain = PT.squash(text[m.end():om.start()]) if om else ""
                if om and not re.search(r"\.(write|append|create|create_new|truncate)\(true\)", chain):
                    continue
            else:
                close = PT.match_close(text, mask, m.end() - 1, "(", ")")
                al = PT.split_top(text[m.end():close])
                arg = PT.squash(al[0]) if al else ""
            n = wcount.get((f["file"], f["name"]), 0)
            wcount[(f["file"], f["name"])] = n + 1
            key = f"{f['file']}::{f['name']}#{n}"
            n += 1
            r = reviewed.get(key)
            root, rev = "other", False
            by_field = REVIEWED_FIELD_TARGETS.get(f["file"], {}).get(arg)
            if r is None and by_field is not None:
                root, rev = by_field, True
            elif r is None:
                problems.append(f"UNREVIEWED file-system write {key}: {op}({arg})")
            elif (r[0], r[1]) != (op, arg):
                problems.append(f"{key}: reviewed as {r[0]}({r[1]}) but the site is now {op}({arg})")
            else:
                root, rev = r[2], True
            seen_keys.add(key)
            writes.append({"key": key, "file": f["file"], "fn": f["name"], "k": n - 1, "op": op, "arg": arg, "root": root,
                           "reviewed": rev, "gate": "always" if k in WITHOUT_HEAL else "managedHooksMode",
                           "line": line_of(text, m.start()), "phases": phases(k)})

    # ---- (c) exit sites
    exits, xcount = [], {}
    exit_fns = set(ALL) | {k for k, f in enumerate(ix.fns) if f["file"] == HANDLERS or f["file"].startswith(HOOKS_DIR)}
    for k in sorted(exit_fns, key=lambda k: (ix.fns[k]["file"], ix.fns[k]["start"])):
        f = ix.fns[k]
        text, mask = ix.texts[f["file"]]
        n = xcount.get((f["file"], f["name"]), 0)
        for m in re.finditer(r"\b(?:std::)?process::(exit|abort)\s*\(|\blibc::(_exit|abort|raise)\s*\(", text[f["start"]:f["end"]]):
            p = f["start"] + m.start()
            if mask[p] or ix.fn_at(f["file"], p) != k:
                continue
            po = f["start"] + m.end() - 1
            arg = PT.squash(text[po + 1:PT.match_close(text, mask, po, "(", ")")])
            kind = m.group(1) or m.group(2)
            if kind == "exit" and re.fullmatch(r"\d+", arg):
                code = ("lit", int(arg))
            elif kind == "exit" and arg == "status.code().unwrap_or(1)":
                code = ("mirror", 0)
            elif kind == "raise" and arg == "sig":
                code = ("mirrorSignal", 0)
            elif kind == "exit":
                code = ("dynamic", 0)
            else:
                code = ("abort", 0)
            before = text[max(f["start"], p - 400):p]
            # the closest preceding statement must be an eprintln!/error message for a diagnostic
            diag = re.search(r"eprintln!\s*\([^;]*;\s*$", before.rstrip()) is not None
            dm = re.findall(r'eprintln!\(\s*"([^"]*)"', before)
            exits.append({"key": f"{f['file']}::{f['name']}#{n}", "file": f["file"], "fn": f["name"], "k": n, "kind": code[0],
                          "code": code[1], "arg": arg, "diag": diag, "message": dm[-1] if dm else "",
                          "line": line_of(text, p), "reachable": k in ALL, "phases": phases(k)})
            n += 1
            xcount[(f["file"], f["name"])] = n

    # ---- (d) dispatch tables + skeleton
    def dispatch(k):
        body = ix.body(k)
        mm = re.search(r"match parsed_args\.command\.as_deref\(\)\s*\{", body)
        if not mm:
            raise ExtractError(f"{ix.key(k)}: dispatch match not found")
        text, mask = ix.texts[ix.fns[k]["file"]]
        base = ix.fns[k]["start"] + 1
        i = base + mm.end() - 1
        j = PT.match_close(text, mask, i)
        arms_txt = text[i + 1:j]
        arms, pos = [], 0
        am = re.compile(r'\s*(?:Some\(\s*"([^"]*)"\s*\)|(_))\s*=>\s*')
        while arms_txt[pos:].strip():
            hm = am.match(arms_txt, pos)
            if not hm:
                raise ExtractError(f"{ix.key(k)}: unrecognised dispatch arm: {arms_txt[pos:pos + 60]!r}")
            p = hm.end()
            if arms_txt[p] == "{":
                q = PT.match_close(arms_txt, [False] * len(arms_txt), p)
                arm_body = arms_txt[p + 1:q]
                p = q + 1
            else:
                # expression arm up to the top-level comma
                d, q = 0, p
                while q < len(arms_txt):
                    ch = arms_txt[q]
                    if ch in "([{":
                        d += 1
                    elif ch in ")]}":
                        d -= 1
                    elif ch == "," and d == 0:
                        break
                    q += 1
                arm_body = arms_txt[p:q]
                p = q
            if arms_txt[p:p + 1] == ",":
                p += 1
            pos = p
            hooks = re.findall(r"\b([a-z_]+_hooks)::([a-z_]+)\s*\(", arm_body)
            flag = re.search(r"feature_flags\(\)\.([a-z_]+)", arm_body)
            if hm.group(2):
                if PT.squash(arm_body) not in ("", "{}"):
                    raise ExtractError(f"{ix.key(k)}: the default dispatch arm is no longer empty")
                continue
            arms.append({"cmd": hm.group(1), "hooks": [f"{a}::{b}" for a, b in hooks], "flag": flag.group(1) if flag else ""})
        return arms

    pre_tab, post_tab = dispatch(k_pre), dispatch(k_post)
    mb = PT.squash(ix.body(H("command_uses_managed_hooks")))
    mm = re.fullmatch(r"matches!\( command, Some\((.*)\) \)", mb)
    if not mm:
        raise ExtractError("command_uses_managed_hooks: body is not one matches! on string literals")
    managed = [x.strip().strip('"') for x in mm.group(1).split("|")]

    hb = PT.squash(ix.body(k_handle))
    landmarks = ["parse_git_cli_args(args)", "find_repository(&parsed_args.global_args).ok()", "let config = config::Config::get();",
                 "run_pre_command_hooks(&mut command_hooks_context, &mut parsed_args, repository)",
                 "let exit_status = proxy_to_git( &parsed_args.to_invocation_vec(), false, child_hooks_path_override.as_deref(), )",
                 "run_post_command_hooks( &mut command_hooks_context, &parsed_args, exit_status, repository, )",
                 "exit_with_status(exit_status);"]
    at = 0
    skeleton_ok = True
    for lm in landmarks:
        j = hb.find(lm, at)
        if j < 0:
            skeleton_ok = False
            problems.append(f"handle_git: landmark not found in order: `{lm}`")
            break
        at = j + len(lm)
    status_immutable = (re.search(r"\blet\s+mut\s+exit_status\b", hb) is None and re.search(r"\bexit_status\s*=(?!=)", hb.replace("let exit_status =", "")) is None
                        and hb.rstrip().endswith("exit_with_status(exit_status);"))
    if not status_immutable:
        problems.append("handle_git: exit_status is reassigned or the function no longer ends in exit_with_status(exit_status)")
    pb, qb = PT.squash(ix.body(k_pre)), PT.squash(ix.body(k_post))
    catch = all(re.search(r"let result = std::panic::catch_unwind\(std::panic::AssertUnwindSafe\(\|\| \{ // ?", b) is not None
                or "let result = std::panic::catch_unwind(std::panic::AssertUnwindSafe(|| {" in b for b in (pb, qb))
    post_sig = ix.texts[HANDLERS][0][ix.fns[k_post]["sig"]:ix.fns[k_post]["start"]]
    post_unit = "->" not in post_sig and re.search(r"exit_status:\s*std::process::ExitStatus", post_sig) is not None
    eb = PT.squash(ix.body(k_exit))
    mirror = "std::process::exit(status.code().unwrap_or(1));" in eb and "libc::raise(sig);" in eb
    xb = PT.squash(ix.body(k_proxy))
    child_argv = xb.count("cmd.args(args);") >= 1 and 'cmd.arg("-c").arg(format!("core.hooksPath={}", hooks_path));' in xb
    clone_guard = ("let _ = std::panic::catch_unwind(std::panic::AssertUnwindSafe(|| { clone_hooks::post_clone_hook(&parsed_args, exit_status); }));"
                   in hb) and hb.count("clone_hooks::post_clone_hook(") == 1
    cfg_rel = "src/config.rs"
    cfg_once = re.search(r"pub fn get\(\) -> &'static Config \{[^}]*get_or_init\(", ix.texts[cfg_rel][0]) is not None

    # ---- journal readers (C07): tolerant on malformed lines, no `?`/unwrap on a parse result
    def fbody(rel, name):
        return PT.squash(ix.body(ix.find(rel, name)))
    rl = fbody("src/git/rewrite_log.rs", "deserialize_events_from_jsonl")
    rewrite_ok = ("if let Ok(event) = serde_json::from_str::<RewriteLogEvent>(line) { events.push(event); }" in rl
                  and "for line in jsonl.lines() { if line.trim().is_empty() { continue; }" in rl and "?" not in rl and "unwrap" not in rl)
    mx = re.search(r"const MAX_EVENTS: usize = (\d+);", ix.texts["src/git/rewrite_log.rs"][0])
    if not mx:
        raise ExtractError("rewrite_log.rs: MAX_EVENTS not found")
    rc = fbody("src/git/repo_storage.rs", "read_all_checkpoints")
    loop = rc[rc.find("for line in content.lines()"):rc.find("// Migrate") if "// Migrate" in rc else len(rc)]
    loop = loop[:loop.find("let mut old_to_new_hash")] if "let mut old_to_new_hash" in loop else loop
    ckpt_ok = ("if line.trim().is_empty() { continue; }" in loop
               and re.search(r"let checkpoint: Checkpoint = match serde_json::from_str\(line\) \{ Ok\(checkpoint\) => checkpoint, Err\(e\) => \{ .*?continue; \} \};", loop) is not None
               and "?" not in loop.replace("?;", "?;") .replace("read_to_string(&checkpoints_file)?", "") and "unwrap" not in loop)
    ri = fbody("src/git/repo_storage.rs", "read_initial_attributions")
    init_ok = ("?" not in ri and "unwrap" not in ri and ri.count("InitialAttributions::default()") == 3
               and "match serde_json::from_str(&content) { Ok(initial_data) => initial_data," in ri)
    readers = {"rewriteLogSkipsMalformed": rewrite_ok, "checkpointsSkipMalformed": ckpt_ok, "initialDefaultsOnError": init_ok,
               "maxEvents": int(mx.group(1))}
    for name in ("rewriteLogSkipsMalformed", "initialDefaultsOnError"):
        if not readers[name]:
            problems.append(f"journal reader fact `{name}` no longer holds")
    # (checkpointsSkipMalformed = false is not an extraction problem: the Lean side then keeps only the strict reader
    #  and `later_commands_work` no longer checks — DESIGN O12)

    skeleton = {"clonePostUnderCatchUnwind": clone_guard, "configInitOnce": cfg_once, "handleGitOrder": skeleton_ok, "statusBoundOnce": status_immutable, "hooksUnderCatchUnwind": catch,
                "postHookReturnsUnit": post_unit, "exitMirrorsChild": mirror, "childArgvIsUserArgvPlusHooksPath": child_argv,
                "preGuarded": k_pre in guarded_fns, "postGuarded": k_post in guarded_fns}
    for name, ok in skeleton.items():
        if not ok:
            problems.append(f"control skeleton fact `{name}` no longer holds")

    # ---- (e) direct spawns
    spawns = []
    for k in sorted(ALL, key=lambda k: (ix.fns[k]["file"], ix.fns[k]["start"])):
        f = ix.fns[k]
        text, mask = ix.texts[f["file"]]
        for m in re.finditer(r"\bCommand::new\s*\(", text[f["start"]:f["end"]]):
            p = f["start"] + m.start()
            if mask[p] or ix.fn_at(f["file"], p) != k:
                continue
            po = f["start"] + m.end() - 1
            arg = PT.squash(text[po + 1:PT.match_close(text, mask, po, "(", ")")])
            prog = "git" if "git_cmd()" in arg or arg == '"git"' else ("self" if arg in ("exe",) else "other")
            spawns.append({"file": f["file"], "fn": f["name"], "program": prog, "arg": arg, "line": line_of(text, p)})
    for s in spawns:
        if s["program"] == "git" and not (s["fn"].startswith("exec_git") or s["fn"] == "proxy_to_git"):
            problems.append(f"{s['file']}::{s['fn']}: spawns git directly (outside exec_git*/proxy_to_git); not in the call inventory")

    # ---- (f) exit mirroring and user-hook decision tables (rendered into Extracted/WrapperExitTables.lean)
    try:
        exit_hooks = extract_exit_hooks(ix)
    except ExtractError as e:
        exit_hooks = None
        problems.append(f"exit/user-hook tables: {e}")

    return {"exit_hooks": exit_hooks, "calls": calls, "writes": writes, "exits": exits, "pre": pre_tab, "post": post_tab, "managed": managed,
            "skeleton": skeleton, "readers": readers, "spawns": spawns, "problems": problems,
            "stats": {"functions": len(ix.fns), "reachable": len(ALL), "pre": len(PRE), "post": len(POST), "thread": len(THREAD),
                      "prologue": len(PROLOGUE), "unguarded": len(UG), "guard_fns": sorted(ix.key(k) for k in guarded_fns)}}



# ------------------------------------------------------------------------------------------ (f) exit mirroring, user-hook decision tables

OUT_EXIT = os.path.join(C.LEAN, "GitAiModel", "Extracted", "WrapperExitTables.lean")
HOOK_HANDLERS = "src/commands/git_hook_handlers.rs"


def _signo(name):
    import signal as _sig
    try:
        return int(_sig.Signals[name].value)
    except KeyError:
        raise ExtractError(f"unknown signal constant libc::{name}")


def _top_level(body):
    """split a squashed block body into top-level statements: (`kind`, text[, cond, block]) with kind in let / if / block / expr"""
    out, i, n = [], 0, len(body)

    def scan(j, stops):
        depth, in_str = 0, False
        while j < n:
            ch = body[j]
            if in_str:
                if ch == "\\":
                    j += 1
                elif ch == '"':
                    in_str = False
            elif ch == '"':
                in_str = True
            elif ch in "([{":
                if depth == 0 and ch in stops:
                    return j
                depth += 1
            elif ch in ")]}":
                depth -= 1
            elif depth == 0 and ch in stops:
                return j
            j += 1
        return n

    def close(j):
        depth, in_str = 0, False
        while j < n:
            ch = body[j]
            if in_str:
                if ch == "\\":
                    j += 1
                elif ch == '"':
                    in_str = False
            elif ch == '"':
                in_str = True
            elif ch == "{":
                depth += 1
            elif ch == "}":
                depth -= 1
                if depth == 0:
                    return j
            j += 1
        raise ExtractError("unbalanced block")

    while i < n:
        while i < n and body[i] == " ":
            i += 1
        if i >= n:
            break
        m = re.match(r"#\[cfg\([^\]]*\)\] ", body[i:])
        attr = ""
        if m:
            attr = m.group(0).strip()
            i += m.end()
        if body.startswith("if ", i):
            b = scan(i + 3, "{")
            e = close(b)
            rest = body[e + 1:].lstrip()
            if rest.startswith("else"):
                raise ExtractError("if/else at top level: " + body[i:i + 80])
            out.append({"kind": "if", "attr": attr, "cond": body[i + 3:b].strip(), "block": body[b + 1:e].strip(), "text": body[i:e + 1]})
            i = e + 1
        elif body[i] == "{" or body.startswith("unsafe {", i):
            b = body.index("{", i)
            e = close(b)
            out.append({"kind": "block", "attr": attr, "unsafe": body.startswith("unsafe", i), "block": body[b + 1:e].strip(), "text": body[i:e + 1]})
            i = e + 1
        else:
            e = scan(i, ";")
            out.append({"kind": "let" if body.startswith("let ", i) else "expr", "attr": attr, "text": body[i:e].strip()})
            i = e + 1
    return out


_ATOMS = [
    (r'std::env::var\(ENV_SKIP_ALL_HOOKS\)\.as_deref\(\) == Ok\("1"\)', "skipAll"),
    (r"skip_managed_hooks", "skipManaged"),
    (r"forward_hooks_dir_exists", "fwdExists"),
    (r"hook_has_no_managed_behavior\(hook_name\)", "noManagedBehavior"),
    (r"hook_requires_managed_repo_lookup\(hook_name, hook_args, &stdin_data\)", "requiresLookup"),
    (r"command_uses_managed_hooks\(parsed_args\.command\.as_deref\(\)\)", "usesManaged"),
    (r"has_repo_hook_state\(repository\)", "hasState"),
    (r"has_explicit_hooks_path_override\(args\)", "explicitOverride"),
]


def _conj(cond, where):
    if "||" in cond:
        raise ExtractError(f"{where}: a disjunction in `{cond}`")
    lits = []
    for part in cond.split("&&"):
        part = part.strip()
        neg = part.startswith("!")
        if neg:
            part = part[1:].strip()
        for rx, atom in _ATOMS:
            if re.fullmatch(rx, part):
                lits.append((atom, not neg))
                break
        else:
            raise ExtractError(f"{where}: unknown condition `{part}`")
    return lits


def extract_exit_hooks(ix):
    H = lambda name: PT.squash(ix.body(ix.find(HANDLERS, name)))
    x = {}
    # ---- install / uninstall
    def sig_list(name, value_rx):
        b = H(name)
        m = re.fullmatch(r"unsafe \{ (.*) \}", b)
        if not m:
            raise ExtractError(f"{name}: body is not one unsafe block")
        sigs = []
        for st in _top_level(m.group(1)):
            t = st["text"]
            if st["kind"] == "let" and re.fullmatch(r"let handler = forward_signal_handler as \*const \(\) as usize", t):
                continue
            mm = re.fullmatch(r"(?:let _ = )?libc::signal\(libc::(SIG[A-Z0-9]+), " + value_rx + r"\)", t)
            if not mm:
                raise ExtractError(f"{name}: unexpected statement `{t}`")
            sigs.append(_signo(mm.group(1)))
        return sigs
    x["forwarded"] = sig_list("install_forwarding_handlers", r"handler")
    x["uninstalled"] = sig_list("uninstall_forwarding_handlers", r"libc::SIG_DFL")
    # ---- exit_with_status
    eb = H("exit_with_status")
    sts = _top_level(eb)
    if [s["kind"] for s in sts] != ["block", "expr"] or sts[0]["attr"] != "#[cfg(unix)]":
        raise ExtractError("exit_with_status: expected `#[cfg(unix)] { … } std::process::exit(…);`")
    x["else_exits_code"] = sts[1]["text"] == "std::process::exit(status.code().unwrap_or(1))"
    inner = _top_level(sts[0]["block"])
    if len(inner) != 1 or inner[0]["kind"] != "if" or inner[0]["cond"] != "let Some(sig) = status.signal()":
        raise ExtractError("exit_with_status: the unix block is not `if let Some(sig) = status.signal() { … }`")
    flat = []

    def flatten(block):
        for st in _top_level(block):
            if st["kind"] == "block":
                flatten(st["block"])
            else:
                flat.append(st)
    flatten(inner[0]["block"])
    resets, raised, unreachable = [], False, False
    for st in flat:
        t = re.sub(r"^let _ = ", "", st["text"])
        if st["kind"] == "if":
            raise ExtractError(f"exit_with_status: conditional statement `{st['text'][:80]}`")
        if unreachable:
            raise ExtractError(f"exit_with_status: statement after unreachable!(): `{t}`")
        if t == "libc::raise(sig)":
            if raised:
                raise ExtractError("exit_with_status: raises twice")
            raised = True
        elif t == "unreachable!()":
            if not raised:
                raise ExtractError("exit_with_status: unreachable!() before the raise")
            unreachable = True
        elif raised:
            raise ExtractError(f"exit_with_status: statement between raise and unreachable!(): `{t}`")
        elif t == "libc::signal(sig, libc::SIG_DFL)":
            resets.append(("dying", []))
        elif t == "uninstall_forwarding_handlers()":
            resets.append(("fixed", list(x["uninstalled"])))
        elif re.fullmatch(r"libc::signal\(libc::(SIG[A-Z0-9]+), libc::SIG_DFL\)", t):
            resets.append(("fixed", [_signo(re.fullmatch(r"libc::signal\(libc::(SIG[A-Z0-9]+), libc::SIG_DFL\)", t).group(1))]))
        else:
            raise ExtractError(f"exit_with_status: unexpected statement `{t}`")
    x["resets"], x["raises"], x["unreachable"] = resets, raised, unreachable
    # ---- other signal sites
    other = 0
    for rel, (text, mask) in ix.texts.items():
        for m in re.finditer(r"\blibc::(signal|sigaction|sigprocmask|pthread_sigmask|raise)\s*\(", text):
            if mask[m.start()]:
                continue
            k = ix.fn_at(rel, m.start())
            nm = ix.fns[k]["name"] if k is not None else None
            if not (rel == HANDLERS and nm in ("install_forwarding_handlers", "uninstall_forwarding_handlers", "exit_with_status")):
                other += 1
    x["other_signal_sites"] = other

    # ---- handle_git_hook_invocation
    hb = PT.squash(ix.body(ix.find(HOOK_HANDLERS, "handle_git_hook_invocation")))
    sts = _top_level(hb)
    lets_ok = {
        "perf_enabled": r"let perf_enabled = hook_perf_json_logging_enabled\(\)",
        "hook_start": r"let hook_start = perf_enabled\.then\(Instant::now\)",
        "skip_managed_hooks": r'let skip_managed_hooks = std::env::var\(ENV_SKIP_MANAGED_HOOKS\)\.as_deref\(\) == Ok\("1"\) \|\| std::env::var\(ENV_SKIP_MANAGED_HOOKS_LEGACY\)\.as_deref\(\) == Ok\("1"\)',
        "cached_forward_dir": r"let cached_forward_dir = should_forward_repo_state_first\(None\)",
        "forward_hooks_dir_exists": r"let forward_hooks_dir_exists = cached_forward_dir\.is_some\(\)",
    }
    early, seen, k = [], set(), 0
    while k < len(sts):
        st = sts[k]
        if st["kind"] == "let" and st["text"].startswith("let mut stdin_data"):
            break
        if st["kind"] == "let":
            nm = re.match(r"let (\w+) =", st["text"])
            if not nm or nm.group(1) not in lets_ok or not re.fullmatch(lets_ok[nm.group(1)], st["text"]):
                raise ExtractError(f"handle_git_hook_invocation: unexpected binding before stdin is read: `{st['text'][:100]}`")
            seen.add(nm.group(1))
        elif st["kind"] == "if":
            if st["block"] != "return 0;":
                raise ExtractError(f"handle_git_hook_invocation: an early `if` that is not `return 0`: `{st['text'][:100]}`")
            early.append(_conj(st["cond"], "handle_git_hook_invocation"))
        else:
            raise ExtractError(f"handle_git_hook_invocation: unexpected statement before stdin is read: `{st['text'][:100]}`")
        k += 1
    if k >= len(sts):
        raise ExtractError("handle_git_hook_invocation: `let mut stdin_data` not found")
    if not {"skip_managed_hooks", "cached_forward_dir", "forward_hooks_dir_exists"} <= seen:
        raise ExtractError("handle_git_hook_invocation: the skip / forward bindings are not made before stdin is read")
    x["early_returns"] = early
    rest = sts[k:]
    guards = [s for s in rest if s["kind"] == "if" and "run_managed_hook(" in s["block"]]
    if len(guards) != 1 or hb.count("run_managed_hook(") != 1:
        raise ExtractError("handle_git_hook_invocation: run_managed_hook is not called from exactly one top-level `if`")
    x["managed_guard"] = _conj(guards[0]["cond"], "handle_git_hook_invocation")
    x["managed_failure_returns"] = re.search(r"if managed_status != 0 \{ .*?return managed_status; \}", guards[0]["block"]) is not None
    tail_let = [s for s in rest if s["kind"] == "let" and s["text"].startswith("let status = execute_forwarded_hook(")]
    x["tail_forwards"] = (len(tail_let) == 1
                          and re.fullmatch(r"let status = execute_forwarded_hook\( hook_name, hook_args, &stdin_data, repo\.as_ref\(\), cached_forward_dir, \)", tail_let[0]["text"]) is not None
                          and rest[-1]["kind"] == "expr" and rest[-1]["text"] == "status"
                          and not any(s["kind"] == "if" and "return" in s["block"] and s is not guards[0] for s in rest))

    # ---- resolve_child_git_hooks_path_override, proxy_to_git
    ob = _top_level(H("resolve_child_git_hooks_path_override"))
    none_when, k = [], 0
    while k < len(ob) and ob[k]["kind"] == "if":
        if ob[k]["block"] != "return None;":
            raise ExtractError(f"resolve_child_git_hooks_path_override: unexpected early block `{ob[k]['text'][:100]}`")
        none_when.append(_conj(ob[k]["cond"], "resolve_child_git_hooks_path_override"))
        k += 1
    tail = " ; ".join(s["text"] for s in ob[k:])
    mt = re.fullmatch(r"let hooks_path = resolve_previous_non_managed_hooks_path\(repository\) \.map\(\|path\| path\.to_string_lossy\(\)\.to_string\(\)\)(?: \.unwrap_or_else\(\|\| platform_null_hooks_path\(\)\.to_string\(\)\) ; Some\(hooks_path\)|\?? ; Some\(hooks_path\))", tail)
    if not mt:
        raise ExtractError(f"resolve_child_git_hooks_path_override: unexpected tail `{tail[:160]}`")
    x["none_when"] = none_when
    x["fallback_null"] = "platform_null_hooks_path()" in tail
    rp = PT.squash(ix.body(ix.find(HOOK_HANDLERS, "resolve_previous_non_managed_hooks_path")))
    x["same_forward_resolver"] = rp == "should_forward_repo_state_first(repo)"
    pg = H("proxy_to_git")
    news = [m.start() for m in re.finditer(r"Command::new\(config::Config::get\(\)\.git_cmd\(\)\)", pg)]
    if not news or pg.count("Command::new(") != len(news):
        raise ExtractError("proxy_to_git: the child is not (only) the configured git")
    inj, envs = [], 0
    for a, s0 in enumerate(news):
        seg = pg[s0:news[a + 1] if a + 1 < len(news) else len(pg)]
        sp = seg.find("cmd.spawn()")
        if sp < 0:
            raise ExtractError("proxy_to_git: a git Command that is never spawned")
        seg = seg[:sp]
        mi = re.search(r'if let Some\(hooks_path\) = child_hooks_path_override(?: && ([^{]*?))? \{ cmd\.arg\("-c"\)\.arg\(format!\("core\.hooksPath=\{\}", hooks_path\)\); \}', seg)
        if not mi:
            raise ExtractError("proxy_to_git: the `-c core.hooksPath=` injection has an unexpected shape")
        if seg.find("cmd.args(args);") < mi.end():
            raise ExtractError("proxy_to_git: the user's argv is not appended after the injected `-c core.hooksPath=`")
        inj.append(_conj(mi.group(1), "proxy_to_git") if mi.group(1) else [])
        if re.search(r'cmd\.env\(ENV_SKIP_MANAGED_HOOKS, "1"\);', seg):
            envs += 1
    if any(i != inj[0] for i in inj):
        raise ExtractError("proxy_to_git: the spawn sites inject under different conditions")
    x["inject_when"] = inj[0]
    x["child_skip_env"] = envs == len(news)
    return x


def render_exit(x):
    def conj(c):
        return "[" + ", ".join(f"(.{a}, {lbool(v)})" for a, v in c) + "]"
    def conjs(cs):
        return "[" + ", ".join(conj(c) for c in cs) + "]"
    def reset(r):
        return ".dying" if r[0] == "dying" else ".fixed [" + ", ".join(str(s) for s in r[1]) + "]"
    nums = lambda l: "[" + ", ".join(str(s) for s in l) + "]"
    return ("/-\n  Extracted/WrapperExitTables.lean — GENERATED by /verif/extract/wrapper_tables.py from\n"
            "  src/commands/git_handlers.rs (exit_with_status, install_/uninstall_forwarding_handlers,\n"
            "  resolve_child_git_hooks_path_override, proxy_to_git) and src/commands/git_hook_handlers.rs\n"
            "  (handle_git_hook_invocation, resolve_previous_non_managed_hooks_path) on every C06 check run. Do not edit.\n-/\n"
            "import GitAiModel.Model.WrapperExit\nnamespace GitAi.WrapperExitTables\nopen GitAi GitAi.Wrapper.Exit\n\n"
            "/-- `exit_with_status`: what is reset before `libc::raise(sig)`; the forwarding handlers of `proxy_to_git` -/\n"
            "def exitSpec : ExitSpec :=\n"
            f"  {{ resets := [{', '.join(reset(r) for r in x['resets'])}],\n"
            f"    raisesDying := {lbool(x['raises'])},\n    thenUnreachable := {lbool(x['unreachable'])},\n"
            f"    elseExitsCode := {lbool(x['else_exits_code'])},\n    forwarded := {nums(x['forwarded'])},\n"
            f"    uninstalled := {nums(x['uninstalled'])},\n    otherSignalSites := {x['other_signal_sites']} }}\n\n"
            "/-- `handle_git_hook_invocation`: the early `return 0`s, the guard of `run_managed_hook`, the forwarding tail -/\n"
            "def hookEntry : HookEntrySpec :=\n"
            f"  {{ earlyReturns := {conjs(x['early_returns'])},\n    managedGuard := {conj(x['managed_guard'])},\n"
            f"    managedFailureReturns := {lbool(x['managed_failure_returns'])},\n    tailForwards := {lbool(x['tail_forwards'])} }}\n\n"
            "/-- `resolve_child_git_hooks_path_override` and the injection / environment of `proxy_to_git` -/\n"
            "def override : OverrideSpec :=\n"
            f"  {{ noneWhen := {conjs(x['none_when'])},\n    fallbackNull := {lbool(x['fallback_null'])},\n"
            f"    sameForwardResolver := {lbool(x['same_forward_resolver'])},\n    injectWhen := {conj(x['inject_when'])},\n"
            f"    childSkipEnv := {lbool(x['child_skip_env'])} }}\n\nend GitAi.WrapperExitTables\n")

# ------------------------------------------------------------------------------------------ Lean rendering

lchars = PT.lchars


def ltok(t):
    o = "true" if t["opt"] else "false"
    k = t["k"]
    if k in ("lit", "pat"):
        return f"⟨.{k} {lchars(t['s'])}, {o}⟩"
    return f"⟨.{ {'dyn': 'dyn', 'globals': 'globals', 'rest': 'rest'}[k] }, {o}⟩"


def lbool(b):
    return "true" if b else "false"


def lph(p):
    return f"⟨{lbool(p['prologue'])}, {lbool(p['pre'])}, {lbool(p['post'])}, {lbool(p['thread'])}⟩"


def render(r):
    L = ["/-\n  Extracted/WrapperTables.lean — GENERATED by /verif/extract/wrapper_tables.py from /repo/src on every\n"
         "  C06/C07 check run (inventories of the git wrapper: internal git calls, file-system writes, exit sites,\n"
         "  dispatch tables, control skeleton). Do not edit.\n-/",
         "import GitAiModel.Model.WrapperTypes\nnamespace GitAi.WrapperTables\nopen GitAi GitAi.Wrapper\n",
         "/-- internal git invocations reachable from `handle_git` (phases = prologue, pre, post, thread) -/",
         "def calls : List ICall := ["]
    rows = []
    for c in r["calls"]:
        rows.append(("  { file := " + lchars(c["file"]) + ", fn := " + lchars(c["fn"]) + f", k := {c['k']}, stdin := {lbool(c['stdin'])},\n"
                     "    tokens := [" + ", ".join(ltok(t) for t in c["tokens"]) + "],\n"
                     "    scriptRefs := [" + ", ".join(lchars(s) for s in c["script_refs"]) + f"], guarded := {lbool(c['guarded'])}, phases := {lph(c['phases'])} }}",
                     f"{c['key']} : {PT.show_tokens(c['tokens'])}"))
    for i, (row, com) in enumerate(rows):
        L.append(row + ("," if i + 1 < len(rows) else "") + "  -- " + com.replace("\n", "\\n"))
    L.append("]\n")
    L.append("/-- file-system mutations in reachable functions -/\ndef writes : List FsWrite := [")
    for i, w in enumerate(r["writes"]):
        L.append("  { file := " + lchars(w["file"]) + ", fn := " + lchars(w["fn"]) + f", k := {w['k']}, op := " + lchars(w["op"])
                 + f", root := .{w['root']}, gate := .{w['gate']}, phases := {lph(w['phases'])} }}" + ("," if i + 1 < len(r["writes"]) else "")
                 + f"  -- {w['key']} {w['op']}({w['arg']})")
    L.append("]\n")
    L.append("/-- process exit sites (git_handlers.rs, commands/hooks/*.rs and every other reachable function) -/\ndef exits : List ExitSite := [")
    for i, e in enumerate(r["exits"]):
        L.append("  { file := " + lchars(e["file"]) + ", fn := " + lchars(e["fn"]) + f", k := {e['k']}, kind := .{e['kind']}, code := {e['code']}, "
                 f"diag := {lbool(e['diag'])}, reachable := {lbool(e['reachable'])}, phases := {lph(e['phases'])} }}"
                 + ("," if i + 1 < len(r["exits"]) else "") + f"  -- {e['key']} ({e['arg']}) {e['message'][:50]}")
    L.append("]\n")
    for name, tab in (("preDispatch", r["pre"]), ("postDispatch", r["post"])):
        L.append(f"/-- `{ 'run_pre_command_hooks' if name == 'preDispatch' else 'run_post_command_hooks' }`: match arms on the subcommand -/\ndef {name} : List Dispatch := [")
        for i, a in enumerate(tab):
            L.append("  { cmd := " + lchars(a["cmd"]) + ", hooks := [" + ", ".join(lchars(h) for h in a["hooks"]) + "], flag := " + lchars(a["flag"]) + " }"
                     + ("," if i + 1 < len(tab) else "") + f"  -- {a['cmd']} => {' '.join(a['hooks'])} {('[' + a['flag'] + ']') if a['flag'] else ''}")
        L.append("]\n")
    L.append("/-- `command_uses_managed_hooks` -/\ndef managedCommands : List Str := [" + ", ".join(lchars(s) for s in r["managed"]) + "]\n")
    L.append("/-- control skeleton facts of handle_git / run_pre_command_hooks / run_post_command_hooks / exit_with_status / proxy_to_git -/")
    L.append("def skeleton : Skeleton :=\n  { " + ",\n    ".join(f"{k} := {lbool(v)}" for k, v in r["skeleton"].items()) + " }\n")
    rd = r["readers"]
    L.append("/-- the JSONL / JSON readers of git-ai's private state: shape facts (rewrite_log.rs, repo_storage.rs) -/")
    L.append("def readers : Readers :=\n  { " + ",\n    ".join(f"{k} := {lbool(v) if isinstance(v, bool) else v}" for k, v in rd.items()) + " }\n")
    L.append("end GitAi.WrapperTables")
    return "\n".join(L) + "\n"


def run(write=True):
    r = extract()
    r["ok"] = not r["problems"]
    r["changed"] = False
    if write:
        r["changed"] = C.write_if_changed(OUT, render(r))
        if r.get("exit_hooks") is not None:
            r["changed_exit"] = C.write_if_changed(OUT_EXIT, render_exit(r["exit_hooks"]))
        C.write_if_changed(OUT_JSON, json.dumps(r, indent=1, sort_keys=True, default=list))
    return r


def main():
    try:
        r = run(write="--dry" not in sys.argv)
    except ExtractError as e:
        print(f"EXTRACT-ERROR wrapper_tables: {e}", file=sys.stderr)
        sys.exit(3)
    if "--list" in sys.argv:
        for c in r["calls"]:
            ph = "".join(ch if c["phases"][n] else "-" for ch, n in (("P", "prologue"), ("b", "pre"), ("a", "post"), ("T", "thread")))
            print(f"CALL  {c['key']:80s} {ph} {'guarded  ' if c['guarded'] else 'UNGUARDED'} | {PT.show_tokens(c['tokens'])}"
                  + (f"   script={c['script_refs']}" if c["script_refs"] else ""))
        for w in r["writes"]:
            print(f"WRITE {w['key']:80s} {w['root']:10s} {w['gate']:16s} {w['op']}({w['arg']})")
        for e in r["exits"]:
            ph = "".join(ch if e["phases"][n] else "-" for ch, n in (("P", "prologue"), ("b", "pre"), ("a", "post"), ("T", "thread")))
            print(f"EXIT  {e['key']:80s} {ph} {e['kind']}:{e['code']} diag={e['diag']} reachable={e['reachable']} {e['message'][:40]}")
        for a in r["pre"]:
            print("PRE  ", a)
        for a in r["post"]:
            print("POST ", a)
        print("MANAGED", r["managed"])
        print("SKELETON", r["skeleton"])
        print("READERS", r["readers"])
        for s in r["spawns"]:
            print("SPAWN", s)
        print("STATS", r["stats"])
    for p in r["problems"]:
        print(f"EXTRACT-ERROR wrapper_tables: {p}", file=sys.stderr)
    print(f"wrapper_tables: {len(r['calls'])} calls, {len(r['writes'])} writes, {len(r['exits'])} exit sites, changed={r['changed']} ok={r['ok']}")
    sys.exit(0 if r["ok"] else 3)


if __name__ == "__main__":
    main()
