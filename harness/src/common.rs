//! Shared helpers: deterministic PRNG, case emission, string generators.
use serde_json::{Value, json};
use std::io::Write;

/// splitmix64 — every random choice in a run derives from one seed.
pub struct Rng(pub u64);

impl Rng {
    pub fn new(seed: u64) -> Self {
        // scramble the seed (splitmix64 finaliser) so that nearby seeds give unrelated streams:
        // the generator itself advances by a constant, so without this seed s+d would replay seed s
        // shifted by d draws
        let mut z = seed.wrapping_add(0x1234_5678_9ABC_DEF1);
        z = (z ^ (z >> 30)).wrapping_mul(0xBF58476D1CE4E5B9);
        z = (z ^ (z >> 27)).wrapping_mul(0x94D049BB133111EB);
        z ^= z >> 31;
        Rng(z)
    }
    pub fn next(&mut self) -> u64 {
        self.0 = self.0.wrapping_add(0x9E3779B97F4A7C15);
        let mut z = self.0;
        z = (z ^ (z >> 30)).wrapping_mul(0xBF58476D1CE4E5B9);
        z = (z ^ (z >> 27)).wrapping_mul(0x94D049BB133111EB);
        z ^ (z >> 31)
    }
    /// uniform in [0, n)
    pub fn below(&mut self, n: u64) -> u64 {
        if n == 0 { 0 } else { self.next() % n }
    }
    pub fn range(&mut self, lo: u64, hi_incl: u64) -> u64 {
        lo + self.below(hi_incl - lo + 1)
    }
    pub fn chance(&mut self, num: u64, den: u64) -> bool {
        self.below(den) < num
    }
    pub fn pick<T: Copy>(&mut self, xs: &[T]) -> T {
        xs[self.below(xs.len() as u64) as usize]
    }
    /// small numbers most of the time, occasionally large
    pub fn size(&mut self, typical: u64, max: u64) -> u64 {
        if self.chance(9, 10) { self.below(typical + 1) } else { self.below(max + 1) }
    }
}

/// One emitted case: the request sent to the Lean driver, the implementation's canonical
/// answer, oracle verdicts evaluated on the implementation's answer, and tags for the
/// distribution report.
pub struct Emitter {
    out: Box<dyn Write>,
    pub n: u64,
}

impl Emitter {
    pub fn new(path: &str) -> Self {
        let f = std::fs::File::create(path).expect("create out file");
        Emitter { out: Box::new(std::io::BufWriter::new(f)), n: 0 }
    }
    /// `req`: driver request (object with "op"), or Null when there is no model counterpart.
    /// `imp`: implementation's canonical response (compared to the driver's).
    /// `oracles`: list of {"name", "ok", "detail"?, "sig"?} evaluated on the implementation.
    pub fn emit(&mut self, suite: &str, req: Value, imp: Value, oracles: Vec<Value>, tags: Vec<String>) {
        let line = json!({"id": self.n, "suite": suite, "req": req, "impl": imp, "oracles": oracles, "tags": tags});
        writeln!(self.out, "{}", line).unwrap();
        self.n += 1;
    }
    pub fn finish(mut self) {
        self.out.flush().unwrap();
    }
}

pub fn oracle(name: &str, ok: bool, detail: Value, sig: &str) -> Value {
    json!({"name": name, "ok": ok, "detail": detail, "sig": sig})
}

/// Run a closure catching panics; returns Err(message) on panic.
pub fn catch<T>(f: impl FnOnce() -> T + std::panic::UnwindSafe) -> Result<T, String> {
    match std::panic::catch_unwind(f) {
        Ok(v) => Ok(v),
        Err(e) => {
            let msg = if let Some(s) = e.downcast_ref::<&str>() {
                s.to_string()
            } else if let Some(s) = e.downcast_ref::<String>() {
                s.clone()
            } else {
                "panic".to_string()
            };
            Err(msg)
        }
    }
}

/// Characters that matter to the note format and to git paths.
pub const PATH_ALPHABET: &[&str] = &[
    "a", "b", "c", "x", "y", "z", "src", "lib", ".rs", ".txt", "/", "/", "_", "-", "--", "---",
    " ", "  ", "\t", "\"", "'", "\\", "\r", "\u{a0}", "\u{2028}", "\u{3000}", "\u{85}", "\u{b}",
    "é", "日本", "🙂", ":", ",", "0", "1", "+", "=", "{", "}", "#", "@@",
];

pub fn gen_path(rng: &mut Rng) -> String {
    // special shapes first
    match rng.below(40) {
        0 => return "---".to_string(),
        1 => return "\"".to_string(),
        2 => return "\"q\"".to_string(),
        3 => return "  lead".to_string(),
        4 => return "trail\u{a0}".to_string(),
        5 => return "cr\r".to_string(),
        6 => return "-dash".to_string(),
        7 => return "nl\nx".to_string(),
        8 => return "\u{a0}".to_string(),
        _ => {}
    }
    let n = 1 + rng.size(4, 10);
    let mut s = String::new();
    // mostly plain paths
    let plain = rng.chance(6, 10);
    for _ in 0..n {
        if plain {
            s.push_str(rng.pick(&["a", "b", "c", "src", "lib", "/", ".rs", ".txt", "_", "1", "x"]));
        } else {
            s.push_str(rng.pick(PATH_ALPHABET));
        }
    }
    s
}
