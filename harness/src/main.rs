//! verif-harness: runs the real git-ai functions on generated inputs and emits, per case,
//! the request for the Lean driver, the implementation's answer and oracle verdicts.
mod common;
mod suites;

fn main() {
    let args: Vec<String> = std::env::args().collect();
    let mut suite = String::new();
    let mut seed: u64 = 1;
    let mut count: u64 = 1000;
    let mut out = String::from("/dev/stdout");
    let mut corpus: Option<String> = None;
    let mut i = 1;
    while i < args.len() {
        match args[i].as_str() {
            "--seed" => { seed = args[i + 1].parse().unwrap(); i += 2; }
            "--count" => { count = args[i + 1].parse().unwrap(); i += 2; }
            "--out" => { out = args[i + 1].clone(); i += 2; }
            "--corpus" => { corpus = Some(args[i + 1].clone()); i += 2; }
            s => { suite = s.to_string(); i += 1; }
        }
    }
    // keep panic messages out of stderr noise: we catch and report them per case
    std::panic::set_hook(Box::new(|_| {}));
    let mut em = common::Emitter::new(&out);
    let ok = suites::run(&suite, seed, count, corpus.as_deref(), &mut em);
    em.finish();
    if !ok {
        eprintln!("unknown suite {suite}");
        std::process::exit(2);
    }
}
