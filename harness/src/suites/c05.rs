//! C05 — notes-tree layout logic and the range builders of the note-producing paths.
//! Real code: git::refs::{notes_path_for_object, note_paths_for_object, note_pathspecs_for_commit,
//! push_note_tree_update (via verif_hooks), notes_add, notes_add_batch, note_blob_oids_for_commits},
//! authorship_log::LineRange::compress_lines,
//! rebase_authorship::{upsert_file_attestation, build_file_attestation_from_line_attributions}.
//!
//! Suite `c05`: pure functions. Suite `c05repo`: the real writer/lookup on a scratch git
//! repository whose notes tree is pre-seeded at arbitrary (mixed) fan-out depths; the tree
//! observed before each op is what the model is run on.
use crate::common::*;
use git_ai::authorship::attribution_tracker::LineAttribution;
use git_ai::authorship::authorship_log::LineRange;
use git_ai::authorship::authorship_log_serialization::{AttestationEntry, AuthorshipLog, FileAttestation};
use git_ai::authorship::rebase_authorship::verif_hooks as rb;
use git_ai::git::refs::{self, verif_hooks as rf};
use serde_json::{Value, json};
use std::collections::{BTreeMap, BTreeSet};
use std::io::{BufRead, Write};
use std::process::{Command, Stdio};

const HEX: &[char] = &['0', '1', '2', '3', '4', '5', '6', '7', '8', '9', 'a', 'b', 'c', 'd', 'e', 'f'];

fn hex(rng: &mut Rng, n: usize) -> String {
    (0..n).map(|_| rng.pick(HEX)).collect()
}

fn exc<T>(r: Result<T, String>, f: impl FnOnce(T) -> Value) -> Value {
    match r {
        Ok(v) => json!({"ok": f(v)}),
        Err(m) => json!({"panic": if m.contains("overflow") { "overflow" } else { "slice" }}),
    }
}

fn is_hex_oid(s: &str) -> bool {
    !s.is_empty() && s.chars().all(|c| c.is_ascii_digit() || ('a'..='f').contains(&c))
}

// ------------------------------------------------------------------ path helpers

fn gen_oid(rng: &mut Rng) -> String {
    match rng.below(20) {
        0 => String::new(),
        1 => {
            let n = 1 + rng.below(5) as usize;
            hex(rng, n)
        }
        2 => hex(rng, 64),
        3 => "aéx".to_string(),
        4 => "é".to_string(),
        5 => "éab".to_string(),
        6 => "日本語".to_string(),
        7 => format!("{}Z{}", hex(rng, 3), hex(rng, 4)),
        8 => format!("ab/{}", hex(rng, 38)),
        9 => hex(rng, 39),
        10 => "a🙂bcdef".to_string(),
        _ => hex(rng, 40),
    }
}

fn paths_case(oid: &str, em: &mut Emitter, tag: &str) {
    let o = oid.to_string();
    let fan = catch({ let o = o.clone(); move || rf::notes_path_for_object(&o) });
    let fps = catch({ let o = o.clone(); move || rf::fanout_note_pathspec_for_commit(&o) });
    let paths = catch({ let o = o.clone(); move || rf::note_paths_for_object(&o) });
    let specs = catch({ let o = o.clone(); move || rf::note_pathspecs_for_commit(&o) });
    let mut oracles = vec![];
    let hexo = is_hex_oid(oid);
    if hexo {
        let ok = match &paths {
            Ok(ps) => {
                let set: BTreeSet<&String> = ps.iter().collect();
                set.len() == ps.len()
                    && ps.len() == (oid.len() + 1) / 2
                    && ps.iter().all(|p| {
                        p.replace('/', "") == oid
                            && p.split('/').rev().skip(1).all(|c| c.len() == 2)
                            && !p.split('/').any(|c| c.is_empty())
                    })
                    && ps.contains(&oid.to_string())
            }
            Err(_) => false,
        };
        oracles.push(oracle("paths_are_all_fanout_variants", ok, json!({"oid": oid}), "paths:not-the-fanout-variants"));
    }
    em.emit(
        "c05",
        json!({"op": "nt_paths", "oid": oid}),
        json!({
            "fanout": exc(fan, |v| json!(v)),
            "flat_pathspec": rf::flat_note_pathspec_for_commit(oid),
            "fanout_pathspec": exc(fps, |v| json!(v)),
            "paths": exc(paths, |v| json!(v)),
            "pathspecs": exc(specs, |v| json!(v)),
        }),
        oracles,
        vec![tag.to_string(), format!("oid:{}", if hexo { format!("hex{}", oid.len().min(99)) } else { "nonhex".into() })],
    );
    let o2 = o.clone();
    let cmds = catch(move || rf::note_tree_update_commands(&o2, ":7"));
    em.emit(
        "c05",
        json!({"op": "nt_update_cmds", "sha": oid, "data": ":7"}),
        exc(cmds, |v| json!(v)),
        vec![],
        vec!["update_cmds".into()],
    );
}

// ------------------------------------------------------------------ compress_lines

fn jrange(r: &LineRange) -> Value {
    match r {
        LineRange::Single(n) => json!([n]),
        LineRange::Range(s, e) => json!([s, e]),
    }
}

fn expand(rs: &[LineRange]) -> Vec<u64> {
    let mut v = vec![];
    for r in rs {
        match r {
            LineRange::Single(n) => v.push(*n as u64),
            LineRange::Range(s, e) => {
                let mut k = *s as u64;
                while k <= *e as u64 && v.len() < 100000 {
                    v.push(k);
                    k += 1;
                }
            }
        }
    }
    v
}

/// sorted, pairwise disjoint, each range non-empty
fn ranges_sorted_disjoint(rs: &[LineRange]) -> bool {
    let b = |r: &LineRange| match r {
        LineRange::Single(n) => (*n as u64, *n as u64),
        LineRange::Range(s, e) => (*s as u64, *e as u64),
    };
    rs.iter().all(|r| b(r).0 <= b(r).1) && rs.windows(2).all(|w| b(&w[0]).1 < b(&w[1]).0)
}

fn gen_lines(rng: &mut Rng) -> (Vec<u32>, &'static str) {
    let kind = rng.below(10);
    let n = rng.size(8, 40) as usize;
    let mut v: Vec<u32> = match kind {
        0 => vec![],
        1 => (0..n).map(|_| 1 + rng.below(30) as u32).collect(), // unsorted, repeats
        2 => {
            // near u32::MAX
            let mut s: BTreeSet<u32> = BTreeSet::new();
            for _ in 0..n.max(1) {
                s.insert(u32::MAX - rng.below(6) as u32);
            }
            s.into_iter().collect()
        }
        3 => vec![u32::MAX, u32::MAX],
        _ => {
            let mut s: BTreeSet<u32> = BTreeSet::new();
            let span = 1 + rng.below(60) as u32;
            for _ in 0..n {
                s.insert(1 + rng.below(span as u64) as u32);
            }
            s.into_iter().collect()
        }
    };
    if kind == 5 && v.len() > 1 {
        let k = rng.below(v.len() as u64) as usize;
        let x = v[k];
        v.insert(k, x); // sorted with one repeat
        return (v, "sorted-with-repeat");
    }
    let tag = match kind {
        0 => "empty",
        1 => "unsorted",
        2 => "near-max",
        3 => "max-max",
        _ => "strict-ascending",
    };
    (v, tag)
}

fn compress_case(lines: &[u32], em: &mut Emitter, tag: &str) {
    let l2 = lines.to_vec();
    let r = catch(move || LineRange::compress_lines(&l2));
    let strict = lines.windows(2).all(|w| w[0] < w[1]);
    let mut oracles = vec![];
    if strict {
        let ok = match &r {
            Ok(rs) => ranges_sorted_disjoint(rs) && expand(rs) == lines.iter().map(|x| *x as u64).collect::<Vec<_>>(),
            Err(_) => false,
        };
        oracles.push(oracle("compress_wf", ok, json!({"lines": lines}), "compress:ranges-not-wf"));
    }
    em.emit(
        "c05",
        json!({"op": "nt_compress", "lines": lines}),
        exc(r, |rs| Value::Array(rs.iter().map(jrange).collect())),
        oracles,
        vec!["compress".into(), format!("compress:{tag}")],
    );
}

// ------------------------------------------------------------------ upsert_file_attestation

fn canon_files(files: &[FileAttestation]) -> Value {
    Value::Array(
        files
            .iter()
            .map(|f| {
                let mut es: Vec<&AttestationEntry> = f.entries.iter().collect();
                es.sort_by(|a, b| a.hash.cmp(&b.hash));
                json!({"path": f.file_path, "entries": es.iter().map(|e| json!({
                    "hash": e.hash, "ranges": e.line_ranges.iter().map(jrange).collect::<Vec<_>>()
                })).collect::<Vec<_>>()})
            })
            .collect(),
    )
}

fn files_in(v: &Value) -> Vec<FileAttestation> {
    v.as_array()
        .unwrap()
        .iter()
        .map(|f| FileAttestation {
            file_path: f["path"].as_str().unwrap().to_string(),
            entries: f["entries"]
                .as_array()
                .unwrap()
                .iter()
                .map(|e| {
                    AttestationEntry::new(
                        e["hash"].as_str().unwrap().to_string(),
                        e["ranges"]
                            .as_array()
                            .unwrap()
                            .iter()
                            .map(|r| {
                                let a = r.as_array().unwrap();
                                if a.len() == 1 {
                                    LineRange::Single(a[0].as_u64().unwrap() as u32)
                                } else {
                                    LineRange::Range(a[0].as_u64().unwrap() as u32, a[1].as_u64().unwrap() as u32)
                                }
                            })
                            .collect(),
                    )
                })
                .collect(),
        })
        .collect()
}

fn upsert_case(files: &[FileAttestation], path: &str, attrs: &[(u32, u32, String)], exists: bool, em: &mut Emitter, tag: &str) {
    let mut log = AuthorshipLog::new();
    log.attestations = files.to_vec();
    let las: Vec<LineAttribution> = attrs
        .iter()
        .map(|(s, e, a)| LineAttribution { start_line: *s, end_line: *e, author_id: a.clone(), overrode: None })
        .collect();
    let p = path.to_string();
    let res = catch(move || {
        rb::upsert_file_attestation(&mut log, &p, &las, exists);
        log.attestations
    });
    let valid = attrs.iter().all(|(s, e, _)| s <= e);
    let mut oracles = vec![];
    let mut ok_absent = true;
    let mut ok_wf = true;
    let mut ok_cover = true;
    if let Ok(out) = &res {
        let mine: Vec<&FileAttestation> = out.iter().filter(|f| f.file_path == path).collect();
        if !exists {
            ok_absent = mine.is_empty();
        }
        ok_wf = mine.len() <= 1;
        // other files untouched, in order
        let others_before: Vec<&FileAttestation> = files.iter().filter(|f| f.file_path != path).collect();
        let others_after: Vec<&FileAttestation> = out.iter().filter(|f| f.file_path != path).collect();
        ok_wf &= others_before == others_after;
        if exists && valid {
            let mut want: BTreeMap<String, BTreeSet<u64>> = BTreeMap::new();
            for (s, e, a) in attrs {
                if a != "human" {
                    want.entry(a.clone()).or_default().extend((*s as u64)..=(*e as u64));
                }
            }
            let mut got: BTreeMap<String, BTreeSet<u64>> = BTreeMap::new();
            for f in &mine {
                for e in &f.entries {
                    ok_wf &= e.hash != "human" && ranges_sorted_disjoint(&e.line_ranges) && !e.line_ranges.is_empty();
                    let ex = expand(&e.line_ranges);
                    ok_wf &= !got.contains_key(&e.hash);
                    got.entry(e.hash.clone()).or_default().extend(ex);
                }
            }
            ok_cover = want == got;
        }
    }
    let w = json!({"path": path, "attrs": attrs, "exists": exists});
    oracles.push(oracle("upsert_absent_file_removed", ok_absent, w.clone(), "upsert:absent-file-kept"));
    oracles.push(oracle("upsert_ranges_wf", ok_wf, w.clone(), "upsert:ranges-not-wf"));
    oracles.push(oracle("upsert_covers_exactly", ok_cover, w, "upsert:lines-lost-or-invented"));
    let imp = match res {
        Ok(out) => json!({"files": canon_files(&out)}),
        Err(_) => json!({"panic": true}),
    };
    em.emit(
        "c05",
        json!({"op": "nt_upsert", "files": canon_files_raw(files), "path": path,
               "attrs": attrs.iter().map(|(s, e, a)| json!([s, e, a])).collect::<Vec<_>>(), "exists": exists}),
        imp,
        oracles,
        vec!["upsert".into(), format!("upsert:{tag}"), format!("upsert:exists={exists}"), format!("upsert:valid={valid}")],
    );
}

/// files as given (entry order preserved) for the request
fn canon_files_raw(files: &[FileAttestation]) -> Value {
    Value::Array(
        files
            .iter()
            .map(|f| {
                json!({"path": f.file_path, "entries": f.entries.iter().map(|e| json!({
                    "hash": e.hash, "ranges": e.line_ranges.iter().map(jrange).collect::<Vec<_>>()
                })).collect::<Vec<_>>()})
            })
            .collect(),
    )
}

fn gen_upsert(rng: &mut Rng, em: &mut Emitter) {
    let names = ["a.rs", "src/b c.rs", "---", "d\u{a0}", "\"q\"", "e.txt"];
    let nf = rng.below(4) as usize;
    let mut files = vec![];
    let mut used = BTreeSet::new();
    for _ in 0..nf {
        let p = rng.pick(&names).to_string();
        if !used.insert(p.clone()) {
            continue;
        }
        let mut f = FileAttestation::new(p);
        for k in 0..rng.below(3) {
            let s = 1 + rng.below(20) as u32;
            f.add_entry(AttestationEntry::new(format!("{:016x}", k + 1), vec![LineRange::Range(s, s + 1 + rng.below(4) as u32)]));
        }
        files.push(f);
    }
    let path = rng.pick(&names).to_string();
    let authors = ["aaaaaaaaaaaaaaaa", "bbbbbbbbbbbbbbbb", "human", "cccccccccccccccc"];
    let na = rng.size(5, 14) as usize;
    let style = rng.below(10);
    let mut attrs = vec![];
    let mut cursor = 1u32;
    for _ in 0..na {
        let a = rng.pick(&authors).to_string();
        let (s, e) = match style {
            0 => {
                // arbitrary, possibly overlapping, possibly inverted
                let s = 1 + rng.below(30) as u32;
                let e = if rng.chance(1, 6) { s.saturating_sub(rng.below(3) as u32) } else { s + rng.below(5) as u32 };
                (s, e)
            }
            1 => {
                let s = u32::MAX - rng.below(8) as u32;
                (s, s.saturating_add(rng.below(3) as u32))
            }
            2 => {
                // overlapping, valid
                let s = 1 + rng.below(20) as u32;
                (s, s + rng.below(8) as u32)
            }
            _ => {
                // a per-line function: consecutive disjoint intervals
                let s = cursor + rng.below(3) as u32;
                let e = s + rng.below(4) as u32;
                cursor = e + 1;
                (s, e)
            }
        };
        attrs.push((s, e, a));
    }
    if rng.chance(1, 3) {
        // shuffle
        for i in (1..attrs.len()).rev() {
            let j = rng.below(i as u64 + 1) as usize;
            attrs.swap(i, j);
        }
    }
    let exists = rng.chance(3, 4);
    let tag = match style {
        0 => "arbitrary",
        1 => "near-max",
        2 => "overlapping",
        _ => "line-function",
    };
    upsert_case(&files, &path, &attrs, exists, em, tag);
}

pub fn run(seed: u64, count: u64, corpus: Option<&str>, em: &mut Emitter) {
    if let Some(path) = corpus {
        if let Ok(f) = std::fs::File::open(path) {
            for line in std::io::BufReader::new(f).lines().map_while(Result::ok) {
                let Ok(v) = serde_json::from_str::<Value>(&line) else { continue };
                match v["kind"].as_str().unwrap_or("") {
                    "paths" => paths_case(v["oid"].as_str().unwrap(), em, "corpus-paths"),
                    "compress" => {
                        let ls: Vec<u32> = v["lines"].as_array().unwrap().iter().map(|x| x.as_u64().unwrap() as u32).collect();
                        compress_case(&ls, em, "corpus");
                    }
                    "upsert" => {
                        let attrs: Vec<(u32, u32, String)> = v["attrs"]
                            .as_array()
                            .unwrap()
                            .iter()
                            .map(|a| (a[0].as_u64().unwrap() as u32, a[1].as_u64().unwrap() as u32, a[2].as_str().unwrap().to_string()))
                            .collect();
                        upsert_case(&files_in(&v["files"]), v["path"].as_str().unwrap(), &attrs, v["exists"].as_bool().unwrap(), em, "corpus");
                    }
                    _ => {}
                }
            }
        }
    }
    let mut rng = Rng::new(seed);
    for i in 0..count {
        match i % 6 {
            0 | 1 => {
                let o = gen_oid(&mut rng);
                paths_case(&o, em, "gen-paths");
            }
            2 | 3 => {
                let (ls, tag) = gen_lines(&mut rng);
                compress_case(&ls, em, tag);
            }
            _ => gen_upsert(&mut rng, em),
        }
    }
}

// ================================================================== real repository suite

struct Scratch {
    dir: std::path::PathBuf,
}

impl Drop for Scratch {
    fn drop(&mut self) {
        let _ = std::fs::remove_dir_all(&self.dir);
    }
}

fn git(dir: &std::path::Path, args: &[&str], stdin: Option<&[u8]>) -> (bool, Vec<u8>) {
    let mut c = Command::new("git");
    c.arg("-C").arg(dir).args(args).stdin(Stdio::piped()).stdout(Stdio::piped()).stderr(Stdio::null());
    let mut ch = c.spawn().expect("spawn git");
    if let Some(data) = stdin {
        ch.stdin.as_mut().unwrap().write_all(data).unwrap();
    }
    drop(ch.stdin.take());
    let out = ch.wait_with_output().unwrap();
    (out.status.success(), out.stdout)
}

/// observed notes tree: path -> blob content
fn read_tree(dir: &std::path::Path) -> Vec<(String, String)> {
    let (ok, out) = git(dir, &["ls-tree", "-r", "refs/notes/ai"], None);
    if !ok {
        return vec![];
    }
    let text = String::from_utf8_lossy(&out).to_string();
    let mut rows = vec![];
    for l in text.lines() {
        let Some((meta, path)) = l.split_once('\t') else { continue };
        let oid = meta.split_whitespace().nth(2).unwrap_or("").to_string();
        rows.push((path.to_string(), oid));
    }
    if rows.is_empty() {
        return vec![];
    }
    let mut oids: Vec<String> = rows.iter().map(|r| r.1.clone()).collect::<BTreeSet<_>>().into_iter().collect();
    oids.sort();
    let input = oids.join("\n") + "\n";
    let (_, data) = git(dir, &["cat-file", "--batch"], Some(input.as_bytes()));
    let mut contents: BTreeMap<String, String> = BTreeMap::new();
    let mut pos = 0usize;
    while pos < data.len() {
        let Some(nl) = data[pos..].iter().position(|b| *b == b'\n') else { break };
        let header = String::from_utf8_lossy(&data[pos..pos + nl]).to_string();
        let parts: Vec<&str> = header.split_whitespace().collect();
        if parts.len() < 3 {
            pos += nl + 1;
            continue;
        }
        let size: usize = parts[2].parse().unwrap_or(0);
        let start = pos + nl + 1;
        let body = String::from_utf8_lossy(&data[start..(start + size).min(data.len())]).to_string();
        contents.insert(parts[0].to_string(), body);
        pos = start + size + 1;
    }
    rows.into_iter().map(|(p, o)| (p, contents.get(&o).cloned().unwrap_or_default())).collect()
}

fn jtree(t: &[(String, String)]) -> Value {
    let mut v: Vec<&(String, String)> = t.iter().collect();
    v.sort();
    Value::Array(v.iter().map(|(p, b)| json!([p, b])).collect())
}

fn fan(oid: &str, depth: usize) -> String {
    let mut d = depth;
    while d > 0 && 2 * d >= oid.len() {
        d -= 1;
    }
    let mut s = String::new();
    for i in 0..d {
        s.push_str(&oid[2 * i..2 * i + 2]);
        s.push('/');
    }
    s.push_str(&oid[2 * d..]);
    s
}

fn seed_tree(dir: &std::path::Path, tree: &[(String, String)]) {
    let _ = git(dir, &["update-ref", "-d", "refs/notes/ai"], None);
    if tree.is_empty() {
        return;
    }
    let mut script = Vec::<u8>::new();
    for (k, (_, content)) in tree.iter().enumerate() {
        script.extend_from_slice(format!("blob\nmark :{}\ndata {}\n", k + 1, content.len()).as_bytes());
        script.extend_from_slice(content.as_bytes());
        script.extend_from_slice(b"\n");
    }
    script.extend_from_slice(b"commit refs/notes/ai\ncommitter t <t@t> 1700000000 +0000\ndata 0\n");
    for (k, (path, _)) in tree.iter().enumerate() {
        script.extend_from_slice(format!("M 100644 :{} {}\n", k + 1, path).as_bytes());
    }
    script.extend_from_slice(b"\n");
    let (ok, _) = git(dir, &["fast-import", "--quiet"], Some(&script));
    assert!(ok, "seed fast-import failed");
}

fn objects_of(tree: &[(String, String)]) -> BTreeMap<String, Vec<(String, String)>> {
    let mut m: BTreeMap<String, Vec<(String, String)>> = BTreeMap::new();
    for (p, b) in tree {
        m.entry(p.replace('/', "")).or_default().push((p.clone(), b.clone()));
    }
    m
}

enum TreeOp {
    Batch(Vec<(String, String)>),
    Add(String, String),
    Lookup(Vec<String>),
}

fn run_tree_case(dir: &std::path::Path, repo: &git_ai::git::repository::Repository, init: &[(String, String)], ops: &[TreeOp], em: &mut Emitter, tags: &[String]) {
    seed_tree(dir, init);
    let mut before = read_tree(dir);
    for op in ops {
        let seeded_dup = objects_of(&before).values().any(|v| v.len() > 1);
        let max_depth = before.iter().map(|(p, _)| p.matches('/').count()).max().unwrap_or(0);
        let mut t = tags.to_vec();
        t.push(format!("tree:max-depth={}", max_depth.min(4)));
        t.push(format!("tree:size={}", match before.len() { 0 => "0", 1..=3 => "1-3", 4..=9 => "4-9", _ => "10+" }));
        if seeded_dup {
            t.push("tree:has-duplicates".into());
        }
        match op {
            TreeOp::Batch(entries) => {
                let r = refs::notes_add_batch(repo, entries);
                let after = read_tree(dir);
                // oracle: every written object has exactly one entry carrying the last content
                // written for it; every other object is untouched
                let mut last: BTreeMap<String, String> = BTreeMap::new();
                for (s, c) in entries {
                    last.insert(s.clone(), c.clone());
                }
                let ob = objects_of(&before);
                let oa = objects_of(&after);
                let mut ok = r.is_ok();
                let mut why = String::new();
                for (s, c) in &last {
                    match oa.get(s) {
                        Some(v) if v.len() == 1 && &v[0].1 == c => {}
                        other => {
                            ok = false;
                            why = format!("object {s}: entries after = {:?}", other);
                        }
                    }
                }
                for (o, v) in &ob {
                    if !last.contains_key(o) && oa.get(o) != Some(v) {
                        ok = false;
                        why = format!("unwritten object {o} changed");
                    }
                }
                for o in oa.keys() {
                    if !last.contains_key(o) && !ob.contains_key(o) {
                        ok = false;
                        why = format!("object {o} appeared");
                    }
                }
                let sig = if max_depth >= 2 { "batch-writer:duplicate-or-lost-entry:fanout-depth>=2" } else { "batch-writer:duplicate-or-lost-entry" };
                t.push("op:batch".into());
                em.emit(
                    "c05repo",
                    json!({"op": "nt_batch", "tree": jtree(&before), "entries": entries.iter().map(|(s, c)| json!([s, c])).collect::<Vec<_>>()}),
                    json!({"ok": {"tree": jtree(&after)}}),
                    vec![oracle("batch_one_note_per_written_object", ok, json!({"tree": jtree(&before), "entries": entries, "after": jtree(&after), "why": why}), sig)],
                    t,
                );
                before = after;
            }
            TreeOp::Add(sha, content) => {
                let r = refs::notes_add(repo, sha, content);
                let after = read_tree(dir);
                let stored = format!("{content}\n");
                let oa = objects_of(&after);
                let ob = objects_of(&before);
                let mut ok = r.is_ok() && matches!(oa.get(sha), Some(v) if v.len() == 1 && v[0].1 == stored);
                // git keeps every other object's notes (it may move them)
                for (o, v) in &ob {
                    if o != sha {
                        let mut b: Vec<&String> = v.iter().map(|x| &x.1).collect();
                        let mut a: Vec<&String> = oa.get(o).map(|x| x.iter().map(|y| &y.1).collect()).unwrap_or_default();
                        b.sort();
                        b.dedup();
                        a.sort();
                        a.dedup();
                        // git merges duplicate entries of an object when it loads that subtree
                        if v.len() == 1 && a != b {
                            ok = false;
                        }
                    }
                }
                let mut abs: Vec<(String, String)> = after.iter().map(|(p, b)| (p.replace('/', ""), b.clone())).collect();
                abs.sort();
                t.push("op:add".into());
                let cmp = if seeded_dup { "skip" } else { "subset" };
                em.emit(
                    "c05repo",
                    json!({"op": "nt_git_add", "tree": jtree(&before), "sha": sha, "blob": stored, "_cmp": cmp}),
                    json!({"abs": abs.iter().map(|(o, b)| json!([o, b])).collect::<Vec<_>>()}),
                    vec![oracle("notes_add_one_note", ok, json!({"tree": jtree(&before), "sha": sha, "after": jtree(&after)}), "notes-add:duplicate-or-lost-entry")],
                    t,
                );
                before = after;
            }
            TreeOp::Lookup(shas) => {
                let r = refs::note_blob_oids_for_commits(repo, shas);
                // blob oid -> content through the observed tree
                let (_, out) = git(dir, &["ls-tree", "-r", "refs/notes/ai"], None);
                let mut oid_of_path: BTreeMap<String, String> = BTreeMap::new();
                for l in String::from_utf8_lossy(&out).lines() {
                    if let Some((meta, path)) = l.split_once('\t') {
                        oid_of_path.insert(path.to_string(), meta.split_whitespace().nth(2).unwrap_or("").to_string());
                    }
                }
                let mut content_of_oid: BTreeMap<String, String> = BTreeMap::new();
                for (p, b) in &before {
                    if let Some(o) = oid_of_path.get(p) {
                        content_of_oid.insert(o.clone(), b.clone());
                    }
                }
                let mut found: Vec<(String, String)> = vec![];
                let mut okr = true;
                match &r {
                    Ok(m) => {
                        for (s, o) in m {
                            found.push((s.clone(), content_of_oid.get(o).cloned().unwrap_or_else(|| format!("?{o}"))));
                        }
                    }
                    Err(_) => okr = false,
                }
                found.sort();
                // oracle: exactly the notes `git notes list` knows, for objects with one entry
                let ob = objects_of(&before);
                let mut ok = okr;
                let mut why = String::new();
                let fm: BTreeMap<&String, &String> = found.iter().map(|(a, b)| (a, b)).collect();
                for s in shas {
                    match ob.get(s) {
                        Some(v) if v.len() == 1 => {
                            if fm.get(s) != Some(&&v[0].1) {
                                ok = false;
                                why = format!("{s}: has note at {}, lookup returned {:?}", v[0].0, fm.get(s));
                            }
                        }
                        None => {
                            if fm.contains_key(s) {
                                ok = false;
                                why = format!("{s}: no note, lookup returned one");
                            }
                        }
                        _ => {}
                    }
                }
                let sig = if max_depth >= 2 { "batch-lookup:missed-or-wrong-note:fanout-depth>=2" } else { "batch-lookup:missed-or-wrong-note" };
                t.push("op:lookup".into());
                em.emit(
                    "c05repo",
                    json!({"op": "nt_lookup", "tree": jtree(&before), "shas": shas}),
                    json!({"ok": {"found": found.iter().map(|(a, b)| json!([a, b])).collect::<Vec<_>>()}}),
                    vec![oracle("lookup_finds_every_note", ok, json!({"tree": jtree(&before), "shas": shas, "why": why}), sig)],
                    t,
                );
            }
        }
    }
}

fn gen_tree_case(rng: &mut Rng, counter: &mut u64) -> (Vec<(String, String)>, Vec<TreeOp>, Vec<String>) {
    // object pool with shared 2- and 4-character prefixes
    let p2 = [hex(rng, 2), hex(rng, 2)];
    let p4 = [format!("{}{}", p2[0], hex(rng, 2)), hex(rng, 4)];
    let npool = 3 + rng.below(8) as usize;
    let mut pool: Vec<String> = vec![];
    while pool.len() < npool {
        let o = match rng.below(4) {
            0 => format!("{}{}", rng.pick(&[&p2[0], &p2[1]]), hex(rng, 38)),
            1 => format!("{}{}", rng.pick(&[&p4[0], &p4[1]]), hex(rng, 36)),
            _ => hex(rng, 40),
        };
        if !pool.contains(&o) {
            pool.push(o);
        }
    }
    let layout = rng.below(6);
    let mut tree = vec![];
    let nseed = rng.below(npool as u64 + 1) as usize;
    for o in pool.iter().take(nseed) {
        let d = match layout {
            0 => 0,
            1 => 1,
            2 => 2,
            3 => rng.pick(&[0usize, 1, 2]),
            4 => rng.pick(&[0usize, 1, 2, 3, 5, 19]),
            _ => rng.pick(&[2usize, 3]),
        };
        *counter += 1;
        tree.push((fan(o, d), format!("seed-{}", *counter)));
    }
    let mut tags = vec![format!("layout:{}", ["flat", "depth1", "depth2", "mixed012", "mixed-any", "deep"][layout as usize])];
    if !tree.is_empty() && rng.chance(1, 10) {
        // precondition violated on purpose: a second entry for an annotated object
        let (p, _) = tree[0].clone();
        let o = p.replace('/', "");
        let cur = p.matches('/').count();
        *counter += 1;
        tree.push((fan(&o, if cur == 1 { 2 } else { 1 }), format!("dup-{}", *counter)));
        tags.push("seeded-duplicate".into());
    }
    let nops = 1 + rng.below(4) as usize;
    let mut ops = vec![];
    for _ in 0..nops {
        match rng.below(5) {
            0 | 1 => {
                let n = 1 + rng.below(4) as usize;
                let mut es = vec![];
                for _ in 0..n {
                    *counter += 1;
                    es.push((rng.pick(&pool.iter().collect::<Vec<_>>()).clone(), format!("batch-{}", *counter)));
                }
                ops.push(TreeOp::Batch(es));
            }
            2 => {
                *counter += 1;
                ops.push(TreeOp::Add(rng.pick(&pool.iter().collect::<Vec<_>>()).clone(), format!("add-{}", *counter)));
            }
            _ => {
                let n = 1 + rng.below(5) as usize;
                let mut shas: Vec<String> = (0..n).map(|_| rng.pick(&pool.iter().collect::<Vec<_>>()).clone()).collect();
                if rng.chance(1, 3) {
                    shas.push(hex(rng, 40));
                }
                ops.push(TreeOp::Lookup(shas));
            }
        }
    }
    (tree, ops, tags)
}

// ------------------------------------------------------------------ VirtualAttributions::to_authorship_log
// (the note builder of the squash / CI path: rewrite_authorship_after_squash_or_rebase). Model: the same
// group / sort / merge loop as build_file_attestation_from_line_attributions (driver op `sq_to_log`).

fn to_log_case(repo: &git_ai::git::repository::Repository, rng: &mut Rng, em: &mut Emitter) {
    use git_ai::authorship::virtual_attribution::VirtualAttributions;
    use std::collections::HashMap;
    let names = ["a.rs", "src/b c.rs", "---", "\"q\"", "e.txt", "  lead"];
    let authors = ["h1aaaaaaaaaaaaaa", "h2bbbbbbbbbbbbbb", "human", "h3cccccccccccccc"];
    let mode = rng.pick(&["runs", "runs", "split-shuffled", "split-shuffled", "overlapping", "out-of-range"]);
    let mut attributions = HashMap::new();
    let mut contents = HashMap::new();
    let mut req_files: Vec<(String, Vec<(u32, u32, String)>, u32)> = vec![];
    let mut used = BTreeSet::new();
    for _ in 0..(1 + rng.below(3)) {
        let p = rng.pick(&names).to_string();
        if !used.insert(p.clone()) {
            continue;
        }
        let n = 1 + rng.below(24) as u32;
        // a per-line author function with runs
        let mut per_line: Vec<Option<&str>> = vec![];
        let mut cur: Option<&str> = None;
        for _ in 0..n {
            if rng.chance(2, 5) {
                cur = if rng.chance(1, 3) { None } else { Some(rng.pick(&authors)) };
            }
            per_line.push(cur);
        }
        let mut attrs: Vec<(u32, u32, String)> = vec![];
        let mut i = 0usize;
        while i < per_line.len() {
            if let Some(a) = per_line[i] {
                let mut j = i;
                while j + 1 < per_line.len() && per_line[j + 1] == Some(a) {
                    j += 1;
                }
                let (s, e) = (i as u32 + 1, j as u32 + 1);
                if mode != "runs" && e > s && rng.chance(1, 2) {
                    let m = s + rng.below((e - s) as u64) as u32;
                    attrs.push((m + 1, e, a.to_string()));
                    attrs.push((s, m, a.to_string()));
                } else {
                    attrs.push((s, e, a.to_string()));
                }
                i = j + 1;
            } else {
                i += 1;
            }
        }
        if mode != "runs" {
            for k in (1..attrs.len()).rev() {
                let j = rng.below(k as u64 + 1) as usize;
                attrs.swap(k, j);
            }
        }
        if mode == "overlapping" && !attrs.is_empty() {
            let (s, e, _) = attrs[rng.below(attrs.len() as u64) as usize].clone();
            attrs.push((s, e + rng.below(3) as u32, rng.pick(&authors).to_string()));
        }
        if mode == "out-of-range" {
            attrs.push((n + 1 + rng.below(3) as u32, n + 4, rng.pick(&authors).to_string()));
        }
        let las: Vec<LineAttribution> = attrs
            .iter()
            .map(|(s, e, a)| LineAttribution { start_line: *s, end_line: *e, author_id: a.clone(), overrode: None })
            .collect();
        attributions.insert(p.clone(), (vec![], las));
        contents.insert(p.clone(), "l\n".repeat(n as usize));
        req_files.push((p, attrs, n));
    }
    req_files.sort_by(|a, b| a.0.cmp(&b.0));
    let va = VirtualAttributions::new(repo.clone(), "0".repeat(40), attributions, contents, 0);
    let res = catch(std::panic::AssertUnwindSafe(move || va.to_authorship_log().map(|l| l.attestations).map_err(|e| e.to_string())));
    let mut ok_wf = true;
    let mut ok_cover = true;
    let mut ok_range = true;
    let mut out_sorted: Vec<FileAttestation> = vec![];
    if let Ok(Ok(out)) = &res {
        out_sorted = out.clone();
        out_sorted.sort_by(|a, b| a.file_path.cmp(&b.file_path));
        for (p, attrs, n) in &req_files {
            let mine: Vec<&FileAttestation> = out.iter().filter(|f| &f.file_path == p).collect();
            ok_wf &= mine.len() <= 1;
            let mut want: BTreeMap<String, BTreeSet<u64>> = BTreeMap::new();
            for (s, e, a) in attrs {
                if a != "human" {
                    want.entry(a.clone()).or_default().extend((*s as u64)..=(*e as u64));
                }
            }
            let mut got: BTreeMap<String, BTreeSet<u64>> = BTreeMap::new();
            let mut seen: BTreeSet<u64> = BTreeSet::new();
            for f in &mine {
                for e in &f.entries {
                    ok_wf &= e.hash != "human" && ranges_sorted_disjoint(&e.line_ranges) && !e.line_ranges.is_empty() && !got.contains_key(&e.hash);
                    let ex = expand(&e.line_ranges);
                    if mode == "runs" || mode == "split-shuffled" {
                        ok_wf &= ex.iter().all(|l| seen.insert(*l));
                        ok_range &= ex.iter().all(|l| *l >= 1 && *l <= *n as u64);
                    }
                    got.entry(e.hash.clone()).or_default().extend(ex);
                }
            }
            ok_cover &= want == got;
        }
        ok_wf &= out.iter().all(|f| req_files.iter().any(|(p, _, _)| p == &f.file_path));
    }
    let w = json!({"files": req_files.iter().map(|(p, a, n)| json!([p, a, n])).collect::<Vec<_>>()});
    let oracles = vec![
        oracle("to_log_ranges_wf", ok_wf, w.clone(), "to-authorship-log:ranges-not-wf"),
        oracle("to_log_covers_exactly", ok_cover, w.clone(), "to-authorship-log:lines-lost-or-invented"),
        oracle("to_log_lines_within_file", ok_range, w.clone(), "to-authorship-log:line-out-of-range"),
        oracle("to_log_no_panic", matches!(res, Ok(Ok(_))), w, "to-authorship-log:panic-or-error"),
    ];
    let imp = match &res {
        Ok(Ok(_)) => json!({"files": canon_files(&out_sorted)}),
        _ => json!({"panic": true}),
    };
    em.emit(
        "c05repo",
        json!({"op": "sq_to_log", "files": req_files.iter().map(|(p, a, _)| json!([p, a.iter().map(|(s, e, h)| json!([s, e, h])).collect::<Vec<_>>()])).collect::<Vec<_>>()}),
        imp,
        oracles,
        vec!["to-log".into(), format!("to-log:{mode}"), format!("to-log:files={}", req_files.len())],
    );
}

pub fn run_repo(seed: u64, count: u64, corpus: Option<&str>, em: &mut Emitter) {
    let base = std::env::temp_dir().join(format!("vf-c05-harness-{}-{}", std::process::id(), seed));
    let _ = std::fs::remove_dir_all(&base);
    std::fs::create_dir_all(base.join("home")).unwrap();
    let scratch = Scratch { dir: base.clone() };
    // isolate from the user's configuration
    unsafe {
        std::env::set_var("HOME", base.join("home"));
        std::env::set_var("GIT_CONFIG_GLOBAL", base.join("home/.gitconfig"));
        std::env::set_var("GIT_CONFIG_NOSYSTEM", "1");
        std::env::set_var("GIT_AI_TEST_DB_PATH", base.join("db"));
        std::env::set_var("GITAI_TEST_DB_PATH", base.join("db"));
        std::env::set_var("GIT_AUTHOR_NAME", "T");
        std::env::set_var("GIT_AUTHOR_EMAIL", "t@t");
        std::env::set_var("GIT_COMMITTER_NAME", "T");
        std::env::set_var("GIT_COMMITTER_EMAIL", "t@t");
    }
    let dir = base.join("repo");
    std::fs::create_dir_all(&dir).unwrap();
    let (ok, _) = git(&dir, &["init", "-q", "-b", "main"], None);
    assert!(ok);
    let repo = git_ai::git::find_repository_in_path(dir.to_str().unwrap()).expect("open scratch repo");
    if let Some(path) = corpus {
        if let Ok(f) = std::fs::File::open(path) {
            for line in std::io::BufReader::new(f).lines().map_while(Result::ok) {
                let Ok(v) = serde_json::from_str::<Value>(&line) else { continue };
                if v["kind"] != "tree" {
                    continue;
                }
                let pairs = |x: &Value| -> Vec<(String, String)> {
                    x.as_array().unwrap().iter().map(|p| (p[0].as_str().unwrap().to_string(), p[1].as_str().unwrap().to_string())).collect()
                };
                let init = pairs(&v["tree"]);
                let mut ops = vec![];
                for o in v["ops"].as_array().unwrap() {
                    if let Some(b) = o.get("batch") {
                        ops.push(TreeOp::Batch(pairs(b)));
                    } else if let Some(a) = o.get("add") {
                        ops.push(TreeOp::Add(a[0].as_str().unwrap().to_string(), a[1].as_str().unwrap().to_string()));
                    } else if let Some(l) = o.get("lookup") {
                        ops.push(TreeOp::Lookup(l.as_array().unwrap().iter().map(|s| s.as_str().unwrap().to_string()).collect()));
                    }
                }
                run_tree_case(&dir, &repo, &init, &ops, em, &["corpus-tree".to_string()]);
            }
        }
    }
    let mut rng = Rng::new(seed ^ 0xC05);
    let mut counter = 0u64;
    for _ in 0..count {
        let (tree, ops, tags) = gen_tree_case(&mut rng, &mut counter);
        run_tree_case(&dir, &repo, &tree, &ops, em, &tags);
    }
    for _ in 0..(count / 2 + 40) {
        to_log_case(&repo, &mut rng, em);
    }
    drop(scratch);
}
