//! C08 — prompt-storage mode resolution and secret masking.
//! Real code: config::{Config::effective_prompt_storage, Config::should_exclude_prompts,
//! PromptStorageMode::from_str}, authorship::secrets::{extract_tokens, redact_secret,
//! redact_secrets_in_text, redact_secrets_in_json (reached through redact_secrets_from_prompts on a
//! single ToolUse message, so the suite also compiles against trees without that function),
//! redact_secrets_from_prompts, strip_prompt_messages, is_random}.
//! The entropy classifier is opaque in the Lean model: its verdict on every in-window token of
//! the request text travels with the request (`verdicts`).
use crate::common::*;
use git_ai::authorship::authorship_log::PromptRecord;
use git_ai::authorship::secrets;
use git_ai::authorship::transcript::Message;
use git_ai::authorship::working_log::AgentId;
use git_ai::config::{self, PromptStorageMode};
use git_ai::git::repository::{Repository, find_repository_in_path};
use serde_json::{Value, json};
use std::collections::BTreeMap;
use std::io::BufRead;
use std::str::FromStr;

// ------------------------------------------------------------------ independent reference
// (written from the property statement and the doc comments of secrets.rs, with the window and
// the character set spelled out here, NOT read from the code's constants)

const REF_MIN: usize = 15;
const REF_MAX: usize = 90;

fn ref_is_secret_char(b: u8) -> bool {
    b.is_ascii_alphanumeric() || b"+/_-.~".contains(&b)
}

/// maximal runs of secret characters: (start, end) byte offsets
fn ref_runs(text: &str) -> Vec<(usize, usize)> {
    let b = text.as_bytes();
    let mut out = Vec::new();
    let mut start: Option<usize> = None;
    for (i, &c) in b.iter().enumerate() {
        match (ref_is_secret_char(c), start) {
            (true, None) => start = Some(i),
            (false, Some(s)) => {
                out.push((s, i));
                start = None;
            }
            _ => {}
        }
    }
    if let Some(s) = start {
        out.push((s, b.len()));
    }
    out
}

fn ref_flagged(text: &str, s: usize, e: usize) -> bool {
    (REF_MIN..=REF_MAX).contains(&(e - s)) && secrets::is_random(&text.as_bytes()[s..e])
}

/// the redaction the property asks for: every flagged run → first 4 + ******** + last 4
fn ref_redact(text: &str) -> (String, usize) {
    let mut out = String::new();
    let mut prev = 0;
    let mut n = 0;
    for (s, e) in ref_runs(text) {
        if ref_flagged(text, s, e) {
            out.push_str(&text[prev..s]);
            out.push_str(&text[s..s + 4]);
            out.push_str("********");
            out.push_str(&text[e - 4..e]);
            prev = e;
            n += 1;
        }
    }
    out.push_str(&text[prev..]);
    (out, n)
}

/// first flagged in-window run that is still present, if any
fn surviving_flagged(text: &str) -> Option<String> {
    ref_runs(text).into_iter().find(|&(s, e)| ref_flagged(text, s, e)).map(|(s, e)| text[s..e].to_string())
}

fn verdicts_for(text: &str) -> Value {
    // the classifier's answer for every token the REAL extractor reports, plus every in-window
    // run of the reference (so that a model/code disagreement on tokens cannot hide behind a
    // missing verdict)
    let mut seen = std::collections::BTreeSet::new();
    let mut v = Vec::new();
    let mut add = |t: &str| {
        if seen.insert(t.to_string()) {
            // outside 15..=90 the classifier's tables do not reach (it may panic): never asked by
            // the real code; answer `false` so a model that asks is exposed by the output diff
            let tb = t.as_bytes().to_vec();
            let verdict = catch(move || secrets::is_random(&tb)).unwrap_or(false);
            v.push(json!({"tok": t, "secret": verdict}));
        }
    };
    let toks = catch({
        let t = text.to_string();
        move || secrets::extract_tokens(&t)
    })
    .unwrap_or_default();
    for (s, e) in toks {
        if let Some(t) = text.get(s..e) {
            add(t);
        }
    }
    for (s, e) in ref_runs(text) {
        if (REF_MIN - 2..=REF_MAX + 2).contains(&(e - s)) {
            add(&text[s..e]);
        }
    }
    Value::Array(v)
}

// ------------------------------------------------------------------ generators

const B64: &[u8] = b"ABCDEFGHIJKLMNOPQRSTUVWXYZabcdefghijklmnopqrstuvwxyz0123456789";
const HEXL: &[u8] = b"0123456789abcdef";

fn gen_random_token(rng: &mut Rng, len: usize) -> String {
    let (prefix, alphabet): (&str, &[u8]) = match rng.below(10) {
        0 => ("sk_live_", B64),
        1 => ("ghp_", B64),
        2 => ("AKIA", b"ABCDEFGHIJKLMNOPQRSTUVWXYZ234567"),
        3 => ("", HEXL),
        4 => ("xoxb-", B64),
        5 => ("", b"ABCDEFGHIJKLMNOPQRSTUVWXYZabcdefghijklmnopqrstuvwxyz0123456789+/"),
        6 => ("pk_test_", B64),
        _ => ("", B64),
    };
    let mut s = String::new();
    if prefix.len() < len {
        s.push_str(prefix);
    }
    while s.len() < len {
        s.push(alphabet[rng.below(alphabet.len() as u64) as usize] as char);
    }
    s
}

fn gen_len(rng: &mut Rng) -> usize {
    match rng.below(16) {
        0 => 14,
        1 => 15,
        2 => 16,
        3 => 89,
        4 => 90,
        5 => 91,
        6 => 8,
        7 => 9,
        8 => 4,
        9 => 120,
        _ => 17 + rng.below(50) as usize,
    }
}

fn gen_word(rng: &mut Rng) -> String {
    rng.pick(&[
        "hello_world", "PROJECT_NAME_ALIAS", "src/authorship/secrets.rs", "aaaaaaaaaaaaaaaaaaaa", "the", "quick",
        "https://example.com/path/to/resource.html", "v1.2.3-beta.1", "0000000000000000", "localhost",
        "please", "API_KEY", "export", "function_name_with_many_parts", "~/.config/git-ai/config.json",
        "CANARY-transcript", "1234567890123456", "abcdefghijklmnopqrstuvwxyz",
    ])
    .to_string()
}

fn gen_delim(rng: &mut Rng) -> &'static str {
    rng.pick(&[
        " ", " ", " ", "=", "==", "\n", "\"", ":", ", ", "é", "日本", "🙂", "\u{a0}", "*", "(", ")", "'", "\t",
        ";", "ß", "\u{0}", "\\", "@", "#", "\u{2028}", "€",
    ])
}

pub fn gen_text(rng: &mut Rng) -> (String, Vec<String>) {
    let mut tags = Vec::new();
    let n = 1 + rng.size(5, 14);
    let mut s = String::new();
    if rng.chance(1, 6) {
        s.push_str(gen_delim(rng));
    }
    for k in 0..n {
        match rng.below(10) {
            0..=4 => {
                let len = gen_len(rng);
                s.push_str(&gen_random_token(rng, len));
                if matches!(len, 14 | 15 | 16 | 89 | 90 | 91) {
                    tags.push(format!("toklen={len}"));
                }
            }
            5..=7 => s.push_str(&gen_word(rng)),
            8 => {
                // KEY=value with base64 padding
                s.push_str("TOKEN=");
                let len = gen_len(rng);
                s.push_str(&gen_random_token(rng, len));
                s.push_str(rng.pick(&["=", "==", ""]));
                tags.push("padding".to_string());
            }
            _ => {
                // two tokens separated by a single delimiter (adjacent)
                let a = gen_len(rng);
                let b = gen_len(rng);
                s.push_str(&gen_random_token(rng, a));
                s.push_str(rng.pick(&["=", "*", "é", ":", "\n"]));
                s.push_str(&gen_random_token(rng, b));
                tags.push("adjacent".to_string());
            }
        }
        if k + 1 < n || rng.chance(1, 3) {
            let d = gen_delim(rng);
            if !d.is_ascii() {
                tags.push("multibyte-neighbour".to_string());
            }
            s.push_str(d);
        }
    }
    tags.sort();
    tags.dedup();
    (s, tags)
}

// ------------------------------------------------------------------ cases: secrets

fn tokens_case(text: &str, em: &mut Emitter, mut tags: Vec<String>) {
    let t = text.to_string();
    let r = catch(move || secrets::extract_tokens(&t));
    let want: Vec<(usize, usize)> = ref_runs(text).into_iter().filter(|&(s, e)| (REF_MIN..=REF_MAX).contains(&(e - s))).collect();
    let (imp, ok, detail) = match &r {
        Ok(toks) => (
            json!({"tokens": toks.iter().map(|&(s, e)| json!([s, e])).collect::<Vec<_>>()}),
            *toks == want,
            json!({"text": text, "got": toks, "want": want}),
        ),
        Err(m) => (json!({"err": "panic"}), false, json!({"text": text, "panic": m})),
    };
    tags.push(format!("tokens={}", want.len().min(5)));
    em.emit(
        "c08",
        json!({"op": "rd_extract_tokens", "text": text}),
        imp,
        vec![oracle("tokens_are_in_window_maximal_runs", ok, if ok { json!(null) } else { detail }, "tokens:not-the-in-window-maximal-runs")],
        tags,
    );
}

fn redact_secret_case(s: &str, em: &mut Emitter, mut tags: Vec<String>) {
    let t = s.to_string();
    let r = catch(move || secrets::redact_secret(&t));
    let imp = match &r {
        Ok(x) => json!({"ok": x}),
        Err(_) => json!({"err": "panic"}),
    };
    // on a secret-character run: no panic; short → all stars; long → 4 + 8 stars + 4
    let is_run = !s.is_empty() && s.bytes().all(ref_is_secret_char);
    let want = if s.len() <= 8 { "*".repeat(s.len()) } else if is_run { format!("{}********{}", &s[..4], &s[s.len() - 4..]) } else { String::new() };
    let ok = if is_run || s.len() <= 8 { r.as_ref().ok() == Some(&want) } else { true };
    tags.push(if r.is_err() { "redact_secret=panic".into() } else { "redact_secret=ok".into() });
    tags.push(format!("is_run={is_run}"));
    em.emit(
        "c08",
        json!({"op": "rd_redact_secret", "s": s}),
        imp.clone(),
        vec![oracle("redact_secret_masks_runs", ok, json!({"s": s, "got": imp}), "redact-secret:wrong-on-secret-run")],
        tags,
    );
}

fn redact_text_case(text: &str, em: &mut Emitter, mut tags: Vec<String>) {
    let t = text.to_string();
    let r = catch(move || secrets::redact_secrets_in_text(&t));
    let (want_text, want_n) = ref_redact(text);
    let imp = match &r {
        Ok((x, n)) => json!({"ok": {"text": x, "count": n}}),
        Err(_) => json!({"err": "panic"}),
    };
    let mut oracles = vec![oracle("redact_no_panic", r.is_ok(), json!({"text": text}), "redact:panic")];
    if let Ok((out, n)) = &r {
        let surv = surviving_flagged(out);
        oracles.push(oracle(
            "no_flagged_token_survives",
            surv.is_none(),
            json!({"text": text, "out": out, "survivor": surv}),
            "redact:flagged-token-survives",
        ));
        oracles.push(oracle(
            "equals_reference_redaction",
            *out == want_text && *n == want_n,
            json!({"text": text, "out": out, "count": n, "want": want_text, "want_count": want_n}),
            "redact:differs-from-reference",
        ));
    }
    tags.push(format!("flagged={}", want_n.min(4)));
    em.emit("c08", json!({"op": "rd_redact_text", "text": text, "verdicts": verdicts_for(text)}), imp, oracles, tags);
}

// ------------------------------------------------------------------ tool inputs (JSON values)

/// transport form shared with the Lean driver (exact comparison; number literals as text; object
/// entries in the map's iteration order): ["z"] ["b",bool] ["n","lit"] ["s","text"] ["a",[..]] ["o",[[k,v]..]]
pub fn tagged(v: &Value) -> Value {
    match v {
        Value::Null => json!(["z"]),
        Value::Bool(b) => json!(["b", b]),
        Value::Number(n) => json!(["n", n.to_string()]),
        Value::String(s) => json!(["s", s]),
        Value::Array(a) => json!(["a", a.iter().map(tagged).collect::<Vec<_>>()]),
        Value::Object(o) => json!(["o", o.iter().map(|(k, x)| json!([k, tagged(x)])).collect::<Vec<_>>()]),
    }
}

/// every string of a value: leaves and object keys, any depth
fn json_strings(v: &Value, out: &mut Vec<String>) {
    match v {
        Value::String(s) => out.push(s.clone()),
        Value::Array(a) => a.iter().for_each(|x| json_strings(x, out)),
        Value::Object(o) => {
            for (k, x) in o {
                out.push(k.clone());
                json_strings(x, out);
            }
        }
        _ => {}
    }
}

/// reference traversal, written from the property statement: every string (leaf or key) is replaced
/// by its reference redaction; everything else stays; objects are maps (a later equal key wins)
fn ref_redact_json(v: &Value, n: &mut usize) -> Value {
    match v {
        Value::String(s) => {
            let (t, c) = ref_redact(s);
            *n += c;
            Value::String(t)
        }
        Value::Array(a) => Value::Array(a.iter().map(|x| ref_redact_json(x, n)).collect()),
        Value::Object(o) => {
            let mut m = BTreeMap::new();
            for (k, x) in o {
                let x2 = ref_redact_json(x, n);
                let (k2, c) = ref_redact(k);
                *n += c;
                m.insert(k2, x2);
            }
            Value::Object(m.into_iter().collect())
        }
        other => other.clone(),
    }
}

/// the real traversal: `redact_secrets_from_prompts` on one prompt holding one ToolUse message
fn real_redact_json(v: &Value) -> Result<(Value, usize), String> {
    let mut ps = BTreeMap::new();
    ps.insert("p".to_string(), prompt_record(0, vec![Message::ToolUse { name: "tool".into(), input: v.clone(), timestamp: None }]));
    let n = catch(std::panic::AssertUnwindSafe(|| secrets::redact_secrets_from_prompts(&mut ps)))?;
    match ps.remove("p").and_then(|mut p| p.messages.pop()) {
        Some(Message::ToolUse { input, .. }) => Ok((input, n)),
        _ => Err("tool message lost".into()),
    }
}

fn prompt_record(i: u64, messages: Vec<Message>) -> PromptRecord {
    PromptRecord {
        agent_id: AgentId { tool: "mock_agent".into(), id: format!("s{i}"), model: "m".into() },
        human_author: None,
        messages,
        total_additions: 1,
        total_deletions: 0,
        accepted_lines: 1,
        overriden_lines: 0,
        messages_url: None,
    }
}

fn gen_json_string(rng: &mut Rng, tags: &mut Vec<String>) -> String {
    match rng.below(8) {
        0 | 1 => {
            // a bare token at a window boundary
            let len = rng.pick(&[14usize, 15, 16, 89, 90, 91]);
            tags.push(format!("json-leaf-toklen={len}"));
            gen_random_token(rng, len)
        }
        2 => {
            let len = 24 + rng.below(20) as usize;
            format!("export KEY={}; echo done", gen_random_token(rng, len))
        }
        3 => gen_word(rng),
        4 => String::new(),
        _ => {
            let (t, tg) = gen_text(rng);
            tags.extend(tg);
            t
        }
    }
}

fn gen_json_key(rng: &mut Rng, tags: &mut Vec<String>) -> String {
    match rng.below(12) {
        0 | 1 => {
            let len = rng.pick(&[14usize, 15, 16, 89, 90, 91, 20, 32]);
            tags.push(format!("json-key-toklen={len}"));
            gen_random_token(rng, len)
        }
        2 => {
            tags.push("json-key-unicode".into());
            rng.pick(&["ключ", "キー", "é", "naïve key", "🙂", "schlüssel=", "\u{0}"]).to_string()
        }
        3 => {
            // credential inside a longer key with multi-byte neighbours
            tags.push("json-key-unicode".into());
            tags.push("json-key-credential".into());
            let len = 20 + rng.below(30) as usize;
            format!("é{}日", gen_random_token(rng, len))
        }
        4 => String::new(),
        _ => rng.pick(&["command", "file_path", "content", "env", "args", "old_string", "new_string", "headers", "url", "a", "b", "n"]).to_string(),
    }
}

pub fn gen_json(rng: &mut Rng, depth: u32, tags: &mut Vec<String>) -> Value {
    let leaf = depth == 0 || rng.chance(2, 5);
    if leaf {
        return match rng.below(10) {
            0 => Value::Null,
            1 => Value::Bool(rng.chance(1, 2)),
            2 => {
                tags.push("json-number".into());
                match rng.below(5) {
                    0 => json!(123456789012345678u64), // a digit run longer than the window's lower bound: stays a number
                    1 => json!(-1.5),
                    2 => json!(1e21),
                    3 => json!(0),
                    _ => json!(rng.below(100000)),
                }
            }
            _ => Value::String(gen_json_string(rng, tags)),
        };
    }
    if rng.chance(1, 3) {
        let n = rng.size(3, 6);
        Value::Array((0..n).map(|_| gen_json(rng, depth - 1, tags)).collect())
    } else {
        let n = rng.size(3, 6);
        let mut m = serde_json::Map::new();
        for _ in 0..n {
            m.insert(gen_json_key(rng, tags), gen_json(rng, depth - 1, tags));
        }
        if rng.chance(1, 8) {
            // two keys whose masked forms coincide (same first and last four characters)
            let mid1 = gen_random_token(rng, 12);
            let mid2 = gen_random_token(rng, 12);
            m.insert(format!("Qz7k{mid1}x9Pw"), gen_json(rng, depth - 1, tags));
            m.insert(format!("Qz7k{mid2}x9Pw"), gen_json(rng, depth - 1, tags));
            tags.push("json-key-collision-candidate".into());
        }
        Value::Object(m)
    }
}

fn json_depth(v: &Value) -> usize {
    match v {
        Value::Array(a) => 1 + a.iter().map(json_depth).max().unwrap_or(0),
        Value::Object(o) => 1 + o.values().map(json_depth).max().unwrap_or(0),
        _ => 0,
    }
}

fn gen_tool_input(rng: &mut Rng, tags: &mut Vec<String>) -> Value {
    let v = match rng.below(10) {
        0 => {
            // a deep chain (the traversal is recursive): 30..70 levels (serde_json parses at most 128), a credential at the bottom
            let mut v = Value::String(gen_random_token(rng, 32));
            for k in 0..(30 + rng.below(40)) {
                v = if k % 2 == 0 { json!([v]) } else { json!({ "k": v }) };
            }
            tags.push("json-deep".into());
            v
        }
        1 => gen_json(rng, 0, tags),
        2 | 3 => json!({"command": gen_json_string(rng, tags), "n": rng.below(5)}),
        _ => {
            let d = 1 + rng.below(4) as u32;
            let mut m = serde_json::Map::new();
            m.insert(gen_json_key(rng, tags), gen_json(rng, d, tags));
            m.insert(gen_json_key(rng, tags), gen_json(rng, d, tags));
            Value::Object(m)
        }
    };
    tags.push(format!("json-depth={}", json_depth(&v).min(6)));
    v
}

fn json_case(v: &Value, em: &mut Emitter, mut tags: Vec<String>) {
    let r = real_redact_json(v);
    let mut want_n = 0;
    let want = ref_redact_json(v, &mut want_n);
    let mut strs = Vec::new();
    json_strings(v, &mut strs);
    let all_text = strs.join("\n");
    let imp = match &r {
        Ok((x, n)) => json!({"ok": {"value": tagged(x), "count": n}}),
        Err(_) => json!({"err": "panic"}),
    };
    let mut oracles = vec![oracle("redact_json_no_panic", r.is_ok(), json!({"value": v}), "redact-json:panic")];
    if let Ok((out, n)) = &r {
        let mut outs = Vec::new();
        json_strings(out, &mut outs);
        let surv = outs.iter().find_map(|s| surviving_flagged(s));
        oracles.push(oracle(
            "no_flagged_token_in_tool_input",
            surv.is_none(),
            json!({"survivor": surv, "input": v, "out": out}),
            "notes-mode:credential-in-tool-input-unmasked",
        ));
        oracles.push(oracle(
            "equals_reference_traversal",
            *out == want && *n == want_n,
            json!({"input": v, "out": out, "count": n, "want": want, "want_count": want_n}),
            "redact-json:differs-from-reference",
        ));
        let mut ins = Vec::new();
        json_strings(v, &mut ins);
        if outs.len() < ins.len() {
            tags.push("json-key-collision".into());
        }
    }
    tags.push(format!("json-flagged={}", want_n.min(4)));
    tags.push(format!("json-kind={}", match v { Value::Object(_) => "object", Value::Array(_) => "array", Value::String(_) => "string", _ => "scalar" }));
    tags.sort();
    tags.dedup();
    em.emit("c08", json!({"op": "rd_redact_json", "value": tagged(v), "verdicts": verdicts_for(&all_text)}), imp, oracles, tags);
}

// ------------------------------------------------------------------ cases: prompts

fn gen_message(rng: &mut Rng, tags: &mut Vec<String>) -> Message {
    let (text, t) = gen_text(rng);
    tags.extend(t);
    let ts = if rng.chance(1, 2) { Some("2025-01-01T00:00:00Z".to_string()) } else { None };
    match rng.below(6) {
        0 => Message::User { text, timestamp: ts },
        1 => Message::Assistant { text, timestamp: ts },
        2 => Message::Thinking { text, timestamp: ts },
        3 => Message::Plan { text, timestamp: ts },
        _ => {
            tags.push("tool_use".to_string());
            let input = if rng.chance(1, 2) { json!({"command": text, "n": rng.below(5)}) } else { gen_tool_input(rng, tags) };
            Message::ToolUse { name: "bash".to_string(), input, timestamp: ts }
        }
    }
}

fn jmsg(m: &Message) -> Value {
    match m {
        Message::User { text, .. } => json!({"k": "user", "text": text}),
        Message::Assistant { text, .. } => json!({"k": "assistant", "text": text}),
        Message::Thinking { text, .. } => json!({"k": "thinking", "text": text}),
        Message::Plan { text, .. } => json!({"k": "plan", "text": text}),
        Message::ToolUse { name, input, .. } => json!({"k": "tool_use", "name": name, "input": tagged(input)}),
    }
}

fn jprompts(ps: &BTreeMap<String, PromptRecord>) -> Value {
    Value::Array(ps.iter().map(|(k, p)| json!({"id": k, "messages": p.messages.iter().map(jmsg).collect::<Vec<_>>()})).collect())
}

fn prompts_case(rng: &mut Rng, em: &mut Emitter) {
    let mut tags = vec!["kind=prompts".to_string()];
    let mut ps = BTreeMap::new();
    let np = rng.size(2, 4);
    for i in 0..np {
        let nm = rng.size(3, 6);
        let messages = (0..nm).map(|_| gen_message(rng, &mut tags)).collect();
        ps.insert(
            format!("{:016x}", rng.next() ^ i),
            prompt_record(i, messages),
        );
    }
    tags.sort();
    tags.dedup();
    let before = jprompts(&ps);
    let mut all_text = String::new();
    for p in ps.values() {
        for m in &p.messages {
            match m {
                Message::User { text, .. } | Message::Assistant { text, .. } | Message::Thinking { text, .. } | Message::Plan { text, .. } => {
                    all_text.push_str(text);
                    all_text.push('\n');
                }
                Message::ToolUse { input, .. } => {
                    let mut strs = Vec::new();
                    json_strings(input, &mut strs);
                    for t in strs {
                        all_text.push_str(&t);
                        all_text.push('\n');
                    }
                }
            }
        }
    }
    // --- redact
    let mut red = ps.clone();
    let r = catch(std::panic::AssertUnwindSafe(|| secrets::redact_secrets_from_prompts(&mut red)));
    let imp = match &r {
        Ok(n) => json!({"ok": {"prompts": jprompts(&red), "count": n}}),
        Err(_) => json!({"err": "panic"}),
    };
    let mut text_survivor = None;
    let mut tool_survivor = None;
    let mut dropped = false;
    if r.is_ok() {
        for (k, p) in &red {
            dropped |= p.messages.len() != ps[k].messages.len();
            for m in &p.messages {
                match m {
                    Message::User { text, .. } | Message::Assistant { text, .. } | Message::Thinking { text, .. } | Message::Plan { text, .. } => {
                        if text_survivor.is_none() {
                            text_survivor = surviving_flagged(text);
                        }
                    }
                    Message::ToolUse { input, .. } => {
                        // every string of the tool input: leaves and object keys
                        let mut strs = Vec::new();
                        json_strings(input, &mut strs);
                        if tool_survivor.is_none() {
                            tool_survivor = strs.iter().find_map(|t| surviving_flagged(t));
                        }
                    }
                }
            }
        }
    }
    em.emit(
        "c08",
        json!({"op": "rd_redact_prompts", "prompts": before, "verdicts": verdicts_for(&all_text)}),
        imp,
        vec![
            oracle("redact_prompts_no_panic", r.is_ok(), json!(null), "redact-prompts:panic"),
            oracle("redact_prompts_keeps_messages", !dropped, json!(null), "redact-prompts:message-dropped"),
            oracle(
                "no_flagged_token_in_text_messages",
                text_survivor.is_none(),
                json!({"survivor": text_survivor, "prompts": jprompts(&red)}),
                "notes-mode:credential-in-text-message-unmasked",
            ),
            oracle(
                "no_flagged_token_in_tool_input",
                tool_survivor.is_none(),
                json!({"survivor": tool_survivor}),
                "notes-mode:credential-in-tool-input-unmasked",
            ),
        ],
        tags.clone(),
    );
    // --- strip
    let mut st = ps.clone();
    secrets::strip_prompt_messages(&mut st);
    let all_empty = st.values().all(|p| p.messages.is_empty()) && st.len() == ps.len();
    em.emit(
        "c08",
        json!({"op": "rd_strip_prompts", "prompts": before}),
        json!({"prompts": jprompts(&st)}),
        vec![oracle("strip_leaves_no_message", all_empty, json!(null), "strip:message-left")],
        vec!["kind=strip".to_string()],
    );
}

// ------------------------------------------------------------------ cases: effective mode

struct ModeWorld {
    root: std::path::PathBuf,
    /// (repository, remotes as the real code lists them)
    repos: Vec<(Option<Repository>, Option<Vec<(String, String)>>)>,
}

const URLS: &[&str] = &[
    "https://github.com/acme/repo.git",
    "git@github.com:acme/repo.git",
    "https://gitlab.com/x/y",
    "https://github.com/other/thing",
    "/srv/git/local.git",
    "ssh://git@internal.example.com/team/secret-project.git",
];

const PATTERNS: &[&str] = &[
    "*", "https://github.com/acme/*", "*acme*", "git@github.com:acme/repo.git", "https://gitlab.com/**",
    "[", "?", "**", "*secret*", "https://github.com/other/thing", "*.git", "nomatch", "",
];

const MODE_STRINGS: &[&str] = &[
    "default", "notes", "local", "Notes", " notes ", "NOTES\n", "bogus", "", "note", "\u{a0}local\u{2003}",
    "\u{39d}OTES", "Local", "DEFAULT", "notes ", "\tdefault", "not es", "n\u{f6}tes", "LOCAL\u{3000}",
];

fn git(args: &[&str], cwd: &std::path::Path) {
    let st = std::process::Command::new("git")
        .args(args)
        .current_dir(cwd)
        .env("GIT_CONFIG_NOSYSTEM", "1")
        .output()
        .expect("run git");
    assert!(st.status.success(), "git {:?} failed: {}", args, String::from_utf8_lossy(&st.stderr));
}

impl ModeWorld {
    fn new() -> Self {
        let root = std::env::temp_dir().join(format!("vf-c08-h-{}", std::process::id()));
        let _ = std::fs::remove_dir_all(&root);
        std::fs::create_dir_all(&root).unwrap();
        let sets: Vec<Vec<usize>> = vec![vec![], vec![0], vec![1], vec![2], vec![0, 2], vec![3, 4], vec![5], vec![4], vec![2, 5, 0]];
        let mut repos: Vec<(Option<Repository>, Option<Vec<(String, String)>>)> = vec![(None, None)];
        for (k, set) in sets.iter().enumerate() {
            let d = root.join(format!("r{k}"));
            std::fs::create_dir_all(&d).unwrap();
            git(&["init", "-q"], &d);
            for (j, u) in set.iter().enumerate() {
                let name = if j == 0 { "origin".to_string() } else { format!("up{j}") };
                git(&["remote", "add", &name, URLS[*u]], &d);
            }
            let repo = find_repository_in_path(d.to_str().unwrap()).expect("open scratch repository");
            let remotes = repo.remotes_with_urls().ok();
            repos.push((Some(repo), remotes));
        }
        ModeWorld { root, repos }
    }
}

impl Drop for ModeWorld {
    fn drop(&mut self) {
        let _ = std::fs::remove_dir_all(&self.root);
    }
}

fn mode_name(m: PromptStorageMode) -> &'static str {
    m.as_str()
}

fn norm(s: &str) -> String {
    s.trim().to_lowercase()
}

fn mode_case(world: &ModeWorld, ps: &str, dps: Option<&str>, incl: &[String], excl: &[String], repo_ix: usize, em: &mut Emitter, extra: &str) {
    let cfg = config::verif_hooks::config_with_prompt_storage(ps, dps, incl, excl);
    let (repo, remotes) = &world.repos[repo_ix];
    let got = cfg.effective_prompt_storage(repo);
    let got_excl = cfg.should_exclude_prompts(repo);
    // what the pattern lists look like to the code: invalid patterns are dropped at load time
    let valid = |l: &[String]| -> Vec<String> { l.iter().filter(|p| config::verif_hooks::glob_matches(p, "").is_some()).cloned().collect() };
    let (vi, ve) = (valid(incl), valid(excl));
    let hits = |pats: &[String], url: &str| -> Vec<bool> { pats.iter().map(|p| config::verif_hooks::glob_matches(p, url).unwrap()).collect() };
    let jremotes = match remotes {
        None => Value::Null,
        Some(rs) => Value::Array(rs.iter().map(|(_, u)| json!({"excl": hits(&ve, u), "incl": hits(&vi, u)})).collect()),
    };
    let req = json!({"op": "rd_effective_mode", "prompt_storage": ps, "default_prompt_storage": dps,
        "excl_star": ve.iter().map(|p| p == "*").collect::<Vec<_>>(),
        "incl_star": vi.iter().map(|p| p == "*").collect::<Vec<_>>(),
        "remotes": jremotes});
    // ---- oracles straight from the documented resolution order
    let urls: Vec<&str> = remotes.as_ref().map(|r| r.iter().map(|(_, u)| u.as_str()).collect()).unwrap_or_default();
    let excluded = ve.iter().any(|p| p == "*") || urls.iter().any(|u| hits(&ve, u).iter().any(|&b| b));
    let asked_notes = norm(ps) == "notes" || dps.is_some_and(|d| norm(d) == "notes");
    let included = if urls.is_empty() { vi.iter().any(|p| p == "*") } else { urls.iter().any(|u| hits(&vi, u).iter().any(|&b| b)) };
    let parse = |s: &str| match norm(s).as_str() {
        "default" => Some("default"),
        "notes" => Some("notes"),
        "local" => Some("local"),
        _ => None,
    };
    let want = if excluded {
        "local"
    } else if vi.is_empty() || included {
        parse(ps).unwrap_or("default")
    } else {
        dps.and_then(parse).unwrap_or("local")
    };
    let witness = json!({"prompt_storage": ps, "default_prompt_storage": dps, "include": incl, "exclude": excl, "remotes": urls, "got": mode_name(got)});
    let oracles = vec![
        oracle("exclude_wins", !excluded || got == PromptStorageMode::Local, witness.clone(), "mode:excluded-repository-not-local"),
        oracle("notes_only_if_asked", got != PromptStorageMode::Notes || asked_notes, witness.clone(), "mode:notes-without-setting"),
        oracle("documented_resolution_order", mode_name(got) == want, json!({"want": want, "case": witness}), "mode:differs-from-documented-order"),
    ];
    let tags = vec![
        "kind=mode".to_string(),
        extra.to_string(),
        format!("mode={}", mode_name(got)),
        format!("excluded={excluded}"),
        format!("include={}", if vi.is_empty() { "none" } else if included { "match" } else { "nomatch" }),
        format!("remotes={}", if remotes.is_none() { "norepo".to_string() } else { urls.len().to_string() }),
    ];
    em.emit("c08", req, json!({"mode": mode_name(got), "should_exclude": got_excl}), oracles, tags);
}

fn parse_mode_case(s: &str, em: &mut Emitter) {
    let got = PromptStorageMode::from_str(s).ok().map(mode_name);
    em.emit(
        "c08",
        json!({"op": "rd_parse_mode", "s": s}),
        json!({"mode": got}),
        vec![],
        vec!["kind=parse_mode".to_string(), format!("parse={}", got.unwrap_or("none"))],
    );
}

fn pick_patterns(rng: &mut Rng) -> Vec<String> {
    let n = match rng.below(6) {
        0 | 1 => 0,
        2 | 3 => 1,
        4 => 2,
        _ => 3,
    };
    (0..n).map(|_| rng.pick(PATTERNS).to_string()).collect()
}

// ------------------------------------------------------------------ entry

pub fn run(seed: u64, count: u64, corpus: Option<&str>, em: &mut Emitter) {
    let world = ModeWorld::new();
    if let Some(p) = corpus {
        if let Ok(f) = std::fs::File::open(p) {
            for line in std::io::BufReader::new(f).lines().map_while(Result::ok) {
                let Ok(v) = serde_json::from_str::<Value>(&line) else { continue };
                if let Some(t) = v.get("text").and_then(|x| x.as_str()) {
                    tokens_case(t, em, vec!["corpus".into()]);
                    redact_text_case(t, em, vec!["corpus".into()]);
                } else if let Some(j) = v.get("json") {
                    json_case(j, em, vec!["corpus".into()]);
                } else if let Some(s) = v.get("secret").and_then(|x| x.as_str()) {
                    redact_secret_case(s, em, vec!["corpus".into()]);
                } else if let Some(ps) = v.get("prompt_storage").and_then(|x| x.as_str()) {
                    let l = |k: &str| -> Vec<String> {
                        v.get(k).and_then(|x| x.as_array()).map(|a| a.iter().filter_map(|s| s.as_str().map(String::from)).collect()).unwrap_or_default()
                    };
                    let ix = v.get("repo").and_then(|x| x.as_u64()).unwrap_or(0) as usize % world.repos.len();
                    mode_case(&world, ps, v.get("default_prompt_storage").and_then(|x| x.as_str()), &l("include"), &l("exclude"), ix, em, "corpus");
                }
            }
        }
    }
    // exhaustive small block: every mode string × a few list shapes × every repository
    for ps in MODE_STRINGS {
        parse_mode_case(ps, em);
    }
    for ps in ["default", "notes", "local", "bogus"] {
        for dps in [None, Some("notes"), Some("local"), Some("default"), Some("zzz")] {
            for incl in [vec![], vec!["*".to_string()], vec!["*acme*".to_string()], vec!["nomatch".to_string()]] {
                for excl in [vec![], vec!["*".to_string()], vec!["*acme*".to_string()], vec!["nomatch".to_string()]] {
                    for ix in 0..world.repos.len() {
                        mode_case(&world, ps, dps, &incl, &excl, ix, em, "grid");
                    }
                }
            }
        }
    }
    let mut rng = Rng::new(seed);
    for i in 0..count {
        match i % 10 {
            0 | 1 => {
                let ps = rng.pick(MODE_STRINGS);
                let dps = if rng.chance(1, 2) { None } else { Some(rng.pick(MODE_STRINGS)) };
                let incl = pick_patterns(&mut rng);
                let excl = pick_patterns(&mut rng);
                let ix = rng.below(world.repos.len() as u64) as usize;
                mode_case(&world, ps, dps, &incl, &excl, ix, em, "random");
            }
            2 => {
                // redact_secret on runs of every length and on non-ASCII strings
                let s = match rng.below(4) {
                    0 => {
                        let l = rng.below(100) as usize;
                        gen_random_token(&mut rng, l)
                    }
                    1 => {
                        let n = rng.below(12);
                        (0..n).map(|_| rng.pick(&["é", "a", "日", "🙂", "Z", "9", "_"])).collect::<String>()
                    }
                    2 => {
                        let l = gen_len(&mut rng);
                        gen_random_token(&mut rng, l)
                    }
                    _ => gen_text(&mut rng).0,
                };
                redact_secret_case(&s, em, vec!["kind=redact_secret".into()]);
            }
            3 => prompts_case(&mut rng, em),
            5 => {
                let mut tags = vec!["kind=json".to_string()];
                let v = gen_tool_input(&mut rng, &mut tags);
                json_case(&v, em, tags);
            }
            4 => {
                let (t, mut tags) = gen_text(&mut rng);
                tags.push("kind=tokens".into());
                tokens_case(&t, em, tags);
            }
            _ => {
                let (t, mut tags) = gen_text(&mut rng);
                tags.push("kind=redact_text".into());
                redact_text_case(&t, em, tags);
            }
        }
    }
}

/// `c08classify`: the real classifier's verdict for every `{"tok": ...}` line of the corpus file
/// (used by the end-to-end check, which cannot call `is_random` itself).
pub fn run_classify(_seed: u64, _count: u64, corpus: Option<&str>, em: &mut Emitter) {
    let Some(p) = corpus else { return };
    let Ok(f) = std::fs::File::open(p) else { return };
    for line in std::io::BufReader::new(f).lines().map_while(Result::ok) {
        let Ok(v) = serde_json::from_str::<Value>(&line) else { continue };
        let Some(t) = v.get("tok").and_then(|x| x.as_str()) else { continue };
        let tb = t.as_bytes().to_vec();
        let in_window = (REF_MIN..=REF_MAX).contains(&t.len()) && t.bytes().all(ref_is_secret_char);
        let verdict = in_window && catch(move || secrets::is_random(&tb)).unwrap_or(false);
        em.emit("c08classify", Value::Null, json!({"tok": t, "secret": verdict}), vec![], vec![]);
    }
}
