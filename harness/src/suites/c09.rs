//! C09 — `git blame --line-porcelain` parser and path un-quoting on generated text.
//! Real code: commands::blame::verif_hooks::parse_blame_line_porcelain, utils::unescape_git_path.
//! Suite `c09`: pure text cases (model: bo_parse / bo_unquote). Suite `c09repo`: runs
//! `Repository::blame_analysis` with programmatic options (older revision, -w, ignore-revs)
//! on repositories prepared by the end-to-end check (no model request; Python compares).
use crate::common::*;
use git_ai::commands::blame::{GitAiBlameOptions, verif_hooks};
use git_ai::utils::unescape_git_path;
use serde_json::{Value, json};
use std::io::BufRead;

// ---------------------------------------------------------------- git's grammar (reference)

/// git quote.c: quote_c_style as used by write_name_quoted; `full` = core.quotePath
fn quote_c(path: &str, full: bool) -> String {
    let mut out = String::new();
    let mut need = false;
    let bytes = path.as_bytes();
    let mut i = 0;
    while i < bytes.len() {
        let b = bytes[i];
        let esc: Option<String> = match b {
            7 => Some("\\a".into()),
            8 => Some("\\b".into()),
            9 => Some("\\t".into()),
            10 => Some("\\n".into()),
            11 => Some("\\v".into()),
            12 => Some("\\f".into()),
            13 => Some("\\r".into()),
            b'"' => Some("\\\"".into()),
            b'\\' => Some("\\\\".into()),
            _ if b < 0x20 || b == 0x7f => Some(format!("\\{:03o}", b)),
            _ if b >= 0x80 && full => Some(format!("\\{:03o}", b)),
            _ => None,
        };
        match esc {
            Some(e) => {
                need = true;
                out.push_str(&e);
                i += 1;
            }
            None => {
                if b < 0x80 {
                    out.push(b as char);
                    i += 1;
                } else {
                    // literal multi-byte char
                    let ch = path[i..].chars().next().unwrap();
                    out.push(ch);
                    i += ch.len_utf8();
                }
            }
        }
    }
    if need { format!("\"{}\"", out) } else { path.to_string() }
}

#[derive(Clone)]
struct Group {
    commit: String,
    orig: u32,
    fin: u32,
    author: String,
    mail: String,
    time: String,
    tz: String,
    committer: String,
    cmail: String,
    ctime: String,
    ctz: String,
    summary: String,
    previous: Option<(String, String)>,
    boundary: bool,
    filename: String,
    contents: Vec<String>,
}

fn render(gs: &[Group], full: bool) -> String {
    let mut t = String::new();
    for g in gs {
        for (k, c) in g.contents.iter().enumerate() {
            if k == 0 {
                t.push_str(&format!("{} {} {} {}\n", g.commit, g.orig, g.fin, g.contents.len()));
            } else {
                t.push_str(&format!("{} {} {}\n", g.commit, g.orig + k as u32, g.fin + k as u32));
            }
            t.push_str(&format!("author {}\nauthor-mail {}\nauthor-time {}\nauthor-tz {}\n", g.author, g.mail, g.time, g.tz));
            t.push_str(&format!("committer {}\ncommitter-mail {}\ncommitter-time {}\ncommitter-tz {}\n", g.committer, g.cmail, g.ctime, g.ctz));
            t.push_str(&format!("summary {}\n", g.summary));
            if g.boundary {
                t.push_str("boundary\n");
            }
            if let Some((s, p)) = &g.previous {
                t.push_str(&format!("previous {} {}\n", s, quote_c(p, full)));
            }
            t.push_str(&format!("filename {}\n", quote_c(&g.filename, full)));
            t.push_str(&format!("\t{}\n", c));
        }
    }
    t
}

// ---------------------------------------------------------------- generators

const NASTY: &[&str] = &[
    "author-mail <x>", "boundary", "deadbeef 1 2 3", "filename x", "\tindented", "", " ", "summary",
    "previous abc def", "0 0 0 0", "abc 1 2", "日本語", "a\u{a0}b", "author ", "committer-tz +0000",
    "ABCDEF 9 9 9", "filename \"q\"", "a1b2c3d4 7 7", "  12 13 14", "\u{2028}x", "0123456789abcdef0123456789abcdef01234567 1 1 1",
];

fn gen_hex(rng: &mut Rng) -> String {
    let n = match rng.below(10) {
        0 => 1,
        1 => rng.range(2, 12) as usize,
        2 => 64,
        _ => 40,
    };
    let upper = rng.chance(1, 12);
    (0..n)
        .map(|_| {
            let c = rng.pick(&['0', '1', '2', '3', '4', '5', '6', '7', '8', '9', 'a', 'b', 'c', 'd', 'e', 'f']);
            if upper { c.to_ascii_uppercase() } else { c }
        })
        .collect()
}

fn gen_words(rng: &mut Rng) -> String {
    if rng.chance(1, 3) {
        return rng.pick(NASTY).to_string();
    }
    let n = 1 + rng.size(3, 8);
    (0..n)
        .map(|_| rng.pick(&["fix", "the", "bug", "Test", "User", "abc", "12", "cafe", "é", "add", "feature", "0", "dead", "beef"]).to_string())
        .collect::<Vec<_>>()
        .join(" ")
}

fn gen_filename(rng: &mut Rng) -> String {
    match rng.below(12) {
        0 => "a b.txt".into(),
        1 => "日本 x.txt".into(),
        2 => "q\"uo\\te.txt".into(),
        3 => "tab\there.txt".into(),
        4 => "bel\u{7}\u{8}\u{b}\u{c}.txt".into(),
        5 => "nl\nin.txt".into(),
        6 => "\"".into(),
        7 => "é\u{1f642}/\u{7f}\u{1}x".into(),
        8 => "end\\".into(),
        9 => "123\\456".into(),
        _ => {
            let mut p = gen_path(rng);
            p.retain(|c| c != '\r'); // a trailing CR is eaten by str::lines (not a git path issue)
            if p.is_empty() { "f".into() } else { p }
        }
    }
}

fn gen_groups(rng: &mut Rng) -> Vec<Group> {
    let n = 1 + rng.size(3, 8);
    let mut fin = 1 + rng.size(2, 50) as u32;
    let high = rng.chance(1, 25);
    if high {
        fin = u32::MAX - 40 - rng.below(20) as u32;
    }
    let mut gs = Vec::new();
    let commits: Vec<String> = (0..3).map(|_| gen_hex(rng)).collect();
    for _ in 0..n {
        let cnt = 1 + rng.size(2, 6) as u32;
        let contents: Vec<String> = (0..cnt)
            .map(|_| match rng.below(6) {
                0 => rng.pick(NASTY).to_string(),
                1 => format!("{} {} {} {}", gen_hex(rng), rng.below(9), rng.below(9), rng.below(9)),
                2 => "crlf line\r".to_string(),
                _ => gen_words(rng),
            })
            .collect();
        let mut author = gen_words(rng);
        while author.ends_with('\r') {
            author.pop();
        }
        let orig = if high { u32::MAX - cnt - rng.below(3) as u32 } else { 1 + rng.size(5, 3000) as u32 };
        gs.push(Group {
            commit: if rng.chance(2, 3) { commits[rng.below(3) as usize].clone() } else { gen_hex(rng) },
            orig,
            fin,
            author,
            mail: if rng.chance(1, 6) { rng.pick(NASTY).to_string() } else { "<t@example.com>".into() },
            time: if rng.chance(1, 8) { gen_words(rng) } else { format!("{}", 1_700_000_000u64 + rng.below(100000)) },
            tz: rng.pick(&["+0000", "-0500", "+0530", "zz"]).to_string(),
            committer: gen_words(rng),
            cmail: "<c@example.com>".into(),
            ctime: "1700000001".into(),
            ctz: "+0000".into(),
            summary: gen_words(rng),
            previous: if rng.chance(1, 2) { Some((gen_hex(rng), gen_filename(rng))) } else { None },
            boundary: rng.chance(1, 4),
            filename: gen_filename(rng),
            contents,
        });
        fin += cnt + rng.below(3) as u32;
    }
    gs
}

fn mutate(rng: &mut Rng, text: &str) -> (String, &'static str) {
    let mut lines: Vec<String> = text.split('\n').map(|s| s.to_string()).collect();
    let k = rng.below(lines.len() as u64) as usize;
    let kind = match rng.below(14) {
        0 => {
            lines.remove(k);
            "del-line"
        }
        1 => {
            let l = lines[k].clone();
            lines.insert(k, l);
            "dup-line"
        }
        2 => {
            lines.insert(k, format!("{} {} {} {}", gen_hex(rng), 4294967290u64 + rng.below(12), 4294967290u64 + rng.below(12), rng.below(12)));
            "big-header"
        }
        3 => {
            lines.insert(k, format!("{} {} {}", gen_hex(rng), rng.below(99), rng.below(99)));
            "stray-cont"
        }
        4 => {
            lines.insert(k, format!("{} x y z", gen_hex(rng)));
            "nonnum-header"
        }
        5 => {
            lines[k] = lines[k].replace(' ', "\t");
            "tabs"
        }
        6 => {
            lines[k] = lines[k].trim_start_matches('\t').to_string();
            "untab-content"
        }
        7 => {
            lines.insert(k, rng.pick(&["filename \"", "filename \"\\", "filename \"\\777\\8\\q\"", "filename \"\\303\"", "filename \"\\303\\251\\377\"", "filename", "filename ", "boundary ", " boundary", "author", "previous"]).to_string());
            "odd-key"
        }
        8 => {
            lines.insert(k, format!("{} +{} {} 0", gen_hex(rng), rng.below(9), rng.below(9)));
            "plus-zero"
        }
        9 => {
            lines[k] = format!("{}\u{a0}{}", lines[k], rng.below(9));
            "nbsp"
        }
        10 => {
            lines.insert(k, format!("{}g 1 2 3", gen_hex(rng)));
            "nonhex"
        }
        11 => {
            lines.truncate(k);
            "truncate"
        }
        12 => {
            lines.insert(k, format!("{} {} {} 4294967295", gen_hex(rng), rng.below(5), rng.below(5)));
            "max-count"
        }
        _ => {
            let toks = ["author ", "deadbeef", " ", "1", "2", "\t", "boundary", "filename ", "\r", "abc"];
            lines[k] = (0..rng.range(1, 5)).map(|_| rng.pick(&toks)).collect::<Vec<_>>().join("");
            "token-soup"
        }
    };
    (lines.join("\n"), kind)
}

// ---------------------------------------------------------------- real calls

fn hunks_json(hs: &[git_ai::commands::blame::BlameHunk]) -> Value {
    Value::Array(
        hs.iter()
            .map(|h| {
                json!({"start": h.range.0, "stop": h.range.1, "orig_start": h.orig_range.0, "orig_stop": h.orig_range.1,
                       "commit": h.commit_sha, "author": h.original_author, "boundary": h.is_boundary,
                       "orig_path": h.orig_file_path})
            })
            .collect(),
    )
}

fn real_parse(text: &str) -> Value {
    let t = text.to_string();
    match catch(move || verif_hooks::parse_blame_line_porcelain(&t)) {
        Err(_) => json!({"err": "panic"}),
        Ok(hs) => json!({"ok": {"hunks": hunks_json(&hs)}}),
    }
}

type LineRow = (u64, u64, String, String, String, bool);

fn expand_impl(imp: &Value) -> Option<Vec<LineRow>> {
    let hs = imp.get("ok")?.get("hunks")?.as_array()?;
    let mut out = Vec::new();
    for h in hs {
        let (s, e, o) = (h["start"].as_u64()?, h["stop"].as_u64()?, h["orig_start"].as_u64()?);
        if e < s || e - s > 100000 {
            return None;
        }
        for i in 0..=(e - s) {
            out.push((s + i, o + i, h["commit"].as_str()?.to_string(), h["orig_path"].as_str()?.to_string(),
                      h["author"].as_str()?.to_string(), h["boundary"].as_bool()?));
        }
    }
    Some(out)
}

fn structured_case(rng: &mut Rng, em: &mut Emitter) {
    let gs = gen_groups(rng);
    let full = rng.chance(2, 3);
    let text = render(&gs, full);
    let imp = real_parse(&text);
    let mut want: Vec<LineRow> = Vec::new();
    for g in &gs {
        for k in 0..g.contents.len() as u64 {
            want.push((g.fin as u64 + k, g.orig as u64 + k, g.commit.clone(), g.filename.clone(), g.author.clone(), g.boundary));
        }
    }
    let got = expand_impl(&imp);
    let panicked = imp.get("err").is_some();
    let line_ok = got.as_ref().map(|g| {
        g.len() == want.len() && g.iter().zip(want.iter()).all(|(a, b)| a.0 == b.0 && a.1 == b.1 && a.2 == b.2 && a.3 == b.3)
    }).unwrap_or(false);
    let meta_ok = got.as_ref().map(|g| {
        g.len() == want.len() && g.iter().zip(want.iter()).all(|(a, b)| a.4 == b.4 && a.5 == b.5)
    }).unwrap_or(false);
    let nh = imp.get("ok").and_then(|o| o["hunks"].as_array()).map(|a| a.len()).unwrap_or(usize::MAX);
    let special = gs.iter().any(|g| quote_c(&g.filename, full) != g.filename);
    let mut tags = vec!["structured".to_string(), format!("groups={}", gs.len().min(6)), format!("quotepath={full}")];
    if special {
        tags.push("quoted-filename".into());
    }
    if gs.iter().any(|g| g.fin > 1 << 31) {
        tags.push("near-u32-max".into());
    }
    if gs.iter().any(|g| g.contents.iter().any(|c| c.split_whitespace().count() >= 3 && c.split_whitespace().next().unwrap().chars().all(|x| x.is_ascii_hexdigit()))) {
        tags.push("content-looks-like-header".into());
    }
    let detail = json!({"text": text});
    em.emit(
        "c09",
        json!({"op": "bo_parse", "text": text}),
        imp,
        vec![
            oracle("parse_no_panic", !panicked, detail.clone(), "parse:panic-on-git-grammar"),
            oracle("parse_recovers_lines", panicked || line_ok, detail.clone(), "parse:line-map"),
            oracle("parse_recovers_meta", panicked || !line_ok || meta_ok, detail.clone(), "parse:author-boundary"),
            oracle("hunk_per_group", panicked || nh == gs.len(), detail, "parse:hunk-count"),
        ],
        tags,
    );
}

fn text_case(text: &str, em: &mut Emitter, tags: Vec<String>) {
    let imp = real_parse(text);
    let kind = if imp.get("err").is_some() { "panic" } else { "ok" };
    let mut tags = tags;
    tags.push(format!("result={kind}"));
    em.emit("c09", json!({"op": "bo_parse", "text": text}), imp, vec![], tags);
}

fn real_unquote(p: &str) -> Value {
    let q = p.to_string();
    match catch(move || unescape_git_path(&q)) {
        Err(_) => json!({"err": "panic"}),
        Ok(s) => json!({"path": s}),
    }
}

fn unquote_case(rng: &mut Rng, em: &mut Emitter) {
    if rng.chance(1, 2) {
        // round trip through git's quoting
        let p = if rng.chance(1, 2) { gen_filename(rng) } else { gen_path(rng) };
        let full = rng.chance(1, 2);
        let q = quote_c(&p, full);
        let imp = real_unquote(&q);
        let ok = imp.get("path").and_then(|v| v.as_str()) == Some(p.as_str());
        em.emit(
            "c09",
            json!({"op": "bo_unquote", "path": q}),
            imp,
            vec![oracle("unquote_inverts_git_quoting", ok, json!({"path": p, "quoted": q}), "unquote:roundtrip")],
            vec!["unquote-roundtrip".into(), format!("quoted={}", q != p)],
        );
    } else {
        // arbitrary quoted text
        let toks = ["\\", "\"", "n", "t", "a", "b", "f", "v", "r", "0", "3", "7", "8", "9", "303", "251", "377", "200", "x", "é", "\\\\", "\\\"", "\\344\\270\\255", "\\360\\237", " "];
        let body: String = (0..rng.range(0, 8)).map(|_| rng.pick(&toks)).collect::<Vec<_>>().join("");
        let q = match rng.below(5) {
            0 => body,
            1 => format!("\"{}", body),
            _ => format!("\"{}\"", body),
        };
        let imp = real_unquote(&q);
        let kind = if imp.get("err").is_some() { "panic" } else { "ok" };
        em.emit(
            "c09",
            json!({"op": "bo_unquote", "path": q}),
            imp,
            vec![oracle("unquote_no_panic", kind == "ok", json!({"quoted": q}), "unquote:panic")],
            vec!["unquote-arbitrary".into(), format!("result={kind}")],
        );
    }
}

// ---------------------------------------------------------------- the -L argument

fn real_range(arg: &str) -> Value {
    let a = arg.to_string();
    match catch(move || verif_hooks::parse_line_range(&a)) {
        Err(_) => json!({"err": "panic"}),
        Ok(None) => json!({"range": Value::Null}),
        Ok(Some((s, e))) => json!({"range": [s, e]}),
    }
}

/// git's reading of the numeric forms (git-blame(1), line-range.c): first line and last line, `None` = end of file
fn range_case(rng: &mut Rng, em: &mut Emitter) {
    let big = |rng: &mut Rng| -> u64 {
        match rng.below(10) {
            0 => rng.pick(&[0u64, 1, 4294967294, 4294967295]),
            1 => rng.range(4294967000, 4294967295),
            _ => rng.range(1, 400),
        }
    };
    if rng.chance(2, 3) {
        let a = big(rng);
        let b = big(rng);
        let open = verif_hooks::LINE_RANGE_OPEN_END as u64;
        let form = rng.below(6);
        let (arg, want, tag): (String, Option<(u64, u64)>, &str) = match form {
            0 => (format!("{a},{b}"), Some((a, b)), "a,b"),
            1 => (format!("{a},+{b}"), if b == 0 || a + b - 1 > 4294967295 { None } else { Some((a, a + b - 1)) }, "a,+n"),
            2 => (format!("{a},-{b}"), if b == 0 { None } else { Some(((a + 1).saturating_sub(b).max(1), a)) }, "a,-n"),
            3 => (format!("{a},"), Some((a, open)), "a,"),
            4 => (format!(",{b}"), Some((1, b)), ",b"),
            _ => (format!("{a}"), Some((a, open)), "a"),
        };
        let imp = real_range(&arg);
        let got = imp.get("range").and_then(|r| r.as_array()).map(|r| (r[0].as_u64().unwrap_or(0), r[1].as_u64().unwrap_or(0)));
        let ok = imp.get("err").is_none() && got == want;
        em.emit(
            "c09",
            json!({"op": "bo_range", "arg": arg}),
            imp.clone(),
            vec![oracle("range_reads_like_git", ok, json!({"arg": arg, "git": want.map(|w| vec![w.0, w.1]), "got": imp}), "range:numeric-form-differs-from-git")],
            vec!["range-structured".into(), format!("range-form={tag}")],
        );
    } else {
        let toks = ["", ",", "+", "-", "0", "5", "12", "4294967295", "4294967296", "99999999999", "/re/", " ", "x", "١"];
        let arg: String = (0..rng.range(0, 5)).map(|_| rng.pick(&toks)).collect::<Vec<_>>().join("");
        let imp = real_range(&arg);
        let ok = imp.get("err").is_none();
        em.emit(
            "c09",
            json!({"op": "bo_range", "arg": arg}),
            imp,
            vec![oracle("range_no_panic", ok, json!({"arg": arg}), "range:panic")],
            vec!["range-token-soup".into()],
        );
    }
}

pub fn run(seed: u64, count: u64, corpus: Option<&str>, em: &mut Emitter) {
    if let Some(path) = corpus {
        if let Ok(f) = std::fs::File::open(path) {
            for line in std::io::BufReader::new(f).lines().map_while(Result::ok) {
                let Ok(v) = serde_json::from_str::<Value>(&line) else { continue };
                if let Some(t) = v.get("text").and_then(|t| t.as_str()) {
                    text_case(t, em, vec!["corpus-text".into()]);
                } else if let Some(a) = v.get("range").and_then(|t| t.as_str()) {
                    let imp = real_range(a);
                    let want = v.get("git").and_then(|r| r.as_array()).map(|r| (r[0].as_u64().unwrap_or(0), r[1].as_u64().unwrap_or(0)));
                    let got = imp.get("range").and_then(|r| r.as_array()).map(|r| (r[0].as_u64().unwrap_or(0), r[1].as_u64().unwrap_or(0)));
                    let ok = imp.get("err").is_none() && got == want;
                    em.emit("c09", json!({"op": "bo_range", "arg": a}), imp.clone(),
                        vec![oracle("range_reads_like_git", ok, json!({"arg": a, "git": v.get("git"), "got": imp}), "range:numeric-form-differs-from-git")],
                        vec!["corpus-range".into()]);
                } else if let Some(p) = v.get("quoted").and_then(|t| t.as_str()) {
                    let imp = real_unquote(p);
                    let ok = imp.get("err").is_none();
                    em.emit("c09", json!({"op": "bo_unquote", "path": p}), imp,
                        vec![oracle("unquote_no_panic", ok, json!({"quoted": p}), "unquote:panic")], vec!["corpus-unquote".into()]);
                }
            }
        }
    }
    let mut rng = Rng::new(seed);
    for i in 0..count {
        match i % 6 {
            5 => range_case(&mut rng, em),
            0 | 1 => structured_case(&mut rng, em),
            2 | 3 => {
                let gs = gen_groups(&mut rng);
                let text = render(&gs, rng.chance(1, 2));
                let (mut t, mut kind) = mutate(&mut rng, &text);
                if rng.chance(1, 3) {
                    let (t2, k2) = mutate(&mut rng, &t);
                    t = t2;
                    kind = k2;
                }
                text_case(&t, em, vec!["mutated".into(), format!("mut={kind}")]);
            }
            _ => unquote_case(&mut rng, em),
        }
    }
}

// ---------------------------------------------------------------- c09repo

/// Each corpus line: {"id", "repo", "file", "newest_commit"?, "ignore_whitespace"?,
/// "ignore_revs"?: [..], "line_ranges"?: [[a,b]..], "hashes_as_names"?, "split"?}.
pub fn run_repo(_seed: u64, _count: u64, corpus: Option<&str>, em: &mut Emitter) {
    let Some(path) = corpus else { return };
    let Ok(f) = std::fs::File::open(path) else { return };
    for line in std::io::BufReader::new(f).lines().map_while(Result::ok) {
        let Ok(q) = serde_json::from_str::<Value>(&line) else { continue };
        let repo_path = q["repo"].as_str().unwrap_or("").to_string();
        let file = q["file"].as_str().unwrap_or("").to_string();
        let mut o = GitAiBlameOptions::default();
        o.newest_commit = q.get("newest_commit").and_then(|v| v.as_str()).map(|s| s.to_string());
        o.ignore_whitespace = q.get("ignore_whitespace").and_then(|v| v.as_bool()).unwrap_or(false);
        o.use_prompt_hashes_as_names = q.get("hashes_as_names").and_then(|v| v.as_bool()).unwrap_or(true);
        o.split_hunks_by_ai_author = q.get("split").and_then(|v| v.as_bool()).unwrap_or(true);
        o.no_output = true;
        if let Some(a) = q.get("ignore_revs").and_then(|v| v.as_array()) {
            o.ignore_revs = a.iter().filter_map(|x| x.as_str().map(|s| s.to_string())).collect();
        }
        if let Some(a) = q.get("line_ranges").and_then(|v| v.as_array()) {
            o.line_ranges = a.iter().filter_map(|r| Some((r.get(0)?.as_u64()? as u32, r.get(1)?.as_u64()? as u32))).collect();
        }
        let res = catch(move || {
            let repo = git_ai::git::repository::find_repository_in_path(&repo_path).map_err(|e| e.to_string())?;
            let a = repo.blame_analysis(&file, &o).map_err(|e| e.to_string())?;
            let mut la: Vec<(u32, String)> = a.line_authors.into_iter().collect();
            la.sort();
            let mut keys: Vec<String> = a.prompt_records.keys().cloned().collect();
            keys.sort();
            let mut lph: Vec<(u32, String)> = a.line_prompt_hashes.into_iter().collect();
            lph.sort();
            Ok::<Value, String>(json!({"line_authors": la.iter().map(|(l, s)| json!([l, s])).collect::<Vec<_>>(),
                                      "line_prompt_hashes": lph.iter().map(|(l, s)| json!([l, s])).collect::<Vec<_>>(),
                                      "prompt_keys": keys, "hunks": hunks_json(&a.blame_hunks)}))
        });
        let imp = match res {
            Err(m) => json!({"err": "panic", "msg": m}),
            Ok(Err(m)) => json!({"err": "error", "msg": m}),
            Ok(Ok(v)) => json!({"ok": v}),
        };
        em.emit("c09repo", Value::Null, json!({"id": q["id"], "result": imp}), vec![], vec!["repo-query".into()]);
    }
}
