//! C12 — internal git profiles and quoted-path handling.
//! Real code: git::repository::verif_hooks::args_with_internal_git_profile (the private
//! args_with_internal_git_profile / strip_profile_conflicts / first_git_subcommand_index chain) and
//! utils::unescape_git_path.
use crate::common::*;
use git_ai::git::repository::InternalGitProfile;
use git_ai::git::repository::verif_hooks::args_with_internal_git_profile;
use git_ai::utils::unescape_git_path;
use serde_json::{Value, json};
use std::io::BufRead;

const PROFILES: [(&str, InternalGitProfile); 4] = [
    ("General", InternalGitProfile::General),
    ("PatchParse", InternalGitProfile::PatchParse),
    ("NumstatParse", InternalGitProfile::NumstatParse),
    ("RawDiffParse", InternalGitProfile::RawDiffParse),
];

fn profile_by_name(n: &str) -> InternalGitProfile {
    PROFILES.iter().find(|(k, _)| *k == n).map(|(_, p)| *p).unwrap_or(InternalGitProfile::General)
}

/// Global options that consume the next token — written from git(1), independently of the code.
const VALUE_GLOBALS: &[&str] = &["-C", "-c", "--git-dir", "--work-tree", "--namespace", "--super-prefix", "--config-env"];

/// Independent reading of "where is the sub-command": skip global options (and the values of the
/// value-taking ones), the first token not starting with '-' is the sub-command.
fn spec_sub_index(args: &[String]) -> Option<usize> {
    let mut i = 0;
    while i < args.len() {
        if !args[i].starts_with('-') {
            return Some(i);
        }
        i += if VALUE_GLOBALS.contains(&args[i].as_str()) { 2 } else { 1 };
    }
    None
}

/// The options a profile adds, read off the real function on the smallest argv.
fn profile_options(p: InternalGitProfile) -> Vec<String> {
    let out = args_with_internal_git_profile(&["x".to_string()], p);
    out.into_iter().skip(1).collect()
}

/// Does `tok` contradict what the profile pins? Written from the intent of each pinned option
/// (`--no-X` pins X off, `--k=v` pins k), not from the strip list of the code.
fn conflicts(profile: &str, tok: &str, opts: &[String]) -> bool {
    if opts.iter().any(|o| o == tok) {
        return false;
    }
    let common = tok == "--ext-diff"
        || tok == "--textconv"
        || tok == "--color"
        || tok.starts_with("--color=")
        || tok == "--relative"
        || tok.starts_with("--relative=");
    match profile {
        "PatchParse" => {
            common
                || tok == "--no-prefix"
                || tok.starts_with("--src-prefix")
                || tok.starts_with("--dst-prefix")
                || tok.starts_with("--diff-algorithm=")
                || tok == "--no-indent-heuristic"
                || tok.starts_with("--inter-hunk-context=")
        }
        "NumstatParse" => {
            common
                || tok.starts_with("-M")
                || tok.starts_with("-C")
                || tok.starts_with("--find-renames")
                || tok.starts_with("--find-copies")
                || tok.starts_with("--diff-algorithm=")
        }
        "RawDiffParse" => common,
        _ => false,
    }
}

fn is_subsequence(small: &[&String], big: &[&String]) -> bool {
    let mut j = 0;
    for x in big {
        if j < small.len() && small[j] == *x {
            j += 1;
        }
    }
    j == small.len()
}

fn rewrite_case(args: &[String], pname: &str, em: &mut Emitter, tag: &str) {
    let p = profile_by_name(pname);
    let a = args.to_vec();
    let res = catch(move || args_with_internal_git_profile(&a, p));
    let mut tags = vec![tag.to_string(), format!("profile={pname}")];
    let (imp, oracles) = match res {
        Err(m) => (
            json!({"panic": m}),
            vec![oracle("rewrite_no_panic", false, json!({"args": args, "profile": pname}), "rewrite:panic")],
        ),
        Ok(out) => {
            let mut os = vec![oracle("rewrite_no_panic", true, json!(null), "rewrite:panic")];
            let sub = spec_sub_index(args);
            tags.push(if sub.is_some() { "sub=found".into() } else { "sub=none".into() });
            let witness = json!({"args": args, "profile": pname, "out": out});
            if pname == "General" {
                os.push(oracle("general_is_noop", out == args, witness.clone(), "rewrite:general-not-noop"));
            } else if let Some(ci) = sub {
                let opts = profile_options(p);
                // 1. sub-command at the same index, prefix unchanged
                let same_prefix = out.len() > ci && out[..=ci] == args[..=ci] && spec_sub_index(&out) == Some(ci);
                os.push(oracle("subcommand_index_stable", same_prefix, witness.clone(), "rewrite:sub-index"));
                if same_prefix {
                    let in_rest = &args[ci + 1..];
                    let out_rest = &out[ci + 1..];
                    let in_dd = in_rest.iter().position(|t| t == "--").unwrap_or(in_rest.len());
                    let out_dd = out_rest.iter().position(|t| t == "--").unwrap_or(out_rest.len());
                    // 2. everything from `--` on untouched
                    os.push(oracle(
                        "tail_untouched",
                        in_rest[in_dd..] == out_rest[out_dd..],
                        witness.clone(),
                        "rewrite:tail-changed",
                    ));
                    let in_seg = &in_rest[..in_dd];
                    let out_seg = &out_rest[..out_dd];
                    if in_dd < in_rest.len() {
                        tags.push("has-dd".into());
                        if in_rest[in_dd + 1..].iter().any(|t| t.starts_with('-')) {
                            tags.push("flaglike-pathspec".into());
                        }
                    }
                    // 3. each profile option present, exactly once unless the caller repeated it
                    let mut ok_opts = true;
                    for o in &opts {
                        let n_out = out_seg.iter().filter(|t| *t == o).count();
                        let n_in = in_seg.iter().filter(|t| *t == o).count();
                        if n_out < 1 || n_out > n_in.max(1) {
                            ok_opts = false;
                        }
                    }
                    os.push(oracle("profile_options_present_once", ok_opts, witness.clone(), "rewrite:option-missing-or-duplicated"));
                    // 4. nothing that contradicts the profile remains before `--`
                    let leftover: Vec<&String> = out_seg.iter().filter(|t| conflicts(pname, t, &opts)).collect();
                    os.push(oracle("no_conflicting_option_remains", leftover.is_empty(), witness.clone(), "rewrite:conflict-remains"));
                    if in_seg.iter().any(|t| conflicts(pname, t, &opts)) {
                        tags.push("had-conflict".into());
                    }
                    if in_seg.iter().any(|t| opts.contains(t)) {
                        tags.push("had-profile-option".into());
                    }
                    // 5. everything else in order: the output segment without the profile options is a
                    //    subsequence of the input segment, and every non-conflicting input token that is
                    //    not the value of a split-form option survives
                    let out_other: Vec<&String> = out_seg.iter().filter(|t| !opts.contains(t)).collect();
                    let in_other: Vec<&String> = in_seg.iter().filter(|t| !opts.contains(t)).collect();
                    let mut ok_order = is_subsequence(&out_other, &in_other);
                    let mut k = 0;
                    while k < in_seg.len() {
                        let t = &in_seg[k];
                        if conflicts(pname, t, &opts) {
                            // split forms take the following token along
                            if pname == "PatchParse" && (t == "--src-prefix" || t == "--dst-prefix") {
                                k += 1;
                            }
                        } else if !out_seg.contains(t) {
                            ok_order = false;
                        }
                        k += 1;
                    }
                    os.push(oracle("other_tokens_kept_in_order", ok_order, witness.clone(), "rewrite:token-lost-or-reordered"));
                }
            } else {
                os.push(oracle("no_subcommand_is_noop", out == args, witness.clone(), "rewrite:no-sub-not-noop"));
            }
            (json!({"out": out}), os)
        }
    };
    em.emit("c12", json!({"op": "prof_rewrite", "args": args, "profile": pname}), imp, oracles, tags);
}

fn gen_rewrite_args(rng: &mut Rng) -> Vec<String> {
    let mut v: Vec<String> = Vec::new();
    // global prefix
    let ng = rng.size(2, 5);
    for _ in 0..ng {
        match rng.below(12) {
            0 | 1 => {
                v.push("-C".into());
                v.push(rng.pick(&["/r", "sub dir", "..", "--no-color", "-C"]).into());
            }
            2 => {
                v.push("-c".into());
                v.push(rng.pick(&["core.quotePath=false", "diff.noprefix=true", "--color", "color.ui=always"]).into());
            }
            3 => v.push("--no-pager".into()),
            4 => v.push(rng.pick(&["--git-dir=/r/.git", "--work-tree=/r", "--namespace=x", "-ccolor.ui=always"]).into()),
            5 => {
                v.push(rng.pick(&["--git-dir", "--work-tree", "--namespace", "--super-prefix", "--config-env"]).into());
                v.push(rng.pick(&["/r/.git", "x", "diff", "--"]).into());
            }
            6 => v.push(rng.pick(&["--bare", "--literal-pathspecs", "-p", "--paginate", "--exec-path=/x", "--exec-path"]).into()),
            _ => {}
        }
    }
    // sub-command (sometimes missing, sometimes a dangling value-taking option before it)
    match rng.below(14) {
        0 => {}
        1 => v.push("-C".into()),
        _ => v.push(rng.pick(&["diff", "diff", "diff", "show", "status", "blame", "log", "diff-tree", "grep"]).into()),
    }
    // option segment
    let pool: &[&str] = &[
        "--no-ext-diff", "--no-textconv", "--src-prefix=a/", "--dst-prefix=b/", "--no-relative", "--no-color",
        "--diff-algorithm=default", "--indent-heuristic", "--inter-hunk-context=0", "--no-renames",
        "--ext-diff", "--textconv", "--relative", "--relative=sub", "--color", "--color=always", "--color=never",
        "--no-prefix", "--src-prefix", "--dst-prefix", "--src-prefix=x/", "--dst-prefix=y/", "--src-prefix=",
        "--diff-algorithm=patience", "--diff-algorithm=", "--no-indent-heuristic", "--inter-hunk-context=3",
        "--find-renames", "--find-renames=50", "--find-copies", "--find-copies=50%", "--find-copies-harder",
        "-M", "-M90%", "-C", "-C75%", "-U0", "--numstat", "--name-only", "--name-status", "--raw", "-z",
        "--cached", "--stat", "--patch", "--format=", "--no-abbrev", "HEAD", "HEAD~1..HEAD", "a1b2c3", "x/",
        "--colorx", "--relativex", "-Mx", "--porcelain=v2", "--line-porcelain", "-w", "",
    ];
    let no = rng.size(5, 12);
    for _ in 0..no {
        v.push(rng.pick(pool).to_string());
    }
    // `--` and pathspecs that look like flags
    if rng.chance(1, 2) {
        if rng.chance(1, 6) {
            v.push(rng.pick(&["--src-prefix", "--dst-prefix"]).to_string()); // split form right before `--`
        }
        v.push("--".into());
        let np = rng.size(2, 5);
        for _ in 0..np {
            v.push(
                rng.pick(&[
                    "src/a.rs", "--no-color", "--color", "--src-prefix", "q", "--", "-M", "--no-ext-diff", "my file.txt",
                    "--no-renames", "--diff-algorithm=default", "--ext-diff", "-C",
                ])
                .to_string(),
            );
        }
    } else if rng.chance(1, 8) {
        v.push(rng.pick(&["--src-prefix", "--dst-prefix"]).to_string()); // split form at the very end
    }
    v
}

// ------------------------------------------------------------------------------------------ quoting

/// git quote.c: quote_c_style, written from the C source's table: control characters as \a \b \t \n \v \f \r
/// or three-digit octal, `"` and `\` escaped, DEL octal, bytes >= 0x80 octal when core.quotePath is on.
fn git_quote(path: &str, quote_path: bool) -> String {
    let bytes = path.as_bytes();
    let needs = bytes.iter().any(|&b| b < 0x20 || b == b'"' || b == b'\\' || b == 0x7f || (quote_path && b >= 0x80));
    if !needs {
        return path.to_string();
    }
    let mut out: Vec<u8> = vec![b'"'];
    for &b in bytes {
        match b {
            7 => out.extend_from_slice(b"\\a"),
            8 => out.extend_from_slice(b"\\b"),
            9 => out.extend_from_slice(b"\\t"),
            10 => out.extend_from_slice(b"\\n"),
            11 => out.extend_from_slice(b"\\v"),
            12 => out.extend_from_slice(b"\\f"),
            13 => out.extend_from_slice(b"\\r"),
            b'"' => out.extend_from_slice(b"\\\""),
            b'\\' => out.extend_from_slice(b"\\\\"),
            b if b < 0x20 || b == 0x7f || (quote_path && b >= 0x80) => {
                out.extend_from_slice(format!("\\{:03o}", b).as_bytes());
            }
            b => out.push(b),
        }
    }
    out.push(b'"');
    String::from_utf8(out).unwrap()
}

fn gen_raw_path(rng: &mut Rng) -> String {
    let n = 1 + rng.size(5, 12);
    let mut s = String::new();
    for _ in 0..n {
        s.push_str(rng.pick(&[
            "a", "b", "src", "/", ".txt", " ", "  ", "\t", "\"", "\\", "\\\\", "\n", "\r", "\u{7}", "\u{8}", "\u{b}", "\u{c}",
            "\u{1}", "\u{1f}", "\u{7f}", "é", "ü", "日本", "ファイル", "🙂", "\u{a0}", "\u{2028}", "\u{10ffff}", "\u{7ff}", "\u{800}",
            "\u{ffff}", "\u{10000}", "\u{d7ff}", "\u{e000}", "0", "7", "8", "377", "n", "t", "-", "--", "'", "a/", "b/",
        ]));
    }
    s
}

fn unescape_case(text: &str, em: &mut Emitter, tag: &str, expect: Option<&str>) {
    let t = text.to_string();
    let res = catch(move || unescape_git_path(&t));
    let mut tags = vec![tag.to_string()];
    if text.starts_with('"') && text.ends_with('"') && text.len() >= 2 {
        tags.push("quoted".into());
    } else {
        tags.push("unquoted".into());
    }
    if text.contains("\\3") || text.contains("\\2") {
        tags.push("octal-high".into());
    }
    let (imp, mut os) = match &res {
        Err(m) => (json!({"panic": m}), vec![oracle("unescape_no_panic", false, json!({"path": text}), "unescape:panic")]),
        Ok(out) => (json!({"out": out}), vec![oracle("unescape_no_panic", true, json!(null), "unescape:panic")]),
    };
    if let (Some(want), Ok(out)) = (expect, &res) {
        os.push(oracle(
            "unescape_inverts_git_quoting",
            out == want,
            json!({"path": want, "quoted": text, "unescaped": out}),
            "unescape:roundtrip",
        ));
    }
    em.emit("c12", json!({"op": "prof_unescape", "path": text}), imp, os, tags);
}

fn gen_malformed_quoted(rng: &mut Rng) -> String {
    let n = rng.size(6, 14);
    let mut s = String::new();
    if rng.chance(4, 5) {
        s.push('"');
    }
    for _ in 0..n {
        s.push_str(rng.pick(&[
            "a", "b", "/", " ", "\\", "\\\\", "\\\"", "\"", "\\n", "\\t", "\\r", "\\a", "\\b", "\\f", "\\v", "\\q", "\\x41", "\\8", "\\9",
            "\\0", "\\7", "\\18", "\\101", "\\1011", "\\377", "\\400", "\\777", "\\303\\251", "\\303", "\\251", "\\342\\202", "\\360\\237\\231\\202",
            "\\355\\240\\200", "\\364\\220\\200\\200", "\\300\\200", "\\340\\200\\200", "é", "日本", "\t", "0", "1", "8",
        ]));
    }
    if rng.chance(4, 5) {
        s.push('"');
    }
    s
}

pub fn run(seed: u64, count: u64, corpus: Option<&str>, em: &mut Emitter) {
    if let Some(path) = corpus {
        if let Ok(f) = std::fs::File::open(path) {
            for line in std::io::BufReader::new(f).lines().map_while(Result::ok) {
                let Ok(v) = serde_json::from_str::<Value>(&line) else { continue };
                if let Some(a) = v.get("args").and_then(|a| a.as_array()) {
                    let args: Vec<String> = a.iter().filter_map(|x| x.as_str().map(|s| s.to_string())).collect();
                    let p = v.get("profile").and_then(|p| p.as_str()).unwrap_or("PatchParse").to_string();
                    rewrite_case(&args, &p, em, "corpus-rewrite");
                } else if let Some(raw) = v.get("raw_path").and_then(|p| p.as_str()) {
                    for qp in [true, false] {
                        let q = git_quote(raw, qp);
                        unescape_case(&q, em, "corpus-roundtrip", Some(raw));
                    }
                } else if let Some(p) = v.get("path").and_then(|p| p.as_str()) {
                    unescape_case(p, em, "corpus-unescape", None);
                }
            }
        }
    }
    let mut rng = Rng::new(seed);
    for i in 0..count {
        match i % 5 {
            0 | 1 => {
                let args = gen_rewrite_args(&mut rng);
                // profiles other than General get most of the weight
                let pname = PROFILES[[0usize, 1, 1, 1, 2, 2, 3, 3][rng.below(8) as usize]].0;
                rewrite_case(&args, pname, em, "gen-rewrite");
            }
            2 | 3 => {
                let raw = gen_raw_path(&mut rng);
                let qp = rng.chance(1, 2);
                let q = git_quote(&raw, qp);
                // the model's quoting must agree with this independent transcription of quote.c
                em.emit(
                    "c12",
                    json!({"op": "prof_quote", "path": raw, "quote_path": qp}),
                    json!({"out": q}),
                    vec![],
                    vec!["gen-quote".to_string(), format!("quotePath={qp}"), if q == raw { "no-quoting-needed".into() } else { "quoted".into() }],
                );
                unescape_case(&q, em, if qp { "gen-roundtrip-qp" } else { "gen-roundtrip-noqp" }, Some(&raw));
            }
            _ => {
                let t = gen_malformed_quoted(&mut rng);
                unescape_case(&t, em, "gen-malformed", None);
            }
        }
    }
}
