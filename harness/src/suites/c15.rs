//! C15 — the note-remapping shortcut of rebase / cherry-pick.
//! Real code (rebase_authorship::verif_hooks): try_remap_base_commit_sha_field,
//! remap_note_content_for_target_commit, tracked_paths_match_for_commit_pairs (its raw
//! diff-tree scanner through the output seam), try_fast_path_{rebase,cherry_pick}_note_remap.
//! Suite `c15`: pure remap cases. Suite `c15repo`: scanner and precondition cases on a scratch
//! repository (outside /repo and /verif, removed at exit).
use crate::common::*;
use crate::suites::c17;
use git_ai::authorship::authorship_log_serialization::AuthorshipLog;
use git_ai::authorship::rebase_authorship::verif_hooks as rb;
use git_ai::authorship::transcript::Message;
use serde_json::{Value, json};
use std::collections::{BTreeMap, HashSet};
use std::io::{BufRead, Write};
use std::path::{Path, PathBuf};

const FIELD: &str = "\"base_commit_sha\"";

fn hex(rng: &mut Rng, n: usize) -> String {
    (0..n).map(|_| rng.pick(&['0', '1', '2', '3', '4', '5', '6', '7', '8', '9', 'a', 'b', 'c', 'd', 'e', 'f'])).collect()
}

fn gen_target(rng: &mut Rng) -> String {
    match rng.below(20) {
        0 => String::new(),
        1 => hex(rng, 7),
        2 => "a\"b".to_string(),
        3 => "x\\".to_string(),
        4 => "\u{e9}\n".to_string(),
        5 => hex(rng, 64),
        _ => hex(rng, 40),
    }
}

fn plain(s: &str) -> bool {
    serde_json::to_string(s).unwrap() == format!("\"{s}\"")
}

fn gen_base(rng: &mut Rng) -> String {
    match rng.below(16) {
        0 => String::new(),
        1 => "old\"quote".to_string(),
        2 => "back\\slash\\".to_string(),
        3 => "\\\"".to_string(),
        4 => "ctl\u{1}\u{8}\u{c}\n\r\t\u{1f}".to_string(),
        5 => "\u{e9}\\\u{65e5}\"\u{1f642}".to_string(),
        6 => FIELD.to_string(),
        7 => format!("{FIELD}: \"zz\""),
        8 => "initial".to_string(),
        _ => hex(rng, 40),
    }
}

/// paths that matter to the remap scanner, mixed into the C17 log generator's paths
fn c15_path(rng: &mut Rng) -> String {
    match rng.below(10) {
        0 => FIELD.to_string(),
        1 => format!("k{FIELD}:\"v\".txt"),
        2 => format!("a {FIELD}: \"x\" b"),
        3 => format!("{FIELD} : \"q"),
        4 => "dir/\"base_commit_sha".to_string(),
        5 => format!("x{FIELD}:\"\\"),
        6 => "--- ".to_string(),
        7 => "src/\u{e9}\\\".rs".to_string(),
        _ => gen_path(rng),
    }
}

fn gen_c15_log(rng: &mut Rng) -> AuthorshipLog {
    let mut log = c17::gen_log(rng);
    for f in log.attestations.iter_mut() {
        if rng.chance(1, 3) {
            f.file_path = c15_path(rng);
        }
    }
    log.metadata.base_commit_sha = gen_base(rng);
    // a LATER occurrence of the field name as an unescaped JSON key: tool-call inputs kept in the
    // prompt records (prompts follow base_commit_sha in serde's field order)
    if rng.chance(2, 5) {
        if log.metadata.prompts.is_empty() || rng.chance(1, 4) {
            let h = hex(rng, 16);
            let mut donor = c17::gen_log(rng);
            while donor.metadata.prompts.is_empty() {
                donor = c17::gen_log(rng);
            }
            let rec = donor.metadata.prompts.into_values().next().unwrap();
            log.metadata.prompts.insert(h, rec);
        }
        let keys: Vec<String> = log.metadata.prompts.keys().cloned().collect();
        let n = 1 + rng.below(2);
        for _ in 0..n {
            let k = &keys[rng.below(keys.len() as u64) as usize];
            let v = match rng.below(6) {
                0 => json!("abc"),
                1 => json!(hex(rng, 40)),
                2 => json!("zz\"q\\"),
                3 => json!(7),
                4 => json!(null),
                _ => json!(""),
            };
            let input = match rng.below(5) {
                0 => json!({"base_commit_sha": v}),
                1 => json!({"args": {"base_commit_sha": v, "x": 1}}),
                2 => json!({"a": [{"zz": 0}, {"base_commit_sha": v}]}),
                3 => json!({"aaa": "before", "base_commit_sha": v, "zzz": {"base_commit_sha": "inner"}}),
                _ => json!([{"deep": {"er": {"base_commit_sha": v}}}]),
            };
            let ts = if rng.chance(1, 2) { Some("2025-10-01T00:00:00Z".to_string()) } else { None };
            let rec = log.metadata.prompts.get_mut(k).unwrap();
            let msg = Message::ToolUse { name: rng.pick(&["git_rebase", "base_commit_sha", "edit"]).to_string(), input, timestamp: ts };
            if rng.chance(1, 2) {
                rec.messages.push(msg);
            } else {
                rec.messages.insert(0, msg);
            }
        }
    }
    match rng.below(14) {
        0 => log.metadata.schema_version = "x\"base_commit_sha".to_string(),
        1 => log.metadata.git_ai_version = Some("v\"base_commit_sha".to_string()),
        2 => log.metadata.schema_version = format!("{FIELD}: \"s\""),
        3 => log.metadata.git_ai_version = Some("1.0\\".to_string()),
        _ => {}
    }
    log
}

fn real_parse(text: &str) -> Option<AuthorshipLog> {
    let t = text.to_string();
    catch(move || AuthorshipLog::deserialize_from_string(&t).ok()).ok().flatten()
}

/// `reser` of the model: serde's re-serialization of the metadata with the base replaced
fn reser_of(text: &str, target: &str) -> Value {
    match real_parse(text) {
        Some(mut log) => {
            log.metadata.base_commit_sha = target.to_string();
            json!(serde_json::to_string_pretty(&log.metadata).unwrap())
        }
        None => Value::Null,
    }
}

fn remap_case(text: &str, target: &str, mut tags: Vec<String>, check_only_base: bool, em: &mut Emitter) {
    let (t1, c1) = (text.to_string(), target.to_string());
    let fast = catch(move || rb::try_remap_base_commit_sha_field(&t1, &c1));
    let imp_fast = match &fast {
        Err(_) => json!({"panic": true}),
        Ok(Some(r)) => json!({"some": r}),
        Ok(None) => json!({"none": true}),
    };
    tags.push(format!("scanner={}", match &fast { Ok(Some(_)) => "some", Ok(None) => "none", Err(_) => "panic" }));
    tags.push(format!("target={}", if plain(target) { "plain" } else { "needs-escaping" }));
    em.emit(
        "c15",
        json!({"op": "c15_try_remap", "text": text, "target": target}),
        imp_fast,
        vec![oracle("remap_no_panic", fast.is_ok(), json!({"text": text, "target": target}), "remap-panic")],
        tags.clone(),
    );
    let (t2, c2) = (text.to_string(), target.to_string());
    let full = catch(move || rb::remap_note_content_for_target_commit(&t2, &c2));
    let before = real_parse(text);
    let mut oracles = vec![oracle("remap_no_panic", full.is_ok(), json!({"text": text, "target": target}), "remap-panic")];
    let imp = match &full {
        Err(_) => json!({"panic": true}),
        Ok(r) => json!({"text": r}),
    };
    if let (Ok(r), Some(b)) = (&full, &before)
        && check_only_base
        && plain(target)
    {
        let after = real_parse(r);
        oracles.push(oracle("remap_parses", after.is_some(), json!({"text": text, "target": target, "remapped": r}), "remap-unparsable"));
        if let Some(a) = after {
            let mut want = b.metadata.clone();
            want.base_commit_sha = target.to_string();
            let ok = a.attestations == b.attestations && a.metadata == want;
            oracles.push(oracle(
                "remap_only_base",
                ok,
                json!({"text": text, "target": target, "remapped": r,
                       "same_attestations": a.attestations == b.attestations,
                       "base_after": a.metadata.base_commit_sha}),
                "remap-changes-more-than-base",
            ));
        }
        tags.push("oracle=only-base".into());
    }
    em.emit(
        "c15",
        json!({"op": "c15_remap", "text": text, "target": target, "reser": reser_of(text, target)}),
        imp,
        oracles,
        tags,
    );
}

/// serde's shape of the metadata block around the base field — the hypotheses `prefixOk`,
/// `allWs`, `jsonEscape` of the Lean theorem, asserted on real serde output
fn shape_case(log: &AuthorshipLog, em: &mut Emitter) {
    let j = serde_json::to_string_pretty(&log.metadata).unwrap();
    let pre = format!(
        "{{\n  \"schema_version\": {},\n  \"git_ai_version\": {},\n  ",
        serde_json::to_string(&log.metadata.schema_version).unwrap(),
        serde_json::to_string(&log.metadata.git_ai_version).unwrap()
    );
    let val = serde_json::to_string(&log.metadata.base_commit_sha).unwrap();
    let head = format!("{pre}{FIELD}: \"");
    let shaped = j.starts_with(&head) && j[head.len()..].starts_with(&val[1..]) && !j.contains('\r') && !j.ends_with('\n');
    let prefix_ok = !format!("{pre}{}", &FIELD[..FIELD.len() - 1]).contains(FIELD);
    let default_meta = log.metadata.schema_version == "authorship/3.0.0"
        && log.metadata.git_ai_version.as_deref().is_none_or(|v| !v.contains('"') && !v.contains('\\'));
    let mut oracles = vec![oracle("serde_shape", shaped, json!({"json": j}), "serde-shape")];
    if default_meta {
        oracles.push(oracle("serde_prefix_fact", prefix_ok, json!({"pre": pre}), "serde-prefix-fact"));
    }
    let imp = if prefix_ok && shaped {
        json!({"split": {"head": head, "value": &val[1..val.len() - 1], "rest": &j[head.len() + val.len() - 2..]}, "prefix_ok": true})
    } else {
        json!({})
    };
    em.emit(
        "c15",
        json!({"op": "c15_meta_facts", "json": j}),
        imp,
        oracles,
        vec!["meta_facts".into(), format!("prefix_ok={prefix_ok}"), format!("default_meta={default_meta}")],
    );
    let s = log.metadata.base_commit_sha.clone();
    em.emit(
        "c15",
        json!({"op": "c15_json_escape", "s": s}),
        json!({"text": &val[1..val.len() - 1]}),
        vec![],
        vec!["json_escape".into()],
    );
}

fn split_note(text: &str) -> Option<(&str, &str)> {
    let i = text.find("---\n")?;
    if i == 0 || text[..i].ends_with('\n') { Some((&text[..i + 4], &text[i + 4..])) } else { None }
}

fn gen_arbitrary(rng: &mut Rng) -> String {
    let n = rng.size(6, 24);
    let mut s = String::new();
    for _ in 0..n {
        s.push_str(match rng.below(18) {
            0 => "---\n",
            1 => "---\r\n",
            2 => FIELD,
            3 => ":",
            4 => " ",
            5 => "\"",
            6 => "\\",
            7 => "\n",
            8 => "\t\r\n",
            9 => "\\\u{e9}",
            10 => "\\\u{1f642}\"",
            11 => "abc",
            12 => "{",
            13 => "}",
            14 => "f.txt\n  h 1\n",
            15 => "\"base_commit_sha",
            16 => ": \"",
            _ => "\\\\\"",
        });
    }
    s
}

fn pure_case(rng: &mut Rng, em: &mut Emitter) {
    let target = gen_target(rng);
    let kind = rng.below(20);
    if kind >= 18 {
        let t = gen_arbitrary(rng);
        remap_case(&t, &target, vec!["kind=arbitrary".into()], false, em);
        return;
    }
    let log = gen_c15_log(rng);
    let ser = log.serialize_to_string().unwrap();
    let in_domain = c17::unserializable_reason(&log).is_none();
    let dom = if in_domain { "serializable" } else { "outside:c17-domain" };
    let field_in_att = log.attestations.iter().any(|f| f.file_path.contains(FIELD));
    let meta_json = serde_json::to_string(&log.metadata).unwrap();
    let later_keys = meta_json.matches("\"base_commit_sha\":").count().saturating_sub(1);
    let base_tags = vec![dom.to_string(), format!("field_in_path={field_in_att}"), format!("later_field_keys={}", later_keys.min(3))];
    let with = |k: &str| {
        let mut t = base_tags.clone();
        t.push(format!("kind={k}"));
        t
    };
    match kind {
        0..=8 => {
            if kind == 0 {
                shape_case(&log, em);
            }
            remap_case(&ser, &target, with("serializer"), in_domain, em)
        }
        9 | 10 => {
            let Some((att, _)) = split_note(&ser) else { return remap_case(&ser, &target, with("serializer"), false, em) };
            let t = format!("{att}{}", serde_json::to_string(&log.metadata).unwrap());
            remap_case(&t, &target, with("compact-json"), in_domain, em)
        }
        11 => remap_case(&ser.replace('\n', "\r\n"), &target, with("crlf-all"), false, em),
        12 => {
            let Some((att, meta)) = split_note(&ser) else { return };
            let t = format!("{att}{}", meta.replace('\n', "\r\n"));
            remap_case(&t, &target, with("crlf-metadata"), in_domain, em)
        }
        13 => {
            let Some((att, meta)) = split_note(&ser) else { return };
            let ws = rng.pick(&[" \t:\r\n ", ":", "\n:\n\n", " : ", "\t:\t"]);
            let t = format!("{att}{}", meta.replacen(&format!("{FIELD}: "), &format!("{FIELD}{ws}"), 1));
            remap_case(&t, &target, with("colon-whitespace"), in_domain, em)
        }
        14 => {
            // other key orders / foreign keys: outside the serializer's shape
            let Some((att, _)) = split_note(&ser) else { return };
            let b = serde_json::to_string(&log.metadata.base_commit_sha).unwrap();
            let (m, k) = match rng.below(4) {
                0 => (format!("{{\"base_commit_sha\":{b},\"schema_version\":\"authorship/3.0.0\",\"prompts\":{{}}}}"), "key-order"),
                1 => (format!("{{\"x\\\"base_commit_sha\": \"q\", \"schema_version\":\"authorship/3.0.0\",\"base_commit_sha\":{b},\"prompts\":{{}}}}"), "foreign-key-prefix"),
                2 => (format!("{{\"schema_version\":\"authorship/3.0.0\",\"note\":\"see \\\"base_commit_sha\",\"base_commit_sha\" : {b},\"prompts\":{{}}}}"), "foreign-value-prefix"),
                _ => (format!("{{\"schema_version\":\"authorship/3.0.0\",\"prompts\":{{}},\"base_commit_sha\":{b}}}"), "key-order"),
            };
            let t = format!("{att}{m}");
            remap_case(&t, &target, with(k), in_domain && k != "foreign-key-prefix", em)
        }
        15 => {
            let Some((att, meta)) = split_note(&ser) else { return };
            let v = serde_json::to_string(&log.metadata.base_commit_sha).unwrap();
            let repl = rng.pick(&["7", "null", "[\"x\"]", "\"unterminated", "\"a\\"]);
            let t = format!("{att}{}", meta.replacen(&format!("{FIELD}: {v}"), &format!("{FIELD}: {repl}"), 1));
            remap_case(&t, &target, with("non-string-value"), false, em)
        }
        16 => {
            let cut = rng.below(ser.len() as u64 + 1) as usize;
            let mut c = cut;
            while !ser.is_char_boundary(c) {
                c -= 1;
            }
            remap_case(&ser[..c], &target, with("truncated"), false, em)
        }
        _ => {
            let t = match rng.below(3) {
                0 => ser.replacen("---\n", "", 1),
                1 => ser.replacen("---\n", "--- \n", 1),
                _ => ser.replacen(&format!("  {FIELD}: "), "  \"base\": ", 1),
            };
            remap_case(&t, &target, with("no-divider-or-field"), false, em)
        }
    }
}

pub fn run(seed: u64, count: u64, corpus: Option<&str>, em: &mut Emitter) {
    if let Some(path) = corpus
        && let Ok(f) = std::fs::File::open(path)
    {
        for line in std::io::BufReader::new(f).lines().map_while(Result::ok) {
            let Ok(v) = serde_json::from_str::<Value>(&line) else { continue };
            if v["kind"] == "remap"
                && let (Some(t), Some(c)) = (v["text"].as_str(), v["target"].as_str())
            {
                let only_base = v["only_base"].as_bool().unwrap_or(false);
                remap_case(t, c, vec!["corpus".into()], only_base, em);
            }
        }
    }
    let mut rng = Rng::new(seed ^ 0xC15);
    for _ in 0..count {
        pure_case(&mut rng, em);
    }
}

// ------------------------------------------------------------------ scratch repository

struct Scratch {
    dir: PathBuf,
}
impl Drop for Scratch {
    fn drop(&mut self) {
        let _ = std::fs::remove_dir_all(&self.dir);
    }
}

fn git(dir: &Path, args: &[&str], stdin: Option<&[u8]>) -> (bool, String) {
    let mut cmd = std::process::Command::new("git");
    cmd.current_dir(dir).args(args).stdin(std::process::Stdio::piped()).stdout(std::process::Stdio::piped()).stderr(std::process::Stdio::null());
    let mut child = cmd.spawn().expect("spawn git");
    if let Some(data) = stdin {
        child.stdin.as_mut().unwrap().write_all(data).unwrap();
    }
    drop(child.stdin.take());
    let out = child.wait_with_output().unwrap();
    (out.status.success(), String::from_utf8_lossy(&out.stdout).trim().to_string())
}

struct PoolCommit {
    id: String,
    tree: String,
    files: BTreeMap<String, String>, // path -> blob oid
}

const NAMES: &[&str] = &["f", "g", "h.txt", "a b", "z9"];

fn make_commit(dir: &Path, rng: &mut Rng, blobs: &[String], idx: usize) -> PoolCommit {
    let mut files = BTreeMap::new();
    for n in NAMES {
        match rng.below(5) {
            0 => {}
            k => {
                // few distinct contents so that pairs agree often
                files.insert(n.to_string(), blobs[(k as usize - 1) % 2 + if rng.chance(1, 6) { 1 } else { 0 }].clone());
            }
        }
    }
    let spec: String = files.iter().map(|(n, b)| format!("100644 blob {b}\t{n}\n")).collect();
    let (ok, tree) = git(dir, &["mktree"], Some(spec.as_bytes()));
    assert!(ok);
    let (ok, id) = git(dir, &["commit-tree", &tree, "-m", &format!("c{idx}")], None);
    assert!(ok);
    PoolCommit { id, tree, files }
}

fn world_json(pool: &[PoolCommit], notes: &BTreeMap<String, String>) -> (Value, Value) {
    let commits: Vec<Value> = pool
        .iter()
        .map(|c| json!({"id": c.id, "tree": c.tree, "files": c.files.iter().map(|(p, b)| json!([p, b])).collect::<Vec<_>>()}))
        .collect();
    let ns: Vec<Value> = notes.iter().map(|(c, t)| json!([c, t])).collect();
    (json!(commits), json!(ns))
}

/// rendered `diff-tree --stdin --raw -z` output with the meaning the generator gave it
fn gen_diff_tree_output(rng: &mut Rng, n: usize) -> (Vec<u8>, Option<bool>, String) {
    let mut out = Vec::new();
    let mut any_record = false;
    let shape = rng.below(12);
    let sections = match shape {
        0 => n.saturating_sub(1),
        1 => n + 1,
        _ => n,
    };
    for s in 0..sections {
        out.extend_from_slice(format!("{} {}\n", "a".repeat(40), "b".repeat(40)).as_bytes());
        // records mostly in the LAST sections (guards against "first pair only")
        let recs = match rng.below(8) {
            0 => 1 + rng.below(3),
            1 if s + 1 == sections => 1,
            _ => 0,
        };
        for _ in 0..recs {
            any_record = true;
            let path = rng.pick(&["f", "dir/g", "x\ny", ":colon", "\n", "sp ace", "\u{e9}"]);
            out.extend_from_slice(format!(":100644 100644 {} {} M\0{}\0", "1".repeat(40), "2".repeat(40), path).as_bytes());
        }
    }
    match shape {
        2 => {
            // malformed: drop the final newline / cut somewhere
            let cut = rng.below(out.len() as u64 + 1) as usize;
            out.truncate(cut);
            (out, None, "malformed-truncated".into())
        }
        3 => {
            // blank separators between sections
            let s = String::from_utf8_lossy(&out).replace("\n", "\n\n");
            (s.into_bytes(), None, "malformed-blank-lines".into())
        }
        4 => {
            let k = rng.size(5, 40) as usize;
            let junk: Vec<u8> = (0..k).map(|_| rng.pick(&[b':', b'\n', b'a', 0u8, b' ', 0xc3, 0xa9])).collect();
            (junk, None, "malformed-junk".into())
        }
        0 => (out, None, "fewer-sections".into()),
        1 => (out, if any_record { Some(false) } else { None }, "more-sections".into()),
        _ => (out, Some(!any_record), if any_record { "rendered-dirty".into() } else { "rendered-clean".into() }),
    }
}

fn scan_case(repo: &git_ai::git::repository::Repository, pair: &(String, String), rng: &mut Rng, em: &mut Emitter) {
    let n = 1 + rng.below(4) as usize;
    let (data, expect, tag) = gen_diff_tree_output(rng, n);
    let pairs: Vec<(String, String)> = (0..n).map(|_| pair.clone()).collect();
    rb::inject_diff_tree_output(data.clone());
    let res = rb::tracked_paths_match_for_commit_pairs(repo, &pairs, &["f".to_string()]);
    let imp = match &res {
        Ok(b) => json!({"ok": b}),
        Err(e) => json!({"error": e.to_string()}),
    };
    let mut oracles = vec![];
    if let (Some(want), Ok(got)) = (expect, &res) {
        // the safety direction only: never `true` when a record is present
        oracles.push(oracle(
            "scanner_sound",
            !(*got && !want),
            json!({"data": String::from_utf8_lossy(&data), "pairs": n}),
            "scanner-accepts-differing-pair",
        ));
    }
    em.emit(
        "c15repo",
        json!({"op": "c15_scan", "data": data, "pairs": n}),
        imp,
        oracles,
        vec!["scan".into(), format!("scan:{tag}"), format!("scan:pairs={n}"), format!("scan:result={}", res.as_ref().map(|b| b.to_string()).unwrap_or("err".into()))],
    );
}

#[allow(clippy::too_many_arguments)]
fn fast_path_case(
    dir: &Path,
    repo: &git_ai::git::repository::Repository,
    opool: &[PoolCommit],
    npool: &[PoolCommit],
    notes: &BTreeMap<String, String>,
    rng: &mut Rng,
    em: &mut Emitter,
) {
    let rebase = rng.chance(1, 2);
    let k = 1 + rng.below(3) as usize;
    let mut orig: Vec<&PoolCommit> = Vec::new();
    let mut new: Vec<&PoolCommit> = Vec::new();
    let mut used = HashSet::new();
    // mostly pairs that agree on most paths: pick the new commit among those equal on `f`
    for _ in 0..k {
        let o = &opool[rng.below(opool.len() as u64) as usize];
        let cands: Vec<&PoolCommit> = npool.iter().filter(|n| !used.contains(&n.id) && (rng.chance(1, 12) || n.files == o.files)).collect();
        let Some(n) = (if cands.is_empty() { None } else { Some(cands[rng.below(cands.len() as u64) as usize]) }) else { continue };
        used.insert(n.id.clone());
        if !rng.chance(1, 12) || orig.is_empty() {
            orig.push(o);
        } else {
            orig.push(orig[0]); // duplicate original
        }
        new.push(n);
    }
    if orig.is_empty() {
        return;
    }
    match rng.below(12) {
        0 => {
            new.pop();
        }
        1 => {
            orig.pop();
        }
        _ => {}
    }
    let mut tracked: Vec<String> = NAMES.iter().filter(|_| rng.chance(1, 2)).map(|s| s.to_string()).collect();
    if rng.chance(1, 10) {
        tracked.push("zz-absent".into());
    }
    if rng.chance(1, 15) {
        tracked.clear();
    }
    tracked.sort();
    let orig_ids: Vec<String> = orig.iter().map(|c| c.id.clone()).collect();
    let new_ids: Vec<String> = new.iter().map(|c| c.id.clone()).collect();
    let to_process: Vec<String> = match rng.below(10) {
        0 => vec![],
        1 => new_ids.iter().skip(1).cloned().collect(),
        _ => new_ids.clone(),
    };
    let pairs: Vec<(String, String)> = if rebase {
        orig_ids.iter().zip(new_ids.iter()).filter(|(_, n)| to_process.contains(n)).map(|(a, b)| (a.clone(), b.clone())).collect()
    } else {
        orig_ids.iter().zip(new_ids.iter()).map(|(a, b)| (a.clone(), b.clone())).collect()
    };
    let _ = rb::take_observed_diff_tree_output();
    let res = if rebase {
        let lookup: HashSet<&str> = to_process.iter().map(String::as_str).collect();
        rb::try_fast_path_rebase_note_remap(repo, &orig_ids, &new_ids, &lookup, &tracked)
    } else {
        rb::try_fast_path_cherry_pick_note_remap(repo, &pairs, &tracked)
    };
    let observed = rb::take_observed_diff_tree_output();
    // independent recomputation of the precondition from the pool
    let by_id = |id: &str| opool.iter().chain(npool.iter()).find(|c| c.id == id).unwrap();
    let differing: Vec<(usize, String)> = pairs
        .iter()
        .enumerate()
        .flat_map(|(i, (o, n))| {
            let (co, cn) = (by_id(o), by_id(n));
            tracked.iter().filter(move |p| co.files.get(*p) != cn.files.get(*p)).map(move |p| (i, p.clone())).collect::<Vec<_>>()
        })
        .collect();
    let missing_note: Vec<&String> = pairs.iter().map(|(o, _)| o).filter(|o| !notes.contains_key(*o)).collect();
    let counts_differ = rebase && orig_ids.len() != new_ids.len();
    let mut imp = json!({});
    let mut oracles = vec![];
    let taken = matches!(res, Ok(true));
    match &res {
        Ok(b) => imp["applies"] = json!(b),
        Err(e) => imp["error"] = json!(e.to_string()),
    }
    if let Some(o) = &observed {
        imp["diff_tree"] = json!(String::from_utf8_lossy(o));
    }
    let wit = json!({"rebase": rebase, "pairs": pairs, "tracked": tracked, "differing": differing, "missing_note": missing_note});
    oracles.push(oracle("shortcut_needs_all_pairs", !(taken && !differing.is_empty()), wit.clone(), "shortcut-taken-when-pair-differs"));
    oracles.push(oracle("shortcut_needs_all_notes", !(taken && !missing_note.is_empty()), wit.clone(), "shortcut-taken-when-original-lacks-note"));
    oracles.push(oracle("shortcut_needs_equal_counts", !(taken && (counts_differ || tracked.is_empty())), wit.clone(), "shortcut-taken-when-counts-differ"));
    if taken {
        // every rewritten commit now carries its original's note with only the base changed
        let mut ok = true;
        let mut detail = json!(null);
        for (o, n) in &pairs {
            let (found, text) = git(dir, &["notes", "--ref=ai", "show", n], None);
            let before = notes.get(o).and_then(|t| real_parse(t));
            let after = if found { real_parse(&text) } else { None };
            let good = match (&before, &after) {
                (Some(b), Some(a)) => {
                    let mut want = b.metadata.clone();
                    want.base_commit_sha = n.clone();
                    a.attestations == b.attestations && a.metadata == want
                }
                _ => false,
            };
            if !good {
                ok = false;
                detail = json!({"original": o, "new": n, "note": text});
            }
        }
        oracles.push(oracle("shortcut_note_is_base_update", ok, detail, "remap-changes-more-than-base"));
    }
    let reason = if counts_differ {
        "counts"
    } else if tracked.is_empty() || pairs.is_empty() {
        "empty"
    } else if !differing.is_empty() {
        if differing.iter().all(|(i, _)| *i > 0) { "later-pair-differs" } else { "first-pair-differs" }
    } else if !missing_note.is_empty() {
        "missing-note"
    } else {
        "all-agree"
    };
    let (commits, ns) = world_json(&opool.iter().chain(npool.iter()).map(|c| PoolCommit { id: c.id.clone(), tree: c.tree.clone(), files: c.files.clone() }).collect::<Vec<_>>(), notes);
    em.emit(
        "c15repo",
        json!({"op": "c15_fast_path", "rebase": rebase, "orig": orig_ids, "new": new_ids, "to_process": to_process,
               "tracked": tracked, "commits": commits, "notes": ns}),
        imp,
        oracles,
        vec!["fast_path".into(), format!("fp:{}", if rebase { "rebase" } else { "cherry-pick" }), format!("fp:pairs={}", pairs.len()),
             format!("fp:case={reason}"), format!("fp:taken={taken}")],
    );
}

pub fn run_repo(seed: u64, count: u64, _corpus: Option<&str>, em: &mut Emitter) {
    let base = std::env::temp_dir().join(format!("vf-c15-harness-{}-{}", std::process::id(), seed));
    let _ = std::fs::remove_dir_all(&base);
    std::fs::create_dir_all(base.join("home")).unwrap();
    let scratch = Scratch { dir: base.clone() };
    unsafe {
        std::env::set_var("HOME", base.join("home"));
        std::env::set_var("GIT_CONFIG_GLOBAL", base.join("home/.gitconfig"));
        std::env::set_var("GIT_CONFIG_NOSYSTEM", "1");
        std::env::set_var("GIT_AI_TEST_DB_PATH", base.join("db"));
        std::env::set_var("GITAI_TEST_DB_PATH", base.join("db"));
        std::env::set_var("GIT_AUTHOR_NAME", "T");
        std::env::set_var("GIT_AUTHOR_EMAIL", "t@t");
        std::env::set_var("GIT_COMMITTER_NAME", "T");
        std::env::set_var("GIT_COMMITTER_EMAIL", "t@t");
        std::env::set_var("GIT_AUTHOR_DATE", "1760000000 +0000");
        std::env::set_var("GIT_COMMITTER_DATE", "1760000000 +0000");
    }
    let dir = base.join("repo");
    std::fs::create_dir_all(&dir).unwrap();
    let (ok, _) = git(&dir, &["init", "-q", "-b", "main"], None);
    assert!(ok);
    let repo = git_ai::git::find_repository_in_path(dir.to_str().unwrap()).expect("open scratch repo");
    let mut rng = Rng::new(seed ^ 0xC15_0002);
    let blobs: Vec<String> = ["v0\n", "v1\n", "v2\n"].iter().map(|c| git(&dir, &["hash-object", "-w", "--stdin"], Some(c.as_bytes())).1).collect();
    let opool: Vec<PoolCommit> = (0..8).map(|i| make_commit(&dir, &mut rng, &blobs, i)).collect();
    // every original has a twin with the same tree among the rewritten commits, plus random ones
    let mut npool: Vec<PoolCommit> = Vec::new();
    for (i, o) in opool.iter().enumerate() {
        let (ok, id) = git(&dir, &["commit-tree", &o.tree, "-m", &format!("n{i}")], None);
        assert!(ok);
        npool.push(PoolCommit { id, tree: o.tree.clone(), files: o.files.clone() });
    }
    for i in 0..6 {
        npool.push(make_commit(&dir, &mut rng, &blobs, 100 + i));
    }
    let mut notes: BTreeMap<String, String> = BTreeMap::new();
    for (i, c) in opool.iter().enumerate() {
        if i == 2 || i == 5 {
            continue; // originals without a note
        }
        let mut log = gen_c15_log(&mut rng);
        while c17::unserializable_reason(&log).is_some() {
            log = gen_c15_log(&mut rng);
        }
        log.metadata.base_commit_sha = c.id.clone();
        let text = log.serialize_to_string().unwrap();
        let (ok, _) = git(&dir, &["notes", "--ref=ai", "add", "-f", "-F", "-", &c.id], Some(text.as_bytes()));
        assert!(ok);
        // what git stores and shows (`notes add -F` runs cleanup: trailing newline)
        let (_, shown) = git(&dir, &["cat-file", "-p", &format!("refs/notes/ai:{}", c.id)], None);
        let stored = if shown.is_empty() { text.clone() } else { raw_note(&dir, &c.id).unwrap_or(text.clone()) };
        notes.insert(c.id.clone(), stored);
    }
    let scan_pair = (opool[0].id.clone(), npool[0].id.clone());
    for i in 0..count {
        if i % 3 == 0 {
            fast_path_case(&dir, &repo, &opool, &npool, &notes, &mut rng, em);
        } else {
            scan_case(&repo, &scan_pair, &mut rng, em);
        }
    }
    drop(scratch);
}

/// the note blob exactly as stored
fn raw_note(dir: &Path, commit: &str) -> Option<String> {
    let out = std::process::Command::new("git").current_dir(dir).args(["notes", "--ref=ai", "list", commit]).output().ok()?;
    let blob = String::from_utf8_lossy(&out.stdout).trim().to_string();
    if blob.is_empty() {
        return None;
    }
    let out = std::process::Command::new("git").current_dir(dir).args(["cat-file", "blob", &blob]).output().ok()?;
    String::from_utf8(out.stdout).ok()
}
