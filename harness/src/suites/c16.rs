//! C16 — the attribution tracker is total, bounded and conservative.
//! Real code: attribution_tracker::{AttributionTracker::update_attributions,
//! attribute_unattributed_ranges, attributions_to_line_attributions,
//! line_attributions_to_attributions} and, through `verif_hooks`, the private phases
//! (diff segments + substantive ranges + move mappings, transform, merge, catalog).
//!
//! Per case: (i) contract check on the real segments / moves (the Lean theorems assume it),
//! (ii) the request for the Lean model (`tr_*` ops) with the real result to compare,
//! (iii) the property oracles evaluated directly on the real outputs.
use crate::common::*;
use git_ai::authorship::attribution_tracker::{
    Attribution, AttributionTracker, LineAttribution, attributions_to_line_attributions,
    line_attributions_to_attributions, verif_hooks as vh,
};
use serde_json::{Value, json};
use std::collections::BTreeSet;
use std::io::BufRead;

type Seg = (u8, Vec<u8>);
type Move = (usize, usize, (usize, usize), (usize, usize));

/// emit with the details of passing oracles dropped (keeps the case file compact)
fn emit_case(em: &mut Emitter, req: Value, imp: Value, mut oracles: Vec<Value>, tags: Vec<String>) {
    for o in oracles.iter_mut() {
        if o["ok"] == true {
            o["detail"] = Value::Null;
        }
    }
    em.emit("c16", req, imp, oracles, tags);
}

// ------------------------------------------------------------------ JSON forms

fn jtext(b: &[u8]) -> Value {
    match std::str::from_utf8(b) {
        Ok(s) => json!(s),
        Err(_) => json!(b),
    }
}

fn jattr(a: &Attribution) -> Value {
    json!([a.start, a.end, a.author_id, a.ts as u64])
}

fn jattrs(v: &[Attribution]) -> Value {
    Value::Array(v.iter().map(jattr).collect())
}

fn jline(l: &LineAttribution) -> Value {
    json!([l.start_line, l.end_line, l.author_id, l.overrode])
}

fn jlines(v: &[LineAttribution]) -> Value {
    Value::Array(v.iter().map(jline).collect())
}

fn jsegs(segs: &[Seg]) -> Value {
    Value::Array(segs.iter().map(|(op, d)| json!([op, jtext(d)])).collect())
}

fn jpairs(v: &[(usize, usize)]) -> Value {
    Value::Array(v.iter().map(|p| json!([p.0, p.1])).collect())
}

fn jmoves(v: &[Move]) -> Value {
    Value::Array(v.iter().map(|m| json!([m.0, m.1, m.2.0, m.2.1, m.3.0, m.3.1])).collect())
}

fn attrs_of(v: &Value) -> Vec<Attribution> {
    v.as_array()
        .map(|a| {
            a.iter()
                .map(|x| {
                    Attribution::new(
                        x[0].as_u64().unwrap_or(0) as usize,
                        x[1].as_u64().unwrap_or(0) as usize,
                        x[2].as_str().unwrap_or("").to_string(),
                        x[3].as_u64().unwrap_or(0) as u128,
                    )
                })
                .collect()
        })
        .unwrap_or_default()
}

fn lines_of(v: &Value) -> Vec<LineAttribution> {
    v.as_array()
        .map(|a| {
            a.iter()
                .map(|x| {
                    LineAttribution::new(
                        x[0].as_u64().unwrap_or(0) as u32,
                        x[1].as_u64().unwrap_or(0) as u32,
                        x[2].as_str().unwrap_or("").to_string(),
                        x[3].as_str().map(|s| s.to_string()),
                    )
                })
                .collect()
        })
        .unwrap_or_default()
}

fn bytes_of(v: &Value) -> Vec<u8> {
    match v {
        Value::String(s) => s.as_bytes().to_vec(),
        Value::Array(a) => a.iter().map(|x| x.as_u64().unwrap_or(0) as u8).collect(),
        _ => Vec::new(),
    }
}

// ------------------------------------------------------------------ independent helpers

const HUMAN: &str = "human";

/// byte-level whitespace test written independently of the code under test: the bytes decode
/// as UTF-8 and every char is Unicode White_Space
fn all_ws(b: &[u8]) -> bool {
    match std::str::from_utf8(b) {
        Ok(s) => s.chars().all(|c| c.is_whitespace()),
        Err(_) => false,
    }
}

fn is_boundary(t: &str, i: usize) -> bool {
    t.is_char_boundary(i)
}

fn who_at(attrs: &[Attribution], p: usize) -> BTreeSet<(String, u128)> {
    attrs.iter().filter(|a| a.start <= p && p < a.end).map(|a| (a.author_id.clone(), a.ts)).collect()
}

/// line ranges (start, end-exclusive incl. newline), independent of LineBoundaries
fn line_ranges(t: &str) -> Vec<(usize, usize)> {
    let mut v = Vec::new();
    let mut s = 0;
    for (i, b) in t.bytes().enumerate() {
        if b == b'\n' {
            v.push((s, i + 1));
            s = i + 1;
        }
    }
    if s < t.len() {
        v.push((s, t.len()));
    }
    v
}

/// per line (1-based index - 1): Some((author, overrode)) for lines listed, None otherwise
fn expand_lines(las: &[LineAttribution], n: usize) -> Vec<Option<(String, Option<String>)>> {
    let mut v = vec![None; n];
    for l in las {
        let mut k = l.start_line.max(1);
        while k <= l.end_line && (k as usize) <= n {
            v[k as usize - 1] = Some((l.author_id.clone(), l.overrode.clone()));
            k += 1;
        }
    }
    v
}

fn sample_positions(rng_seed: usize, start: usize, len: usize) -> Vec<usize> {
    if len <= 96 {
        (start..start + len).collect()
    } else {
        let mut v: Vec<usize> = vec![start, start + 1, start + len - 2, start + len - 1, start + len / 2];
        let mut x = rng_seed as u64 | 1;
        for _ in 0..48 {
            x = x.wrapping_mul(6364136223846793005).wrapping_add(1442695040888963407);
            v.push(start + (x >> 33) as usize % len);
        }
        v
    }
}

// ------------------------------------------------------------------ generators

const WORDS: &[&str] = &[
    "fn", "let", "x", "y", "foo", "bar", "value", "return", "if", "else", "42", "0x1f", "1.5e3", "é", "日本", "🙂",
    // numeric tokens that exercise the tokenizer's look-ahead (radix prefixes, a lone digit at the end of a text)
    "0", "1", "0x", "0b", "0o17", "0b101", "00",
    "e\u{301}", "naïve", "\"str\"", "'c'", "`t`", "\"a\\\"b\"", "_id", "ß", "Ω",
];
const OPS: &[&str] = &[
    "(", ")", "{", "}", "[", "]", ";", ",", ".", "=", "==", "!=", "->", "=>", "::", "+", "-", "*", "/", "&&", "||", "<", ">", "+=",
    "..", "#", "§", "\\",
];
const SPACES: &[&str] = &[" ", " ", " ", "  ", "\t", "    ", "\u{a0}", "\u{2003}", "\u{3000}", " \t"];

fn gen_line_body(rng: &mut Rng) -> String {
    let mut s = String::new();
    if rng.chance(1, 12) {
        return s; // blank
    }
    if rng.chance(1, 15) {
        return rng.pick(SPACES).to_string(); // whitespace-only
    }
    if rng.chance(1, 2) {
        for _ in 0..rng.below(4) {
            s.push_str(rng.pick(&["  ", "    ", "\t", " "]));
        }
    }
    let n = 1 + rng.size(4, 9);
    for k in 0..n {
        if rng.chance(3, 5) {
            s.push_str(rng.pick(WORDS));
        } else {
            s.push_str(rng.pick(OPS));
        }
        if k + 1 < n && rng.chance(2, 3) {
            s.push_str(rng.pick(SPACES));
        }
    }
    if rng.chance(1, 10) {
        s.push_str(rng.pick(&[" ", "  ", "\t"])); // trailing whitespace
    }
    s
}

#[derive(Clone, Copy, PartialEq)]
enum Eol {
    Lf,
    Crlf,
    Mixed,
}

fn eol(rng: &mut Rng, style: Eol) -> &'static str {
    match style {
        Eol::Lf => "\n",
        Eol::Crlf => "\r\n",
        Eol::Mixed => {
            if rng.chance(1, 2) {
                "\n"
            } else {
                "\r\n"
            }
        }
    }
}

fn join_lines(rng: &mut Rng, lines: &[String], style: Eol, final_nl: bool) -> String {
    let mut s = String::new();
    for (k, l) in lines.iter().enumerate() {
        s.push_str(l);
        if k + 1 < lines.len() || final_nl {
            s.push_str(eol(rng, style));
        }
    }
    s
}

fn gen_lines(rng: &mut Rng) -> Vec<String> {
    let n = match rng.below(20) {
        0 => 0,
        1 => 1,
        2 => 20 + rng.below(30) as usize,
        _ => 2 + rng.size(6, 14) as usize,
    };
    let mut v: Vec<String> = Vec::new();
    for _ in 0..n {
        if !v.is_empty() && rng.chance(1, 6) {
            let k = rng.below(v.len() as u64) as usize; // repeated line
            v.push(v[k].clone());
        } else {
            v.push(gen_line_body(rng));
        }
    }
    if rng.chance(1, 150) {
        // very long line (> 32 KiB) to cross the line-aligned fast-path thresholds
        let mut l = String::new();
        while l.len() < 33 * 1024 {
            l.push_str(rng.pick(WORDS));
            l.push(' ');
        }
        let at = rng.below(v.len() as u64 + 1) as usize;
        v.insert(at, l);
    }
    v
}

fn gen_style(rng: &mut Rng) -> Eol {
    match rng.below(10) {
        0 | 1 => Eol::Crlf,
        2 => Eol::Mixed,
        _ => Eol::Lf,
    }
}

/// a base text and its lines
fn gen_text(rng: &mut Rng) -> (Vec<String>, Eol, bool) {
    (gen_lines(rng), gen_style(rng), rng.chance(4, 5))
}

/// apply 1..3 structured edits to the line list; returns the edit tags
fn edit_lines(rng: &mut Rng, lines: &mut Vec<String>, tags: &mut Vec<String>) {
    let n_edits = 1 + rng.below(3);
    for _ in 0..n_edits {
        let n = lines.len();
        match rng.below(12) {
            0 => {
                let at = rng.below(n as u64 + 1) as usize;
                for k in 0..1 + rng.below(3) as usize {
                    lines.insert(at + k, gen_line_body(rng));
                }
                tags.push("edit:insert".into());
            }
            1 if n > 0 => {
                let at = rng.below(n as u64) as usize;
                let cnt = (1 + rng.below(3) as usize).min(n - at);
                lines.drain(at..at + cnt);
                tags.push("edit:delete".into());
            }
            2 if n > 0 => {
                let at = rng.below(n as u64) as usize;
                lines[at] = gen_line_body(rng);
                tags.push("edit:replace".into());
            }
            3 | 4 if n > 0 => {
                // intra-line: change / insert / remove one token
                let at = rng.below(n as u64) as usize;
                let l = lines[at].clone();
                let cuts: Vec<usize> = (0..=l.len()).filter(|&i| l.is_char_boundary(i)).collect();
                let a = cuts[rng.below(cuts.len() as u64) as usize];
                let b = cuts[rng.below(cuts.len() as u64) as usize];
                let (a, b) = (a.min(b), a.max(b));
                let mid = match rng.below(3) {
                    0 => String::new(),
                    1 => rng.pick(WORDS).to_string(),
                    _ => format!("{}{}", rng.pick(OPS), rng.pick(WORDS)),
                };
                let b = if rng.chance(1, 2) { a } else { b };
                lines[at] = format!("{}{}{}", &l[..a], mid, &l[b..]);
                tags.push("edit:intra-line".into());
            }
            5 if n > 0 => {
                // re-indent a run of lines
                let at = rng.below(n as u64) as usize;
                let cnt = (1 + rng.below(4) as usize).min(n - at);
                let ind = rng.pick(&["", "  ", "    ", "\t", "        "]);
                for l in lines[at..at + cnt].iter_mut() {
                    *l = format!("{}{}", ind, l.trim_start());
                }
                tags.push("edit:reindent".into());
            }
            6 if n > 0 => {
                // trailing whitespace / inner spacing change
                let at = rng.below(n as u64) as usize;
                if rng.chance(1, 2) {
                    lines[at] = format!("{}{}", lines[at].trim_end(), rng.pick(&["", " ", "  ", "\t"]));
                } else {
                    lines[at] = lines[at].replacen(' ', rng.pick(&["  ", "\t", "   "]), 1);
                }
                tags.push("edit:spacing".into());
            }
            7 | 8 if n >= 4 => {
                // move a block of >= 3 lines (the move threshold), optionally re-indented
                let cnt = 3 + rng.below(3) as usize;
                let cnt = cnt.min(n - 1);
                let from = rng.below((n - cnt) as u64 + 1) as usize;
                let mut block: Vec<String> = lines.drain(from..from + cnt).collect();
                if rng.chance(1, 3) {
                    let ind = rng.pick(&["  ", "    ", "\t"]);
                    for l in block.iter_mut() {
                        *l = format!("{}{}", ind, l.trim_start());
                    }
                    tags.push("edit:move-reindent".into());
                }
                let to = rng.below(lines.len() as u64 + 1) as usize;
                for (k, l) in block.into_iter().enumerate() {
                    lines.insert(to + k, l);
                }
                tags.push("edit:move".into());
            }
            9 => {
                lines.push(gen_line_body(rng));
                tags.push("edit:append".into());
            }
            10 if n > 0 => {
                // blank line inserted or removed
                let at = rng.below(n as u64) as usize;
                if lines[at].is_empty() {
                    lines.remove(at);
                } else {
                    lines.insert(at, String::new());
                }
                tags.push("edit:blank".into());
            }
            _ => {
                if rng.chance(1, 3) {
                    lines.clear();
                    tags.push("edit:clear".into());
                } else {
                    tags.push("edit:none".into());
                }
            }
        }
    }
}

/// a distinctive block of `n` lines for move scenarios (unique tokens so the move detector
/// sees them)
fn gen_block(rng: &mut Rng, n: usize) -> Vec<String> {
    (0..n)
        .map(|k| {
            let ind = rng.pick(&["", "  ", "    "]);
            format!("{}{}_{}{}{}", ind, rng.pick(&["blk", "mv", "é", "日本"]), k, rng.pick(OPS), rng.pick(WORDS))
        })
        .collect()
}

const AUTHORS: &[&str] = &["human", "ai_1", "ai_2", "A", "b", "é", "mock_ai", ""];

fn gen_ts(rng: &mut Rng) -> u128 {
    match rng.below(12) {
        0 => 0,
        1 => 42,
        2 => (1u128 << 62) + rng.below(5) as u128,
        _ => 1 + rng.below(6) as u128,
    }
}

fn pick_boundary(rng: &mut Rng, t: &str) -> usize {
    if t.is_empty() {
        return 0;
    }
    let mut i = rng.below(t.len() as u64 + 1) as usize;
    while !t.is_char_boundary(i) {
        i -= 1;
    }
    i
}

/// prior attribution sets: tags name the shape
fn gen_attrs(rng: &mut Rng, t: &str, tags: &mut Vec<String>) -> Vec<Attribution> {
    let len = t.len();
    let lr = line_ranges(t);
    let mut v: Vec<Attribution> = Vec::new();
    let shape = rng.below(12);
    match shape {
        0 => {
            tags.push("attrs:none".into());
        }
        1..=4 => {
            // tidy: line-aligned, non-overlapping, sorted, one ts per author
            tags.push("attrs:line-aligned".into());
            let mut k = 0;
            while k < lr.len() {
                let cnt = 1 + rng.below(3) as usize;
                let e = (k + cnt).min(lr.len());
                if rng.chance(3, 4) {
                    let ai = rng.below(AUTHORS.len() as u64 - 1) as usize;
                    v.push(Attribution::new(lr[k].0, lr[e - 1].1, AUTHORS[ai].to_string(), 1 + ai as u128));
                }
                k = e;
            }
        }
        5 | 6 => {
            // token-ish: boundary-aligned, possibly overlapping, sorted by start
            tags.push("attrs:boundary-aligned".into());
            let n = rng.size(5, 14);
            for _ in 0..n {
                let a = pick_boundary(rng, t);
                let b = pick_boundary(rng, t);
                let (a, b) = (a.min(b), a.max(b));
                if a < b {
                    v.push(Attribution::new(a, b, rng.pick(AUTHORS).to_string(), gen_ts(rng)));
                }
            }
            v.sort_by_key(|a| (a.start, a.end));
        }
        7 => {
            // one attribution covering everything (+ maybe a human part)
            tags.push("attrs:cover-all".into());
            v.push(Attribution::new(0, len, "ai_1".to_string(), 2));
            if rng.chance(1, 3) && !lr.is_empty() {
                let l = lr[rng.below(lr.len() as u64) as usize];
                v.push(Attribution::new(l.0, l.1, HUMAN.to_string(), 3));
            }
        }
        _ => {
            // malformed: overlapping, unsorted, out of range, zero-length, off-boundary, inverted, huge
            tags.push("attrs:malformed".into());
            let n = 1 + rng.size(5, 12);
            for _ in 0..n {
                let a = rng.below(len as u64 + 2) as usize;
                let (s, e, tag) = match rng.below(9) {
                    0 => (a, a, "zero-length"),
                    1 => (a, len + 1 + rng.below(50) as usize, "out-of-range"),
                    2 => (len + rng.below(5) as usize, len + 5 + rng.below(5) as usize, "beyond-end"),
                    3 => (a, a.saturating_sub(1 + rng.below(4) as usize), "inverted"),
                    4 => (a, usize::MAX - rng.below(2) as usize, "huge-end"),
                    5 => (0, len, "cover-all"),
                    _ => {
                        let b = rng.below(len as u64 + 2) as usize;
                        (a.min(b), a.max(b), "raw-range")
                    }
                };
                tags.push(format!("attrs:mal:{tag}"));
                v.push(Attribution::new(s, e, rng.pick(AUTHORS).to_string(), gen_ts(rng)));
            }
            if rng.chance(1, 4) && !v.is_empty() {
                let d = v[rng.below(v.len() as u64) as usize].clone(); // exact duplicate
                v.push(d);
            }
        }
    }
    v
}

// ------------------------------------------------------------------ contract on real segments

struct Layout {
    /// per segment: (op, old_pos, new_pos, len)
    segs: Vec<(u8, usize, usize, usize)>,
    dels: Vec<(usize, usize)>,
    inss: Vec<(usize, usize)>,
}

fn layout(segs: &[Seg]) -> Layout {
    let (mut op_, mut np) = (0usize, 0usize);
    let mut l = Layout { segs: Vec::new(), dels: Vec::new(), inss: Vec::new() };
    for (op, d) in segs {
        l.segs.push((*op, op_, np, d.len()));
        match op {
            0 => {
                op_ += d.len();
                np += d.len();
            }
            1 => {
                l.dels.push((op_, op_ + d.len()));
                op_ += d.len();
            }
            _ => {
                l.inss.push((np, np + d.len()));
                np += d.len();
            }
        }
    }
    l
}

/// the segment contract assumed by the Lean theorems; returns the first violated clause
fn segment_contract(old: &str, new: &str, segs: &[Seg], subst: &[(usize, usize)]) -> Option<String> {
    let mut o: Vec<u8> = Vec::new();
    let mut n: Vec<u8> = Vec::new();
    for (op, d) in segs {
        if *op != 2 {
            o.extend_from_slice(d);
            if !old.is_char_boundary(o.len().min(old.len())) {
                return Some(format!("segment end {} not on a char boundary of old", o.len()));
            }
        }
        if *op != 1 {
            n.extend_from_slice(d);
            if !new.is_char_boundary(n.len().min(new.len())) {
                return Some(format!("segment end {} not on a char boundary of new", n.len()));
            }
        }
    }
    if o != old.as_bytes() {
        return Some("Equal+Delete segments do not re-concatenate to old".into());
    }
    if n != new.as_bytes() {
        return Some("Equal+Insert segments do not re-concatenate to new".into());
    }
    let mut prev_end = 0usize;
    for (k, r) in subst.iter().enumerate() {
        if r.0 >= r.1 || r.1 > new.len() || (k > 0 && r.0 <= prev_end) {
            return Some(format!("substantive ranges not sorted/merged/in range: {subst:?}"));
        }
        prev_end = r.1;
    }
    // every inserted segment with non-whitespace content is substantive (ties the informal
    // "new text other than pure whitespace" to the `substantive` parameter of the model)
    let lay = layout(segs);
    for (k, (op, _, np, len)) in lay.segs.iter().enumerate() {
        if *op == 2 && !all_ws(&segs[k].1) && !subst.iter().any(|r| r.0 < np + len && r.1 > *np) {
            return Some(format!("non-whitespace insert at {np} is not substantive"));
        }
    }
    None
}

/// validity of the move mappings: indices in range, ranges non-empty inside their deletion /
/// insertion and on char boundaries
fn move_contract(old: &str, new: &str, lay: &Layout, moves: &[Move]) -> Option<String> {
    for m in moves {
        let Some(d) = lay.dels.get(m.0) else { return Some(format!("deletion index {} out of range", m.0)) };
        let Some(i) = lay.inss.get(m.1) else { return Some(format!("insertion index {} out of range", m.1)) };
        if !(m.2.0 < m.2.1 && d.0 + m.2.1 <= d.1) {
            return Some(format!("source range {:?} outside deletion {:?}", m.2, d));
        }
        if !(m.3.0 < m.3.1 && i.0 + m.3.1 <= i.1) {
            return Some(format!("target range {:?} outside insertion {:?}", m.3, i));
        }
        if !(old.is_char_boundary(d.0 + m.2.0) && old.is_char_boundary(d.0 + m.2.1)) {
            return Some("move source not on char boundaries".into());
        }
        if !(new.is_char_boundary(i.0 + m.3.0) && new.is_char_boundary(i.0 + m.3.1)) {
            return Some("move target not on char boundaries".into());
        }
    }
    None
}

// ------------------------------------------------------------------ update case

fn canon_update(r: &Result<Result<Vec<Attribution>, String>, String>) -> Value {
    match r {
        Ok(Ok(v)) => json!({"ok": jattrs(v)}),
        Ok(Err(e)) => json!({"err": "error", "message": e}),
        Err(_) => json!({"err": "panic"}),
    }
}

fn tame_priors(attrs: &[Attribution], old_len: usize) -> bool {
    // non-empty, in range, and a timestamp names one author
    attrs.iter().all(|a| a.start < a.end && a.end <= old_len)
        && attrs.iter().all(|a| attrs.iter().all(|b| a.ts != b.ts || a.author_id == b.author_id))
}

#[allow(clippy::too_many_arguments)]
fn update_case(old: &str, new: &str, attrs: &[Attribution], author: &str, ts: u128, em: &mut Emitter, mut tags: Vec<String>) {
    let (o2, n2) = (old.to_string(), new.to_string());
    let parts = catch(move || vh::diff_parts(&o2, &n2).map_err(|e| e.to_string()));
    let witness = json!({"kind": "update", "old": old, "new": new, "attrs": jattrs(attrs), "author": author, "ts": ts as u64});
    let (segs, subst, moves) = match parts {
        Ok(Ok(p)) => p,
        other => {
            // a panic inside the (unmodelled) diff / tokenizer / move detector
            let msg = match other {
                Err(m) => m,
                Ok(Err(e)) => e,
                _ => String::new(),
            };
            tags.push("diff:panic".into());
            emit_case(
        em,
        Value::Null,
                json!({"err": "panic"}),
                vec![oracle("no_panic", false, json!({"input": witness, "message": msg}), "panic:compute-diffs")],
                tags,
            );
            return;
        }
    };
    let lay = layout(&segs);
    let seg_contract = segment_contract(old, new, &segs, &subst);
    let mv_contract = move_contract(old, new, &lay, &moves);
    let len_mismatch = moves.iter().any(|m| m.2.1 - m.2.0 != m.3.1 - m.3.0);
    let bytes_differ = moves.iter().any(|m| {
        match (lay.dels.get(m.0), lay.inss.get(m.1)) {
            (Some(d), Some(i)) => old.as_bytes().get(d.0 + m.2.0..d.0 + m.2.1) != new.as_bytes().get(i.0 + m.3.0..i.0 + m.3.1),
            _ => true,
        }
    });
    if !moves.is_empty() {
        tags.push("moves:some".into());
        if len_mismatch {
            tags.push("moves:len-mismatch".into());
        } else if bytes_differ {
            tags.push("moves:bytes-differ".into());
        }
    }
    tags.push(format!("segs={}", match segs.len() { 0 => "0", 1 => "1", 2..=5 => "2-5", 6..=20 => "6-20", _ => ">20" }));
    if new.len() > 32 * 1024 || old.len() > 32 * 1024 {
        tags.push("size:>32KiB".into());
    }

    let (o3, n3, a3, au3) = (old.to_string(), new.to_string(), attrs.to_vec(), author.to_string());
    let real = catch(move || AttributionTracker::new().update_attributions(&o3, &n3, &a3, &au3, ts).map_err(|e| e.to_string()));
    let imp = canon_update(&real);
    let mut oracles = vec![
        oracle("segment_contract", seg_contract.is_none(), json!({"input": witness, "why": seg_contract}), "contract:segments"),
        oracle("move_contract", mv_contract.is_none(), json!({"input": witness, "why": mv_contract, "moves": jmoves(&moves)}), "contract:moves"),
        oracle("no_panic", imp["err"] != "panic", json!({"input": witness}), "panic:update"),
    ];
    let move_sig = |base: &str| -> String {
        if len_mismatch {
            format!("{base}:move-length-mismatch")
        } else if bytes_differ {
            format!("{base}:move-bytes-differ")
        } else {
            base.to_string()
        }
    };
    if let Ok(Ok(out)) = &real {
        // in_bounds
        let bad = out.iter().find(|a| !(a.start <= a.end && a.end <= new.len()));
        oracles.push(oracle("in_bounds", bad.is_none(), json!({"input": witness, "range": bad.map(jattr), "new_len": new.len()}), &move_sig("in-bounds")));
        // on_boundaries (when the priors are)
        let priors_ok = attrs.iter().all(|a| is_boundary(old, a.start) && is_boundary(old, a.end));
        if priors_ok {
            let bad = out.iter().find(|a| !(is_boundary(new, a.start) && is_boundary(new, a.end)));
            oracles.push(oracle("on_boundaries", bad.is_none(), json!({"input": witness, "range": bad.map(jattr)}), &move_sig("on-boundaries")));
        } else {
            tags.push("priors:off-boundary".into());
        }
        // unchanged_keeps_author / new_text_is_reporters
        let reporter: BTreeSet<(String, u128)> = [(author.to_string(), ts)].into_iter().collect();
        let mut unchanged_bad: Option<Value> = None;
        let mut new_bad: Option<Value> = None;
        let mut ins_idx = 0usize;
        for (k, (op, opos, npos, len)) in lay.segs.iter().enumerate() {
            match op {
                0 => {
                    for p in sample_positions(k, 0, *len) {
                        let (a, b) = (who_at(attrs, opos + p), who_at(out, npos + p));
                        if a != b && unchanged_bad.is_none() {
                            unchanged_bad = Some(json!({"old_pos": opos + p, "new_pos": npos + p, "before": format!("{a:?}"), "after": format!("{b:?}")}));
                        }
                    }
                }
                2 => {
                    let targets: Vec<(usize, usize)> = moves.iter().filter(|m| m.1 == ins_idx).map(|m| (m.3.0.min(*len), m.3.1.min(*len))).collect();
                    let data = &segs[k].1;
                    let must_be_reporter = data.contains(&b'\n') || !all_ws(data);
                    for p in sample_positions(k, 0, *len) {
                        if targets.iter().any(|t| t.0 <= p && p < t.1) {
                            continue; // moved text keeps its authors
                        }
                        let w = who_at(out, npos + p);
                        let ok = if must_be_reporter || !targets.is_empty() { w == reporter } else { w.len() == 1 };
                        if !ok && new_bad.is_none() {
                            new_bad = Some(json!({"new_pos": npos + p, "covering": format!("{w:?}"), "must_be_reporter": must_be_reporter}));
                        }
                    }
                    ins_idx += 1;
                }
                _ => {}
            }
        }
        oracles.push(oracle("unchanged_keeps_author", unchanged_bad.is_none(), json!({"input": witness, "at": unchanged_bad}), &move_sig("unchanged")));
        oracles.push(oracle("new_text_is_reporters", new_bad.is_none(), json!({"input": witness, "at": new_bad}), &move_sig("new-text")));

        // line-level oracles need the real line projection
        let tame = tame_priors(attrs, old.len());
        let (o4, a4) = (old.to_string(), attrs.to_vec());
        let before = catch(move || attributions_to_line_attributions(&a4, &o4));
        let (n4, out4) = (new.to_string(), out.clone());
        let after = catch(move || attributions_to_line_attributions(&out4, &n4));
        if let (Ok(before), Ok(after)) = (&before, &after) {
            if old == new {
                tags.push("identity".into());
                // the real diff of a text with itself is one Equal segment (or none)
                let one_equal = if old.is_empty() { segs.is_empty() } else { segs.len() == 1 && segs[0].0 == 0 };
                oracles.push(oracle("identity_segments", one_equal, json!({"input": witness, "segs": jsegs(&segs)}), "contract:identity-segments"));
                let same = before == after;
                let inverted = attrs.iter().any(|a| a.start > a.end);
                if attrs.iter().any(|a| a.start == a.end && a.start < old.len()) {
                    tags.push("identity-prior:zero-length".into());
                }
                if attrs.iter().any(|a| attrs.iter().any(|b| a.ts == b.ts && a.author_id != b.author_id)) {
                    tags.push("identity-prior:ts-shared-by-authors".into());
                }
                if attrs.iter().any(|a| a.end > old.len()) {
                    tags.push("identity-prior:past-end".into());
                }
                if inverted {
                    // not in the property's quantifier (a range with end < start): dropped by the
                    // identity update, a candidate of the projection on a blank line it straddles
                    // (Props/C16.lean witness_identity_inverted)
                    tags.push(format!("identity-inverted-prior:{}", if same { "same" } else { "differs" }));
                } else {
                    // every non-inverted prior list: zero-length markers, several authors per
                    // timestamp, ranges past the end (the three former known findings are repaired:
                    // /repo fix "an unchanged content keeps its attributions in place")
                    oracles.push(oracle("identity_keeps_lines", same, json!({"input": witness, "before": jlines(before), "after": jlines(after)}), "identity"));
                    // nothing but the order changes when the priors lie in the text
                    if attrs.iter().all(|a| a.end <= old.len()) {
                        let key = |a: &Attribution| (a.start, a.end, a.author_id.clone(), a.ts);
                        let (mut x, mut y): (Vec<_>, Vec<_>) = (attrs.iter().map(key).collect(), out.iter().map(key).collect());
                        x.sort();
                        y.sort();
                        oracles.push(oracle("identity_keeps_ranges", x == y, json!({"input": witness, "out": jattrs(out)}), "identity:ranges"));
                    }
                }
            }
            // whitespace-only reformat that keeps the line structure
            let changed: Vec<&Seg> = segs.iter().filter(|s| s.0 != 0).collect();
            if old != new && !changed.is_empty() && changed.iter().all(|s| all_ws(&s.1) && !s.1.contains(&b'\n')) && tame {
                tags.push("ws-reformat".into());
                let (lo, ln) = (line_ranges(old), line_ranges(new));
                let (eb, ea) = (expand_lines(before, lo.len()), expand_lines(after, ln.len()));
                let mut bad: Option<Value> = None;
                // no newline was inserted or deleted, so the k-th newline of old is the k-th of
                // new: an unchanged non-whitespace byte has the same line index on both sides
                // (only a trailing whitespace-only line can appear or vanish)
                for k in 0..ln.len() {
                    let has_non_ws = !all_ws(&new.as_bytes()[ln[k].0..ln[k].1]);
                    if !has_non_ws || bad.is_some() {
                        continue;
                    }
                    if k >= lo.len() {
                        bad = Some(json!({"line": k + 1, "no_old_line": true}));
                    } else if eb[k].as_ref().map_or(HUMAN, |x| x.0.as_str()) != ea[k].as_ref().map_or(HUMAN, |x| x.0.as_str()) {
                        // (a line that is not listed is a human line; so is a listed line with author "human" and an `overrode`)
                        bad = Some(json!({"line": k + 1, "before": eb[k], "after": ea[k]}));
                    }
                }
                oracles.push(oracle("whitespace_reformat_keeps_lines", bad.is_none(), json!({"input": witness, "at": bad}), "ws-reformat"));
                // no line (blank ones included) may get an author none of the priors had: inserted
                // whitespace inherits, whitespace deletes leave no marker
                if !attrs.is_empty() {
                    let prior_authors: BTreeSet<&str> = attrs.iter().map(|a| a.author_id.as_str()).chain([HUMAN]).collect();
                    let stranger = (0..ln.len()).find(|&k| ea[k].as_ref().is_some_and(|x| !prior_authors.contains(x.0.as_str())));
                    oracles.push(oracle("ws_reformat_no_new_author", stranger.is_none(),
                        json!({"input": witness, "line": stranger.map(|k| k + 1), "after": jlines(after)}), "ws-reformat:new-author"));
                }
            }
        } else {
            oracles.push(oracle("no_panic", false, json!({"input": witness, "where": "attributions_to_line_attributions"}), "panic:to-lines"));
        }
    }
    emit_case(
        em,
        json!({"op": "tr_update_attributions", "old": old, "new": new,
               "segs": jsegs(&segs), "subst": jpairs(&subst), "moves": jmoves(&moves),
               "attrs": jattrs(attrs), "author": author, "ts": ts as u64}),
        imp,
        oracles,
        tags,
    );
}

// ------------------------------------------------------------------ synthetic transform / merge

/// valid synthetic segment lists (not produced by the real diff) and synthetic moves
fn synthetic_case(rng: &mut Rng, em: &mut Emitter) {
    let n = 1 + rng.size(5, 12);
    let mut segs: Vec<Seg> = Vec::new();
    for _ in 0..n {
        let op = rng.below(3) as u8;
        let data = match rng.below(8) {
            0 => " ".to_string(),
            1 => "\n".to_string(),
            2 => "  \t".to_string(),
            3 => "\n    ".to_string(),
            4 => String::new(),
            _ => {
                let mut s = String::new();
                for _ in 0..1 + rng.below(3) {
                    s.push_str(rng.pick(WORDS));
                    if rng.chance(1, 3) {
                        s.push_str(rng.pick(&[" ", "\n", "\r\n"]));
                    }
                }
                s
            }
        };
        segs.push((op, data.into_bytes()));
    }
    let lay = layout(&segs);
    let old: Vec<u8> = segs.iter().filter(|s| s.0 != 2).flat_map(|s| s.1.clone()).collect();
    let new: Vec<u8> = segs.iter().filter(|s| s.0 != 1).flat_map(|s| s.1.clone()).collect();
    let old_s = String::from_utf8(old).unwrap();
    let mut tags = vec!["synthetic".to_string()];
    // substantive ranges: sorted, merged subset of the insertions (or arbitrary sorted ranges)
    let mut subst: Vec<(usize, usize)> = Vec::new();
    for i in &lay.inss {
        if i.0 < i.1 && rng.chance(1, 2) && subst.last().is_none_or(|l: &(usize, usize)| l.1 < i.0) {
            subst.push(*i);
        }
    }
    let mut moves: Vec<Move> = Vec::new();
    if !lay.dels.is_empty() && !lay.inss.is_empty() && rng.chance(1, 2) {
        for _ in 0..1 + rng.below(3) {
            let d = rng.below(lay.dels.len() as u64) as usize;
            let i = rng.below(lay.inss.len() as u64) as usize;
            let (dl, il) = (lay.dels[d].1 - lay.dels[d].0, lay.inss[i].1 - lay.inss[i].0);
            let valid = rng.chance(3, 4);
            if valid && dl > 0 && il > 0 {
                let s0 = rng.below(dl as u64) as usize;
                let s1 = s0 + 1 + rng.below((dl - s0) as u64) as usize;
                let t0 = rng.below(il as u64) as usize;
                let t1 = t0 + 1 + rng.below((il - t0) as u64) as usize;
                moves.push((d, i, (s0, s1), (t0, t1)));
                tags.push("syn-move:in-range".into());
            } else if !valid {
                // malformed mapping: out-of-range index / empty or overlong ranges
                let m = match rng.below(6) {
                    4 => (d, i, (0, dl.max(1)), (il + 2, il + 5)),
                    5 => (d, i, (0, 1), (il + 1, il)),
                    0 => (d, lay.inss.len() + rng.below(2) as usize, (0, 1), (0, 1)),
                    1 => (lay.dels.len() + 1, i, (0, 1), (0, 1)),
                    2 => (d, i, (2, 2), (0, il + 3)),
                    _ => (d, i, (0, dl + 4), (il, il + 2)),
                };
                moves.push(m);
                tags.push("syn-move:malformed".into());
            }
        }
        if rng.chance(1, 4) && !moves.is_empty() {
            moves.push(moves[0]); // duplicate mapping
        }
    }
    let attrs = gen_attrs(rng, &old_s, &mut tags);
    let author = rng.pick(AUTHORS).to_string();
    let ts = gen_ts(rng);
    let (s2, su2, m2, a2, au2) = (segs.clone(), subst.clone(), moves.clone(), attrs.clone(), author.clone());
    let raw = catch(move || vh::transform_parts(&s2, &su2, &m2, &a2, &au2, ts));
    let mv_ok = moves.iter().all(|m| m.1 < lay.inss.len());
    let imp = match &raw {
        Ok(v) => json!({"ok": jattrs(v)}),
        Err(_) => json!({"err": "panic"}),
    };
    let witness = json!({"kind": "transform", "segs": jsegs(&segs), "subst": jpairs(&subst), "moves": jmoves(&moves),
                         "attrs": jattrs(&attrs), "author": author, "ts": ts as u64});
    let mut oracles = Vec::new();
    // no panic when the insertion indices are in range
    if mv_ok {
        oracles.push(oracle("no_panic", raw.is_ok(), json!({"input": witness}), "panic:transform"));
    } else if raw.is_err() {
        tags.push("panic:bad-insertion-index".into());
    }
    if let Ok(out) = &raw {
        let valid_moves = moves.iter().all(|m| {
            lay.dels.get(m.0).is_some_and(|d| m.2.0 < m.2.1 && d.0 + m.2.1 <= d.1)
                && lay.inss.get(m.1).is_some_and(|i| m.3.0 < m.3.1 && i.0 + m.3.1 <= i.1)
        });
        let len_mismatch = moves.iter().any(|m| m.2.1.saturating_sub(m.2.0) != m.3.1.saturating_sub(m.3.0));
        if valid_moves {
            let bad = out.iter().find(|a| !(a.start <= a.end && a.end <= new.len()));
            let sig = if len_mismatch { "in-bounds:move-length-mismatch" } else { "in-bounds" };
            oracles.push(oracle("in_bounds", bad.is_none(), json!({"input": witness, "range": bad.map(jattr), "new_len": new.len()}), sig));
        }
    }
    emit_case(
        em,
        json!({"op": "tr_transform", "segs": jsegs(&segs), "subst": jpairs(&subst), "moves": jmoves(&moves),
               "attrs": jattrs(&attrs), "author": author, "ts": ts as u64}),
        imp.clone(),
        oracles,
        tags,
    );
    // merge of whatever came out (or of the raw priors)
    let to_merge = raw.unwrap_or(attrs);
    let tm = to_merge.clone();
    let merged = catch(move || vh::merge_attributions(tm));
    let mimp = match &merged {
        Ok(v) => json!({"ok": jattrs(v)}),
        Err(_) => json!({"err": "panic"}),
    };
    let mut mor = vec![oracle("no_panic", merged.is_ok(), json!({"attrs": jattrs(&to_merge)}), "panic:merge")];
    if let Ok(m) = &merged {
        // merge preserves per-position (author, ts) sets and zero-length markers
        let top = to_merge.iter().map(|a| a.end.min(4096)).max().unwrap_or(0);
        let bad = (0..top).find(|&p| who_at(&to_merge, p) != who_at(m, p));
        mor.push(oracle("merge_keeps_coverage", bad.is_none(), json!({"attrs": jattrs(&to_merge), "pos": bad}), "merge-coverage"));
    }
    emit_case(
        em,
        json!({"op": "tr_merge", "attrs": jattrs(&to_merge)}), mimp, mor, vec!["merge".into()]);
    // catalog
    let (d, i) = vh::diff_catalog(&segs);
    emit_case(
        em,
        json!({"op": "tr_catalog", "segs": jsegs(&segs)}),
        json!({"deletions": jpairs(&d), "insertions": jpairs(&i)}),
        vec![],
        vec!["catalog".into()],
    );
}

// ------------------------------------------------------------------ line projection cases

fn to_lines_case(content: &str, attrs: &[Attribution], em: &mut Emitter, mut tags: Vec<String>) {
    let (c2, a2) = (content.to_string(), attrs.to_vec());
    let real = catch(move || attributions_to_line_attributions(&a2, &c2));
    let imp = match &real {
        Ok(v) => json!({"ok": jlines(v)}),
        Err(_) => json!({"err": "panic"}),
    };
    let witness = json!({"kind": "to_lines", "content": content, "attrs": jattrs(attrs)});
    let mut oracles = vec![oracle("no_panic", real.is_ok(), json!({"input": witness}), "panic:to-lines")];
    if let Ok(v) = &real {
        let n = line_ranges(content).len() as u32;
        let mut prev = 0u32;
        let mut bad = None;
        for l in v {
            if !(l.start_line >= 1 && l.start_line <= l.end_line && l.end_line <= n && l.start_line > prev) {
                bad = Some(jline(l));
            }
            if l.author_id == HUMAN && l.overrode.is_none() {
                bad = Some(jline(l));
            }
            prev = l.end_line;
        }
        oracles.push(oracle("lines_well_formed", bad.is_none(), json!({"input": witness, "line": bad}), "to-lines:malformed-output"));
        // Lean `line_winner_has_non_ws` on the real output: a line with content listed for an AI author has an
        // attribution of that author that covers a non-whitespace character of the line (overlap widened to
        // character boundaries inside the line) or is a zero-length marker on the line
        let lr = line_ranges(content);
        let mut bad_ws = None;
        for l in v {
            if l.author_id == HUMAN {
                continue;
            }
            for k in l.start_line.max(1)..=l.end_line.min(n) {
                let (ls, le) = lr[k as usize - 1];
                if all_ws(&content.as_bytes()[ls..le]) {
                    continue;
                }
                let earns = attrs.iter().any(|a| {
                    if a.author_id != l.author_id || !(a.start < le && a.end > ls) {
                        return false;
                    }
                    if a.start == a.end {
                        return true;
                    }
                    let (mut s, mut e) = (a.start.max(ls), a.end.min(le));
                    while s > ls && !content.is_char_boundary(s) {
                        s -= 1;
                    }
                    while e < le && !content.is_char_boundary(e) {
                        e += 1;
                    }
                    s < e && !all_ws(&content.as_bytes()[s..e])
                });
                if !earns && bad_ws.is_none() {
                    bad_ws = Some(json!({"line": k, "author": l.author_id}));
                }
            }
        }
        oracles.push(oracle("winner_has_non_ws", bad_ws.is_none(), json!({"input": witness, "line": bad_ws}),
                            "to-lines:whitespace-only-author-wins-line"));
    }
    tags.push("to_lines".into());
    // distribution: some AI attribution touches a line with content in whitespace only (the shape
    // `winner_has_non_ws` is about: inherited indentation, the line break in front of a line)
    let ws_touch = line_ranges(content).iter().any(|&(ls, le)| {
        !all_ws(&content.as_bytes()[ls..le])
            && attrs.iter().any(|a| {
                let (s, e) = (a.start.max(ls), a.end.min(le));
                a.author_id != HUMAN
                    && s < e
                    && content.is_char_boundary(s)
                    && content.is_char_boundary(e)
                    && all_ws(&content.as_bytes()[s..e])
            })
    });
    if ws_touch {
        tags.push("to_lines:ai-touches-only-whitespace-of-a-line".into());
    }
    emit_case(
        em,
        json!({"op": "tr_to_lines", "content": content, "attrs": jattrs(attrs)}), imp, oracles, tags);
}

fn gen_line_attrs(rng: &mut Rng, n_lines: usize, tags: &mut Vec<String>) -> Vec<LineAttribution> {
    let mut v = Vec::new();
    let ai = ["ai_1", "ai_2", "A", "é", "mock_ai"];
    match rng.below(4) {
        0 | 1 => {
            tags.push("lines:disjoint".into());
            let mut k = 1usize;
            while k <= n_lines {
                let cnt = 1 + rng.below(3) as usize;
                let e = (k + cnt - 1).min(n_lines);
                if rng.chance(2, 3) {
                    v.push(LineAttribution::new(k as u32, e as u32, rng.pick(&ai).to_string(), None));
                }
                k = e + 1;
            }
            if rng.chance(1, 3) {
                v.reverse(); // unsorted but still disjoint
            }
        }
        2 => {
            tags.push("lines:overlapping".into());
            for _ in 0..1 + rng.below(5) {
                let a = 1 + rng.below(n_lines.max(1) as u64) as u32;
                let b = (a + rng.below(4) as u32).min(n_lines.max(1) as u32);
                v.push(LineAttribution::new(a, b, rng.pick(&ai).to_string(), None));
            }
        }
        _ => {
            tags.push("lines:malformed".into());
            for _ in 0..1 + rng.below(5) {
                let a = rng.below(n_lines as u64 + 3) as u32;
                let b = rng.below(n_lines as u64 + 3) as u32;
                let au = if rng.chance(1, 4) { HUMAN } else { rng.pick(&ai) };
                let ov = if rng.chance(1, 5) { Some("ai_1".to_string()) } else { None };
                v.push(LineAttribution::new(a, b, au.to_string(), ov));
            }
        }
    }
    v
}

fn from_lines_case(content: &str, las: &[LineAttribution], ts: u128, em: &mut Emitter, mut tags: Vec<String>) {
    let (c2, l2) = (content.to_string(), las.to_vec());
    let real = catch(move || line_attributions_to_attributions(&l2, &c2, ts));
    let imp = match &real {
        Ok(v) => json!({"ok": jattrs(v)}),
        Err(_) => json!({"err": "panic"}),
    };
    let witness = json!({"kind": "from_lines", "content": content, "lines": jlines(las), "ts": ts as u64});
    let n = line_ranges(content).len();
    let in_range = las.iter().all(|l| l.start_line >= 1 && l.start_line <= l.end_line && l.end_line as usize <= n);
    let mut disjoint = true;
    for (i, a) in las.iter().enumerate() {
        for b in las.iter().skip(i + 1) {
            if a.start_line <= b.end_line && b.start_line <= a.end_line {
                disjoint = false;
            }
        }
    }
    let non_human = las.iter().all(|l| l.author_id != HUMAN);
    let mut oracles = vec![oracle("no_panic", real.is_ok(), json!({"input": witness}), "panic:from-lines")];
    if let Ok(attrs) = &real {
        if in_range {
            let bad = attrs.iter().find(|a| !(a.start < a.end && a.end <= content.len() && is_boundary(content, a.start) && is_boundary(content, a.end)));
            oracles.push(oracle("from_lines_in_bounds", bad.is_none(), json!({"input": witness, "range": bad.map(jattr)}), "from-lines:range"));
        }
        // round trip
        let (c3, a3) = (content.to_string(), attrs.clone());
        match catch(move || attributions_to_line_attributions(&a3, &c3)) {
            Err(_) => oracles.push(oracle("no_panic", false, json!({"input": witness, "where": "to_lines(from_lines)"}), "panic:to-lines")),
            Ok(back) => {
                let want = expand_lines(las, n);
                let got = expand_lines(&back, n);
                if in_range && non_human && disjoint {
                    tags.push("roundtrip:exact".into());
                    let bad = (0..n).find(|&k| want[k].as_ref().map(|x| &x.0) != got[k].as_ref().map(|x| &x.0) || got[k].as_ref().is_some_and(|x| x.1.is_some()));
                    oracles.push(oracle("line_char_roundtrip", bad.is_none(), json!({"input": witness, "line": bad.map(|k| k + 1), "back": jlines(&back)}), "roundtrip:disjoint"));
                } else if in_range && non_human {
                    tags.push("roundtrip:same-ai-lines".into());
                    let bad = (0..n).find(|&k| want[k].is_some() != got[k].is_some());
                    oracles.push(oracle("line_char_roundtrip_set", bad.is_none(), json!({"input": witness, "line": bad.map(|k| k + 1), "back": jlines(&back)}), "roundtrip:overlapping"));
                } else {
                    tags.push("roundtrip:not-claimed".into());
                }
            }
        }
    }
    tags.push("from_lines".into());
    emit_case(
        em,
        json!({"op": "tr_from_lines", "content": content, "lines": jlines(las), "ts": ts as u64}), imp, oracles, tags);
}

fn fill_case(content: &str, attrs: &[Attribution], author: &str, ts: u128, em: &mut Emitter, mut tags: Vec<String>) {
    let (c2, a2, au2) = (content.to_string(), attrs.to_vec(), author.to_string());
    let real = catch(move || AttributionTracker::new().attribute_unattributed_ranges(&c2, &a2, &au2, ts));
    let imp = match &real {
        Ok(v) => json!({"ok": jattrs(v)}),
        Err(_) => json!({"err": "panic"}),
    };
    let witness = json!({"kind": "fill", "content": content, "attrs": jattrs(attrs), "author": author, "ts": ts as u64});
    let mut oracles = vec![oracle("no_panic", real.is_ok(), json!({"input": witness}), "panic:fill")];
    if let Ok(out) = &real {
        let keeps_prefix = out.len() >= attrs.len() && out[..attrs.len()] == *attrs;
        let added = if keeps_prefix { &out[attrs.len()..] } else { &out[..] };
        let added_ok = added.iter().all(|a| {
            a.start < a.end && a.end <= content.len() && is_boundary(content, a.start) && is_boundary(content, a.end)
                && a.author_id == author && a.ts == ts
        });
        // every char is covered afterwards; a char covered before gets nothing new
        let mut cover_bad = None;
        for (i, ch) in content.char_indices() {
            let e = i + ch.len_utf8();
            let before = attrs.iter().any(|a| a.start < e && a.end > i);
            let after = out.iter().any(|a| a.start < e && a.end > i);
            let newly = added.iter().any(|a| a.start < e && a.end > i);
            if !after || (before && newly) {
                cover_bad = Some(i);
                break;
            }
        }
        oracles.push(oracle("fill_total_and_conservative", keeps_prefix && added_ok && cover_bad.is_none(),
            json!({"input": witness, "keeps_prefix": keeps_prefix, "added_ok": added_ok, "char_at": cover_bad}), "fill"));
    }
    tags.push("fill".into());
    emit_case(
        em,
        json!({"op": "tr_fill", "content": content, "attrs": jattrs(attrs), "author": author, "ts": ts as u64}), imp, oracles, tags);
}

// ------------------------------------------------------------------ scenario drivers

fn gen_update(rng: &mut Rng, em: &mut Emitter) {
    let mut tags: Vec<String> = Vec::new();
    let (mut lines, style, final_nl) = gen_text(rng);
    tags.push(match style { Eol::Lf => "eol:lf", Eol::Crlf => "eol:crlf", Eol::Mixed => "eol:mixed" }.into());
    if !final_nl {
        tags.push("no-final-newline".into());
    }
    // targeted move scenario: plant a distinctive block
    let planted = rng.chance(1, 4);
    if planted {
        let blk_n = 3 + rng.below(3) as usize;
        let blk = gen_block(rng, blk_n);
        let at = rng.below(lines.len() as u64 + 1) as usize;
        for (k, l) in blk.into_iter().enumerate() {
            lines.insert(at + k, l);
        }
    }
    let old = join_lines(rng, &lines, style, final_nl);
    let mut new_lines = lines.clone();
    let mut new_style = style;
    let mut new_final = final_nl;
    match rng.below(10) {
        0 => tags.push("edit:identity".into()),
        _ => edit_lines(rng, &mut new_lines, &mut tags),
    }
    if rng.chance(1, 8) {
        new_style = gen_style(rng); // CRLF <-> LF rewrite
        if new_style != style {
            tags.push("edit:eol-change".into());
        }
    }
    if rng.chance(1, 10) {
        new_final = !new_final;
        tags.push("edit:final-newline-flip".into());
    }
    let new = if tags.iter().any(|t| t == "edit:identity") && new_style == style && new_final == final_nl {
        old.clone()
    } else {
        join_lines(rng, &new_lines, new_style, new_final)
    };
    tags.push(match old.len() { 0 => "old:empty", 1..=200 => "old:<=200B", 201..=2000 => "old:<=2KB", _ => "old:>2KB" }.into());
    // priors: synthetic shapes, or produced by the real tracker from an earlier edit (chain)
    let author = rng.pick(&["ai_1", "ai_2", "human", "mock_ai", "é"]).to_string();
    let ts = 10 + rng.below(5) as u128;
    let attrs = if rng.chance(1, 3) {
        tags.push("attrs:chained".into());
        let mut prev_lines = lines.clone();
        let mut t2 = Vec::new();
        edit_lines(rng, &mut prev_lines, &mut t2);
        let prev = join_lines(rng, &prev_lines, style, final_nl);
        let base_attrs = gen_attrs(rng, &prev, &mut Vec::new());
        let filled = AttributionTracker::new().attribute_unattributed_ranges(&prev, &base_attrs.iter().filter(|a| a.start <= a.end).cloned().collect::<Vec<_>>(), HUMAN, 7);
        let (p2, o2) = (prev.clone(), old.clone());
        catch(move || AttributionTracker::new().update_attributions(&p2, &o2, &filled, "ai_2", 8)).ok().and_then(|r| r.ok()).unwrap_or_default()
    } else {
        gen_attrs(rng, &old, &mut tags)
    };
    update_case(&old, &new, &attrs, &author, ts, em, tags);
}

fn gen_projection(rng: &mut Rng, em: &mut Emitter) {
    let mut tags: Vec<String> = Vec::new();
    let (lines, style, final_nl) = gen_text(rng);
    let content = join_lines(rng, &lines, style, final_nl);
    match rng.below(3) {
        0 => {
            let attrs = gen_attrs(rng, &content, &mut tags);
            to_lines_case(&content, &attrs, em, tags);
        }
        1 => {
            let n = line_ranges(&content).len();
            let las = gen_line_attrs(rng, n, &mut tags);
            from_lines_case(&content, &las, gen_ts(rng), em, tags);
        }
        _ => {
            let attrs = gen_attrs(rng, &content, &mut tags);
            fill_case(&content, &attrs, rng.pick(AUTHORS), gen_ts(rng), em, tags);
        }
    }
}

fn segs_of(v: &Value) -> Vec<Seg> {
    v.as_array().map(|a| a.iter().map(|x| (x[0].as_u64().unwrap_or(0) as u8, bytes_of(&x[1]))).collect()).unwrap_or_default()
}

fn pairs_of(v: &Value) -> Vec<(usize, usize)> {
    v.as_array().map(|a| a.iter().map(|x| (x[0].as_u64().unwrap_or(0) as usize, x[1].as_u64().unwrap_or(0) as usize)).collect()).unwrap_or_default()
}

/// replay of a synthetic witness: the real catalog + transform + merge on supplied segments
fn transform_witness_case(v: &Value, em: &mut Emitter, tags: Vec<String>) {
    let segs = segs_of(&v["segs"]);
    let subst = pairs_of(&v["subst"]);
    let moves: Vec<Move> = v["moves"].as_array().map(|a| a.iter().map(|m| {
        let g = |k: usize| m[k].as_u64().unwrap_or(0) as usize;
        (g(0), g(1), (g(2), g(3)), (g(4), g(5)))
    }).collect()).unwrap_or_default();
    let attrs = attrs_of(&v["attrs"]);
    let author = v["author"].as_str().unwrap_or("r").to_string();
    let ts = v["ts"].as_u64().unwrap_or(1) as u128;
    let (s2, su2, m2, a2, au2) = (segs.clone(), subst.clone(), moves.clone(), attrs.clone(), author.clone());
    let real = catch(move || vh::merge_attributions(vh::transform_parts(&s2, &su2, &m2, &a2, &au2, ts)));
    let imp = match &real {
        Ok(out) => json!({"ok": jattrs(out)}),
        Err(_) => json!({"err": "panic"}),
    };
    // `tr_update` on already-sorted priors = merge(transform(..)); corpus witnesses keep priors sorted
    emit_case(
        em,
        json!({"op": "tr_update", "segs": jsegs(&segs), "subst": jpairs(&subst), "moves": jmoves(&moves),
               "attrs": jattrs(&attrs), "author": author, "ts": ts as u64}),
        imp,
        vec![],
        tags,
    );
}

fn corpus_case(v: &Value, em: &mut Emitter) {
    let kind = v["kind"].as_str().unwrap_or("");
    let tags = vec![format!("corpus:{kind}")];
    let s = |k: &str| String::from_utf8_lossy(&bytes_of(&v[k])).to_string();
    let ts = v["ts"].as_u64().unwrap_or(1) as u128;
    match kind {
        "update" => update_case(&s("old"), &s("new"), &attrs_of(&v["attrs"]), v["author"].as_str().unwrap_or("ai_1"), ts, em, tags),
        "to_lines" => to_lines_case(&s("content"), &attrs_of(&v["attrs"]), em, tags),
        "from_lines" => from_lines_case(&s("content"), &lines_of(&v["lines"]), ts, em, tags),
        "transform" => transform_witness_case(v, em, tags),
        "fill" => fill_case(&s("content"), &attrs_of(&v["attrs"]), v["author"].as_str().unwrap_or(HUMAN), ts, em, tags),
        _ => {}
    }
}

pub fn run(seed: u64, count: u64, corpus: Option<&str>, em: &mut Emitter) {
    // the tracker logs benchmark lines to stderr in debug builds unless told otherwise
    if std::env::var_os("GIT_AI_DEBUG").is_none() {
        unsafe { std::env::set_var("GIT_AI_DEBUG", "0") };
    }
    if let Some(path) = corpus {
        if let Ok(f) = std::fs::File::open(path) {
            for line in std::io::BufReader::new(f).lines().map_while(Result::ok) {
                if let Ok(v) = serde_json::from_str::<Value>(&line) {
                    corpus_case(&v, em);
                }
            }
        }
    }
    let mut rng = Rng::new(seed ^ 0xC16);
    for i in 0..count {
        match i % 8 {
            0..=4 => gen_update(&mut rng, em),
            5 => synthetic_case(&mut rng, em),
            _ => gen_projection(&mut rng, em),
        }
    }
}

// ------------------------------------------------------------------ line-level bridge (suite c16ls)
//
// The checkpoint pipeline of `make_entry_for_file` on line-structured inputs: previous per-line
// authors → line_attributions_to_attributions → attribute_unattributed_ranges("human", ts-1) →
// update_attributions(author, ts) → attributions_to_line_attributions, read back as one author per
// line. Compared with the Lean `LineStep.lineStep` prediction (theorem `lineStep_follows_rule`) and
// with `Sys.checkpointAttr` on the induced content ids (theorem `lineStep_refines_checkpointAttr`).
//
// Generator: every line has content no other line of the case has (kept lines excepted), and every
// non-blank line carries at least one token no other line has; new = old with lines deleted and
// fresh lines inserted, never reordered. The line diff then has exactly one minimal alignment (all
// common lines kept) and the token refinement of a changed hunk cannot build an inserted line out
// of deleted lines' tokens. The REAL diff is used for the main comparison (`ok`); the real
// transform + merge is ALSO run on the model's line-granular segments (`lsegs`).

struct LsItem {
    kind: u8, // 0 keep, 1 delete, 2 insert
    body: String,
    id: u64,
}

fn ls_author(n: u64) -> String {
    if n == 0 { HUMAN.to_string() } else { format!("ai_{n}") }
}

fn ls_fresh_body(rng: &mut Rng, counter: &mut u64, used: &mut BTreeSet<String>, style: Eol) -> String {
    let cr = match style {
        Eol::Lf => false,
        Eol::Crlf => true,
        Eol::Mixed => rng.chance(1, 2),
    };
    for _ in 0..4 {
        if rng.chance(1, 8) {
            let mut b = rng.pick(&["", " ", "  ", "\t", "    ", "\u{a0}", " \t", "\u{3000}"]).to_string();
            if cr {
                b.push('\r');
            }
            if used.insert(b.clone()) {
                return b;
            }
        } else {
            break;
        }
    }
    let mut s = String::new();
    if rng.chance(1, 2) {
        for _ in 0..1 + rng.below(3) {
            s.push_str(rng.pick(&["  ", "    ", "\t", " "]));
        }
    }
    let n = 1 + rng.below(4);
    for k in 0..n {
        *counter += 1;
        s.push_str(&format!("{}{}", rng.pick(&["w", "val_", "é", "日本", "x", "naïve", "Ω"]), *counter));
        if k + 1 < n {
            s.push_str(rng.pick(&[" ", "  ", " = ", "(", ") ", "; ", ", ", " -> ", "\t", "::", " + "]));
        }
    }
    if rng.chance(1, 3) {
        s.push_str(rng.pick(&[";", " {", ")", ",", " ", "  ", " }", "\t"]));
    }
    if cr {
        s.push('\r');
    }
    used.insert(s.clone());
    s
}

fn ls_authors_of(las: &[LineAttribution], n: usize) -> Vec<String> {
    expand_lines(las, n).into_iter().map(|x| x.map(|y| y.0).unwrap_or_else(|| HUMAN.to_string())).collect()
}

#[allow(clippy::too_many_arguments)]
fn linestep_case(items: &[LsItem], authors: &[u64], who: u64, ts: u128, ts0: u128, tail: Option<&str>, cmp_sys: bool,
                 merge_runs: bool, eof: (bool, bool), em: &mut Emitter, mut tags: Vec<String>) {
    let old_lines: Vec<&LsItem> = items.iter().filter(|i| i.kind != 2).collect();
    let new_lines: Vec<&LsItem> = items.iter().filter(|i| i.kind != 1).collect();
    // eof = (previous content ends with a newline, current content ends with a newline); a last line
    // without final newline must not be empty (it would not be a line)
    let onl = eof.0 || old_lines.last().is_none_or(|i| i.body.is_empty());
    let nnl = eof.1 || tail.is_some() || new_lines.last().is_none_or(|i| i.body.is_empty());
    let mut old: String = old_lines.iter().map(|i| format!("{}\n", i.body)).collect();
    let mut new: String = new_lines.iter().map(|i| format!("{}\n", i.body)).collect();
    if !onl {
        old.pop();
    }
    if !nnl {
        new.pop();
    }
    if let Some(t) = tail {
        new.push_str(t);
    }
    // per item: does its previous / current line carry a terminator?
    let last_old = items.iter().rposition(|i| i.kind != 2);
    let last_new = items.iter().rposition(|i| i.kind != 1);
    let old_term = |k: usize| onl || Some(k) != last_old;
    let new_term = |k: usize| nnl || Some(k) != last_new;
    // where the line rule is not claimed (Model/LineStep.lean eofPlain): the kept last line of a previous
    // content without final newline that gains a terminator (text appended after it: the line diff does not
    // match it, tests/ of /repo pin that; known finding of C01/C04); an inserted whitespace-only last line
    // without newline
    let eof_special: Vec<bool> = items.iter().enumerate().map(|(k, it)| match it.kind {
        0 => !old_term(k) && new_term(k),
        2 => !new_term(k) && all_ws(it.body.as_bytes()),
        _ => false,
    }).collect();
    let eof_plain = !eof_special.iter().any(|b| *b);
    let append_shape = cmp_sys && tail.is_none()
        && items.iter().enumerate().any(|(k, it)| it.kind == 0 && !old_term(k) && new_term(k))
        && !items.iter().enumerate().any(|(k, it)| it.kind == 2 && !new_term(k) && all_ws(it.body.as_bytes()));
    let cmp_sys = cmp_sys && eof_plain;
    if !onl {
        tags.push("eof:old-no-final-newline".into());
    }
    if !nnl {
        tags.push("eof:new-no-final-newline".into());
    }
    if !eof_plain {
        tags.push("eof:not-claimed(appended-after-open-last-line|blank-open-insert)".into());
    }
    let n_new = new_lines.len() + usize::from(tail.is_some());
    let who_s = ls_author(who);
    // what get_checkpoint_entry_for_file hands over: entries for the non-human lines (single lines, or —
    // like INITIAL — runs of consecutive lines of one author)
    let mut las: Vec<LineAttribution> = Vec::new();
    let mut k = 0usize;
    while k < authors.len() {
        let mut e = k;
        if merge_runs {
            while e + 1 < authors.len() && authors[e + 1] == authors[k] {
                e += 1;
            }
        }
        if authors[k] != 0 {
            las.push(LineAttribution::new(k as u32 + 1, e as u32 + 1, ls_author(authors[k]), None));
        }
        k = e + 1;
    }
    let mut req = json!({"op": "linestep",
        "al": Value::Array(items.iter().map(|i| json!([i.kind, jtext(i.body.as_bytes()), i.id])).collect()),
        "authors": authors, "who": who, "ts": ts as u64, "ts0": ts0 as u64, "tail": tail});
    if !onl {
        req["onl"] = json!(false);
    }
    if !nnl {
        req["nnl"] = json!(false);
    }
    let witness = json!({"kind": "linestep", "old": old, "new": new, "authors": authors, "who": who_s, "ts": ts as u64});

    // the real pipeline, real diff
    let (o1, n1, l1, w1) = (old.clone(), new.clone(), las.clone(), who_s.clone());
    let real = catch(move || {
        let tracker = AttributionTracker::new();
        let prev = line_attributions_to_attributions(&l1, &o1, ts0);
        let filled = tracker.attribute_unattributed_ranges(&o1, &prev, HUMAN, ts - 1);
        let out = tracker.update_attributions(&o1, &n1, &filled, &w1, ts).map_err(|e| e.to_string())?;
        Ok::<_, String>((filled, attributions_to_line_attributions(&out, &n1)))
    });
    let mut oracles = Vec::new();
    let (filled, real_lines) = match real {
        Ok(Ok(x)) => x,
        other => {
            let msg = match other { Err(m) => m, Ok(Err(e)) => e, _ => String::new() };
            oracles.push(oracle("no_panic", false, json!({"input": witness, "message": msg}), "panic:linestep"));
            emit_case(em, req, json!({"err": "panic"}), oracles, tags);
            return;
        }
    };
    oracles.push(oracle("no_panic", true, Value::Null, "panic:linestep"));
    let real_authors = ls_authors_of(&real_lines, n_new);

    // the real transform + merge on the model's line-granular segments (no tail: same segments as the model)
    // (LineStep.segsE: a kept line whose terminator exists on one side only is Equal body + Insert / Delete "\n")
    let mut segs: Vec<Seg> = Vec::new();
    let mut lsubst: Vec<(usize, usize)> = Vec::new();
    for (k, i) in items.iter().enumerate() {
        let with_nl = format!("{}\n", i.body).into_bytes();
        let bare = i.body.clone().into_bytes();
        match i.kind {
            0 => match (old_term(k), new_term(k)) {
                (true, true) => segs.push((0, with_nl)),
                (false, false) => segs.push((0, bare)),
                (false, true) => {
                    segs.push((0, bare));
                    segs.push((2, b"\n".to_vec()));
                }
                (true, false) => {
                    segs.push((0, bare));
                    segs.push((1, b"\n".to_vec()));
                }
            },
            1 => segs.push((1, if old_term(k) { with_nl } else { bare })),
            _ => {
                if new_term(k) {
                    segs.push((2, with_nl));
                } else {
                    if !all_ws(&bare) {
                        lsubst.push((new.len() - bare.len(), new.len())); // segment contract
                    }
                    segs.push((2, bare));
                }
            }
        }
    }
    if let Some(t) = tail {
        segs.push((2, t.as_bytes().to_vec()));
        if !all_ws(t.as_bytes()) {
            lsubst.push((new.len() - t.len(), new.len())); // segment contract: non-whitespace inserts are substantive
        }
    }
    let mut sorted = filled.clone();
    sorted.sort_by(|a, b| (a.start, a.end, &a.author_id, a.ts).cmp(&(b.start, b.end, &b.author_id, b.ts)));
    let (s2, w2, n2) = (segs.clone(), who_s.clone(), new.clone());
    let lseg = catch(move || {
        let out = vh::merge_attributions(vh::transform_parts(&s2, &lsubst, &[], &sorted, &w2, ts));
        attributions_to_line_attributions(&out, &n2)
    });
    let lseg_authors = match &lseg {
        Ok(l) => Some(ls_authors_of(l, n_new)),
        Err(_) => {
            oracles.push(oracle("no_panic", false, json!({"input": witness, "where": "transform on line segments"}), "panic:linestep-lsegs"));
            None
        }
    };

    // did the real diff choose the intended alignment? (kept lines map to their pre-image, no moves)
    let (o3, n3) = (old.clone(), new.clone());
    let parts = catch(move || vh::diff_parts(&o3, &n3).map_err(|e| e.to_string()));
    let mut intended = false;
    if let Ok(Ok((rsegs, _subst, moves))) = &parts {
        let lay = layout(rsegs);
        intended = moves.is_empty();
        let (mut op_, mut np_) = (0usize, 0usize);
        for (k, it) in items.iter().enumerate() {
            let olen = it.body.len() + usize::from(old_term(k));
            let nlen = it.body.len() + usize::from(new_term(k));
            match it.kind {
                0 => {
                    let len = olen.min(nlen);
                    let hit = lay.segs.iter().any(|(op, so, sn, sl)| *op == 0 && *sn <= np_ && np_ + len <= sn + sl && so + (np_ - sn) == op_);
                    if !hit {
                        intended = false;
                    }
                    op_ += olen;
                    np_ += nlen;
                }
                1 => op_ += olen,
                _ => np_ += nlen,
            }
        }
    }
    tags.push(if !eof_plain { "alignment:not-claimed" } else if intended { "alignment:as-intended" } else { "alignment:other" }.into());
    // the same, not counting kept lines whose terminator exists on one side only (the line diff compares
    // lines with their terminator; whether such a line is matched is what the no-final-newline rule is about)
    let mut intended_but_eof = false;
    if let Ok(Ok((rsegs, _subst, moves))) = &parts {
        let lay = layout(rsegs);
        intended_but_eof = moves.is_empty();
        let (mut op_, mut np_) = (0usize, 0usize);
        for (k, it) in items.iter().enumerate() {
            let olen = it.body.len() + usize::from(old_term(k));
            let nlen = it.body.len() + usize::from(new_term(k));
            match it.kind {
                0 => {
                    let len = olen.min(nlen);
                    let hit = lay.segs.iter().any(|(op, so, sn, sl)| *op == 0 && *sn <= np_ && np_ + len <= sn + sl && so + (np_ - sn) == op_);
                    if !hit && old_term(k) == new_term(k) {
                        intended_but_eof = false;
                    }
                    op_ += olen;
                    np_ += nlen;
                }
                1 => op_ += olen,
                _ => np_ += nlen,
            }
        }
    }

    // the line rule, computed here independently of Lean and of the tracker
    let mut rule: Vec<String> = Vec::new();
    let mut oi = 0usize;
    for it in items {
        match it.kind {
            0 => {
                rule.push(ls_author(*authors.get(oi).unwrap_or(&0)));
                oi += 1;
            }
            1 => oi += 1,
            _ => rule.push(who_s.clone()),
        }
    }
    if (intended || (intended_but_eof && !(onl && nnl))) && tail.is_none() && cmp_sys {
        let bad_keep = (0..rule.len()).find(|&j| new_lines[j].kind == 0 && real_authors[j] != rule[j]);
        let bad_ins = (0..rule.len()).find(|&j| new_lines[j].kind == 2 && real_authors[j] != rule[j]);
        if !(onl && nnl) {
            // a text without final newline: same rule, own signature
            let bad = bad_keep.or(bad_ins);
            oracles.push(oracle("eof_line_rule", bad.is_none(),
                json!({"input": witness, "line": bad.map(|j| j + 1), "got": real_authors, "want": rule,
                       "old_final_newline": onl, "new_final_newline": nnl}), "linestep:no-final-newline-line-changed-author"));
        }
        let (bad_keep, bad_ins) = if onl && nnl && intended { (bad_keep, bad_ins) } else { (None, None) };
        oracles.push(oracle("kept_line_keeps_author", bad_keep.is_none(),
            json!({"input": witness, "line": bad_keep.map(|j| j + 1), "got": real_authors, "want": rule}), "linestep:kept-line-changed-author"));
        oracles.push(oracle("inserted_line_is_reporters", bad_ins.is_none(),
            json!({"input": witness, "line": bad_ins.map(|j| j + 1), "got": real_authors, "want": rule}), "linestep:inserted-line-not-reporters"));
    }
    if append_shape && intended_but_eof {
        // NOT claimed by the model (eofPlain): text appended after the unterminated last line; the line rule is
        // still evaluated on the real code — a failure is the known finding of this signature
        let bad = (0..rule.len()).find(|&j| real_authors[j] != rule[j]);
        oracles.push(oracle("eof_append_rule", bad.is_none(),
            json!({"input": witness, "line": bad.map(|j| j + 1), "got": real_authors, "want": rule}),
            "linestep:appended-after-unterminated-last-line"));
    }
    let mut imp = json!({"ok": real_authors});
    if !intended || !eof_plain {
        // the prediction speaks about the intended alignment only; a whitespace-only last line without
        // newline inherits from whatever the token-level segments put before it (not line-granular)
        imp = json!({});
    }
    if let Some(l) = lseg_authors {
        imp["lsegs"] = json!(l);
    }
    if intended && cmp_sys {
        imp["sys"] = json!(real_authors);
        imp["pre"] = json!({"alOk": true, "len": true, "unique": true, "fresh": true});
    }
    emit_case(em, req, imp, oracles, tags);
}

fn gen_linestep(rng: &mut Rng, em: &mut Emitter) {
    let mut tags: Vec<String> = vec!["linestep".into()];
    let style = gen_style(rng);
    tags.push(match style { Eol::Lf => "eol:lf", Eol::Crlf => "eol:crlf", Eol::Mixed => "eol:mixed" }.into());
    let mut counter = 0u64;
    let mut used: BTreeSet<String> = BTreeSet::new();
    let n_old = match rng.below(12) {
        0 => 0,
        1 => 1,
        _ => 2 + rng.size(6, 14) as usize,
    };
    let old_bodies: Vec<String> = (0..n_old).map(|_| ls_fresh_body(rng, &mut counter, &mut used, style)).collect();
    let mut authors: Vec<u64> = Vec::new();
    while authors.len() < n_old {
        let a = rng.pick(&[0u64, 0, 1, 2, 3]);
        for _ in 0..1 + rng.below(3) {
            if authors.len() < n_old {
                authors.push(a);
            }
        }
    }
    let mode = rng.below(10);
    let mut items: Vec<LsItem> = Vec::new();
    let mut fresh_id = 1000u64;
    let mut ins = |items: &mut Vec<LsItem>, rng: &mut Rng, counter: &mut u64, used: &mut BTreeSet<String>, n: u64| {
        for _ in 0..n {
            fresh_id += 1;
            items.push(LsItem { kind: 2, body: ls_fresh_body(rng, counter, used, style), id: fresh_id });
        }
    };
    for (i, b) in old_bodies.iter().enumerate() {
        match mode {
            0 | 2 => items.push(LsItem { kind: 0, body: b.clone(), id: 100 + i as u64 }),
            1 => items.push(LsItem { kind: 1, body: b.clone(), id: 100 + i as u64 }),
            _ => {
                if rng.chance(1, 4) {
                    let n = 1 + rng.below(2);
                    ins(&mut items, rng, &mut counter, &mut used, n);
                }
                let kind = if rng.chance(3, 4) { 0 } else { 1 };
                items.push(LsItem { kind, body: b.clone(), id: 100 + i as u64 });
            }
        }
    }
    match mode {
        0 => tags.push("edit:identity".into()),
        1 => {
            let n = rng.below(4);
            ins(&mut items, rng, &mut counter, &mut used, n);
            tags.push("edit:replace-all".into());
        }
        2 => {
            let n = 1 + rng.below(3);
            ins(&mut items, rng, &mut counter, &mut used, n);
            tags.push("edit:append".into());
        }
        _ => {
            if rng.chance(1, 3) {
                let n = 1 + rng.below(2);
                ins(&mut items, rng, &mut counter, &mut used, n);
            }
            tags.push("edit:mixed".into());
        }
    }
    let (nk, nd, ni) = (items.iter().filter(|i| i.kind == 0).count(), items.iter().filter(|i| i.kind == 1).count(), items.iter().filter(|i| i.kind == 2).count());
    let bucket = |n: usize| match n { 0 => "0", 1 => "1", 2..=4 => "2-4", _ => ">4" };
    tags.push(format!("kept={}", bucket(nk)));
    tags.push(format!("deleted={}", bucket(nd)));
    tags.push(format!("inserted={}", bucket(ni)));
    if items.iter().any(|i| i.kind == 2 && all_ws(i.body.as_bytes())) {
        tags.push("inserted:whitespace-only-line".into());
    }
    if items.windows(2).any(|w| (w[0].kind == 1 && w[1].kind == 2) || (w[0].kind == 2 && w[1].kind == 1)) {
        tags.push("hunk:replace".into());
    }
    let who = rng.pick(&[0u64, 0, 1, 2, 3, 4]);
    tags.push(if who == 0 { "who:human" } else { "who:ai" }.into());
    let ts0 = 42u128; // INITIAL_ATTRIBUTION_TS
    let ts = match rng.below(4) {
        0 => 44,
        1 => 45 + rng.below(50) as u128,
        2 => 1_000 + rng.below(1_000_000) as u128,
        _ => 1_700_000_000_000 + rng.below(1_000_000_000) as u128,
    };
    let merge_runs = rng.chance(1, 2);
    if merge_runs {
        tags.push("priors:runs-as-ranges".into());
    }
    // final newline: missing in the previous and/or the current content in about a third of the cases
    let eof = match rng.below(9) {
        0 => (false, true),
        1 => (true, false),
        2 => (false, false),
        _ => (true, true),
    };
    linestep_case(&items, &authors, who, ts, ts0, None, true, merge_runs, eof, em, tags);
}

fn linestep_corpus_case(v: &Value, em: &mut Emitter) {
    let items: Vec<LsItem> = v["al"].as_array().map(|a| a.iter().map(|x| LsItem {
        kind: x[0].as_u64().unwrap_or(0) as u8,
        body: String::from_utf8_lossy(&bytes_of(&x[1])).to_string(),
        id: x[2].as_u64().unwrap_or(0),
    }).collect()).unwrap_or_default();
    let authors: Vec<u64> = v["authors"].as_array().map(|a| a.iter().map(|x| x.as_u64().unwrap_or(0)).collect()).unwrap_or_default();
    let tail = v["tail"].as_str();
    let name = v["name"].as_str().unwrap_or("");
    linestep_case(&items, &authors, v["who"].as_u64().unwrap_or(0), v["ts"].as_u64().unwrap_or(100) as u128, 42, tail,
        v["sys"].as_bool().unwrap_or(true), false, (v["onl"].as_bool().unwrap_or(true), v["nnl"].as_bool().unwrap_or(true)), em,
        vec![format!("corpus:linestep:{name}")]);
}

pub fn run_linestep(seed: u64, count: u64, corpus: Option<&str>, em: &mut Emitter) {
    if std::env::var_os("GIT_AI_DEBUG").is_none() {
        unsafe { std::env::set_var("GIT_AI_DEBUG", "0") };
    }
    if let Some(path) = corpus {
        if let Ok(f) = std::fs::File::open(path) {
            for line in std::io::BufReader::new(f).lines().map_while(Result::ok) {
                if let Ok(v) = serde_json::from_str::<Value>(&line) {
                    linestep_corpus_case(&v, em);
                }
            }
        }
    }
    let mut rng = Rng::new(seed ^ 0xC16_15);
    for _ in 0..count {
        gen_linestep(&mut rng, em);
    }
}
