//! C17 — authorship-log write/read round trip, grammar, parse totality.
//! Real code: authorship_log_serialization::{serialize_to_string, deserialize_from_string,
//! format_line_ranges, parse_line_ranges}.
use crate::common::*;
use git_ai::authorship::authorship_log::{LineRange, PromptRecord};
use git_ai::authorship::authorship_log_serialization::{
    AttestationEntry, AuthorshipLog, FileAttestation, verif_hooks,
};
use git_ai::authorship::transcript::Message;
use git_ai::authorship::working_log::AgentId;
use serde_json::{Value, json};
use std::io::BufRead;

fn jrange(r: &LineRange) -> Value {
    match r {
        LineRange::Single(n) => json!([n]),
        LineRange::Range(s, e) => json!([s, e]),
    }
}

pub fn jfiles(files: &[FileAttestation]) -> Value {
    Value::Array(
        files
            .iter()
            .map(|f| {
                json!({"path": f.file_path, "entries": f.entries.iter().map(|e| json!({
                    "hash": e.hash, "ranges": e.line_ranges.iter().map(jrange).collect::<Vec<_>>()
                })).collect::<Vec<_>>()})
            })
            .collect(),
    )
}

fn range_of(v: &Value) -> LineRange {
    let a = v.as_array().unwrap();
    if a.len() == 1 {
        LineRange::Single(a[0].as_u64().unwrap() as u32)
    } else {
        LineRange::Range(a[0].as_u64().unwrap() as u32, a[1].as_u64().unwrap() as u32)
    }
}

fn files_of(v: &Value) -> Vec<FileAttestation> {
    v.as_array()
        .unwrap()
        .iter()
        .map(|f| FileAttestation {
            file_path: f["path"].as_str().unwrap().to_string(),
            entries: f["entries"]
                .as_array()
                .unwrap()
                .iter()
                .map(|e| {
                    AttestationEntry::new(
                        e["hash"].as_str().unwrap().to_string(),
                        e["ranges"].as_array().unwrap().iter().map(range_of).collect(),
                    )
                })
                .collect(),
        })
        .collect()
}

fn classify_err(e: &(dyn std::error::Error + 'static)) -> &'static str {
    if e.downcast_ref::<std::num::ParseIntError>().is_some() {
        return "bad_int";
    }
    if e.downcast_ref::<serde_json::Error>().is_some() {
        return "json";
    }
    let m = e.to_string();
    if m.contains("Missing divider") {
        "no_divider"
    } else if m.contains("without a file path") {
        "orphan_entry"
    } else if m.contains("Invalid attestation entry format") {
        "bad_entry"
    } else {
        "other"
    }
}

/// canonical result of the real `deserialize_from_string`
fn real_deserialize(text: &str) -> (Value, Option<AuthorshipLog>) {
    let t = text.to_string();
    match catch(move || AuthorshipLog::deserialize_from_string(&t).map_err(|e| classify_err(e.as_ref()))) {
        Err(_) => (json!({"err": "panic"}), None),
        Ok(Err(k)) => (json!({"err": k}), None),
        Ok(Ok(log)) => (json!({"ok": {"files": jfiles(&log.attestations)}}), Some(log)),
    }
}

fn gen_u32(rng: &mut Rng) -> u32 {
    match rng.below(20) {
        0 => 0,
        1 => u32::MAX,
        2 => u32::MAX - 1,
        3 => rng.below(1 << 32) as u32,
        _ => 1 + rng.below(60) as u32,
    }
}

fn gen_range(rng: &mut Rng) -> LineRange {
    if rng.chance(1, 2) {
        LineRange::Single(gen_u32(rng))
    } else {
        let a = gen_u32(rng);
        let b = match rng.below(6) {
            0 => a,
            1 => gen_u32(rng), // possibly descending
            _ => a.saturating_add(rng.below(12) as u32),
        };
        LineRange::Range(a, b)
    }
}

fn gen_hash(rng: &mut Rng) -> String {
    match rng.below(30) {
        0 => String::new(),
        1 => "h\rx".to_string(),
        2 => "é\u{a0}z".to_string(),
        3 => "-".to_string(),
        4 => "\"".to_string(),
        5 => "1-2".to_string(),
        _ => {
            let n = if rng.chance(8, 10) { 16 } else { 1 + rng.below(20) };
            (0..n).map(|_| rng.pick(&['0', '1', '2', '3', '4', '5', '6', '7', '8', '9', 'a', 'b', 'c', 'd', 'e', 'f'])).collect()
        }
    }
}

fn gen_text(rng: &mut Rng) -> String {
    let n = rng.size(5, 20);
    let mut s = String::new();
    for _ in 0..n {
        s.push_str(rng.pick(&[
            "fix", " ", "the", "\n", "\r\n", "\"", "\\", "---", "\n---\n", "base_commit_sha", "\":\"", "{", "}",
            "\t", "é", "🙂", "\u{2028}", "sk_live_", "\u{0}", "\u{7f}", "a", "b",
        ]));
    }
    s
}

fn gen_prompt(rng: &mut Rng) -> PromptRecord {
    let nm = rng.size(2, 6);
    let mut messages = Vec::new();
    for _ in 0..nm {
        let ts = if rng.chance(1, 2) { Some("2025-01-01T00:00:00Z".to_string()) } else { None };
        messages.push(match rng.below(5) {
            0 => Message::User { text: gen_text(rng), timestamp: ts },
            1 => Message::Assistant { text: gen_text(rng), timestamp: ts },
            2 => Message::Thinking { text: gen_text(rng), timestamp: ts },
            3 => Message::Plan { text: gen_text(rng), timestamp: ts },
            _ => Message::ToolUse { name: gen_text(rng), input: json!({"k": gen_text(rng), "n": rng.below(10)}), timestamp: ts },
        });
    }
    PromptRecord {
        agent_id: AgentId { tool: rng.pick(&["cursor", "claude", "x y", "é"]).to_string(), id: gen_text(rng), model: "m".to_string() },
        human_author: if rng.chance(1, 2) { Some(gen_text(rng)) } else { None },
        messages,
        total_additions: gen_u32(rng),
        total_deletions: gen_u32(rng),
        accepted_lines: gen_u32(rng),
        overriden_lines: gen_u32(rng),
        messages_url: if rng.chance(1, 4) { Some("https://x/y".to_string()) } else { None },
    }
}

pub fn gen_log(rng: &mut Rng) -> AuthorshipLog {
    let mut log = AuthorshipLog::new();
    let nf = if rng.chance(1, 50) { 40 } else { rng.size(3, 8) };
    for _ in 0..nf {
        let mut f = FileAttestation::new(gen_path(rng));
        let ne = if rng.chance(1, 10) { 0 } else { 1 + rng.size(2, 4) };
        for _ in 0..ne {
            let nr = if rng.chance(1, 25) { 0 } else { 1 + rng.size(3, 7) };
            let ranges = (0..nr).map(|_| gen_range(rng)).collect();
            let h = gen_hash(rng);
            if rng.chance(9, 10) {
                log.metadata.prompts.insert(h.clone(), gen_prompt(rng));
            }
            f.add_entry(AttestationEntry::new(h, ranges));
        }
        log.attestations.push(f);
    }
    log.metadata.base_commit_sha = gen_hash(rng);
    if rng.chance(1, 5) {
        log.metadata.git_ai_version = None;
    }
    log
}

/// The hypothesis of the Lean round-trip theorem (`Serializable`), mirrored on Rust values,
/// together with a signature naming the first reason a log falls outside it.
pub fn unserializable_reason(log: &AuthorshipLog) -> Option<&'static str> {
    for f in &log.attestations {
        if f.file_path.contains('\n') {
            return Some("path-contains-newline");
        }
        for e in &f.entries {
            if e.hash.contains(' ') || e.hash.contains('\n') {
                return Some("hash-contains-space-or-newline");
            }
        }
    }
    None
}

fn start_of(r: &LineRange) -> u32 {
    match r {
        LineRange::Single(n) => *n,
        LineRange::Range(s, _) => *s,
    }
}

/// `normalise`: stable sort of each entry's ranges by start; entries without ranges and
/// files left without entries dropped.
pub fn normalise(files: &[FileAttestation]) -> Vec<FileAttestation> {
    files
        .iter()
        .filter(|f| f.entries.iter().any(|e| !e.line_ranges.is_empty()))
        .map(|f| FileAttestation {
            file_path: f.file_path.clone(),
            entries: f
                .entries
                .iter()
                .filter(|e| !e.line_ranges.is_empty())
                .map(|e| {
                    let mut rs = e.line_ranges.clone();
                    rs.sort_by_key(start_of);
                    AttestationEntry::new(e.hash.clone(), rs)
                })
                .collect(),
        })
        .collect()
}

/// Independent grammar check written from specs/git_ai_standard_v3.0.0.md §1.2:
/// attestation lines (unindented path lines, quoted iff they contain whitespace; two-space
/// entries `hash SP ranges`, ranges ascending by start, no spaces), exactly one divider line
/// before a JSON object. Returns the first violated rule.
fn grammar_violation(text: &str, log: &AuthorshipLog) -> Option<String> {
    // the divider is a LINE equal to `---` (a path line may end in `---` and the next path may start with `{`)
    let div_at = if text.starts_with("---\n{") { Some(0) } else { text.find("\n---\n{").map(|i| i + 1) };
    let Some(div_at) = div_at else {
        return Some("no divider followed by a JSON object".into());
    };
    let head = &text[..div_at];
    if !(head.is_empty() || head.ends_with('\n')) {
        return Some("divider not at line start".into());
    }
    let mut expected_paths = log.attestations.iter();
    for line in head.split('\n') {
        if line.is_empty() {
            continue;
        }
        if let Some(entry) = line.strip_prefix("  ") {
            let mut it = entry.splitn(2, ' ');
            let _hash = it.next().unwrap();
            let Some(ranges) = it.next() else {
                return Some(format!("entry without ranges: {line:?}"));
            };
            if ranges.is_empty() {
                return Some(format!("entry with empty range list: {line:?}"));
            }
            let mut prev: Option<u64> = None;
            for part in ranges.split(',') {
                let (s, e) = match part.split_once('-') {
                    Some((a, b)) => (a, Some(b)),
                    None => (part, None),
                };
                let ok = |x: &str| !x.is_empty() && x.bytes().all(|b| b.is_ascii_digit());
                if !ok(s) || e.is_some_and(|e| !ok(e)) {
                    return Some(format!("bad range token {part:?}"));
                }
                let sv: u64 = s.parse().unwrap();
                if prev.is_some_and(|p| p > sv) {
                    return Some("ranges not ascending by start".into());
                }
                prev = Some(sv);
            }
        } else {
            if line == "---" {
                return Some("more than one divider line".into());
            }
            let Some(f) = expected_paths.next() else {
                return Some("more path lines than files".into());
            };
            // MUST be quoted when it contains a space or tab; MAY be quoted otherwise
            let has_ws = f.file_path.chars().any(|c| c == ' ' || c == '\t');
            let quoted = format!("\"{}\"", f.file_path);
            if has_ws && line != quoted {
                return Some(format!("path with whitespace not quoted: {line:?}"));
            }
            if line != quoted && line != f.file_path {
                return Some(format!("path line {line:?} is neither the path nor the quoted path"));
            }
            if line.starts_with(' ') {
                return Some("path line starts with space".into());
            }
        }
    }
    None
}

fn roundtrip_case(log: &AuthorshipLog, em: &mut Emitter, extra_tag: &str) {
    let j = serde_json::to_string_pretty(&log.metadata).unwrap();
    let text = log.serialize_to_string().unwrap();
    let reason = unserializable_reason(log);
    let mut tags = vec![extra_tag.to_string(), format!("files={}", log.attestations.len().min(9))];
    tags.push(match reason {
        None => "serializable".to_string(),
        Some(r) => format!("outside:{r}"),
    });
    // serde facts the model relies on
    let serde_ok = !j.contains('\r') && !j.ends_with('\n') && j.starts_with('{');
    let gram = if reason.is_none() { grammar_violation(&text, log) } else { None };
    em.emit(
        "c17",
        json!({"op": "nf_serialize", "files": jfiles(&log.attestations), "json": j}),
        json!({"text": text}),
        vec![
            oracle("serde_pretty_facts", serde_ok, json!(null), "serde-pretty-facts"),
            oracle("grammar", gram.is_none(), json!(gram), "grammar"),
        ],
        tags.clone(),
    );
    let (imp, parsed) = real_deserialize(&text);
    // ranges are compared as multisets (the property does not fix their order; the order is
    // checked by the grammar oracle and by the model correspondence)
    let canon = |fs: &[FileAttestation]| -> Vec<FileAttestation> {
        normalise(fs)
            .into_iter()
            .map(|mut f| {
                for e in f.entries.iter_mut() {
                    e.line_ranges.sort();
                }
                f
            })
            .collect()
    };
    let want = canon(&log.attestations);
    let (ok, detail) = match &parsed {
        Some(p) => {
            let same_att = canon(&p.attestations) == want;
            let same_meta = p.metadata == log.metadata;
            (same_att && same_meta, json!({"same_attestations": same_att, "same_metadata": same_meta}))
        }
        None => (false, json!({"deserialize": imp})),
    };
    let sig = format!("roundtrip:{}", reason.unwrap_or("serializable-log"));
    let witness = if ok { json!(null) } else { json!({"files": jfiles(&log.attestations), "result": detail}) };
    // serde rejected the metadata text: the model (which stops before serde) must say ok
    let cmp = if imp["err"] == "json" { "model_ok" } else { "subset" };
    em.emit(
        "c17",
        json!({"op": "nf_deserialize", "text": text, "_cmp": cmp}),
        imp.clone(),
        vec![
            oracle("roundtrip", ok, witness, &sig),
            oracle("parse_no_panic", imp["err"] != "panic", json!({"text": text}), "parse-panic"),
        ],
        tags,
    );
}

fn gen_arbitrary_text(rng: &mut Rng) -> String {
    let n = rng.size(6, 30);
    let mut s = String::new();
    for _ in 0..n {
        match rng.below(14) {
            0 => s.push_str("---"),
            1 => s.push_str("---\n"),
            2 => s.push('"'),
            3 => s.push_str("  "),
            4 => s.push_str(&gen_hash(rng)),
            5 => s.push(' '),
            6 => s.push_str(&format!("{}", gen_u32(rng))),
            7 => s.push_str(rng.pick(&["-", ",", "+", ",,", "4294967296", "99999999999", "1-", "-1", "+3", "03"])),
            8 => s.push_str(&gen_path(rng)),
            9 => s.push('\n'),
            10 => s.push_str("\r\n"),
            11 => s.push_str(rng.pick(&["{}", "{", "{\"schema_version\":\"authorship/3.0.0\",\"base_commit_sha\":\"\",\"prompts\":{}}", "\u{a0}", "\t", "\r"])),
            12 => s.push_str("\n  "),
            _ => s.push_str(rng.pick(&["a", "b", "1", "2"])),
        }
    }
    s
}

fn text_case(text: &str, em: &mut Emitter, tag: &str) {
    let (imp, _) = real_deserialize(text);
    let has_divider_line = text.lines().any(|l| l == "---");
    let kind = imp.get("err").and_then(|e| e.as_str()).unwrap_or("ok").to_string();
    let mut req = json!({"op": "nf_deserialize", "text": text});
    let mut cmp = "subset";
    if kind == "json" {
        // serde rejected the metadata text: the model (which stops before serde) must say ok
        cmp = "model_ok";
    }
    req["_cmp"] = json!(cmp);
    em.emit(
        "c17",
        req,
        imp.clone(),
        vec![
            oracle("parse_no_panic", kind != "panic", json!({"text": text}), "parse-panic"),
            oracle("no_divider_rejected", has_divider_line || kind != "ok", json!({"text": text}), "no-divider-accepted"),
        ],
        vec![tag.to_string(), format!("result={kind}")],
    );
}

fn ranges_case(rng: &mut Rng, em: &mut Emitter) {
    let n = rng.size(4, 12);
    let rs: Vec<LineRange> = (0..n).map(|_| gen_range(rng)).collect();
    let text = verif_hooks::format_line_ranges(&rs);
    em.emit(
        "c17",
        json!({"op": "nf_format_ranges", "ranges": rs.iter().map(jrange).collect::<Vec<_>>()}),
        json!({"text": text}),
        vec![],
        vec!["format_ranges".into()],
    );
    // parse: either the formatted text or a mutated one
    let mut t = text.clone();
    if rng.chance(1, 2) {
        let muts = ["+", "-", ",", "x", " ", "4294967296", "0", "\u{a0}"];
        let pos = rng.below(t.len() as u64 + 1) as usize;
        if t.is_char_boundary(pos) {
            t.insert_str(pos, rng.pick(&muts));
        }
    }
    let t2 = t.clone();
    let imp = match catch(move || verif_hooks::parse_line_ranges(&t2).map_err(|e| classify_err(e.as_ref()))) {
        Err(_) => json!({"err": "panic"}),
        Ok(Err(k)) => json!({"err": k}),
        Ok(Ok(v)) => json!({"ok": v.iter().map(jrange).collect::<Vec<_>>()}),
    };
    let kind = if imp.get("ok").is_some() { "ok" } else { imp["err"].as_str().unwrap() }.to_string();
    em.emit(
        "c17",
        json!({"op": "nf_parse_ranges", "text": t}),
        imp,
        vec![oracle("parse_no_panic", kind != "panic", json!({"ranges_text": t}), "parse-panic")],
        vec!["parse_ranges".into(), format!("result={kind}")],
    );
}

pub fn run(seed: u64, count: u64, corpus: Option<&str>, em: &mut Emitter) {
    if let Some(path) = corpus {
        if let Ok(f) = std::fs::File::open(path) {
            for line in std::io::BufReader::new(f).lines().map_while(Result::ok) {
                let Ok(v) = serde_json::from_str::<Value>(&line) else { continue };
                if let Some(t) = v.get("text").and_then(|t| t.as_str()) {
                    text_case(t, em, "corpus-text");
                } else if v.get("files").is_some() {
                    let mut log = AuthorshipLog::new();
                    log.attestations = files_of(&v["files"]);
                    roundtrip_case(&log, em, "corpus-log");
                }
            }
        }
    }
    let mut rng = Rng::new(seed);
    for i in 0..count {
        match i % 4 {
            0 | 1 => {
                let log = gen_log(&mut rng);
                roundtrip_case(&log, em, "gen-log");
            }
            2 => {
                let t = gen_arbitrary_text(&mut rng);
                text_case(&t, em, "gen-text");
            }
            _ => ranges_case(&mut rng, em),
        }
    }
}
