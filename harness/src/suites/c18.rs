//! C18 — the proxy hands git exactly the arguments the user typed.
//! Real code: git::cli_parser::{parse_git_cli_args, ParsedGitInvocation::to_invocation_vec,
//! is_flag_with_value}, commands::git_handlers::{parse_alias_tokens, resolve_alias_impl}.
//!
//! Oracles are evaluated on the real outputs against an independent re-implementation of
//! git 2.39's `handle_options` / `cmd_main` normalisation (git.c), `split_cmdline` (alias.c)
//! and the alias loop of `run_argv` / `handle_alias` — written from git's source, sharing
//! nothing with git-ai's tables or with the Lean model.
use crate::common::*;
use git_ai::commands::git_handlers::verif_hooks;
use git_ai::git::cli_parser::{ParsedGitInvocation, is_flag_with_value, parse_git_cli_args};
use git_ai::git::find_repository_in_path;
use serde_json::{Value, json};
use std::collections::{BTreeMap, BTreeSet};
use std::io::BufRead;

// ───────────────────────── independent reference: git.c handle_options ─────────────────────────

#[derive(Debug, Clone, PartialEq)]
enum GScan {
    /// scanning stopped at a word: the command, at this index
    Command(usize),
    /// scanning stopped at --help/-h/--version/-v
    HelpVersion(usize),
    NoCommand,
    /// a query option printed something and exit(0)
    Exits(usize),
    /// "unknown option" / missing value → usage, exit 129
    Usage(usize),
}

const GIT_NO_VALUE: &[&str] = &[
    "-p", "--paginate", "-P", "--no-pager", "--no-replace-objects", "--bare", "--literal-pathspecs",
    "--glob-pathspecs", "--noglob-pathspecs", "--icase-pathspecs", "--no-optional-locks",
];
const GIT_DETACHED: &[&str] =
    &["--git-dir", "--namespace", "--work-tree", "--super-prefix", "-c", "--config-env", "-C", "--shallow-file"];
const GIT_ATTACHED: &[&str] = &["--git-dir=", "--namespace=", "--work-tree=", "--super-prefix=", "--config-env="];
const GIT_QUERY: &[&str] = &["--html-path", "--man-path", "--info-path"];

fn git_scan(a: &[String]) -> GScan {
    let mut i = 0;
    while i < a.len() {
        let t = a[i].as_str();
        if !t.starts_with('-') {
            return GScan::Command(i);
        }
        if matches!(t, "--help" | "-h" | "--version" | "-v") {
            return GScan::HelpVersion(i);
        }
        if let Some(r) = t.strip_prefix("--exec-path") {
            if r.starts_with('=') {
                i += 1;
                continue;
            }
            return GScan::Exits(i);
        }
        if GIT_QUERY.contains(&t) {
            return GScan::Exits(i);
        }
        if GIT_NO_VALUE.contains(&t) {
            i += 1;
            continue;
        }
        if GIT_DETACHED.contains(&t) {
            if i + 1 < a.len() {
                i += 2;
                continue;
            }
            return GScan::Usage(i);
        }
        if GIT_ATTACHED.iter().any(|p| t.starts_with(p)) {
            i += 1;
            continue;
        }
        if t.starts_with("--list-cmds=") {
            return GScan::Exits(i);
        }
        return GScan::Usage(i);
    }
    GScan::NoCommand
}

/// cmd_main: the token where scanning stopped becomes `help` / `version`.
fn git_normalise(a: &[String]) -> Vec<String> {
    let mut v = a.to_vec();
    if let GScan::HelpVersion(at) = git_scan(a) {
        v[at] = if a[at] == "--version" || a[at] == "-v" { "version".into() } else { "help".into() };
    }
    v
}

// ───────────────────────── independent reference: alias.c split_cmdline ─────────────────────────

#[derive(Debug, Clone, PartialEq)]
enum SplitErr {
    BadEnding,
    UnclosedQuote,
}

fn git_isspace(c: char) -> bool {
    c == ' ' || c == '\t' || c == '\n' || c == '\r'
}

fn split_cmdline(s: &str) -> Result<Vec<String>, SplitErr> {
    let cs: Vec<char> = s.chars().collect();
    let mut argv: Vec<String> = vec![String::new()];
    let mut quoted: Option<char> = None;
    let mut src = 0;
    while src < cs.len() {
        let mut c = cs[src];
        if quoted.is_none() && git_isspace(c) {
            src += 1;
            while src < cs.len() && git_isspace(cs[src]) {
                src += 1;
            }
            argv.push(String::new());
        } else if quoted.is_none() && (c == '\'' || c == '"') {
            quoted = Some(c);
            src += 1;
        } else if Some(c) == quoted {
            quoted = None;
            src += 1;
        } else {
            if c == '\\' && quoted != Some('\'') {
                src += 1;
                if src >= cs.len() {
                    return Err(SplitErr::BadEnding);
                }
                c = cs[src];
            }
            argv.last_mut().unwrap().push(c);
            src += 1;
        }
    }
    if quoted.is_some() {
        return Err(SplitErr::UnclosedQuote);
    }
    Ok(argv)
}

// ───────────────────────── independent reference: run_argv / handle_alias ─────────────────────────

/// commands git runs directly (builtins and programs on the exec path): an alias of the same
/// name is never consulted.  The generators draw commands from this vocabulary.
const GIT_COMMANDS: &[&str] = &[
    "add", "am", "apply", "bisect", "blame", "branch", "checkout", "cherry-pick", "clean", "clone", "commit", "config",
    "describe", "diff", "fetch", "gc", "grep", "help", "init", "log", "ls-files", "merge", "mv", "notes", "pull", "push",
    "rebase", "reflog", "remote", "reset", "restore", "rev-parse", "revert", "rm", "show", "stash", "status", "switch",
    "tag", "version", "worktree",
];

#[derive(Debug, Clone, PartialEq)]
enum GExpand {
    Runs(Vec<String>),
    Shell,
    Loop,
    BadAlias(SplitErr),
    EmptyAlias,
    AliasOptions(Vec<String>),
}

struct ExpandTrace {
    /// an alias named like a git command was met (git never consults it)
    shadowed_command: bool,
    /// an alias value for which split_cmdline yields an empty first/last argument out of
    /// leading/trailing whitespace or an empty value
    edge_empty: bool,
}

fn git_expand(lookup: &BTreeMap<String, Option<String>>, argv0: &[String], trace: &mut ExpandTrace) -> GExpand {
    let mut argv = argv0.to_vec();
    let mut seen: Vec<String> = Vec::new();
    loop {
        let GScan::Command(k) = git_scan(&argv) else { return GExpand::Runs(argv) };
        let c = argv[k].clone();
        let alias = lookup.get(&c).cloned().flatten();
        if GIT_COMMANDS.contains(&c.as_str()) {
            if alias.is_some() {
                trace.shadowed_command = true;
            }
            return GExpand::Runs(argv);
        }
        if seen.contains(&c) {
            return GExpand::Loop;
        }
        seen.push(c.clone());
        let Some(v) = alias else { return GExpand::Runs(argv) };
        if v.starts_with('!') {
            return GExpand::Shell;
        }
        let ts = match split_cmdline(&v) {
            Ok(ts) => ts,
            Err(e) => return GExpand::BadAlias(e),
        };
        if v.is_empty() || v.starts_with(git_isspace) || (v.ends_with(git_isspace) && ts.last().is_some_and(|t| t.is_empty())) {
            trace.edge_empty = true;
        }
        let mut next: Vec<String> = argv[..k].to_vec();
        next.extend(ts.iter().cloned());
        next.extend(argv[k + 1..].iter().cloned());
        match git_scan(&ts) {
            GScan::Command(_) => argv = next,
            GScan::HelpVersion(_) => return GExpand::Runs(next),
            GScan::NoCommand => return GExpand::EmptyAlias,
            // a query option or a usage error among the alias's own options: git stops at
            // that token exactly as it would had the user typed the expansion
            _ => return GExpand::AliasOptions(next),
        }
    }
}

// ───────────────────────── real code, canonicalised ─────────────────────────

fn jparsed(p: &ParsedGitInvocation) -> Value {
    json!({"global_args": p.global_args, "command": p.command, "command_args": p.command_args,
           "saw_end_of_opts": p.saw_end_of_opts, "is_help": p.is_help, "argv": p.to_invocation_vec()})
}

fn real_parse(args: &[String]) -> Option<ParsedGitInvocation> {
    let a = args.to_vec();
    catch(move || parse_git_cli_args(&a)).ok()
}

/// top-level options of newer gits (git(1) of 2.41–2.45) and the sticky `-c`/`-C` spellings:
/// tokens a parser written against current documentation may treat as global options.
fn top_level_option_like(t: &str) -> bool {
    t == "--"
        || matches!(t, "--help" | "-h" | "--version" | "-v" | "--exec-path" | "--no-lazy-fetch" | "--no-advice" | "--list-cmds" | "--attr-source")
        || t.starts_with("--exec-path=")
        || t.starts_with("--attr-source=")
        || t.starts_with("--list-cmds=")
        || t.starts_with("-c")
        || t.starts_with("-C")
        || GIT_QUERY.contains(&t)
        || GIT_NO_VALUE.contains(&t)
        || GIT_DETACHED.contains(&t)
        || GIT_ATTACHED.iter().any(|p| t.starts_with(p))
}

/// argv oracle: what reaches git is the user's argv up to git's documented help/version
/// conversion; when git stops at a query option or a usage error, only the prefix up to and
/// including that token matters (git never looks further).  Returns (ok, sig); the sig names
/// the family of the deviation by its cause, decided from the user's argv alone.
fn argv_verdict(user: &[String], real: &[String]) -> (bool, String) {
    let want = git_normalise(user);
    if real == want.as_slice() {
        return (true, "argv:identity".into());
    }
    if real == user {
        // the conversion is git's own: leaving it to git is faithful too
        return (true, "argv:identity-unnormalised".into());
    }
    match git_scan(user) {
        GScan::Exits(at) | GScan::Usage(at) => {
            if real.len() > at && real[..=at] == user[..=at] {
                return (true, "argv:same-up-to-git-stop".into());
            }
            if GIT_QUERY.contains(&user[at].as_str()) {
                (false, "argv:path-query-option-not-kept-in-place".into())
            } else {
                (false, "argv:identity".into())
            }
        }
        GScan::HelpVersion(at) => {
            let is_version = user[at] == "--version" || user[at] == "-v";
            let tail = &user[at + 1..];
            let is_hv = |t: &String| matches!(t.as_str(), "--help" | "-h" | "--version" | "-v");
            if tail.first().is_some_and(|t| top_level_option_like(t)) {
                (false, "argv:help-version:more-top-level-options-follow".into())
            } else if is_version && tail.iter().any(|t| !t.starts_with('-')) {
                (false, "argv:version:non-dash-tail-dropped".into())
            } else if !is_version && tail.first().is_some_and(|t| t.starts_with('-')) && tail.iter().any(is_hv) {
                (false, "argv:help:later-help-version-tokens-dropped".into())
            } else {
                (false, "argv:help-version-rewrite".into())
            }
        }
        _ => (false, "argv:identity".into()),
    }
}

#[derive(Clone, Copy, PartialEq, Debug)]
enum Role {
    GlobalOpt,
    GlobalValue,
    Meta,
    EndOfOpts,
    Command,
    Arg,
    Other,
}

fn parse_case(args: &[String], roles: Option<&[Role]>, em: &mut Emitter, tag: &str) {
    let real = real_parse(args);
    let imp = match &real {
        Some(p) => jparsed(p),
        None => json!({"panic": true}),
    };
    let scan = git_scan(args);
    let mut tags = vec![
        tag.to_string(),
        format!("len={}", args.len().min(12)),
        format!("git-scan={}", match scan {
            GScan::Command(_) => "command",
            GScan::HelpVersion(_) => "help-version",
            GScan::NoCommand => "no-command",
            GScan::Exits(_) => "exits",
            GScan::Usage(_) => "usage",
        }),
    ];
    let mut oracles = vec![oracle("parse_no_panic", real.is_some(), json!({"args": args}), "parse-panic")];
    if let Some(p) = &real {
        let argv = p.to_invocation_vec();
        let (ok, sig) = argv_verdict(args, &argv);
        if ok {
            tags.push(sig.clone());
        }
        oracles.push(oracle(
            "argv_identity_or_documented_normalisation",
            ok,
            if ok { json!(null) } else { json!({"user": args, "to_git": argv, "git_acts_on": git_normalise(args)}) },
            &sig,
        ));
        // command position: when git finds a command at index k, git-ai must find the same
        // token with the same prefix as global options, or no command at all (then no hook runs)
        if let GScan::Command(k) = scan {
            let (ok, sig) = match &p.command {
                None => {
                    tags.push("cmdpos:none-where-git-has-command".into());
                    (true, "cmdpos")
                }
                Some(c) => {
                    if *c == args[k] && p.global_args.as_slice() == &args[..k] && !p.saw_end_of_opts {
                        (true, "cmdpos")
                    } else {
                        (false, "cmdpos:command-differs-from-git")
                    }
                }
            };
            oracles.push(oracle(
                "command_position",
                ok,
                if ok { json!(null) } else { json!({"user": args, "git_command_index": k, "command": p.command, "global_args": p.global_args}) },
                sig,
            ));
        }
        // roles known to the generator: a token generated as an option's value is never the command
        if let (Some(roles), Some(_)) = (roles, &p.command) {
            if argv.as_slice() == args {
                let idx = p.global_args.len() + usize::from(p.saw_end_of_opts);
                let ok = idx < roles.len() && roles[idx] != Role::GlobalValue;
                oracles.push(oracle(
                    "option_value_never_command",
                    ok,
                    if ok { json!(null) } else { json!({"user": args, "command_index": idx}) },
                    "cmdpos:option-value-taken-as-command",
                ));
                tags.push(format!("command-role={:?}", roles.get(idx).copied().unwrap_or(Role::Other)));
            }
        }
    }
    em.emit("c18", json!({"op": "cli_parse", "args": args}), imp, oracles, tags);
}

fn flag_case(flag: &str, em: &mut Emitter) {
    let v = is_flag_with_value(flag);
    em.emit(
        "c18",
        json!({"op": "cli_flag_with_value", "flag": flag}),
        json!({"value": v}),
        vec![],
        vec!["flag_with_value".into(), format!("value={v}")],
    );
}

fn alias_tokens_case(value: &str, em: &mut Emitter, tag: &str) {
    let v = value.to_string();
    let real = catch(move || verif_hooks::parse_alias_tokens(&v));
    let git = split_cmdline(value);
    let trimmed = value.trim_start_matches(git_isspace);
    let mut tags = vec![tag.to_string()];
    let (imp, ok, sig): (Value, bool, String) = match &real {
        Err(_) => (json!({"panic": true}), false, "alias:tokenizer-panic".into()),
        Ok(None) => {
            tags.push("tokens=none".into());
            // None is handed back only for what git itself does not split: `!` aliases and
            // values git rejects
            let ok = trimmed.starts_with('!') || git.is_err();
            (json!({"none": true}), ok, "alias:none-for-splittable-value".into())
        }
        Ok(Some(ts)) => {
            tags.push(format!("tokens={}", ts.len().min(8)));
            let (ok, sig) = match &git {
                Ok(gt) if gt == ts => (true, "alias:tokens".to_string()),
                Ok(gt) => {
                    let nonempty: Vec<String> = gt.iter().filter(|t| !t.is_empty()).cloned().collect();
                    let mut edge = gt.clone();
                    if value.is_empty() || value.starts_with(git_isspace) {
                        edge.remove(0);
                    }
                    if !edge.is_empty() && value.ends_with(git_isspace) && edge.last().is_some_and(|t| t.is_empty()) {
                        edge.pop();
                    }
                    if &edge == ts {
                        (false, "alias:edge-whitespace-empty-argument".to_string())
                    } else if &nonempty == ts {
                        (false, "alias:empty-quoted-argument-dropped".to_string())
                    } else if value.chars().any(|c| c.is_whitespace() && !git_isspace(c)) {
                        (false, "alias:non-git-whitespace-split".to_string())
                    } else {
                        (false, "alias:tokens-differ".to_string())
                    }
                }
                Err(SplitErr::BadEnding) => (false, "alias:trailing-backslash-accepted".to_string()),
                Err(SplitErr::UnclosedQuote) => (false, "alias:unclosed-quote-accepted".to_string()),
            };
            (json!({"some": ts}), ok, sig)
        }
    };
    tags.push(format!("git-split={}", match &git {
        Ok(_) => "ok",
        Err(SplitErr::BadEnding) => "bad-ending",
        Err(SplitErr::UnclosedQuote) => "unclosed-quote",
    }));
    let detail = if ok { json!(null) } else { json!({"value": value, "git_split": format!("{git:?}"), "git_ai": imp}) };
    em.emit(
        "c18",
        json!({"op": "alias_tokens", "value": value}),
        imp,
        vec![oracle("alias_tokens_vs_split_cmdline", ok, detail, &sig)],
        tags,
    );
}

// ───────────────────────── scratch repository for alias resolution ─────────────────────────

struct Scratch {
    root: std::path::PathBuf,
    repo: git_ai::git::repository::Repository,
}

impl Scratch {
    fn new() -> Option<Scratch> {
        let root = std::env::temp_dir().join(format!("vf-c18-{}", std::process::id()));
        let _ = std::fs::remove_dir_all(&root);
        std::fs::create_dir_all(root.join("home")).ok()?;
        // isolate from the user's and the system's git configuration
        unsafe {
            std::env::set_var("HOME", root.join("home"));
            std::env::set_var("XDG_CONFIG_HOME", root.join("home").join(".config"));
            std::env::set_var("GIT_CONFIG_NOSYSTEM", "1");
            std::env::set_var("GIT_CONFIG_GLOBAL", root.join("home").join(".gitconfig"));
        }
        std::fs::write(root.join("home").join(".gitconfig"), "").ok()?;
        let repo_dir = root.join("repo");
        let st = std::process::Command::new("git").arg("init").arg("-q").arg(&repo_dir).status().ok()?;
        if !st.success() {
            return None;
        }
        let repo = find_repository_in_path(repo_dir.to_str()?).ok()?;
        Some(Scratch { root, repo })
    }

    fn config_path(&self) -> std::path::PathBuf {
        self.root.join("repo").join(".git").join("config")
    }

    fn set_aliases(&self, aliases: &[(String, String)]) {
        let mut s = String::from("[core]\n\trepositoryformatversion = 0\n\tbare = false\n[alias]\n");
        for (k, v) in aliases {
            let mut q = String::new();
            for c in v.chars() {
                match c {
                    '\\' => q.push_str("\\\\"),
                    '"' => q.push_str("\\\""),
                    '\n' => q.push_str("\\n"),
                    '\t' => q.push_str("\\t"),
                    _ => q.push(c),
                }
            }
            s.push_str(&format!("\t{k} = \"{q}\"\n"));
        }
        std::fs::write(self.config_path(), s).unwrap();
    }

    /// what git-ai's own lookup returns (errors are `None`, as in resolve_alias_impl)
    fn lookup(&self, command: &str) -> Option<String> {
        match self.repo.config_get_str(&format!("alias.{command}")) {
            Ok(Some(v)) => Some(v),
            _ => None,
        }
    }
}

impl Drop for Scratch {
    fn drop(&mut self) {
        let _ = std::fs::remove_dir_all(&self.root);
    }
}

fn alias_resolve_case(sc: &Scratch, aliases: &[(String, String)], args: &[String], em: &mut Emitter, tag: &str) {
    sc.set_aliases(aliases);
    let Some(parsed) = real_parse(args) else { return };
    // every command the resolution can ask about: tokens of the argv, alias names, tokens of
    // every alias value (by git's own splitter and by whitespace), and the rewrite words
    let mut cands: BTreeSet<String> = args.iter().cloned().collect();
    cands.insert("help".into());
    cands.insert("version".into());
    for (k, v) in aliases {
        cands.insert(k.clone());
        if let Ok(ts) = split_cmdline(v) {
            cands.extend(ts);
        }
        cands.extend(v.split(|c: char| c.is_whitespace()).map(|s| s.to_string()));
        if let Ok(Some(ts)) = catch({
            let v = v.clone();
            move || verif_hooks::parse_alias_tokens(&v)
        }) {
            cands.extend(ts);
        }
    }
    let lookup: BTreeMap<String, Option<String>> = cands.iter().map(|c| (c.clone(), sc.lookup(c))).collect();
    let real = {
        let p = parsed.clone();
        let repo = &sc.repo;
        catch(std::panic::AssertUnwindSafe(move || verif_hooks::resolve_alias_impl(&p, repo)))
    };
    let user_argv = parsed.to_invocation_vec();
    let mut trace = ExpandTrace { shadowed_command: false, edge_empty: false };
    let git = git_expand(&lookup, &user_argv, &mut trace);
    let mut tags = vec![tag.to_string(), format!("aliases={}", aliases.len().min(9))];
    tags.push(format!("git-expand={}", match &git {
        GExpand::Runs(v) if *v == user_argv => "runs-unchanged",
        GExpand::Runs(_) => "runs-expanded",
        GExpand::Shell => "shell",
        GExpand::Loop => "loop",
        GExpand::BadAlias(_) => "bad-alias",
        GExpand::EmptyAlias => "empty-alias",
        GExpand::AliasOptions(_) => "alias-options",
    }));
    let (imp, ok, sig): (Value, bool, String) = match &real {
        Err(_) => (json!({"panic": true}), false, "alias:resolve-panic".into()),
        Ok(None) => {
            // None: the user's argv goes to git untouched — always faithful
            tags.push("resolve=none".into());
            (json!({"none": true}), true, "alias:resolve".into())
        }
        Ok(Some(q)) => {
            let to_git = q.to_invocation_vec();
            tags.push(if to_git == user_argv { "resolve=unchanged".into() } else { "resolve=expanded".to_string() });
            let (ok, sig) = match &git {
                // the user's own argv: git expands it itself — always faithful
                _ if to_git == user_argv => (true, "alias:resolve".to_string()),
                GExpand::Runs(want) | GExpand::AliasOptions(want) => {
                    let (ok, sig) = argv_verdict(want, &to_git);
                    if ok {
                        (true, "alias:resolve".to_string())
                    } else if trace.shadowed_command {
                        (false, "alias:shadows-git-command".to_string())
                    } else if trace.edge_empty {
                        (false, "alias:edge-whitespace-empty-argument".to_string())
                    } else if parsed.saw_end_of_opts {
                        (false, "alias:top-level-double-dash-dropped".to_string())
                    } else if sig != "argv:identity" {
                        // the parser's help/version/path-query rewriting applied to the expansion
                        (false, sig)
                    } else {
                        (false, "alias:expansion-differs".to_string())
                    }
                }
                // git refuses or delegates; git-ai must not hand git a different command line
                GExpand::BadAlias(SplitErr::BadEnding) => (false, "alias:trailing-backslash-accepted".to_string()),
                GExpand::EmptyAlias => (false, "alias:alias-without-command-expanded".to_string()),
                _ if trace.shadowed_command => (false, "alias:shadows-git-command".to_string()),
                _ => (false, "alias:expanded-where-git-refuses".to_string()),
            };
            (json!({"some": jparsed(q)}), ok, sig)
        }
    };
    let detail = if ok {
        json!(null)
    } else {
        json!({"aliases": aliases, "user": user_argv, "git_ai_hands_git": imp, "git_would": format!("{git:?}")})
    };
    let lk: Vec<Value> = lookup.iter().map(|(k, v)| json!([k, v])).collect();
    em.emit(
        "c18",
        json!({"op": "alias_resolve", "parsed": jparsed(&parsed), "lookup": lk, "aliases": aliases, "args": args}),
        imp,
        vec![oracle("alias_expansion_vs_git", ok, detail, &sig)],
        tags,
    );
}

// ───────────────────────── generators ─────────────────────────

const COMMANDS: &[&str] = &[
    "status", "commit", "log", "diff", "checkout", "push", "pull", "fetch", "rebase", "merge", "reset", "stash", "clone",
    "add", "show", "rev-parse", "ls-files", "cherry-pick", "switch", "help", "version", "config", "st", "ci", "lg", "l",
    "cm", "a", "b", "x", "under_score", "Status", "日本", "",
];
const VALUES: &[&str] = &[
    ".", "..", "/tmp/x", "dir with space", "a=b", "user.name=me", "core.hooksPath=/dev/null", "", "-", "--", "-x",
    "--help", "-h", "--version", "status", "commit", "HEAD", "ns", "é/ü", "日本", "name=ENV", "x=", "=", "refs/heads/main",
    "--html-path", "-c", "-C",
];
const NO_VALUE_OPTS: &[&str] = &[
    "-p", "--paginate", "-P", "--no-pager", "--no-replace-objects", "--bare", "--literal-pathspecs", "--glob-pathspecs",
    "--noglob-pathspecs", "--icase-pathspecs", "--no-optional-locks", "--no-lazy-fetch", "--no-advice",
];
const VALUE_LONGS: &[&str] = &[
    "--git-dir", "--work-tree", "--namespace", "--config-env", "--super-prefix", "--exec-path", "--list-cmds", "--attr-source",
    "--shallow-file",
];
const UNKNOWN_DASH: &[&str] = &[
    "--bogus", "-x", "--git-dirx", "--exec-pathfoo", "--no-pagerx", "-", "---", "--Bare", "--work-tree-x=1", "-é", "--paginate=1",
    "--build-options", "-a", "--all", "-1",
];
const METAS: &[&str] = &["--help", "-h", "--version", "-v", "--html-path", "--man-path", "--info-path"];
const FLAGS: &[&str] = &[
    "-m", "--message", "-a", "--amend", "--oneline", "-n", "5", "--short", "-s", "-b", "--", "--help", "-h", "--version",
    "-v", "--force", "-u", "origin", "main", "--format=%H %s", "--author", "A U <a@b>", "-F", "--file", "-", "",
    "--no-verify", "--dry-run", "-X", "ours", "--strategy", "--depth", "1", "HEAD~1", "file with space.txt", "src/*.rs",
    ":(glob)**/*.c", "é.txt", "--config", "--since", "--until", "-e", "-t", "--skip",
];

fn pick_s(rng: &mut Rng, xs: &[&str]) -> String {
    rng.pick(xs).to_string()
}

/// one well-formed global option (possibly with its value), roles recorded
fn gen_global(rng: &mut Rng, out: &mut Vec<String>, roles: &mut Vec<Role>) {
    match rng.below(10) {
        0..=2 => {
            out.push(pick_s(rng, NO_VALUE_OPTS));
            roles.push(Role::GlobalOpt);
        }
        3 | 4 => {
            // -c k=v / -C dir, detached
            out.push(pick_s(rng, &["-c", "-C"]));
            roles.push(Role::GlobalOpt);
            out.push(pick_s(rng, VALUES));
            roles.push(Role::GlobalValue);
        }
        5 => {
            // sticky short forms (git-ai accepts them; git does not)
            let k = pick_s(rng, &["-c", "-C"]);
            let mut v = pick_s(rng, VALUES);
            if v.is_empty() {
                // a bare -c/-C would take the next token as its value
                v = "x".to_string();
            }
            out.push(format!("{k}{v}"));
            roles.push(Role::GlobalOpt);
        }
        6 | 7 => {
            // --long value (detached)
            out.push(pick_s(rng, VALUE_LONGS));
            roles.push(Role::GlobalOpt);
            out.push(pick_s(rng, VALUES));
            roles.push(Role::GlobalValue);
        }
        _ => {
            // --long=value (attached; the value may be empty)
            out.push(format!("{}={}", pick_s(rng, VALUE_LONGS), pick_s(rng, VALUES)));
            roles.push(Role::GlobalOpt);
        }
    }
}

fn gen_tail(rng: &mut Rng, out: &mut Vec<String>, roles: &mut Vec<Role>) {
    let n = rng.size(3, 8);
    for _ in 0..n {
        out.push(pick_s(rng, FLAGS));
        roles.push(Role::Arg);
    }
}

fn gen_argv(rng: &mut Rng) -> (Vec<String>, Vec<Role>, &'static str) {
    let mut out = Vec::new();
    let mut roles = Vec::new();
    let style = rng.below(100);
    if style < 55 {
        // clean: valid globals, a command, arguments
        for _ in 0..rng.size(2, 5) {
            gen_global(rng, &mut out, &mut roles);
        }
        if rng.chance(1, 12) {
            out.push("--".into());
            roles.push(Role::EndOfOpts);
            out.push(if rng.chance(1, 2) { pick_s(rng, COMMANDS) } else { pick_s(rng, UNKNOWN_DASH) });
            roles.push(Role::Command);
        } else if rng.chance(14, 15) {
            out.push(pick_s(rng, COMMANDS));
            roles.push(Role::Command);
        }
        gen_tail(rng, &mut out, &mut roles);
        (out, roles, "gen-clean")
    } else if style < 75 {
        // one or two meta tokens among the globals
        let n = 1 + rng.size(2, 4);
        let meta_at = rng.below(n);
        for i in 0..n {
            if i == meta_at || rng.chance(1, 6) {
                out.push(pick_s(rng, METAS));
                roles.push(Role::Meta);
            } else {
                gen_global(rng, &mut out, &mut roles);
            }
        }
        match rng.below(6) {
            0 => {}
            1 => {
                out.push(pick_s(rng, UNKNOWN_DASH));
                roles.push(Role::Other);
                gen_tail(rng, &mut out, &mut roles);
            }
            2 => {
                out.push("--".into());
                roles.push(Role::EndOfOpts);
                gen_tail(rng, &mut out, &mut roles);
            }
            _ => {
                out.push(pick_s(rng, COMMANDS));
                roles.push(Role::Command);
                gen_tail(rng, &mut out, &mut roles);
            }
        }
        (out, roles, "gen-meta")
    } else if style < 88 {
        // unknown dash option somewhere before the command
        for _ in 0..rng.size(1, 3) {
            gen_global(rng, &mut out, &mut roles);
        }
        out.push(pick_s(rng, UNKNOWN_DASH));
        roles.push(Role::Other);
        if rng.chance(2, 3) {
            out.push(pick_s(rng, COMMANDS));
            roles.push(Role::Other);
        }
        gen_tail(rng, &mut out, &mut roles);
        (out, roles, "gen-unknown-dash")
    } else {
        // token soup over the whole alphabet
        let n = rng.size(4, 10);
        for _ in 0..n {
            let t = match rng.below(8) {
                0 => pick_s(rng, NO_VALUE_OPTS),
                1 => pick_s(rng, VALUE_LONGS),
                2 => pick_s(rng, VALUES),
                3 => pick_s(rng, METAS),
                4 => pick_s(rng, UNKNOWN_DASH),
                5 => pick_s(rng, COMMANDS),
                6 => pick_s(rng, &["-c", "-C", "--", "-cfoo=bar", "-C/tmp", "--exec-path", "--exec-path=/x", "--git-dir="]),
                _ => pick_s(rng, FLAGS),
            };
            out.push(t);
            roles.push(Role::Other);
        }
        (out, roles, "gen-soup")
    }
}

const ALIAS_NAMES: &[&str] = &["st", "ci", "lg", "l", "cm", "a", "b", "x", "co", "status", "log", "commit", "sh", "q"];
const ALIAS_VALUES: &[&str] = &[
    "status", "status --short", "commit -v", "commit", "log --oneline", "lg -5", "l", "a", "b", "x y", "st",
    "!echo hi", "!git status", "  !sh -c x", "commit --allow-empty -m ''", "commit -m \"\" -v", "log '--format=%H %s'",
    "log \"--format=%H %s\"", "--pretty='format:%h %s' x", "log \\-\\-oneline", "log \"--format=\\\"%H\\\"\"", "commit\\",
    "log 'unclosed", "log \"unclosed", "log \"x\\", "-p log", "-c core.pager=cat log", "--no-pager diff", "--version",
    "--help", "-h", "--html-path", "", " ", "log ", " log", "log\u{a0}--grep=x", "log\u{c}-1", "log\t-1\n-2", "'' status",
    "status ''", "checkout -b", "push origin", "diff -- .", "-- status", "é", "ls-files --stage", "co main",
    "--git-dir=/x status", "-C . status", "--exec-path status", "--bogus status",
];
const ALIAS_PIECES: &[&str] = &[
    "log", "status", "commit", "-m", "''", "\"\"", "'a b'", "\"a b\"", "\\ ", "\\\\", "\\'", "\\\"", " ", "  ", "\t", "\n",
    "\r", "\u{a0}", "\u{c}", "\u{b}", "\u{2028}", "'", "\"", "\\", "!", "x", "-v", "--oneline", "é", "a", "b", "st", "=",
];

fn gen_alias_value(rng: &mut Rng) -> String {
    if rng.chance(6, 10) {
        return pick_s(rng, ALIAS_VALUES);
    }
    let n = rng.size(4, 10);
    (0..n).map(|_| rng.pick(ALIAS_PIECES)).collect()
}

fn gen_alias_table(rng: &mut Rng) -> Vec<(String, String)> {
    let n = 1 + rng.size(3, 6);
    let mut seen = BTreeSet::new();
    let mut t = Vec::new();
    for _ in 0..n {
        let k = pick_s(rng, ALIAS_NAMES);
        if seen.insert(k.clone()) {
            t.push((k, gen_alias_value(rng)));
        }
    }
    t
}

fn gen_alias_argv(rng: &mut Rng, table: &[(String, String)]) -> Vec<String> {
    let mut out = Vec::new();
    let mut roles = Vec::new();
    if rng.chance(1, 3) {
        for _ in 0..rng.size(1, 3) {
            if rng.chance(1, 10) {
                out.push(pick_s(rng, METAS));
            } else {
                gen_global(rng, &mut out, &mut roles);
            }
        }
    }
    if rng.chance(1, 40) {
        out.push("--".into());
    }
    if !table.is_empty() && rng.chance(5, 6) {
        out.push(table[rng.below(table.len() as u64) as usize].0.clone());
    } else {
        out.push(pick_s(rng, COMMANDS));
    }
    if rng.chance(2, 3) {
        gen_tail(rng, &mut out, &mut roles);
    }
    out
}

pub fn run(seed: u64, count: u64, corpus: Option<&str>, em: &mut Emitter) {
    let scratch = Scratch::new();
    if let Some(path) = corpus {
        if let Ok(f) = std::fs::File::open(path) {
            for line in std::io::BufReader::new(f).lines().map_while(Result::ok) {
                let Ok(v) = serde_json::from_str::<Value>(&line) else { continue };
                let strs = |v: &Value| -> Vec<String> {
                    v.as_array().map(|a| a.iter().map(|x| x.as_str().unwrap_or("").to_string()).collect()).unwrap_or_default()
                };
                if let Some(al) = v.get("aliases").and_then(|a| a.as_array()) {
                    let table: Vec<(String, String)> = al
                        .iter()
                        .filter_map(|kv| Some((kv.get(0)?.as_str()?.to_string(), kv.get(1)?.as_str()?.to_string())))
                        .collect();
                    if let Some(sc) = &scratch {
                        alias_resolve_case(sc, &table, &strs(&v["args"]), em, "corpus-alias-resolve");
                    }
                } else if let Some(val) = v.get("alias_value").and_then(|a| a.as_str()) {
                    alias_tokens_case(val, em, "corpus-alias-tokens");
                } else if v.get("args").is_some() {
                    parse_case(&strs(&v["args"]), None, em, "corpus-argv");
                }
            }
        }
    }
    // `Rng::new` maps consecutive seeds to shifted copies of one stream; start from a state
    // derived from the mixed outputs instead, so that different seeds give unrelated streams
    let mut rng = {
        let mut r = Rng::new(seed);
        let (a, b) = (r.next(), r.next());
        Rng(a ^ b.rotate_left(32) ^ seed.wrapping_mul(0xD6E8_FEB8_6659_FD93))
    };
    // the flag table: every listed flag once per run, plus near misses
    if count > 0 {
        for f in FLAGS.iter().chain(["-M", "--messages", "-m=x", "--message=x", "", "m", "-B", "-U"].iter()) {
            flag_case(f, em);
        }
    }
    let mut table: Vec<(String, String)> = Vec::new();
    for i in 0..count {
        match i % 10 {
            0..=5 => {
                let (a, roles, tag) = gen_argv(&mut rng);
                parse_case(&a, Some(&roles), em, tag);
            }
            6 | 7 => {
                let v = gen_alias_value(&mut rng);
                alias_tokens_case(&v, em, "gen-alias-tokens");
            }
            _ => {
                if let Some(sc) = &scratch {
                    // a fresh alias table every 4th resolve case
                    if table.is_empty() || rng.chance(1, 4) {
                        table = gen_alias_table(&mut rng);
                    }
                    let a = gen_alias_argv(&mut rng, &table);
                    alias_resolve_case(sc, &table, &a, em, "gen-alias-resolve");
                } else {
                    let v = gen_alias_value(&mut rng);
                    alias_tokens_case(&v, em, "gen-alias-tokens");
                }
            }
        }
    }
    if scratch.is_none() {
        em.emit(
            "c18",
            Value::Null,
            json!({"scratch": "unavailable"}),
            vec![oracle("scratch_repository", false, json!("could not create a scratch repository for alias resolution"), "harness:scratch")],
            vec!["scratch-unavailable".into()],
        );
    }
}
