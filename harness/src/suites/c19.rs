//! C19 — commit statistics add up and agree with the note and the diff.
//! Real code: stats::{line_range_overlap_len, accepted_lines_from_attestations (verif_hooks),
//! stats_from_authorship_log, get_git_diff_stats}. `get_git_diff_stats` parses the stdout of an
//! internal `git show --numstat`; to feed it arbitrary listings the suite points git-ai's
//! `git_path` (config file under an isolated HOME) at a wrapper that prints a prepared file
//! for `--numstat` calls and execs the real git for everything else.
use crate::common::*;
use git_ai::authorship::authorship_log::{LineRange, PromptRecord};
use git_ai::authorship::authorship_log_serialization::{AttestationEntry, AuthorshipLog, FileAttestation};
use git_ai::authorship::ignore::{build_ignore_matcher, default_ignore_patterns, should_ignore_file_with_matcher};
use git_ai::authorship::stats::{CommitStats, get_git_diff_stats, stats_from_authorship_log, verif_hooks};
use git_ai::authorship::working_log::AgentId;
use git_ai::git::repository::Repository;
use serde_json::{Value, json};
use std::collections::{BTreeMap, BTreeSet, HashMap};
use std::io::BufRead;

fn jrange(r: &LineRange) -> Value {
    match r {
        LineRange::Single(n) => json!([n]),
        LineRange::Range(s, e) => json!([s, e]),
    }
}

fn range_of(v: &Value) -> LineRange {
    let a = v.as_array().unwrap();
    if a.len() == 1 {
        LineRange::Single(a[0].as_u64().unwrap() as u32)
    } else {
        LineRange::Range(a[0].as_u64().unwrap() as u32, a[1].as_u64().unwrap() as u32)
    }
}

fn jfiles(files: &[FileAttestation]) -> Value {
    Value::Array(
        files
            .iter()
            .map(|f| {
                json!({"path": f.file_path, "entries": f.entries.iter().map(|e| json!({
                    "hash": e.hash, "ranges": e.line_ranges.iter().map(jrange).collect::<Vec<_>>()
                })).collect::<Vec<_>>()})
            })
            .collect(),
    )
}

fn files_of(v: &Value) -> Vec<FileAttestation> {
    v.as_array()
        .unwrap()
        .iter()
        .map(|f| FileAttestation {
            file_path: f["path"].as_str().unwrap().to_string(),
            entries: f["entries"]
                .as_array()
                .unwrap()
                .iter()
                .map(|e| {
                    AttestationEntry::new(
                        e["hash"].as_str().unwrap().to_string(),
                        e["ranges"].as_array().unwrap().iter().map(range_of).collect(),
                    )
                })
                .collect(),
        })
        .collect()
}

fn jprompts(p: &BTreeMap<String, PromptRecord>) -> Value {
    Value::Array(
        p.iter()
            .map(|(h, r)| {
                json!({"hash": h, "tool": r.agent_id.tool, "model": r.agent_id.model,
                   "total_additions": r.total_additions, "total_deletions": r.total_deletions,
                   "overriden_lines": r.overriden_lines})
            })
            .collect(),
    )
}

fn prompts_of(v: &Value) -> BTreeMap<String, PromptRecord> {
    let mut m = BTreeMap::new();
    for p in v.as_array().unwrap() {
        m.insert(
            p["hash"].as_str().unwrap().to_string(),
            prompt(
                p["tool"].as_str().unwrap(),
                p["model"].as_str().unwrap(),
                p["total_additions"].as_u64().unwrap() as u32,
                p["total_deletions"].as_u64().unwrap() as u32,
                p["overriden_lines"].as_u64().unwrap() as u32,
            ),
        );
    }
    m
}

fn prompt(tool: &str, model: &str, ta: u32, td: u32, ov: u32) -> PromptRecord {
    PromptRecord {
        agent_id: AgentId { tool: tool.to_string(), id: "s".to_string(), model: model.to_string() },
        human_author: None,
        messages: vec![],
        total_additions: ta,
        total_deletions: td,
        accepted_lines: 0,
        overriden_lines: ov,
        messages_url: None,
    }
}

fn key_of(r: &PromptRecord) -> String {
    format!("{}::{}", r.agent_id.tool, r.agent_id.model)
}

fn jadded(added: &HashMap<String, Vec<u32>>) -> Value {
    let mut ks: Vec<&String> = added.keys().collect();
    ks.sort();
    Value::Array(ks.into_iter().map(|k| json!({"path": k, "lines": added[k]})).collect())
}

fn added_of(v: &Value) -> HashMap<String, Vec<u32>> {
    v.as_array()
        .unwrap()
        .iter()
        .map(|e| {
            (
                e["path"].as_str().unwrap().to_string(),
                e["lines"].as_array().unwrap().iter().map(|n| n.as_u64().unwrap() as u32).collect(),
            )
        })
        .collect()
}

// ------------------------------------------------------------------ generators

const PATHS: &[&str] = &["src/a.rs", "src/b.rs", "lib/c d.txt", "e\t.rs", "é.py", "README.md", "x/Cargo.lock"];
const HASHES: &[&str] = &["aaaaaaaaaaaaaaaa", "bbbbbbbbbbbbbbbb", "cccccccccccccccc", "dddddddddddddddd", "eeeeeeeeeeeeeeee"];
const TOOLS: &[(&str, &str)] = &[("cursor", "gpt-5"), ("claude", "sonnet"), ("claude", "opus"), ("mock_ai", "unknown"), ("b", "a::z"), ("b::a", "z")];

fn gen_sorted_lines(rng: &mut Rng) -> Vec<u32> {
    let mut v: Vec<u32> = Vec::new();
    match rng.below(12) {
        0 => {}
        1 => {
            // a few extreme values
            v = vec![0, 1, u32::MAX - 1, u32::MAX];
            v.retain(|_| rng.chance(2, 3));
        }
        _ => {
            let top = 1 + rng.size(24, 80);
            let density = 1 + rng.below(4);
            for l in 1..=top {
                if rng.below(4) < density {
                    v.push(l as u32);
                }
            }
        }
    }
    v
}

fn gen_any_range(rng: &mut Rng) -> LineRange {
    let pick = |rng: &mut Rng| -> u32 {
        match rng.below(16) {
            0 => 0,
            1 => u32::MAX,
            2 => u32::MAX - 1,
            _ => rng.below(70) as u32,
        }
    };
    if rng.chance(1, 3) {
        LineRange::Single(pick(rng))
    } else {
        let s = pick(rng);
        let e = match rng.below(8) {
            0 => pick(rng), // possibly descending
            1 => s,
            _ => s.saturating_add(rng.below(15) as u32),
        };
        LineRange::Range(s, e)
    }
}

/// Disjoint ranges covering a random subset of 1..=top, dealt to `sessions` sessions; adjacent
/// ranges of different sessions are frequent (the boundary case of the overlap arithmetic).
fn gen_disjoint(rng: &mut Rng, top: u32, sessions: usize) -> Vec<Vec<LineRange>> {
    let mut out = vec![Vec::new(); sessions];
    let mut l = 1u32;
    while l <= top {
        let len = 1 + rng.size(3, 9) as u32;
        let e = (l + len - 1).min(top);
        if rng.chance(3, 4) {
            let r = if e == l && rng.chance(2, 3) { LineRange::Single(l) } else { LineRange::Range(l, e) };
            out[rng.below(sessions as u64) as usize].push(r);
        }
        // usually no gap: next range is adjacent
        l = e + 1 + if rng.chance(1, 3) { rng.below(4) as u32 } else { 0 };
    }
    out
}

struct Note {
    log: AuthorshipLog,
    /// why the note is outside C05's well-formedness (None = well-formed)
    outside: Option<&'static str>,
}

fn gen_note(rng: &mut Rng) -> Note {
    let mut log = AuthorshipLog::new();
    let mut outside = None;
    let nf = 1 + rng.size(2, 4) as usize;
    let mut paths: Vec<&str> = PATHS.to_vec();
    for _ in 0..nf {
        let path = if rng.chance(1, 25) && !log.attestations.is_empty() {
            outside = Some("duplicate-file");
            log.attestations[0].file_path.clone()
        } else {
            if paths.is_empty() {
                break;
            }
            paths.remove(rng.below(paths.len() as u64) as usize).to_string()
        };
        let sessions = 1 + rng.size(2, 4) as usize;
        let top = 1 + rng.size(30, 90) as u32;
        let mut per = gen_disjoint(rng, top, sessions);
        match rng.below(30) {
            0 | 1 => {
                // overlap: an arbitrary extra range in some session
                let extra = gen_any_range(rng);
                let k = rng.below(sessions as u64) as usize;
                per[k].push(extra);
                outside = Some("overlapping-ranges");
            }
            2 => {
                // duplicate: repeat a range in some session
                if let Some(r) = per.iter().flatten().next().cloned() {
                    let k = rng.below(sessions as u64) as usize;
                    per[k].push(r);
                    outside = Some("overlapping-ranges");
                }
            }
            _ => {}
        }
        let mut f = FileAttestation::new(path);
        for (k, ranges) in per.into_iter().enumerate() {
            let mut ranges = ranges;
            if rng.chance(1, 4) {
                ranges.reverse(); // order inside an entry must not matter
            }
            let h = HASHES[(k + rng.below(2) as usize) % HASHES.len()].to_string();
            f.add_entry(AttestationEntry::new(h, ranges));
        }
        log.attestations.push(f);
    }
    // a repeated hash inside one file is fine; prompt records for most hashes
    for h in HASHES {
        if rng.chance(5, 6) {
            let (t, m) = rng.pick(TOOLS);
            log.metadata.prompts.insert(h.to_string(), prompt(t, m, rng.below(50) as u32, rng.below(20) as u32, rng.below(6) as u32));
        }
    }
    Note { log, outside }
}

fn gen_added(rng: &mut Rng, note: &AuthorshipLog) -> HashMap<String, Vec<u32>> {
    let mut m = HashMap::new();
    for f in &note.attestations {
        if rng.chance(4, 5) {
            m.insert(f.file_path.clone(), gen_sorted_lines(rng));
        }
    }
    for p in PATHS {
        if rng.chance(1, 5) {
            m.entry(p.to_string()).or_insert_with(|| gen_sorted_lines(rng));
        }
    }
    m
}

// ------------------------------------------------------------------ cases

fn overlap_case(r: &LineRange, added: &[u32], em: &mut Emitter, tag: &str) {
    let (r2, a2) = (r.clone(), added.to_vec());
    let imp = match catch(move || verif_hooks::line_range_overlap_len(&r2, &a2)) {
        Ok(n) => json!({"n": n}),
        Err(_) => json!({"panic": true}),
    };
    let want = added.iter().filter(|l| r.contains(**l)).count() as u64;
    let ok = imp["n"].as_u64() == Some(want);
    let shape = match r {
        LineRange::Single(_) => "single",
        LineRange::Range(s, e) if s > e => "range-descending",
        LineRange::Range(s, e) if s == e => "range-unit",
        _ => "range",
    };
    em.emit(
        "c19",
        json!({"op": "st_overlap", "range": jrange(r), "added": added}),
        imp.clone(),
        vec![oracle("overlap_is_count", ok, json!({"want": want, "got": imp}), "overlap-count")],
        vec![tag.to_string(), format!("overlap:{shape}"), format!("overlap:n={}", want.min(3))],
    );
}

fn accepted_case(log: Option<&AuthorshipLog>, outside: Option<&'static str>, added: &HashMap<String, Vec<u32>>, is_merge: bool, em: &mut Emitter, tag: &str) {
    let (l2, a2) = (log.cloned(), added.clone());
    let res = catch(move || verif_hooks::accepted_lines_from_attestations(l2.as_ref(), &a2, is_merge));
    let imp = match &res {
        Ok((t, per)) => json!({"total": t, "per_tool": per}),
        Err(_) => json!({"overflow": true}),
    };
    let empty = AuthorshipLog::new();
    let lg = log.unwrap_or(&empty);
    // brute force: the set of (file, line) pairs both added and listed, and who lists them
    let mut inter = 0u64;
    let mut missing = 0u64; // lines listed only by entries without a prompt record (WF notes: each line has one entry)
    let mut total_added = 0u64;
    for (path, lines) in added {
        total_added += lines.len() as u64;
        for l in lines {
            let mut listed = false;
            let mut with_prompt = false;
            for f in lg.attestations.iter().filter(|f| &f.file_path == path) {
                for e in &f.entries {
                    if e.line_ranges.iter().any(|r| r.contains(*l)) {
                        listed = true;
                        if lg.metadata.prompts.contains_key(&e.hash) {
                            with_prompt = true;
                        }
                    }
                }
            }
            if listed && !is_merge && log.is_some() {
                inter += 1;
                if !with_prompt {
                    missing += 1;
                }
            }
        }
    }
    let mut oracles = Vec::new();
    let mut tags = vec![tag.to_string()];
    if let Ok((total, per)) = &res {
        let total = *total as u64;
        let per_sum: u64 = per.values().map(|v| *v as u64).sum();
        let detail = json!({"accepted": total, "intersection": inter, "added": total_added, "per_tool_sum": per_sum, "missing_prompt_lines": missing});
        match outside {
            None => {
                oracles.push(oracle("accepted_is_intersection", total == inter, detail.clone(), "accepted-intersection"));
                oracles.push(oracle("accepted_le_added", total <= total_added, detail.clone(), "accepted-exceeds-added"));
                oracles.push(oracle("per_tool_accepted_sum", per_sum + missing == total, detail.clone(), "per-tool-accepted-sum"));
                tags.push("note:well-formed".into());
            }
            Some(why) => {
                // outside C05's WF the sum may only over-count (Lean: witness_double_count)
                oracles.push(oracle("accepted_ge_intersection", total >= inter, detail.clone(), "accepted-below-intersection"));
                tags.push(format!("note:outside:{why}"));
                if total > inter {
                    tags.push("accepted:double-counted".into());
                }
            }
        }
        if is_merge {
            oracles.push(oracle("merge_accepted_zero", total == 0 && per.is_empty(), detail.clone(), "merge-accepted-nonzero"));
        }
        tags.push(format!("accepted:{}", if total == 0 { "zero" } else if total == total_added { "all" } else { "some" }));
        tags.push(format!("prompts-missing:{}", if missing > 0 { "yes" } else { "no" }));
        tags.push(format!("sessions-per-file<={}", lg.attestations.iter().map(|f| f.entries.len()).max().unwrap_or(0).min(5)));
    }
    if is_merge {
        tags.push("merge".into());
    }
    if log.is_none() {
        tags.push("no-note".into());
    }
    em.emit(
        "c19",
        json!({"op": "st_accepted", "has_log": log.is_some(), "files": jfiles(&lg.attestations),
               "prompts": jprompts(&lg.metadata.prompts), "added": jadded(added), "is_merge": is_merge}),
        imp,
        oracles,
        tags,
    );
}

fn strip_time(mut v: Value) -> Value {
    if let Some(o) = v.as_object_mut() {
        o.remove("time_waiting_for_ai");
        if let Some(t) = o.get_mut("tool_model_breakdown").and_then(|t| t.as_object_mut()) {
            for (_, ts) in t.iter_mut() {
                if let Some(ts) = ts.as_object_mut() {
                    ts.remove("time_waiting_for_ai");
                }
            }
        }
    }
    v
}

fn from_log_case(log: Option<&AuthorshipLog>, added: u32, deleted: u32, accepted: u32, by_tool: &BTreeMap<String, u32>, em: &mut Emitter, tag: &str) {
    let (l2, b2) = (log.cloned(), by_tool.clone());
    let res: Result<CommitStats, String> = catch(move || stats_from_authorship_log(l2.as_ref(), added, deleted, accepted, &b2));
    let empty = AuthorshipLog::new();
    let lg = log.unwrap_or(&empty);
    let mut oracles = Vec::new();
    let mut tags = vec![tag.to_string()];
    let imp = match &res {
        Err(_) => {
            tags.push("from_log:overflow".into());
            json!({"overflow": true})
        }
        Ok(s) => {
            let (a, acc) = (added as u64, accepted as u64);
            let sum_over: u64 = lg.metadata.prompts.values().map(|p| p.overriden_lines as u64).sum();
            let cap = a.saturating_sub(acc);
            let cap_fired = sum_over > cap;
            let by_sum: u64 = by_tool.values().map(|v| *v as u64).sum();
            let t = &s.tool_model_breakdown;
            let tsum = |f: &dyn Fn(&git_ai::authorship::stats::ToolModelHeadlineStats) -> u32| -> u64 { t.values().map(|x| f(x) as u64).sum() };
            let d = json!({"stats": strip_time(serde_json::to_value(s).unwrap()), "sum_overriden": sum_over, "cap": cap});
            let fam = if cap_fired { "cap-fired" } else { "cap-idle" };
            if acc <= a {
                oracles.push(oracle("human_plus_accepted", s.human_additions as u64 + acc == a, d.clone(), "human-plus-accepted"));
                oracles.push(oracle("ai_additions_le_added", s.ai_additions as u64 <= a, d.clone(), "ai-additions-exceed-added"));
                if by_sum <= acc {
                    let worst = t.values().map(|x| x.ai_additions as u64).max().unwrap_or(0);
                    oracles.push(oracle("tool_ai_additions_le_added", worst <= a, d.clone(), &format!("per-tool-ai-additions-exceed-added:{fam}")));
                }
            }
            oracles.push(oracle("ai_additions_sum", s.ai_additions as u64 == acc + s.mixed_additions as u64, d.clone(), "ai-additions-sum"));
            oracles.push(oracle("mixed_is_min", s.mixed_additions as u64 == sum_over.min(cap), d.clone(), "mixed-not-min-of-overriden-and-cap"));
            oracles.push(oracle("accepted_passthrough", s.ai_accepted == accepted && s.git_diff_added_lines == added && s.git_diff_deleted_lines == deleted, d.clone(), "passthrough"));
            let tot_a: u64 = lg.metadata.prompts.values().map(|p| p.total_additions as u64).sum();
            let tot_d: u64 = lg.metadata.prompts.values().map(|p| p.total_deletions as u64).sum();
            oracles.push(oracle("totals_are_prompt_sums", s.total_ai_additions as u64 == tot_a && s.total_ai_deletions as u64 == tot_d, d.clone(), "totals-prompt-sums"));
            oracles.push(oracle(
                "tool_totals_sum",
                tsum(&|x| x.total_ai_additions) == s.total_ai_additions as u64 && tsum(&|x| x.total_ai_deletions) == s.total_ai_deletions as u64,
                d.clone(),
                "per-tool-totals-sum",
            ));
            oracles.push(oracle("tool_accepted_sum", tsum(&|x| x.ai_accepted) == by_sum, d.clone(), "per-tool-accepted-sum"));
            oracles.push(oracle("tool_mixed_sum", tsum(&|x| x.mixed_additions) == s.mixed_additions as u64, d.clone(), &format!("per-tool-mixed-sum:{fam}")));
            oracles.push(oracle(
                "tool_ai_additions_sum",
                tsum(&|x| x.ai_additions) == by_sum + s.mixed_additions as u64,
                d.clone(),
                &format!("per-tool-ai-additions-sum:{fam}"),
            ));
            tags.push(format!("from_log:{fam}"));
            tags.push(format!("from_log:accepted{}added", if acc > a { ">" } else if acc == a { "=" } else { "<" }));
            tags.push(format!("from_log:tools={}", t.len().min(4)));
            if by_sum < acc {
                tags.push("from_log:by_tool<accepted".into());
            }
            strip_time(serde_json::to_value(s).unwrap())
        }
    };
    if log.is_none() {
        tags.push("no-note".into());
    }
    let by: Vec<Value> = by_tool.iter().map(|(k, v)| json!([k, v])).collect();
    em.emit(
        "c19",
        json!({"op": "st_from_log", "has_log": log.is_some(), "files": [], "prompts": jprompts(&lg.metadata.prompts),
               "git_added": added, "git_deleted": deleted, "ai_accepted": accepted, "by_tool": by}),
        imp,
        oracles,
        tags,
    );
}

fn gen_from_log(rng: &mut Rng, em: &mut Emitter) {
    let mut log = AuthorshipLog::new();
    let np = rng.size(4, 7);
    let big = rng.chance(1, 40);
    for i in 0..np {
        let (t, m) = rng.pick(TOOLS);
        let ov = match rng.below(10) {
            0 => rng.below(200) as u32,
            1 if big => u32::MAX - rng.below(3) as u32,
            2 | 3 => 0,
            _ => rng.below(8) as u32,
        };
        let ta = if big && rng.chance(1, 3) { u32::MAX - rng.below(5) as u32 } else { rng.below(60) as u32 };
        log.metadata.prompts.insert(format!("{:016x}", i * 7919 + rng.below(5)), prompt(t, m, ta, rng.below(30) as u32, ov));
    }
    let added = if rng.chance(1, 30) { u32::MAX - rng.below(3) as u32 } else { rng.below(40) as u32 };
    let accepted = match rng.below(10) {
        0 => rng.below(60) as u32, // may exceed added
        1 => added,
        2 => 0,
        _ => rng.below(added as u64 + 1) as u32,
    };
    // split accepted over the tools of the note (what accepted_lines_from_attestations returns)
    let mut by_tool: BTreeMap<String, u32> = BTreeMap::new();
    let keys: Vec<String> = log.metadata.prompts.values().map(key_of).collect();
    let mut left = accepted;
    if !keys.is_empty() {
        for _ in 0..3 {
            if left == 0 {
                break;
            }
            let part = if rng.chance(1, 2) { left } else { rng.below(left as u64 + 1) as u32 };
            if part > 0 {
                *by_tool.entry(keys[rng.below(keys.len() as u64) as usize].clone()).or_insert(0) += part;
                left -= part;
            }
        }
    }
    if rng.chance(1, 40) {
        by_tool.insert("ghost::tool".to_string(), 1 + rng.below(3) as u32);
    }
    let use_log = !rng.chance(1, 15);
    if !use_log {
        by_tool.clear();
    }
    from_log_case(if use_log { Some(&log) } else { None }, added, rng.below(30) as u32, accepted, &by_tool, em, "gen-from-log");
}

// ------------------------------------------------------------------ numstat through a stand-in git

struct FakeGit {
    dir: std::path::PathBuf,
    repo: Repository,
    file: std::path::PathBuf,
}

impl FakeGit {
    fn new() -> Option<FakeGit> {
        let dir = std::env::temp_dir().join(format!("vf-c19-{}", std::process::id()));
        let _ = std::fs::remove_dir_all(&dir);
        let home = dir.join("home");
        std::fs::create_dir_all(home.join(".git-ai")).ok()?;
        let script = dir.join("fakegit");
        let file = dir.join("numstat.txt");
        std::fs::write(
            &script,
            "#!/bin/sh\nfor a in \"$@\"; do if [ \"$a\" = \"--numstat\" ]; then exec cat \"$VERIF_NUMSTAT_FILE\"; fi; done\nexec /usr/bin/git \"$@\"\n",
        )
        .ok()?;
        use std::os::unix::fs::PermissionsExt;
        std::fs::set_permissions(&script, std::fs::Permissions::from_mode(0o755)).ok()?;
        std::fs::write(home.join(".git-ai").join("config.json"), json!({"git_path": script.to_string_lossy()}).to_string()).ok()?;
        // the configuration is read once per process, before the first use
        unsafe {
            std::env::set_var("HOME", &home);
            std::env::set_var("GIT_CONFIG_GLOBAL", "/dev/null");
            std::env::set_var("GIT_CONFIG_NOSYSTEM", "1");
            std::env::set_var("VERIF_NUMSTAT_FILE", &file);
            std::env::set_var("GIT_AI_TEST_DB_PATH", dir.join("db"));
        }
        let work = dir.join("repo");
        std::fs::create_dir_all(&work).ok()?;
        let st = std::process::Command::new("/usr/bin/git").args(["init", "-q"]).current_dir(&work).status().ok()?;
        if !st.success() {
            return None;
        }
        let repo = git_ai::git::repository::find_repository_in_path(&work.to_string_lossy()).ok()?;
        Some(FakeGit { dir, repo, file })
    }
}

impl Drop for FakeGit {
    fn drop(&mut self) {
        let _ = std::fs::remove_dir_all(&self.dir);
    }
}

/// a record the generator knows the meaning of
struct Rec {
    counts: Option<(u64, u64)>,
    real: String, // the path as the repository has it (what the ignore patterns are about)
}

fn git_quote(path: &[u8]) -> String {
    // independent of the Lean model: written from git's quote.c
    let needs = path.iter().any(|b| *b < 0x20 || *b == b'"' || *b == b'\\' || *b >= 0x7f);
    if !needs {
        return String::from_utf8_lossy(path).to_string();
    }
    let mut s = String::from("\"");
    for b in path {
        match *b {
            7 => s.push_str("\\a"),
            8 => s.push_str("\\b"),
            9 => s.push_str("\\t"),
            10 => s.push_str("\\n"),
            11 => s.push_str("\\v"),
            12 => s.push_str("\\f"),
            13 => s.push_str("\\r"),
            b'"' => s.push_str("\\\""),
            b'\\' => s.push_str("\\\\"),
            b if b < 0x20 || b >= 0x7f => s.push_str(&format!("\\{:03o}", b)),
            b => s.push(b as char),
        }
    }
    s.push('"');
    s
}

/// (path as git prints it, the real path)
fn gen_numstat_path(rng: &mut Rng) -> (String, String) {
    let real: String = match rng.below(16) {
        0 => "Cargo.lock".into(),
        1 => "sub/dir/yarn.lock".into(),
        2 => "web/node_modules/x/index.js".into(),
        3 => "app.min.js".into(),
        4 => "a\tb.txt".into(),
        5 => "caf\u{e9}.lock".into(),
        6 => "q\"uote\\.rs".into(),
        // not producible with --no-renames, but the parser must treat them as plain names
        7 => "src/{old => new}/mod.rs".into(),
        8 => "a.txt => b.lock".into(),
        9 => "{ => vendor}/lib.go".into(),
        10 => "with space.txt".into(),
        11 => gen_path(rng).replace('\n', "\u{1}"),
        12 => "\u{65e5}\u{672c}/vendor/\u{1f642}.rs".into(),
        13 => "tab\there/x.snap".into(),
        _ => {
            let n = 1 + rng.below(3);
            let mut s = String::new();
            for i in 0..n {
                if i > 0 {
                    s.push('/');
                }
                s.push_str(rng.pick(&["src", "lib", "a", "b", "main.rs", "x.py", "snap.snap", "t.generated.ts", "Gemfile.lock", "3"]));
            }
            s
        }
    };
    (git_quote(real.as_bytes()), real)
}

fn gen_count(rng: &mut Rng, huge: bool) -> u64 {
    match rng.below(12) {
        0 => 0,
        1 if huge => u32::MAX as u64 - rng.below(2),
        2 if huge => 3_000_000_000,
        _ => rng.below(300),
    }
}

fn numstat_case(fg: &FakeGit, text: &str, recs: Option<&[Rec]>, patterns: &[String], em: &mut Emitter, tag: &str) {
    if std::fs::write(&fg.file, text).is_err() {
        return;
    }
    let pats = patterns.to_vec();
    let repo = &fg.repo;
    let res = std::panic::catch_unwind(std::panic::AssertUnwindSafe(|| get_git_diff_stats(repo, "HEAD", &pats)));
    let imp = match &res {
        Err(_) => json!({"overflow": true}),
        Ok(Err(e)) => json!({"err": e.to_string()}),
        Ok(Ok((a, d))) => json!({"added": a, "deleted": d}),
    };
    // the real matcher decides, for every tab-separated piece of every line, whether it is an
    // ignored name; the model picks the piece it considers the file name itself
    let matcher = build_ignore_matcher(patterns);
    let mut ignored: BTreeSet<String> = BTreeSet::new();
    for line in text.lines() {
        for piece in line.split('\t') {
            for cand in [piece.to_string(), git_ai::utils::unescape_git_path(piece)] {
                if should_ignore_file_with_matcher(&cand, &matcher) {
                    ignored.insert(cand);
                }
            }
        }
    }
    let mut oracles = Vec::new();
    let mut tags = vec![tag.to_string(), format!("numstat:patterns={}", patterns.len().min(30))];
    if let Some(recs) = recs {
        // expected totals from the generator's own records
        let (mut ea, mut ed, mut ia, mut id) = (0u64, 0u64, 0u64, 0u64);
        let mut n_ign = 0;
        for r in recs {
            let ig = should_ignore_file_with_matcher(&r.real, &matcher);
            if ig {
                n_ign += 1;
            }
            if let Some((a, d)) = r.counts {
                ia += a;
                id += d;
                if !ig {
                    ea += a;
                    ed += d;
                }
            } else {
                tags.push("numstat:binary".into());
            }
        }
        tags.push(format!("numstat:ignored={}", n_ign.min(3)));
        tags.push(format!("numstat:records={}", recs.len().min(6)));
        if ea > u32::MAX as u64 || ed > u32::MAX as u64 {
            tags.push("numstat:overflow".into());
            oracles.push(oracle("numstat_overflow_detected", imp["overflow"] == true, json!({"impl": imp}), "numstat-overflow-wrapped"));
        } else {
            let ok = imp["added"].as_u64() == Some(ea) && imp["deleted"].as_u64() == Some(ed);
            let leaked = !ok && n_ign > 0 && imp["added"].as_u64() == Some(ia) && imp["deleted"].as_u64() == Some(id);
            oracles.push(oracle(
                "numstat_totals",
                ok,
                json!({"want": [ea, ed], "got": imp, "text": text}),
                if leaked { "numstat-ignored-file-counted" } else { "numstat-totals" },
            ));
        }
    } else {
        tags.push("numstat:malformed-stream".into());
        oracles.push(oracle("numstat_no_error", imp.get("err").is_none(), json!({"impl": imp, "text": text}), "numstat-error"));
    }
    em.emit(
        "c19",
        json!({"op": "st_numstat", "text": text, "ignored": ignored.into_iter().collect::<Vec<_>>()}),
        imp,
        oracles,
        tags,
    );
}

fn gen_numstat(rng: &mut Rng, fg: &FakeGit, em: &mut Emitter) {
    let patterns: Vec<String> = match rng.below(6) {
        0 => vec![],
        1 => vec!["*.txt".to_string(), "src/**".to_string()],
        2 => {
            let mut p = default_ignore_patterns();
            p.push("[".to_string()); // not a valid glob: matched literally
            p
        }
        _ => default_ignore_patterns(),
    };
    if rng.chance(3, 4) {
        let huge = rng.chance(1, 25);
        let n = rng.size(4, 9);
        let mut recs = Vec::new();
        let mut text = String::new();
        for _ in 0..n {
            let (shown, real) = gen_numstat_path(rng);
            if rng.chance(1, 7) {
                text.push_str(&format!("-\t-\t{shown}\n"));
                recs.push(Rec { counts: None, real });
            } else {
                let (a, d) = (gen_count(rng, huge), gen_count(rng, huge));
                text.push_str(&format!("{a}\t{d}\t{shown}\n"));
                recs.push(Rec { counts: Some((a, d)), real });
            }
        }
        numstat_case(fg, &text, Some(&recs), &patterns, em, "gen-numstat");
    } else {
        let n = rng.size(5, 12);
        let mut text = String::new();
        for _ in 0..n {
            match rng.below(16) {
                0 => text.push('\n'),
                1 => text.push_str("   \n"),
                2 => text.push_str("commit message line\n"),
                3 => text.push_str(&format!("{}\t{}\n", rng.below(9), rng.below(9))),
                4 => text.push_str(&format!("+{}\t{}\tp.rs\n", rng.below(9), rng.below(9))),
                5 => text.push_str(&format!("{}\t-\tp.rs\n", rng.below(9))),
                6 => text.push_str(&format!("4294967296\t{}\tbig.rs\n", rng.below(9))),
                7 => text.push_str(&format!("{}\t{}\ta\tb\n", rng.below(9), rng.below(9))),
                8 => text.push_str(&format!("{}\t{}\twin.rs\r\n", rng.below(9), rng.below(9))),
                9 => text.push_str(&format!("{}x\t{}\tjunk.rs\n", rng.below(9), rng.below(9))),
                10 => text.push_str(&format!(" {}\t{}\tlead.rs\n", rng.below(9), rng.below(9))),
                11 => text.push_str(&format!("{}\t{}\t\n", rng.below(9), rng.below(9))),
                12 => text.push_str(&format!("{}\t \t{}\n", rng.below(9), gen_numstat_path(rng).0)),
                13 => text.push_str(&format!("{}\t{}\t{}", rng.below(9), rng.below(9), gen_numstat_path(rng).0)), // no newline
                _ => text.push_str(&format!("{}\t{}\t{}\n", rng.below(90), rng.below(90), gen_numstat_path(rng).0)),
            }
        }
        numstat_case(fg, &text, None, &patterns, em, "gen-numstat-text");
    }
}

/// `unescape_git_path` against the model, and against git's quoting (round trip).
fn unescape_case(text: &str, from_bytes: Option<&[u8]>, em: &mut Emitter, tag: &str) {
    let t = text.to_string();
    let imp = match catch(move || git_ai::utils::unescape_git_path(&t)) {
        Ok(s) => json!({"text": s}),
        Err(_) => json!({"panic": true}),
    };
    let mut oracles = vec![oracle("unescape_no_panic", imp.get("panic").is_none(), json!({"text": text}), "unescape-panic")];
    let mut tags = vec![tag.to_string()];
    if let Some(b) = from_bytes {
        let want = String::from_utf8_lossy(b).to_string();
        oracles.push(oracle("unescape_roundtrip", imp["text"].as_str() == Some(&want), json!({"bytes": b, "printed": text, "got": imp}), "unescape-roundtrip"));
        tags.push(format!("unescape:{}", if std::str::from_utf8(b).is_ok() { "utf8" } else { "invalid-utf8" }));
        tags.push(format!("unescape:{}", if text.starts_with('"') { "quoted" } else { "plain" }));
    }
    em.emit("c19", json!({"op": "st_unescape", "text": text}), imp, oracles, tags);
}

fn gen_unescape(rng: &mut Rng, em: &mut Emitter) {
    if rng.chance(2, 3) {
        // bytes of a path → git's printing → back
        let n = 1 + rng.size(6, 14);
        let mut b: Vec<u8> = Vec::new();
        for _ in 0..n {
            match rng.below(12) {
                0 => b.extend_from_slice("\u{e9}".as_bytes()),
                1 => b.extend_from_slice("\u{65e5}".as_bytes()),
                2 => b.extend_from_slice("\u{1f642}".as_bytes()),
                3 => b.push(rng.below(256) as u8), // often invalid UTF-8
                4 => b.push(rng.pick(&[b'\t', b'"', b'\\', 0x7f, 1, 0x0b, b'\r', b' '])),
                5 => b.push(rng.pick(&[0xc3, 0xe2, 0x82, 0xf0, 0x9f, 0xed, 0xa0, 0xe0, 0x80, 0xf4, 0x90, 0xc0, 0xff])),
                _ => b.push(rng.pick(&[b'a', b'b', b'/', b'.', b'x', b'0', b'7', b'8', b'-'])),
            }
        }
        b.retain(|x| *x != 0 && *x != b'\n');
        let printed = git_quote(&b);
        unescape_case(&printed, Some(&b), em, "gen-unescape-roundtrip");
    } else {
        let n = rng.size(6, 14);
        let mut s = String::new();
        if rng.chance(3, 4) {
            s.push('"');
        }
        for _ in 0..n {
            s.push_str(rng.pick(&[
                "a", "b", "\\", "\\\\", "\\\"", "\"", "\\n", "\\t", "\\q", "\\8", "\\9", "\\0", "\\7", "\\12", "\\303\\251", "\\400",
                "\\777", "\\342\\202", "\\355\\240\\200", "\\1234", "\u{e9}", "\u{1f642}", "8", "0", " ", "\\a\\b\\f\\v\\r", "\\x41",
            ]));
        }
        if rng.chance(3, 4) {
            s.push('"');
        }
        unescape_case(&s, None, em, "gen-unescape-text");
    }
}

pub fn run(seed: u64, count: u64, corpus: Option<&str>, em: &mut Emitter) {
    let fg = FakeGit::new();
    if let Some(path) = corpus {
        if let Ok(f) = std::fs::File::open(path) {
            for line in std::io::BufReader::new(f).lines().map_while(Result::ok) {
                let Ok(v) = serde_json::from_str::<Value>(&line) else { continue };
                match v["kind"].as_str() {
                    Some("overlap") => {
                        let added: Vec<u32> = v["added"].as_array().unwrap().iter().map(|n| n.as_u64().unwrap() as u32).collect();
                        overlap_case(&range_of(&v["range"]), &added, em, "corpus-overlap");
                    }
                    Some("accepted") => {
                        let mut log = AuthorshipLog::new();
                        log.attestations = files_of(&v["files"]);
                        log.metadata.prompts = prompts_of(&v["prompts"]);
                        let outside = match v["outside"].as_str() {
                            Some("overlapping-ranges") => Some("overlapping-ranges"),
                            Some("duplicate-file") => Some("duplicate-file"),
                            _ => None,
                        };
                        accepted_case(Some(&log), outside, &added_of(&v["added"]), v["is_merge"].as_bool().unwrap_or(false), em, "corpus-accepted");
                    }
                    Some("from_log") => {
                        let mut log = AuthorshipLog::new();
                        log.metadata.prompts = prompts_of(&v["prompts"]);
                        let by: BTreeMap<String, u32> = v["by_tool"].as_array().unwrap().iter().map(|p| (p[0].as_str().unwrap().to_string(), p[1].as_u64().unwrap() as u32)).collect();
                        from_log_case(
                            if v["has_log"].as_bool().unwrap_or(true) { Some(&log) } else { None },
                            v["git_added"].as_u64().unwrap() as u32,
                            v["git_deleted"].as_u64().unwrap() as u32,
                            v["ai_accepted"].as_u64().unwrap() as u32,
                            &by,
                            em,
                            "corpus-from-log",
                        );
                    }
                    Some("unescape") => unescape_case(v["text"].as_str().unwrap(), None, em, "corpus-unescape"),
                    Some("numstat") => {
                        if let Some(fg) = &fg {
                            let pats: Vec<String> = match v.get("patterns") {
                                Some(Value::Array(a)) => a.iter().map(|p| p.as_str().unwrap().to_string()).collect(),
                                _ => default_ignore_patterns(),
                            };
                            numstat_case(fg, v["text"].as_str().unwrap(), None, &pats, em, "corpus-numstat");
                        }
                    }
                    _ => {}
                }
            }
        }
    }
    // `Rng::new(s + d)` is `Rng::new(s)` advanced by d draws: scramble the seed so that nearby
    // seeds give unrelated streams
    let mut rng = {
        let mut r = Rng::new(seed);
        let (a, b) = (r.next(), r.next());
        Rng(a ^ b.rotate_left(17) ^ seed.wrapping_mul(0xD6E8_FEB8_6659_FD93))
    };
    for i in 0..count {
        match i % 9 {
            8 => gen_unescape(&mut rng, em),
            0 => {
                let added = gen_sorted_lines(&mut rng);
                // mostly ranges whose ends sit on or next to added lines (the boundary cases)
                let r = if !added.is_empty() && rng.chance(3, 4) {
                    let near = |rng: &mut Rng| -> u32 {
                        let v = added[rng.below(added.len() as u64) as usize];
                        match rng.below(4) {
                            0 => v.saturating_sub(1),
                            1 => v.saturating_add(1),
                            _ => v,
                        }
                    };
                    if rng.chance(1, 3) {
                        LineRange::Single(near(&mut rng))
                    } else {
                        let (a, b) = (near(&mut rng), near(&mut rng));
                        if rng.chance(9, 10) { LineRange::Range(a.min(b), a.max(b)) } else { LineRange::Range(a.max(b), a.min(b)) }
                    }
                } else {
                    gen_any_range(&mut rng)
                };
                overlap_case(&r, &added, em, "gen-overlap");
            }
            1 | 2 | 3 => {
                let note = gen_note(&mut rng);
                let added = gen_added(&mut rng, &note.log);
                let is_merge = rng.chance(1, 20);
                let no_log = rng.chance(1, 30);
                accepted_case(if no_log { None } else { Some(&note.log) }, note.outside, &added, is_merge, em, "gen-accepted");
            }
            4 | 5 | 6 => gen_from_log(&mut rng, em),
            _ => match &fg {
                Some(fg) => gen_numstat(&mut rng, fg, em),
                None => em.emit("c19", Value::Null, json!({"setup": "failed"}), vec![oracle("fake_git_setup", false, json!(null), "harness-setup")], vec!["setup-failed".into()]),
            },
        }
    }
}
