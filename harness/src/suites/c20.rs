//! C20 — agent hook ingestion: path routing, the pathspec filter of checkpoint::run, the
//! agent-v1 decoder, serde's compact writer and the JSONL framing of the working log.
//! Real code: git::repository::{find_repository_for_file, group_files_by_repository,
//! find_repository_in_path, Repository::path_is_in_workdir}, commands::checkpoint::run,
//! checkpoint_agent::agent_v1_preset::AgentV1Preset, repo_storage::{write,read}_all_checkpoints.
//!
//! Directory trees with repositories (nested, siblings with a common string prefix, submodule,
//! bare, none) are materialised in a scratch directory outside /repo and /verif and removed
//! afterwards; the same abstract tree is sent to the Lean model.
use crate::common::*;
use git_ai::authorship::working_log::{Checkpoint, CheckpointKind, WorkingLogEntry};
use git_ai::commands::checkpoint_agent::agent_presets::{
    AgentCheckpointFlags, AgentCheckpointPreset, AgentRunResult,
};
use git_ai::commands::checkpoint_agent::agent_v1_preset::AgentV1Preset;
use git_ai::git::repository::{
    Repository, find_repository_for_file, find_repository_in_path, group_files_by_repository,
};
use serde_json::{Value, json};
use std::collections::BTreeSet;
use std::io::BufRead;
use std::path::{Path, PathBuf};
use std::process::Command;

// ------------------------------------------------------------------ independent path helpers

/// canonical text of a path string as the model prints it: components joined by `/`,
/// empty and `.` components dropped, leading `/` kept.
fn canon(s: &str) -> String {
    let all: Vec<&str> = s.split('/').filter(|c| !c.is_empty()).collect();
    let comps: Vec<&str> = all.iter().copied().filter(|c| *c != ".").collect();
    let body = comps.join("/");
    if s.starts_with('/') {
        format!("/{body}")
    } else if all.first() == Some(&".") {
        // a relative path keeps its leading CurDir component
        if body.is_empty() { ".".to_string() } else { format!("./{body}") }
    } else {
        body
    }
}

/// independent lexical normaliser (components, `..` pops, root stays)
fn lexical(s: &str) -> Vec<String> {
    let mut out: Vec<String> = Vec::new();
    for c in s.split('/') {
        match c {
            "" | "." => {}
            ".." => {
                out.pop();
            }
            x => out.push(x.to_string()),
        }
    }
    out
}

fn comps_of(p: &Path) -> Vec<String> {
    lexical(&p.to_string_lossy())
}

fn is_comp_prefix(a: &[String], b: &[String]) -> bool {
    a.len() <= b.len() && a.iter().zip(b.iter()).all(|(x, y)| x == y)
}

// ------------------------------------------------------------------ layouts

#[derive(Clone, Copy, PartialEq, Debug)]
enum Kind {
    Normal,
    Submodule,
    Bare,
}

struct Layout {
    top: String,                 // absolute, canonical
    dirs: Vec<String>,           // absolute existing directories below (and including) top
    files: Vec<String>,          // absolute existing regular files
    roots: Vec<(String, Kind)>,  // absolute
    ancestors: Vec<String>,      // directories above top (for the model's tree)
    dirty: Vec<(String, Vec<String>)>, // per normal root: changed text files (root-relative)
    symlinks: Vec<(String, String)>,   // (link path, target) — oracle-only stream
    tag: String,
}

fn git(dir: &str, args: &[&str]) -> bool {
    Command::new("git")
        .arg("-C")
        .arg(dir)
        .args(args)
        .output()
        .map(|o| o.status.success())
        .unwrap_or(false)
}

fn write(path: &str, content: &str) {
    if let Some(p) = Path::new(path).parent() {
        let _ = std::fs::create_dir_all(p);
    }
    std::fs::write(path, content).unwrap();
}

/// candidate directories (relative to the layout top) and the root kinds they may take
const CANDIDATES: &[(&str, &[Option<Kind>])] = &[
    ("repo", &[Some(Kind::Normal), Some(Kind::Normal), Some(Kind::Normal), None]),
    ("repo/src", &[None]),
    ("repo/src/deep", &[None]),
    ("repo/in", &[Some(Kind::Normal), Some(Kind::Normal), None]),
    ("repo/in/lib", &[None]),
    ("repo/sub", &[Some(Kind::Submodule), Some(Kind::Submodule), None]),
    ("repo2", &[Some(Kind::Normal), Some(Kind::Normal), None]),
    ("repo2/lib", &[None]),
    ("repo-x", &[Some(Kind::Normal), None]),
    ("bare.git", &[Some(Kind::Bare), Some(Kind::Bare), None]),
    ("plain", &[None]),
    ("plain/d", &[None, Some(Kind::Normal)]),
];

fn build_layout(rng: &mut Rng, scratch: &str, idx: u64, full: bool) -> Layout {
    let top = format!("{scratch}/ws{idx}");
    std::fs::create_dir_all(&top).unwrap();
    let mut dirs = vec![top.clone()];
    let mut files = Vec::new();
    let mut roots: Vec<(String, Kind)> = Vec::new();
    let mut tagbits = Vec::new();
    // sometimes the workspace top is itself a repository
    let top_is_repo = !full && rng.chance(1, 5);
    if top_is_repo {
        roots.push((top.clone(), Kind::Normal));
        tagbits.push("top-repo");
    }
    for (rel, kinds) in CANDIDATES {
        let parent_rel = rel.rsplit_once('/').map(|x| x.0);
        let parent_abs = match parent_rel {
            Some(p) => format!("{top}/{p}"),
            None => top.clone(),
        };
        if !dirs.contains(&parent_abs) {
            continue;
        }
        if !full && !rng.chance(4, 5) {
            continue;
        }
        let abs = format!("{top}/{rel}");
        let mut kind = if full { kinds[0] } else { rng.pick(kinds) };
        if kind == Some(Kind::Submodule) {
            // needs a normal root strictly above
            let outer = roots
                .iter()
                .filter(|(r, k)| *k == Kind::Normal && abs.starts_with(&format!("{r}/")))
                .map(|(r, _)| r.clone())
                .max_by_key(|r| r.len());
            if outer.is_none() {
                kind = None;
            }
        }
        if kind == Some(Kind::Bare) && roots.iter().any(|(r, k)| *k != Kind::Bare && abs.starts_with(&format!("{r}/"))) {
            // a bare repository inside a work tree is just untracked content of that work tree
            // (HEAD, config, hooks/… would all count as changed files): keep it out of the layouts
            kind = None;
        }
        std::fs::create_dir_all(&abs).unwrap();
        dirs.push(abs.clone());
        if let Some(k) = kind {
            roots.push((abs, k));
        }
    }
    // materialise repositories (outer before inner: the list is in that order already)
    for (r, k) in &roots {
        match k {
            Kind::Normal => {
                assert!(git(r, &["init", "-q", "-b", "main"]));
            }
            Kind::Bare => {
                assert!(git(r, &["init", "-q", "--bare"]));
            }
            Kind::Submodule => {
                let outer = roots
                    .iter()
                    .filter(|(o, ok)| *ok == Kind::Normal && r.starts_with(&format!("{o}/")))
                    .map(|(o, _)| o.clone())
                    .max_by_key(|o| o.len())
                    .unwrap();
                let name = r.rsplit('/').next().unwrap();
                let gd = format!("{outer}/.git/modules/{name}");
                std::fs::create_dir_all(format!("{outer}/.git/modules")).unwrap();
                assert!(git(r, &["init", "-q", "-b", "main", &format!("--separate-git-dir={gd}")]));
            }
        }
    }
    // files: every directory gets f.txt; work trees additionally clean.txt (committed) and
    // new.txt (untracked); f.txt is committed then modified in work trees
    let mut dirty = Vec::new();
    for d in &dirs {
        let f = format!("{d}/f.txt");
        write(&f, "base\n");
        files.push(f);
    }
    for (r, k) in &roots {
        if *k == Kind::Bare {
            continue;
        }
        write(&format!("{r}/clean.txt"), "clean\n");
        files.push(format!("{r}/clean.txt"));
        // commit the files that belong to this work tree (not those of nested roots)
        let mut own: Vec<String> = Vec::new();
        for f in &files {
            if let Some(rel) = f.strip_prefix(&format!("{r}/")) {
                let fc = lexical(f);
                let inner = roots.iter().any(|(o, ok)| {
                    o != r && *ok != Kind::Bare && o.len() > r.len() && is_comp_prefix(&lexical(o), &fc)
                }) || roots.iter().any(|(o, ok)| *ok == Kind::Bare && is_comp_prefix(&lexical(o), &fc));
                if !inner {
                    own.push(rel.to_string());
                }
            }
        }
        for rel in &own {
            git(r, &["add", "--", rel]);
        }
        git(r, &["-c", "user.name=V", "-c", "user.email=v@example.com", "commit", "-q", "-m", "base"]);
        let mut changed = Vec::new();
        for rel in &own {
            if rel.ends_with("f.txt") {
                write(&format!("{r}/{rel}"), "base\nedited\n");
                changed.push(rel.clone());
            }
        }
        write(&format!("{r}/new.txt"), "new file\n");
        files.push(format!("{r}/new.txt"));
        changed.push("new.txt".to_string());
        changed.sort();
        if *k == Kind::Normal {
            dirty.push((r.clone(), changed));
        }
    }
    // a couple of symlinks for the oracle-only stream (not part of the model's tree)
    let mut symlinks = Vec::new();
    if dirs.contains(&format!("{top}/repo")) && dirs.contains(&format!("{top}/repo2")) {
        let l = format!("{top}/repo/link2");
        if std::os::unix::fs::symlink(format!("{top}/repo2"), &l).is_ok() {
            symlinks.push((l, format!("{top}/repo2")));
        }
    }
    if dirs.contains(&format!("{top}/plain")) && dirs.contains(&format!("{top}/repo")) {
        let l = format!("{top}/plain/into");
        if std::os::unix::fs::symlink(format!("{top}/repo"), &l).is_ok() {
            symlinks.push((l, format!("{top}/repo")));
        }
    }
    let mut ancestors = Vec::new();
    let mut cur = PathBuf::from(&top);
    while let Some(p) = cur.parent() {
        if p.as_os_str() == "/" {
            break;
        }
        ancestors.push(p.to_string_lossy().to_string());
        cur = p.to_path_buf();
    }
    let mut kinds: Vec<&str> = roots
        .iter()
        .map(|(_, k)| match k {
            Kind::Normal => "n",
            Kind::Submodule => "s",
            Kind::Bare => "b",
        })
        .collect();
    kinds.sort();
    let nested = roots.iter().any(|(a, ka)| {
        *ka == Kind::Normal && roots.iter().any(|(b, kb)| *kb == Kind::Normal && a != b && b.starts_with(&format!("{a}/")))
    });
    let tag = format!(
        "layout:roots={}{}{}",
        kinds.join(""),
        if nested { ":nested" } else { "" },
        if tagbits.is_empty() { "" } else { ":top-repo" }
    );
    Layout { top, dirs, files, roots, ancestors, dirty, symlinks, tag }
}

fn fs_json(l: &Layout) -> Value {
    let mut dirs: Vec<String> = l.ancestors.clone();
    dirs.extend(l.dirs.iter().cloned());
    let roots: Vec<Value> = l
        .roots
        .iter()
        .map(|(r, k)| {
            json!([r, match k {
                Kind::Normal => "normal",
                Kind::Submodule => "submodule",
                Kind::Bare => "bare",
            }])
        })
        .collect();
    json!({"dirs": dirs, "files": l.files, "roots": roots})
}

// ------------------------------------------------------------------ path generation

/// an absolute or relative (to `base`) path string with a tag naming its shape
fn gen_path(rng: &mut Rng, l: &Layout, base: Option<&str>) -> (String, String) {
    let d = l.dirs[rng.below(l.dirs.len() as u64) as usize].clone();
    let leaf = rng.pick(&["f.txt", "f.txt", "clean.txt", "new.txt", "missing.txt", "nodir/deep/x.txt", ""]);
    if rng.chance(1, 60) {
        // longer than any platform limit: refused before the upward walk
        return (format!("{d}{}", "/x".repeat(17000 + rng.below(4000) as usize)), "abs:too-long".to_string());
    }
    let (mut p, mut tag) = match rng.below(12) {
        0 => (format!("{}/outside{}/x.txt", Path::new(&l.top).parent().unwrap().display(), rng.below(2)), "outside-everything".to_string()),
        1 => ("/definitely/not/here.txt".to_string(), "outside-everything".to_string()),
        2 => (d.clone(), "directory".to_string()),
        _ => {
            if leaf.is_empty() {
                (d.clone(), "directory".to_string())
            } else {
                (
                    format!("{d}/{leaf}"),
                    if leaf.contains("missing") || leaf.contains("nodir") { "missing-file" } else { "existing-file" }.to_string(),
                )
            }
        }
    };
    // decorations
    match rng.below(10) {
        0 => {
            // detour through an existing sibling directory and back
            if let Some((dir, name)) = p.rsplit_once('/') {
                let sib = l.dirs.iter().find(|x| x.starts_with(&format!("{dir}/")) && x[dir.len() + 1..].find('/').is_none());
                if let Some(sib) = sib {
                    let s = &sib[dir.len() + 1..];
                    p = format!("{dir}/{s}/../{name}");
                    tag.push_str("+dotdot-existing");
                }
            }
        }
        1 => {
            // `..` through a directory that does not exist
            if let Some((dir, name)) = p.rsplit_once('/') {
                p = format!("{dir}/nodir/../{name}");
                tag.push_str("+dotdot-missing");
            }
        }
        2 => {
            // up and over into a sibling tree through a missing directory
            let other = l.dirs[rng.below(l.dirs.len() as u64) as usize].clone();
            let rel_other = other.strip_prefix(&format!("{}/", l.top)).unwrap_or("").to_string();
            if !rel_other.is_empty() && d != l.top {
                let depth = d[l.top.len()..].matches('/').count();
                let ups = "../".repeat(depth + 1);
                p = format!("{d}/nodir/{ups}{rel_other}/f.txt");
                tag = "missing-file+dotdot-missing-escape".to_string();
            }
        }
        3 => {
            // up and over through existing directories
            let other = l.dirs[rng.below(l.dirs.len() as u64) as usize].clone();
            let rel_other = other.strip_prefix(&format!("{}/", l.top)).unwrap_or("").to_string();
            if !rel_other.is_empty() && d != l.top {
                let depth = d[l.top.len()..].matches('/').count();
                let ups = "../".repeat(depth);
                p = format!("{d}/{ups}{rel_other}/f.txt");
                tag = "existing-file+dotdot-escape".to_string();
            }
        }
        4 => {
            p = p.replacen('/', "//", 2);
            if let Some((dir, name)) = p.rsplit_once('/') {
                p = format!("{dir}/./{name}");
            }
            tag.push_str("+slashes-dots");
        }
        _ => {}
    }
    if let Some(b) = base {
        if rng.chance(1, 2) {
            // make it relative to base when it lies below base lexically, else climb
            if let Some(rel) = p.strip_prefix(&format!("{b}/")) {
                return (rel.to_string(), format!("rel:{tag}"));
            }
            let depth = b[l.top.len().min(b.len())..].matches('/').count();
            if p.starts_with(&format!("{}/", l.top)) && b.starts_with(&l.top) {
                let ups = "../".repeat(depth);
                return (format!("{ups}{}", &p[l.top.len() + 1..]), format!("rel-up:{tag}"));
            }
        }
    }
    (p, format!("abs:{tag}"))
}

// ------------------------------------------------------------------ cases

fn workdir_str(r: &Repository) -> Option<String> {
    r.workdir().ok().map(|p| canon(&p.to_string_lossy()))
}

/// independent expectation for find_repository_for_file when the containing directory exists
fn expected_innermost(l: &Layout, path: &str, boundary: Option<&str>) -> Option<Option<String>> {
    let p = Path::new(path);
    let start = if p.is_dir() { p.to_path_buf() } else { p.parent()?.to_path_buf() };
    let c = start.canonicalize().ok()?;
    let cc = comps_of(&c);
    let bc = boundary.map(|b| comps_of(&Path::new(b).canonicalize().unwrap_or(PathBuf::from(b))));
    let mut best: Option<String> = None;
    for (r, k) in &l.roots {
        if *k != Kind::Normal {
            continue;
        }
        let rc = lexical(r);
        if is_comp_prefix(&rc, &cc) && best.as_ref().is_none_or(|b| lexical(b).len() < rc.len()) {
            best = Some(r.clone());
        }
    }
    // a boundary cuts off everything not below it
    if let (Some(b), Some(bc)) = (&best, &bc) {
        if !is_comp_prefix(bc, &lexical(b)) {
            best = None;
        }
    }
    if let Some(bc) = &bc {
        if !is_comp_prefix(bc, &cc) {
            best = None;
        }
    }
    Some(best)
}

fn find_case(rng: &mut Rng, l: &Layout, fsj: &Value, em: &mut Emitter, forced: Option<(String, Option<String>)>) {
    let (path, tag) = match &forced {
        Some((p, _)) => (p.clone(), "corpus".to_string()),
        None => gen_path(rng, l, None),
    };
    let boundary: Option<String> = match &forced {
        Some((_, b)) => b.clone(),
        None => match rng.below(4) {
            0 => Some(l.top.clone()),
            1 => Some(l.dirs[rng.below(l.dirs.len() as u64) as usize].clone()),
            _ => None,
        },
    };
    let (p2, b2) = (path.clone(), boundary.clone());
    let res = catch(move || find_repository_for_file(&p2, b2.as_deref()).ok().and_then(|r| workdir_str(&r).map(|w| (w, r))));
    let (imp, repo) = match res {
        Err(m) => (json!({"panic": m}), None),
        Ok(None) => (json!({"root": null}), None),
        Ok(Some((w, r))) => (json!({"root": w}), Some(r)),
    };
    let mut oracles = vec![oracle("no_panic", imp.get("panic").is_none(), json!({"path": path}), "routing-panic")];
    let lex = lexical(&path);
    if let Some(r) = &repo {
        let w = workdir_str(r).unwrap();
        let wc = lexical(&w);
        // what matters for the property: a repository that ALSO accepts the path must contain it
        let accepted = r.path_is_in_workdir(Path::new(&path));
        let physical = Path::new(&path).canonicalize().ok().map(|c| comps_of(&c));
        let contained = match &physical {
            Some(pc) => is_comp_prefix(&wc, pc),
            None => is_comp_prefix(&wc, &lex),
        };
        oracles.push(oracle(
            "accepted_implies_contained",
            !accepted || contained,
            json!({"path": path, "root": w}),
            "routed-to-non-containing-repo",
        ));
        let string_only = path.starts_with(&w) && !is_comp_prefix(&wc, &lex) && physical.is_some();
        oracles.push(oracle("not_string_prefix", !string_only, json!({"path": path, "root": w}), "routed-by-string-prefix"));
        let is_root = l.roots.iter().any(|(x, k)| *k == Kind::Normal && canon(x) == w);
        oracles.push(oracle("answer_is_work_tree_root", is_root, json!({"path": path, "root": w}), "routed-to-non-root"));
    }
    if path.len() > 32 * 1024 {
        oracles.push(oracle("over_long_path_is_orphan", repo.is_none(), json!({"path_len": path.len()}), "over-long-path-routed"));
    }
    if let Some(exp) = expected_innermost(l, &path, boundary.as_deref()) {
        let got = imp.get("root").and_then(|v| v.as_str()).map(|s| s.to_string());
        let sig = if exp.is_none() { "orphan-routed" } else { "not-innermost-root" };
        oracles.push(oracle(
            "innermost_or_orphan",
            imp.get("panic").is_some() || got == exp.as_ref().map(|e| canon(e)),
            json!({"path": path, "boundary": boundary, "expected": exp, "got": got}),
            sig,
        ));
    }
    let res_tag = if imp["root"].is_string() { "routed" } else { "orphan" };
    em.emit(
        "c20",
        json!({"op": "rt_find_repo", "fs": fsj, "file": path, "boundary": boundary}),
        imp,
        oracles,
        vec!["find".into(), tag, format!("find:{res_tag}"), format!("boundary={}", boundary.is_some()), l.tag.clone()],
    );
}

fn group_case(rng: &mut Rng, l: &Layout, fsj: &Value, em: &mut Emitter) {
    let n = 1 + rng.size(4, 12);
    let paths: Vec<String> = (0..n).map(|_| gen_path(rng, l, None).0).collect();
    let boundary: Option<String> = if rng.chance(1, 3) { Some(l.top.clone()) } else { None };
    let (p2, b2) = (paths.clone(), boundary.clone());
    let res = catch(move || {
        let (groups, orphans) = group_files_by_repository(&p2, b2.as_deref());
        let mut assign: Vec<Option<String>> = vec![None; p2.len()];
        let mut seen = vec![0usize; p2.len()];
        for (wd, (_, files)) in &groups {
            for f in files {
                for (i, p) in p2.iter().enumerate() {
                    if p == f {
                        assign[i] = Some(canon(&wd.to_string_lossy()));
                        seen[i] += 1;
                    }
                }
            }
        }
        (assign, groups.len(), orphans, seen)
    });
    match res {
        Err(m) => em.emit("c20", Value::Null, json!({"panic": m}), vec![oracle("no_panic", false, json!({"paths": paths}), "routing-panic")], vec!["group".into()]),
        Ok((assign, ngroups, orphans, _seen)) => {
            // every input is either in a group or an orphan, never both
            let mut ok = true;
            for (i, p) in paths.iter().enumerate() {
                let in_orph = orphans.contains(p);
                if assign[i].is_some() == in_orph {
                    ok = false;
                }
            }
            em.emit(
                "c20",
                json!({"op": "rt_group", "fs": fsj, "files": paths, "boundary": boundary}),
                json!({"assign": assign, "groups": ngroups}),
                vec![oracle("partition", ok, json!({"paths": paths, "orphans": orphans}), "orphan-recorded")],
                vec!["group".into(), format!("group:n={}", ngroups.min(4)), l.tag.clone()],
            );
        }
    }
}

fn inwd_case(rng: &mut Rng, l: &Layout, fsj: &Value, repos: &[(String, Repository)], em: &mut Emitter) {
    if repos.is_empty() {
        return;
    }
    let (root, repo) = &repos[rng.below(repos.len() as u64) as usize];
    let (path, tag) = gen_path(rng, l, Some(root));
    let full = if path.starts_with('/') { path.clone() } else { format!("{root}/{path}") };
    let got = repo.path_is_in_workdir(Path::new(&full));
    let physical = Path::new(&full).canonicalize().ok().map(|c| comps_of(&c));
    let rc = lexical(root);
    let contained = match &physical {
        Some(pc) => is_comp_prefix(&rc, pc),
        None => is_comp_prefix(&rc, &lexical(&full)),
    };
    em.emit(
        "c20",
        json!({"op": "rt_in_workdir", "fs": fsj, "root": root, "path": path}),
        json!({"in": got}),
        vec![
            oracle("in_implies_contained", !got || contained, json!({"root": root, "path": path}), "in-workdir-but-outside"),
            oracle("contained_implies_in", got || !contained, json!({"root": root, "path": path}), "contained-but-rejected"),
        ],
        vec!["inwd".into(), tag, format!("inwd:{got}"), l.tag.clone()],
    );
}

fn read_entries(repo: &Repository) -> Result<Vec<String>, String> {
    let base = match repo.head() {
        Ok(h) => h.target().unwrap_or_else(|_| "initial".to_string()),
        Err(_) => "initial".to_string(),
    };
    let wl = repo.storage.working_log_for_base_commit(&base);
    let cps = wl.read_all_checkpoints().map_err(|e| e.to_string())?;
    let mut out = BTreeSet::new();
    for c in cps {
        for e in c.entries {
            out.insert(e.file);
        }
    }
    Ok(out.into_iter().collect())
}

fn wipe_working_logs(repo: &Repository) {
    let d = repo.path().join("ai").join("working_logs");
    let _ = std::fs::remove_dir_all(d);
}

fn run_case(rng: &mut Rng, l: &Layout, fsj: &Value, repos: &[(String, Repository)], em: &mut Emitter, forced: Option<(usize, Vec<String>)>) {
    if repos.is_empty() {
        return;
    }
    let (ri, paths, ptags) = match forced {
        Some((i, p)) => (i.min(repos.len() - 1), p, vec!["corpus".to_string()]),
        None => {
            let ri = rng.below(repos.len() as u64) as usize;
            let n = 1 + rng.size(2, 5);
            let mut ps = Vec::new();
            let mut ts = Vec::new();
            let all_outside = rng.chance(1, 6);
            let own_dirty: Vec<String> = l.dirty.iter().find(|(r, _)| *r == repos[ri].0).map(|(_, d)| d.clone()).unwrap_or_default();
            for _ in 0..n {
                let (mut p, mut t) = gen_path(rng, l, Some(&repos[ri].0));
                if !all_outside && !own_dirty.is_empty() && rng.chance(1, 2) {
                    // a changed file of this very repository, in one of several spellings
                    let d = &own_dirty[rng.below(own_dirty.len() as u64) as usize];
                    let root = &repos[ri].0;
                    let (dir, name) = d.rsplit_once('/').map(|(a, b)| (format!("{a}/"), b.to_string())).unwrap_or((String::new(), d.clone()));
                    (p, t) = match rng.below(6) {
                        0 => (d.clone(), "rel:own-dirty".to_string()),
                        1 => (format!("{root}/{d}"), "abs:own-dirty".to_string()),
                        2 => (format!("{dir}nodir/../{name}"), "rel:own-dirty+dotdot-missing".to_string()),
                        3 => (format!("{root}/{dir}./{name}"), "abs:own-dirty+slashes-dots".to_string()),
                        4 => (if dir.is_empty() { ".".to_string() } else { dir.trim_end_matches('/').to_string() }, "rel:own-dirty-dir".to_string()),
                        _ => (format!("{root}/../{}/{d}", root.rsplit('/').next().unwrap()), "abs:own-dirty+dotdot-escape-back".to_string()),
                    };
                }
                if all_outside {
                    let full = if p.starts_with('/') { p.clone() } else { format!("{}/{p}", repos[ri].0) };
                    if is_comp_prefix(&lexical(&repos[ri].0), &lexical(&full)) {
                        continue;
                    }
                }
                // git pathspec magic is outside the modelled domain
                ps.push(p);
                ts.push(t);
            }
            if ps.is_empty() {
                ps.push("/definitely/not/here.txt".into());
                ts.push("abs:outside-everything".into());
            }
            (ri, ps, ts)
        }
    };
    let (root, repo) = &repos[ri];
    wipe_working_logs(repo);
    let dirty: Vec<String> = l.dirty.iter().find(|(r, _)| r == root).map(|(_, d)| d.clone()).unwrap_or_default();
    let human = rng.chance(1, 4);
    let arr = AgentRunResult {
        agent_id: git_ai::authorship::working_log::AgentId { tool: "verif".into(), id: format!("s{}", em.n), model: "m".into() },
        agent_metadata: None,
        checkpoint_kind: if human { CheckpointKind::Human } else { CheckpointKind::AiAgent },
        transcript: None,
        repo_working_dir: Some(root.clone()),
        edited_filepaths: if human { None } else { Some(paths.clone()) },
        will_edit_filepaths: if human { Some(paths.clone()) } else { None },
        dirty_files: None,
    };
    let kind = arr.checkpoint_kind;
    let r2 = repo.clone();
    let res = catch(std::panic::AssertUnwindSafe(move || {
        git_ai::commands::checkpoint::run(&r2, "Verif", kind, false, false, true, Some(arr), false).map_err(|e| e.to_string())
    }));
    let (imp, mut oracles) = match res {
        Err(m) => (json!({"panic": m}), vec![oracle("no_panic", false, json!({"root": root, "paths": paths}), "checkpoint-run-panic")]),
        Ok(Err(_)) => (json!({"entries": null}), vec![]),
        Ok(Ok(_)) => match read_entries(repo) {
            Ok(es) => (json!({"entries": es}), vec![]),
            Err(e) => (json!({"entries": "unreadable"}), vec![oracle("working_log_readable", false, json!({"err": e}), "working-log-unreadable")]),
        },
    };
    // property oracle, independent of the model: every recorded file was named (exactly, or
    // through a named ancestor directory), by a path that lies inside this repository
    if let Some(es) = imp.get("entries").and_then(|e| e.as_array()) {
        let rc = lexical(root);
        let named: Vec<Vec<String>> = paths
            .iter()
            .map(|p| if p.starts_with('/') { p.clone() } else { format!("{root}/{p}") })
            .map(|f| Path::new(&f).canonicalize().ok().map(|c| comps_of(&c)).unwrap_or_else(|| lexical(&f)))
            .collect();
        let mut bad = Vec::new();
        for e in es {
            let mut ec = rc.clone();
            ec.extend(lexical(e.as_str().unwrap_or("")));
            if !named.iter().any(|n| is_comp_prefix(&rc, n) && is_comp_prefix(n, &ec)) {
                bad.push(e.clone());
            }
        }
        let any_inside = named.iter().any(|n| is_comp_prefix(&rc, n));
        let sig = if any_inside { "unnamed-file-recorded" } else { "unnamed-file-recorded:all-named-paths-outside" };
        oracles.push(oracle("only_named_files_recorded", bad.is_empty(), json!({"root": root, "paths": paths, "unnamed": bad}), sig));
    }
    wipe_working_logs(repo);
    let n_entries = imp.get("entries").and_then(|e| e.as_array()).map(|a| a.len().min(3) as i64).unwrap_or(-1);
    let mut tags = vec!["run".to_string(), format!("run:entries={n_entries}"), format!("run:human={human}"), l.tag.clone()];
    tags.extend(ptags);
    em.emit("c20", json!({"op": "rt_run", "fs": fsj, "root": root, "paths": paths, "dirty": dirty}), imp, oracles, tags);
}

/// oracle-only: paths through symbolic links (outside the model's domain)
fn symlink_case(rng: &mut Rng, l: &Layout, repos: &[(String, Repository)], em: &mut Emitter) {
    if l.symlinks.is_empty() {
        return;
    }
    let (link, _target) = &l.symlinks[rng.below(l.symlinks.len() as u64) as usize];
    let leaf = rng.pick(&["f.txt", "missing.txt", "lib/f.txt", "../f.txt"]);
    let path = format!("{link}/{leaf}");
    let p2 = path.clone();
    let res = catch(move || find_repository_for_file(&p2, None).ok());
    let mut oracles = vec![];
    let mut imp = json!({"root": null});
    match res {
        Err(m) => oracles.push(oracle("no_panic", false, json!({"path": path, "panic": m}), "routing-panic")),
        Ok(Some(r)) => {
            let w = workdir_str(&r).unwrap_or_default();
            imp = json!({"root": w});
            let accepted = r.path_is_in_workdir(Path::new(&path));
            if let Ok(c) = Path::new(&path).canonicalize() {
                let ok = !accepted || is_comp_prefix(&lexical(&w), &comps_of(&c));
                oracles.push(oracle("accepted_implies_physically_contained", ok, json!({"path": path, "root": w}), "routed-to-non-containing-repo:symlink"));
            }
        }
        Ok(None) => {}
    }
    for (root, repo) in repos {
        let got = repo.path_is_in_workdir(Path::new(&path));
        if let Ok(c) = Path::new(&path).canonicalize() {
            let contained = is_comp_prefix(&lexical(root), &comps_of(&c));
            oracles.push(oracle("in_workdir_is_physical", got == contained, json!({"path": path, "root": root, "got": got}), "in-workdir-but-outside:symlink"));
        }
    }
    em.emit("c20", Value::Null, imp, oracles, vec!["symlink".into(), l.tag.clone()]);
}

// ------------------------------------------------------------------ JSON trees / agent-v1

#[derive(Clone, Debug)]
enum T {
    Null,
    B(bool),
    I(i64),
    S(String),
    A(Vec<T>),
    O(Vec<(String, T)>),
}

fn t_text(t: &T) -> String {
    match t {
        T::Null => "null".into(),
        T::B(b) => b.to_string(),
        T::I(i) => i.to_string(),
        T::S(s) => serde_json::to_string(s).unwrap(),
        T::A(xs) => format!("[{}]", xs.iter().map(t_text).collect::<Vec<_>>().join(",")),
        T::O(kvs) => format!(
            "{{{}}}",
            kvs.iter().map(|(k, v)| format!("{}:{}", serde_json::to_string(k).unwrap(), t_text(v))).collect::<Vec<_>>().join(",")
        ),
    }
}

fn t_tagged(t: &T) -> Value {
    match t {
        T::Null => Value::Null,
        T::B(b) => json!({"b": b}),
        T::I(i) => json!({"i": i}),
        T::S(s) => json!({"s": s}),
        T::A(xs) => json!({"a": xs.iter().map(t_tagged).collect::<Vec<_>>()}),
        T::O(kvs) => json!({"o": kvs.iter().map(|(k, v)| json!([k, t_tagged(v)])).collect::<Vec<_>>()}),
    }
}

fn t_value(t: &T) -> Value {
    match t {
        T::Null => Value::Null,
        T::B(b) => json!(b),
        T::I(i) => json!(i),
        T::S(s) => json!(s),
        T::A(xs) => Value::Array(xs.iter().map(t_value).collect()),
        T::O(kvs) => Value::Object(kvs.iter().map(|(k, v)| (k.clone(), t_value(v))).collect()),
    }
}

fn s(x: &str) -> T {
    T::S(x.to_string())
}

fn gen_scalar(rng: &mut Rng) -> T {
    match rng.below(8) {
        0 => T::Null,
        1 => T::B(rng.chance(1, 2)),
        2 => T::I(rng.below(100) as i64 - 50),
        3 => T::I(i64::MAX),
        4 => s(""),
        5 => s("a\nb\"c\\d\u{1}\u{7f}é🙂\u{2028}"),
        6 => s("../x"),
        _ => s("plain"),
    }
}

fn gen_any(rng: &mut Rng, depth: u32) -> T {
    if depth == 0 || rng.chance(1, 2) {
        return gen_scalar(rng);
    }
    if rng.chance(1, 2) {
        T::A((0..rng.below(4)).map(|_| gen_any(rng, depth - 1)).collect())
    } else {
        T::O((0..rng.below(4)).map(|i| (format!("k{i}"), gen_any(rng, depth - 1))).collect())
    }
}

fn gen_message(rng: &mut Rng) -> T {
    let ty = rng.pick(&["user", "assistant", "thinking", "plan", "tool_use", "tool_use", "system", "User"]);
    let mut kvs = vec![("type".to_string(), s(ty))];
    if ty == "tool_use" {
        kvs.push(("name".into(), s("Edit")));
        kvs.push(("input".into(), gen_any(rng, 2)));
    } else {
        kvs.push(("text".into(), s("hello\nworld")));
    }
    if rng.chance(1, 2) {
        kvs.push(("timestamp".into(), if rng.chance(1, 5) { T::Null } else { s("2025-01-01T00:00:00Z") }));
    }
    mutate_obj(rng, kvs, 1, 8)
}

fn to_seq(kvs: &[(String, T)], keep_tag_first: bool) -> T {
    // positional form: tag first, then the field values in declaration order as generated
    let mut xs = Vec::new();
    if keep_tag_first {
        if let Some((_, t)) = kvs.iter().find(|(k, _)| k == "type") {
            xs.push(t.clone());
        }
    }
    for (k, v) in kvs {
        if k != "type" {
            xs.push(v.clone());
        }
    }
    T::A(xs)
}

/// structure-aware mutations of an object: with probability num/den apply one
fn mutate_obj(rng: &mut Rng, mut kvs: Vec<(String, T)>, num: u64, den: u64) -> T {
    if rng.chance(num, den) && !kvs.is_empty() {
        let i = rng.below(kvs.len() as u64) as usize;
        match rng.below(9) {
            0 => {
                kvs.remove(i);
            }
            1 => {
                let kv = kvs[i].clone();
                kvs.push(kv);
            }
            2 => kvs[i].1 = gen_scalar(rng),
            3 => kvs[i].1 = T::Null,
            4 => kvs[i].1 = T::A(vec![kvs[i].1.clone()]),
            5 => kvs.push((format!("extra{}", rng.below(3)), gen_any(rng, 2))),
            6 => {
                let j = rng.below(kvs.len() as u64) as usize;
                kvs.swap(i, j);
            }
            7 => return to_seq(&kvs, true),
            _ => kvs[i].0 = kvs[i].0.to_uppercase(),
        }
    }
    T::O(kvs)
}

fn gen_av1(rng: &mut Rng) -> (T, String) {
    let human = rng.chance(1, 3);
    let paths = |rng: &mut Rng| -> T {
        match rng.below(6) {
            0 => T::Null,
            1 => T::A(vec![]),
            _ => T::A((0..1 + rng.below(3)).map(|_| s(rng.pick(&["src/a.rs", "/abs/b.txt", "../c", "d//e/./f", "x/../y", "", "./g", ".", "/"]))).collect()),
        }
    };
    let dirty = |rng: &mut Rng| -> T {
        match rng.below(4) {
            0 => T::Null,
            1 => T::O(vec![("a.txt".into(), s("content")), ("a.txt".into(), s("again"))]),
            2 => T::O(vec![("a.txt".into(), T::I(3))]),
            _ => T::O(vec![("a.txt".into(), s("x\ny"))]),
        }
    };
    let dir = rng.pick(&["/w/repo", "/w/repo/", "rel/dir", "/", "", "/w/./repo/../repo"]);
    let mut kvs: Vec<(String, T)> = Vec::new();
    if human {
        kvs.push(("type".into(), s("human")));
        kvs.push(("repo_working_dir".into(), s(dir)));
        if rng.chance(4, 5) {
            kvs.push(("will_edit_filepaths".into(), paths(rng)));
        }
        if rng.chance(1, 3) {
            kvs.push(("dirty_files".into(), dirty(rng)));
        }
    } else {
        kvs.push(("type".into(), s("ai_agent")));
        kvs.push(("repo_working_dir".into(), s(dir)));
        if rng.chance(4, 5) {
            kvs.push(("edited_filepaths".into(), paths(rng)));
        }
        let msgs = T::A((0..rng.below(4)).map(|_| gen_message(rng)).collect());
        let tr = match rng.below(8) {
            0 => T::A(vec![msgs]),
            1 => T::O(vec![]),
            2 => T::O(vec![("messages".into(), msgs.clone()), ("messages".into(), msgs)]),
            _ => T::O(vec![("messages".into(), msgs)]),
        };
        kvs.push(("transcript".into(), tr));
        kvs.push(("agent_name".into(), s("my-agent")));
        kvs.push(("model".into(), s("m-1")));
        kvs.push(("conversation_id".into(), s("c-1")));
        if rng.chance(1, 3) {
            kvs.push(("dirty_files".into(), dirty(rng)));
        }
    }
    let seq_pad = rng.chance(1, 10);
    let t = match rng.below(12) {
        0 => gen_any(rng, 2),
        1 => {
            // positional form with the optional trailing element sometimes added / surplus
            let mut x = to_seq(&kvs, true);
            if let T::A(xs) = &mut x {
                if seq_pad {
                    xs.push(T::Null);
                }
                if rng.chance(1, 6) {
                    xs.push(T::I(1));
                }
            }
            x
        }
        2 => {
            kvs[0].1 = s(rng.pick(&["Human", "ai-agent", "ai_tab", ""]));
            T::O(kvs)
        }
        3 => {
            kvs[0].1 = gen_scalar(rng);
            T::O(kvs)
        }
        4 => {
            kvs.remove(0);
            T::O(kvs)
        }
        5 => {
            // tag not first
            let tag = kvs.remove(0);
            kvs.push(tag);
            T::O(kvs)
        }
        _ => mutate_obj(rng, kvs, 1, 2),
    };
    (t, if human { "av1:human-base".into() } else { "av1:ai-base".into() })
}

fn av1_case(rng: &mut Rng, em: &mut Emitter, forced: Option<T>) {
    let (t, tag) = match forced {
        Some(t) => (t, "corpus".to_string()),
        None => gen_av1(rng),
    };
    let text = t_text(&t);
    let t2 = text.clone();
    let res = catch(move || AgentV1Preset.run(AgentCheckpointFlags { hook_input: Some(t2) }));
    let paths = |o: &Option<Vec<String>>| -> Value {
        match o {
            None => Value::Null,
            Some(v) => json!(v.iter().map(|p| canon(p)).collect::<Vec<_>>()),
        }
    };
    let imp = match &res {
        Err(m) => json!({"panic": m}),
        Ok(Err(_)) => json!({"err": "rejected"}),
        Ok(Ok(r)) => json!({"ok": {
            "kind": match r.checkpoint_kind { CheckpointKind::Human => "human", CheckpointKind::AiAgent => "ai_agent", _ => "ai_tab" },
            "dir": r.repo_working_dir.as_ref().map(|d| canon(d)),
            "edited": paths(&r.edited_filepaths),
            "will_edit": paths(&r.will_edit_filepaths),
        }}),
    };
    let outcome = if imp.get("ok").is_some() { "ok" } else if imp.get("err").is_some() { "err" } else { "panic" };
    em.emit(
        "c20",
        json!({"op": "av1_decode", "j": t_tagged(&t)}),
        imp,
        vec![oracle("preset_no_panic", outcome != "panic", json!({"hook_input": text}), "preset-panic:agent-v1")],
        vec!["av1".into(), tag, format!("av1:{outcome}")],
    );
}

fn render_case(rng: &mut Rng, em: &mut Emitter) {
    // serde_json's map sorts keys: generate objects with sorted, unique keys
    fn sorted(t: T) -> T {
        match t {
            T::O(kvs) => {
                let mut m: std::collections::BTreeMap<String, T> = std::collections::BTreeMap::new();
                for (k, v) in kvs {
                    m.insert(k, sorted(v));
                }
                T::O(m.into_iter().collect())
            }
            T::A(xs) => T::A(xs.into_iter().map(sorted).collect()),
            x => x,
        }
    }
    let mut t = sorted(gen_any(rng, 4));
    if rng.chance(1, 4) {
        t = T::O(vec![("file".into(), s("a\nb\r\n\u{0}\u{1f}\u{7f}\u{85}\u{2028}\"\\/\t\u{8}\u{c}")), ("n".into(), T::I(-7))]);
    }
    let text = serde_json::to_string(&t_value(&t)).unwrap();
    let ok = !text.contains('\n') && !text.contains('\r') && !text.trim().is_empty();
    em.emit(
        "c20",
        json!({"op": "json_render", "j": t_tagged(&t)}),
        json!({"text": text}),
        vec![oracle("no_raw_newline", ok, json!({"text": text}), "serde-raw-newline")],
        vec!["render".into()],
    );
}

fn jsonl_case(rng: &mut Rng, repos: &[(String, Repository)], em: &mut Emitter) {
    if repos.is_empty() {
        return;
    }
    let (_, repo) = &repos[rng.below(repos.len() as u64) as usize];
    let wl = repo.storage.working_log_for_base_commit("verif-jsonl");
    let nasty = ["plain", "a\nb", "c\r\nd", "\u{2028}x", "q\"uote\\", "", " ", "\u{0}\u{1}", "é🙂", "{\"not\":\"json\"}\n"];
    let n = rng.below(5);
    let mut cps = Vec::new();
    for _ in 0..n {
        let entries = (0..rng.below(3))
            .map(|_| WorkingLogEntry::new(rng.pick(&nasty).to_string(), rng.pick(&nasty).to_string(), vec![], vec![]))
            .collect();
        let mut c = Checkpoint::new(
            if rng.chance(1, 2) { CheckpointKind::AiAgent } else { CheckpointKind::Human },
            rng.pick(&nasty).to_string(),
            rng.pick(&nasty).to_string(),
            entries,
        );
        if rng.chance(1, 2) {
            c.agent_id = Some(git_ai::authorship::working_log::AgentId { tool: rng.pick(&nasty).to_string(), id: rng.pick(&nasty).to_string(), model: "m".into() });
        }
        cps.push(c);
    }
    let lines: Vec<String> = cps.iter().map(|c| serde_json::to_string(c).unwrap()).collect();
    let wrote = wl.write_all_checkpoints(&cps).is_ok();
    let text = std::fs::read_to_string(wl.dir.join("checkpoints.jsonl")).unwrap_or_default();
    let back = wl.read_all_checkpoints();
    let same = match &back {
        Ok(b) => {
            b.len() == cps.len()
                && b.iter().zip(cps.iter()).all(|(x, y)| {
                    x.author == y.author
                        && x.diff == y.diff
                        && x.entries.len() == y.entries.len()
                        && x.entries.iter().zip(y.entries.iter()).all(|(e, f)| e.file == f.file && e.blob_sha == f.blob_sha)
                })
        }
        Err(_) => false,
    };
    let _ = std::fs::remove_dir_all(&wl.dir);
    em.emit(
        "c20",
        json!({"op": "jsonl_frame", "lines": lines}),
        json!({"text": text, "lines": lines}),
        vec![oracle("working_log_roundtrip", wrote && same, json!({"lines": lines}), "working-log-unreadable")],
        vec!["jsonl".into(), format!("jsonl:n={n}")],
    );
}

// ------------------------------------------------------------------ driver

fn setup_env(scratch: &str) {
    let home = format!("{scratch}/home");
    std::fs::create_dir_all(&home).unwrap();
    write(
        &format!("{home}/.gitconfig"),
        "[user]\n\tname = Verif\n\temail = verif@example.com\n[init]\n\tdefaultBranch = main\n[core]\n\tautocrlf = false\n[commit]\n\tgpgsign = false\n",
    );
    let patch = json!({"exclude_prompts_in_repositories": [], "prompt_storage": "notes", "telemetry_oss_disabled": true,
                       "disable_version_checks": true, "disable_auto_updates": true});
    // single-threaded at this point: nothing else reads the environment concurrently
    unsafe {
        std::env::set_var("HOME", &home);
        std::env::set_var("GIT_CONFIG_GLOBAL", format!("{home}/.gitconfig"));
        std::env::set_var("GIT_CONFIG_NOSYSTEM", "1");
        std::env::set_var("GIT_AI_TEST_DB_PATH", format!("{scratch}/db"));
        std::env::set_var("GITAI_TEST_DB_PATH", format!("{scratch}/db"));
        std::env::set_var("GIT_AI_TEST_CONFIG_PATCH", patch.to_string());
        std::env::set_var("GIT_TERMINAL_PROMPT", "0");
        std::env::remove_var("GIT_DIR");
        std::env::remove_var("GIT_WORK_TREE");
    }
}

fn t_of_value(v: &Value) -> T {
    match v {
        Value::Null => T::Null,
        Value::Bool(b) => T::B(*b),
        Value::Number(n) => T::I(n.as_i64().unwrap_or(0)),
        Value::String(x) => T::S(x.clone()),
        Value::Array(a) => T::A(a.iter().map(t_of_value).collect()),
        Value::Object(o) => T::O(o.iter().map(|(k, v)| (k.clone(), t_of_value(v))).collect()),
    }
}

/// corpus tree in tagged form ({"o":[[k,v]…]} …) back to T
fn t_of_tagged(v: &Value) -> T {
    if v.is_null() {
        return T::Null;
    }
    if let Some(b) = v.get("b") {
        return T::B(b.as_bool().unwrap_or(false));
    }
    if let Some(i) = v.get("i") {
        return T::I(i.as_i64().unwrap_or(0));
    }
    if let Some(x) = v.get("s") {
        return T::S(x.as_str().unwrap_or("").to_string());
    }
    if let Some(a) = v.get("a") {
        return T::A(a.as_array().map(|a| a.iter().map(t_of_tagged).collect()).unwrap_or_default());
    }
    if let Some(o) = v.get("o") {
        return T::O(
            o.as_array()
                .map(|a| a.iter().map(|kv| (kv[0].as_str().unwrap_or("").to_string(), t_of_tagged(&kv[1]))).collect())
                .unwrap_or_default(),
        );
    }
    t_of_value(v)
}

/// the fixed corpus layout: every candidate directory with its first kind — repo (nested
/// `in`, submodule `sub`), siblings repo2 / repo-x, bare.git, plain
fn corpus_layout(scratch: &str) -> Layout {
    let mut rng = Rng::new(0xC20);
    build_layout(&mut rng, scratch, 900_000, true)
}

fn open_repos(l: &Layout) -> Vec<(String, Repository)> {
    l.roots
        .iter()
        .filter(|(_, k)| *k == Kind::Normal)
        .filter_map(|(r, _)| find_repository_in_path(r).ok().map(|repo| (r.clone(), repo)))
        .collect()
}

pub fn run(seed: u64, count: u64, corpus: Option<&str>, em: &mut Emitter) {
    let base = std::env::var("VERIF_SCRATCH").unwrap_or_else(|_| std::env::temp_dir().to_string_lossy().to_string());
    let scratch_raw = format!("{}/vf-c20-{}-{}", base, std::process::id(), seed);
    let _ = std::fs::remove_dir_all(&scratch_raw);
    std::fs::create_dir_all(&scratch_raw).unwrap();
    let scratch = Path::new(&scratch_raw).canonicalize().unwrap().to_string_lossy().to_string();
    setup_env(&scratch);
    // the scratch tree is removed whatever happens inside
    let res = catch(std::panic::AssertUnwindSafe(|| run_inner(seed, count, corpus, em, &scratch)));
    let _ = std::fs::remove_dir_all(&scratch_raw);
    if let Err(m) = res {
        eprintln!("c20 suite aborted: {m}");
        em.emit("c20", Value::Null, json!({"suite_panic": m}), vec![oracle("suite_completed", false, json!({"panic": m}), "harness-suite-panic")], vec!["suite-panic".into()]);
    }
}

fn run_inner(seed: u64, count: u64, corpus: Option<&str>, em: &mut Emitter, scratch: &str) {
    let scratch = scratch.to_string();
    let mut rng = Rng::new(seed);

    // ---- corpus: `{"kind":"find","path":"<TOP>/…","boundary":…}`, `{"kind":"run","root":"<TOP>/repo","paths":[…]}`,
    //      `{"kind":"av1","j":<tagged tree>}`; <TOP> is replaced by the corpus layout's top
    if let Some(path) = corpus {
        if let Ok(f) = std::fs::File::open(path) {
            let l = corpus_layout(&scratch);
            let fsj = fs_json(&l);
            let repos = open_repos(&l);
            for line in std::io::BufReader::new(f).lines().map_while(Result::ok) {
                let Ok(v) = serde_json::from_str::<Value>(&line) else { continue };
                let sub = |x: &str| x.replace("<TOP>", &l.top);
                match v["kind"].as_str() {
                    Some("find") => {
                        let p = sub(v["path"].as_str().unwrap_or(""));
                        let b = v["boundary"].as_str().map(sub);
                        find_case(&mut rng, &l, &fsj, em, Some((p, b)));
                    }
                    Some("run") => {
                        let root = sub(v["root"].as_str().unwrap_or(""));
                        let idx = repos.iter().position(|(r, _)| *r == root).unwrap_or(0);
                        let ps = v["paths"].as_array().map(|a| a.iter().map(|x| sub(x.as_str().unwrap_or(""))).collect()).unwrap_or_default();
                        run_case(&mut rng, &l, &fsj, &repos, em, Some((idx, ps)));
                    }
                    Some("av1") => av1_case(&mut rng, em, Some(t_of_tagged(&v["j"]))),
                    _ => {}
                }
            }
            let _ = std::fs::remove_dir_all(&l.top);
        }
    }

    // ---- generated
    let n_layouts = (count / 150).clamp(3, 60);
    let per = count / n_layouts;
    for li in 0..n_layouts {
        let l = build_layout(&mut rng, &scratch, li, false);
        let fsj = fs_json(&l);
        let repos = open_repos(&l);
        for i in 0..per {
            match i % 20 {
                0..=6 => find_case(&mut rng, &l, &fsj, em, None),
                7 | 8 => group_case(&mut rng, &l, &fsj, em),
                9..=11 => inwd_case(&mut rng, &l, &fsj, &repos, em),
                12 | 13 => run_case(&mut rng, &l, &fsj, &repos, em, None),
                14 => symlink_case(&mut rng, &l, &repos, em),
                15..=17 => av1_case(&mut rng, em, None),
                18 => render_case(&mut rng, em),
                _ => jsonl_case(&mut rng, &repos, em),
            }
        }
        let _ = std::fs::remove_dir_all(&l.top);
    }
}
