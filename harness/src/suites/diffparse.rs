//! DiffParse (C01/C04 mechanism) — `git diff -U0` text → added line numbers per file.
//! Real code: git::repository::{parse_diff_added_lines_with_insertions, parse_hunk_header}.
use crate::common::*;
use git_ai::git::repository::verif_hooks;
use serde_json::{Value, json};
use std::collections::BTreeMap;
use std::io::BufRead;

fn canon(m: &std::collections::HashMap<String, Vec<u32>>) -> Value {
    let b: BTreeMap<_, _> = m.iter().map(|(k, v)| (k.clone(), v.clone())).collect();
    json!(b)
}

fn real_parse(text: &str) -> Value {
    let t = text.to_string();
    match catch(move || verif_hooks::parse_diff_added_lines_with_insertions(&t)) {
        Err(_) => json!({"panic": true}),
        Ok(Err(_)) => json!({"err": true}),
        Ok(Ok((all, ins))) => json!({"all": canon(&all), "ins": canon(&ins)}),
    }
}

const CONTENT: &[&str] = &[
    "x", "fn main() {", "}", "", " ", "++ x", "++ b/other.txt", "-- a/other.txt", "-- y", "@@ -1 +1 @@",
    "@ -1,2 +3,4 @@", "+++ b/evil", "--- a/evil", "\\ No newline at end of file", "diff --git a/q b/q",
    "héllo wörld", "日本語", "\ttabbed", "trailing  ", "-", "+", "@@", "@@ ", "+++ /dev/null", "index 000..111",
];

fn gen_content(rng: &mut Rng) -> String {
    if rng.chance(1, 2) {
        rng.pick(CONTENT).to_string()
    } else {
        format!("line{}", rng.below(50))
    }
}

fn gen_plain_path(rng: &mut Rng) -> String {
    let segs = ["src", "lib", "a", "b", "c", "w", "i", "o", "x y", "dir", "ü", "f.txt", "main.rs", "-dash", "@@", "+++"];
    let n = 1 + rng.below(3);
    (0..n).map(|_| rng.pick(&segs).to_string()).collect::<Vec<_>>().join("/")
}

/// git's C-style quoting restricted to escapes below 0x80 (the model's `unescapeAscii` domain)
fn c_quote(p: &str) -> String {
    let mut s = String::from("\"");
    for c in p.chars() {
        match c {
            '"' => s.push_str("\\\""),
            '\\' => s.push_str("\\\\"),
            '\n' => s.push_str("\\n"),
            '\t' => s.push_str("\\t"),
            '\r' => s.push_str("\\r"),
            c if (c as u32) < 0x20 || c as u32 == 0x7f => s.push_str(&format!("\\{:03o}", c as u32)),
            c => s.push(c),
        }
    }
    s.push('"');
    s
}

struct Truth {
    all: BTreeMap<String, Vec<u32>>,
    ins: BTreeMap<String, Vec<u32>>,
}

/// Render a well-formed `git diff -U0` text for generated per-file hunks, with ground truth.
fn gen_wellformed(rng: &mut Rng) -> (String, Truth) {
    let mut out = String::new();
    let mut truth = Truth { all: BTreeMap::new(), ins: BTreeMap::new() };
    let nf = 1 + rng.size(2, 5);
    for fi in 0..nf {
        let mut path = gen_plain_path(rng);
        path.push_str(&format!("{fi}")); // distinct
        let special = rng.chance(1, 6);
        if special {
            path.push_str(rng.pick(&["\t", "\"", "\\", "\u{1}q"]));
        }
        let deleted = rng.chance(1, 12);
        let newfile = !deleted && rng.chance(1, 6);
        let tok = |pre: &str, p: &str| -> String {
            if special { c_quote(&format!("{pre}{p}")) } else { format!("{pre}{p}") }
        };
        out.push_str(&format!("diff --git {} {}\n", tok("a/", &path), tok("b/", &path)));
        if newfile {
            out.push_str("new file mode 100644\n");
        }
        if deleted {
            out.push_str("deleted file mode 100644\n");
        }
        out.push_str("index 1234567..89abcde 100644\n");
        let tabsfx = if path.contains(' ') && !special { "\t" } else { "" };
        if newfile {
            out.push_str("--- /dev/null\n");
        } else {
            out.push_str(&format!("--- {}{}\n", tok("a/", &path), tabsfx));
        }
        if deleted {
            out.push_str("+++ /dev/null\n");
        } else {
            out.push_str(&format!("+++ {}{}\n", tok("b/", &path), tabsfx));
        }
        let nh = 1 + rng.size(2, 5);
        let mut new_pos: u32 = 1;
        let mut old_pos: u32 = 1;
        for _ in 0..nh {
            old_pos += rng.below(5) as u32;
            new_pos += rng.below(5) as u32;
            let (oc, nc) = if deleted {
                (1 + rng.below(3) as u32, 0)
            } else if newfile {
                (0, 1 + rng.below(4) as u32)
            } else {
                match rng.below(4) {
                    0 => (0, 1 + rng.below(4) as u32),
                    1 => (1 + rng.below(3) as u32, 0),
                    _ => (1 + rng.below(3) as u32, 1 + rng.below(3) as u32),
                }
            };
            let os = if oc == 0 { old_pos.saturating_sub(1) } else { old_pos };
            let ns = if nc == 0 { new_pos.saturating_sub(1) } else { new_pos };
            let fmt = |s: u32, c: u32, rng: &mut Rng| {
                if c == 1 && rng.chance(2, 3) { format!("{s}") } else { format!("{s},{c}") }
            };
            let heading = match rng.below(5) {
                0 => " fn foo() {".to_string(),
                1 => " @@ weird @@ -9,9 +9,9 @@".to_string(),
                2 => " +plus -minus".to_string(),
                _ => String::new(),
            };
            out.push_str(&format!("@@ -{} +{} @@{}\n", fmt(os, oc, rng), fmt(ns, nc, rng), heading));
            for k in 0..oc {
                out.push('-');
                out.push_str(&gen_content(rng));
                out.push('\n');
                if k + 1 == oc && rng.chance(1, 10) {
                    out.push_str("\\ No newline at end of file\n");
                }
            }
            for k in 0..nc {
                out.push('+');
                out.push_str(&gen_content(rng));
                out.push('\n');
                if k + 1 == nc && rng.chance(1, 10) {
                    out.push_str("\\ No newline at end of file\n");
                }
            }
            if !deleted && nc > 0 {
                let e = truth.all.entry(path.clone()).or_default();
                e.extend(ns..ns + nc);
                if oc == 0 {
                    truth.ins.entry(path.clone()).or_default().extend(ns..ns + nc);
                }
            }
            old_pos += oc;
            new_pos += nc;
        }
    }
    if rng.chance(1, 3) && out.ends_with('\n') {
        out.pop();
    }
    (out, truth)
}

fn gen_malformed(rng: &mut Rng) -> String {
    let n = rng.size(6, 25);
    let mut s = String::new();
    for _ in 0..n {
        match rng.below(12) {
            0 => s.push_str("+++ b/f.txt"),
            1 => s.push_str("+++ /dev/null"),
            2 => s.push_str(&format!("@@ -{},{} +{},{} @@", rng.below(9), rng.below(4), rng.below(9), rng.below(4))),
            3 => s.push_str(rng.pick(&["@@ -1 +1 @@", "@@ +1 -1 @@", "@@ -a,b +c,d @@", "@@ -1,2 @@", "@@ @@", "@@ -1,0 +4294967295,2 @@",
                "@@ -1 +4294967290,9 @@", "@@ -1,99999999999 +1 @@", "@@ -1 +1,+2 @@", "@@  -1   +2,3  @@", "@@\u{a0}-1 +2 @@", "@@ --1 ++2 @@"])),
            4 => { s.push('+'); s.push_str(&gen_content(rng)); }
            5 => { s.push('-'); s.push_str(&gen_content(rng)); }
            6 => { s.push(' '); s.push_str(&gen_content(rng)); }
            7 => s.push_str("\\ No newline at end of file"),
            8 => s.push_str(&format!("+++ {}", c_quote(&format!("b/{}", gen_plain_path(rng))))),
            9 => s.push_str(&format!("+++ w/{}  ", gen_plain_path(rng))),
            10 => s.push_str("+++ \"b/unterminated"),
            _ => s.push_str(&gen_content(rng)),
        }
        s.push_str(if rng.chance(1, 8) { "\r\n" } else { "\n" });
    }
    s
}

fn case(text: &str, truth: Option<&Truth>, em: &mut Emitter, tag: &str) {
    let imp = real_parse(text);
    let mut oracles = vec![oracle("diffparse_no_panic", imp.get("panic").is_none() || text.contains("4294967"), json!({"text": text}), "diffparse:panic")];
    if let Some(t) = truth {
        let want = json!({"all": t.all, "ins": t.ins});
        // files whose hunks add nothing may appear with an empty list: not part of the contract
        let mut got = imp.clone();
        for k in ["all", "ins"] {
            if let Some(o) = got.get_mut(k).and_then(|v| v.as_object_mut()) {
                o.retain(|_, v| v.as_array().is_some_and(|a| !a.is_empty()));
            }
        }
        oracles.push(oracle("added_lines_exact", got == want, json!({"text": text, "want": want, "got": imp}), "diffparse:added-lines-mismatch"));
    }
    let kind = if imp.get("panic").is_some() { "panic" } else if imp.get("err").is_some() { "err" } else { "ok" };
    let nfiles = imp.get("all").and_then(|a| a.as_object()).map(|o| o.len()).unwrap_or(0).min(5);
    em.emit("diffparse", json!({"op": "dp_parse", "text": text}), imp, oracles,
        vec![tag.to_string(), format!("result={kind}"), format!("files={nfiles}")]);
}

fn hunk_case(rng: &mut Rng, em: &mut Emitter) {
    let line = match rng.below(4) {
        0 => format!("@@ -{},{} +{},{} @@ ctx", rng.below(100), rng.below(5), rng.below(100), rng.below(5)),
        1 => format!("@@ -{} +{} @@", rng.below(100), rng.below(100)),
        2 => rng.pick(&["@@ -1 +1 @@", "@@ +1 -1 @@", "@@ -a,b +c,d @@", "@@ -1,2 @@", "@@ @@", "@@", "", "@@ -1,0 +4294967295,2 @@",
            "@@ -1 +4294967295 @@", "@@ -1 +4294967295,1 @@", "@@ -1 +1,+2 @@", "@@  -1   +2,3  @@", "x@@ -1 +2,2 @@", "@@ -1 +2,2", "@@ -3,1,7 +4,2,9 @@", "@@ -,2 +,3 @@", "@@ -0,0 +0,0 @@"]).to_string(),
        _ => format!("@@ -{},{} +{},{} @@", rng.below(10), rng.below(3), 4294967290u64 + rng.below(8), rng.below(8)),
    };
    let l2 = line.clone();
    let imp = match catch(move || verif_hooks::parse_hunk_header(&l2)) {
        Err(_) => json!({"panic": true}),
        Ok(None) => json!({"none": true}),
        Ok(Some((ls, p))) => json!({"lines": ls, "pure": p}),
    };
    let kind = imp.as_object().unwrap().keys().next().unwrap().clone();
    em.emit("diffparse", json!({"op": "dp_hunk", "line": line}), imp, vec![], vec!["hunk_header".into(), format!("hunk={kind}")]);
}

pub fn run(seed: u64, count: u64, corpus: Option<&str>, em: &mut Emitter) {
    if let Some(path) = corpus {
        if let Ok(f) = std::fs::File::open(path) {
            for line in std::io::BufReader::new(f).lines().map_while(Result::ok) {
                let Ok(v) = serde_json::from_str::<Value>(&line) else { continue };
                if let Some(t) = v.get("diff_text").and_then(|t| t.as_str()) {
                    let truth = v.get("want").map(|w| Truth {
                        all: serde_json::from_value(w["all"].clone()).unwrap_or_default(),
                        ins: serde_json::from_value(w["ins"].clone()).unwrap_or_default(),
                    });
                    case(t, truth.as_ref(), em, "corpus");
                }
            }
        }
    }
    let mut rng = Rng::new(seed ^ 0xD1FF);
    for i in 0..count {
        match i % 4 {
            0 | 1 => {
                let (t, truth) = gen_wellformed(&mut rng);
                case(&t, Some(&truth), em, "wellformed");
            }
            2 => {
                let t = gen_malformed(&mut rng);
                case(&t, None, em, "malformed");
            }
            _ => hunk_case(&mut rng, em),
        }
    }
}
