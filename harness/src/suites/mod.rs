use crate::common::Emitter;

pub mod c17;

/// Registry: suite name → runner. Each runner replays `corpus` (a JSONL file of inputs) first
/// when given, then generates `count` cases from `seed`.
pub fn run(suite: &str, seed: u64, count: u64, corpus: Option<&str>, em: &mut Emitter) -> bool {
    match suite {
        "c17" => c17::run(seed, count, corpus, em),
        _ => return false,
    }
    true
}
