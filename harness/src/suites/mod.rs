use crate::common::Emitter;

pub mod c05;
pub mod c08;
pub mod c09;
pub mod c12;
pub mod c15;
pub mod c16;
pub mod c17;
pub mod c18;
pub mod diffparse;
pub mod split3;
pub mod c19;
pub mod c20;

/// Registry: suite name → runner. Each runner replays `corpus` (a JSONL file of inputs) first
/// when given, then generates `count` cases from `seed`.
pub fn run(suite: &str, seed: u64, count: u64, corpus: Option<&str>, em: &mut Emitter) -> bool {
    match suite {
        "c05" => c05::run(seed, count, corpus, em),
        "c08" => c08::run(seed, count, corpus, em),
        "c08classify" => c08::run_classify(seed, count, corpus, em),
        "c05repo" => c05::run_repo(seed, count, corpus, em),
        "c12" => c12::run(seed, count, corpus, em),
        "c15" => c15::run(seed, count, corpus, em),
        "c15repo" => c15::run_repo(seed, count, corpus, em),
        "c16" => c16::run(seed, count, corpus, em),
        "c16ls" => c16::run_linestep(seed, count, corpus, em),
        "c17" => c17::run(seed, count, corpus, em),
        "c18" => c18::run(seed, count, corpus, em),
        "diffparse" => diffparse::run(seed, count, corpus, em),
        "split3" => split3::run(seed, count, corpus, em),
        "c19" => c19::run(seed, count, corpus, em),
        "c09" => c09::run(seed, count, corpus, em),
        "c09repo" => c09::run_repo(seed, count, corpus, em),
        "c20" => c20::run(seed, count, corpus, em),
        _ => return false,
    }
    true
}
