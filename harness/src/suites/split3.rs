//! Split3 (C04 mechanism) — translation of a working-tree line number to a commit line number through
//! the unstaged hunks, and the hunk parser that feeds it.
//! Real code: authorship::virtual_attribution::commit_position, git::repository::parse_diff_hunks
//! (both through their `verif_hooks`).
//!
//! Case kinds
//!  * `script`   — a generated edit script (kept lines / change regions with removed and added lines);
//!                 the hunks are derived by git's `-U0` convention; every working-tree line is located by
//!                 the real code. Oracle (ground truth from the script, independent of the model): a kept
//!                 line is `unchanged` at its true commit line number, the k-th added line of a region
//!                 `replaces` the region's k-th removed line or is `added`. Correspondence: `s3_locate`.
//!  * `hunks`    — arbitrary hunk lists (overlapping, unordered, zero counts, values next to u32::MAX) and
//!                 arbitrary line numbers: no panic; correspondence with the model incl. `invalid`.
//!  * `difftext` — the same scripts rendered as `git diff -U0` text with hostile content lines; oracle: the
//!                 parser returns exactly the script's hunks, and they agree with the added / pure-insertion
//!                 line sets of `parse_diff_added_lines_with_insertions` (tied to Model/DiffParse.lean).
use crate::common::*;
use git_ai::authorship::virtual_attribution::verif_hooks as va_hooks;
use git_ai::git::repository::verif_hooks as repo_hooks;
use serde_json::{Value, json};
use std::io::BufRead;

#[derive(Clone, Debug)]
enum Seg {
    Eq,
    Chg(u32, u32), // removed, added
}

fn gen_script(rng: &mut Rng) -> Vec<Seg> {
    let n = 1 + rng.size(6, 14);
    let mut v = Vec::new();
    let mut last_chg = false;
    for _ in 0..n {
        if last_chg || rng.chance(3, 5) {
            for _ in 0..(1 + rng.size(2, 6)) {
                v.push(Seg::Eq);
            }
            last_chg = false;
        } else {
            let (o, a) = match rng.below(4) {
                0 => (0, 1 + rng.size(2, 5) as u32),
                1 => (1 + rng.size(2, 5) as u32, 0),
                _ => (1 + rng.size(2, 4) as u32, 1 + rng.size(2, 4) as u32),
            };
            v.push(Seg::Chg(o, a));
            // git never prints two adjacent hunks, the code must cope with them all the same
            last_chg = !rng.chance(1, 8);
        }
    }
    if !v.iter().any(|s| matches!(s, Seg::Chg(..))) && !rng.chance(1, 20) {
        let at = rng.below(v.len() as u64 + 1) as usize;
        v.insert(at, Seg::Chg(rng.below(3) as u32, 1 + rng.below(2) as u32 - if rng.chance(1, 3) { 1 } else { 0 }));
    }
    v
}

/// hunks by git's `-U0` convention: (old_count, new_start, new_count)
fn hunks_of(script: &[Seg]) -> Vec<(u32, u32, u32)> {
    let mut p = 0u32; // working-tree lines so far
    let mut hs = Vec::new();
    for s in script {
        match s {
            Seg::Eq => p += 1,
            Seg::Chg(o, a) => {
                hs.push((*o, if *a == 0 { p } else { p + 1 }, *a));
                p += *a;
            }
        }
    }
    hs
}

/// ground truth per working-tree line (1-based order): the expected position, as the JSON the driver prints
fn truth_of(script: &[Seg]) -> Vec<Value> {
    let mut c = 0u32; // commit lines so far
    let mut out = Vec::new();
    for s in script {
        match s {
            Seg::Eq => {
                c += 1;
                out.push(json!({"unchanged": c}));
            }
            Seg::Chg(o, a) => {
                for k in 0..*a {
                    out.push(if k < *o { json!({"replaces": c + k + 1}) } else { json!({"added": true}) });
                }
                c += *o;
            }
        }
    }
    out
}

fn pos_json(p: Option<(u8, u32)>) -> Value {
    match p {
        Some((0, c)) => json!({"unchanged": c}),
        Some((1, c)) => json!({"replaces": c}),
        Some((2, _)) => json!({"added": true}),
        _ => json!({"invalid": true}),
    }
}

fn real_locate(hunks: &[(u32, u32, u32)], lines: &[u32]) -> Value {
    let hs = hunks.to_vec();
    let ls = lines.to_vec();
    match catch(move || ls.iter().map(|w| pos_json(va_hooks::commit_position(&hs, *w))).collect::<Vec<_>>()) {
        Err(_) => json!({"panic": true}),
        Ok(v) => json!({"pos": v}),
    }
}

fn hunks_json(hs: &[(u32, u32, u32)]) -> Value {
    json!(hs.iter().map(|h| vec![h.0, h.1, h.2]).collect::<Vec<_>>())
}

fn script_case(script: &[Seg], em: &mut Emitter, tag: &str) {
    let hs = hunks_of(script);
    let truth = truth_of(script);
    let lines: Vec<u32> = (1..=truth.len() as u32).collect();
    let imp = real_locate(&hs, &lines);
    let got = imp.get("pos").cloned().unwrap_or(Value::Null);
    let mut bad_kept = Vec::new();
    let mut bad_changed = Vec::new();
    if let Some(arr) = got.as_array() {
        for (i, want) in truth.iter().enumerate() {
            if arr.get(i) != Some(want) {
                let d = json!({"line": i + 1, "want": want, "got": arr.get(i)});
                if want.get("unchanged").is_some() { bad_kept.push(d) } else { bad_changed.push(d) }
            }
        }
    }
    let detail = |bad: &Vec<Value>| json!({"hunks": hunks_json(&hs), "first": bad.first()});
    let oracles = vec![
        oracle("locate_no_panic", imp.get("panic").is_none(), json!({"hunks": hunks_json(&hs)}), "split3:locate-panic"),
        oracle("kept_line_at_true_commit_line", got.is_array() && bad_kept.is_empty(), detail(&bad_kept), "split3:kept-line-mistranslated"),
        oracle("changed_line_replaces_or_added", got.is_array() && bad_changed.is_empty(), detail(&bad_changed), "split3:changed-line-misplaced"),
    ];
    let has = |f: &dyn Fn(&(u32, u32, u32)) -> bool| hs.iter().any(|h| f(h));
    let mut tags = vec![tag.to_string(), format!("hunks={}", hs.len().min(6))];
    if has(&|h| h.0 > 0 && h.2 == 0) { tags.push("has=pure-deletion".into()); }
    if has(&|h| h.0 == 0 && h.2 > 0) { tags.push("has=pure-insertion".into()); }
    if has(&|h| h.0 > 0 && h.2 > 0 && h.0 != h.2) { tags.push("has=uneven-replacement".into()); }
    if has(&|h| h.0 > 0 && h.0 == h.2) { tags.push("has=even-replacement".into()); }
    em.emit("split3", json!({"op": "s3_locate", "hunks": hunks_json(&hs), "lines": lines}), imp, oracles, tags);
}

fn hunks_case(rng: &mut Rng, em: &mut Emitter) {
    let big = rng.chance(1, 4);
    let n = rng.size(3, 8);
    let mut hs = Vec::new();
    for _ in 0..n {
        let v = |rng: &mut Rng, small: u64| -> u32 {
            if big && rng.chance(1, 3) { (4294967295u64 - rng.below(6)) as u32 } else { rng.below(small) as u32 }
        };
        hs.push((v(rng, 5), v(rng, 14), v(rng, 5)));
    }
    let mut lines: Vec<u32> = (0..(2 + rng.below(8))).map(|_| rng.below(22) as u32).collect();
    if big {
        lines.push(4294967295);
        lines.push((4294967295u64 - rng.below(12)) as u32);
    }
    let imp = real_locate(&hs, &lines);
    let oracles = vec![oracle("locate_no_panic", imp.get("panic").is_none(), json!({"hunks": hunks_json(&hs), "lines": lines}), "split3:locate-panic")];
    let any_invalid = imp.get("pos").and_then(|p| p.as_array()).is_some_and(|a| a.iter().any(|x| x.get("invalid").is_some()));
    em.emit("split3", json!({"op": "s3_locate", "hunks": hunks_json(&hs), "lines": lines}), imp, oracles,
        vec!["hunks".into(), format!("big={big}"), format!("some-invalid={any_invalid}")]);
}

const CONTENT: &[&str] = &[
    "x", "fn main() {", "}", "", " ", "++ x", "++ b/other.txt", "-- a/other.txt", "-- y", "@@ -1 +1 @@", "@ -1,2 +3,4 @@",
    "+++ b/evil", "--- a/evil", "diff --git a/q b/q", "héllo", "\ttab", "-", "+", "@@", "@@ ", "+++ /dev/null",
];

fn difftext_case(rng: &mut Rng, em: &mut Emitter) {
    let nfiles = 1 + rng.below(3);
    let mut text = String::new();
    let mut want = serde_json::Map::new();
    let mut want_all = serde_json::Map::new();
    let mut want_ins = serde_json::Map::new();
    for fi in 0..nfiles {
        let script = gen_script(rng);
        let hs = hunks_of(&script);
        if hs.is_empty() {
            continue;
        }
        let path = format!("{}{}.txt", rng.pick(&["src/f", "a b/f", "f", "w/x", "i/o"]), fi);
        text.push_str(&format!("diff --git a/{path} b/{path}\nindex 1234567..89abcde 100644\n--- a/{path}\n+++ b/{path}\n"));
        let mut old_pos = 0u32;
        let mut p = 0u32;
        for s in &script {
            match s {
                Seg::Eq => { p += 1; old_pos += 1; }
                Seg::Chg(o, a) => {
                    let os = if *o == 0 { old_pos } else { old_pos + 1 };
                    let ns = if *a == 0 { p } else { p + 1 };
                    let fmt = |s: u32, c: u32, rng: &mut Rng| if c == 1 && rng.chance(2, 3) { format!("{s}") } else { format!("{s},{c}") };
                    let heading = rng.pick(&["", "", " fn foo() {", " @@ weird @@ -9,9 +9,9 @@"]);
                    text.push_str(&format!("@@ -{} +{} @@{}\n", fmt(os, *o, rng), fmt(ns, *a, rng), heading));
                    for _ in 0..*o { text.push('-'); text.push_str(rng.pick(CONTENT)); text.push('\n'); }
                    if *o > 0 && rng.chance(1, 12) { text.push_str("\\ No newline at end of file\n"); }
                    for _ in 0..*a { text.push('+'); text.push_str(rng.pick(CONTENT)); text.push('\n'); }
                    old_pos += *o;
                    p += *a;
                }
            }
        }
        want.insert(path.clone(), hunks_json(&hs));
        let all: Vec<u32> = hs.iter().flat_map(|h| h.1..h.1 + h.2).collect();
        let ins: Vec<u32> = hs.iter().filter(|h| h.0 == 0).flat_map(|h| h.1..h.1 + h.2).collect();
        if !all.is_empty() { want_all.insert(path.clone(), json!(all)); }
        if !ins.is_empty() { want_ins.insert(path.clone(), json!(ins)); }
    }
    let t = text.clone();
    let imp = match catch(move || repo_hooks::parse_diff_hunks(&t)) {
        Err(_) => json!({"panic": true}),
        Ok(m) => {
            let b: std::collections::BTreeMap<_, _> = m.into_iter().map(|(k, v)| (k, hunks_json(&v))).collect();
            json!({"hunks": b})
        }
    };
    let t2 = text.clone();
    let lines = match catch(move || repo_hooks::parse_diff_added_lines_with_insertions(&t2)) {
        Ok(Ok((all, ins))) => {
            let f = |m: std::collections::HashMap<String, Vec<u32>>| -> Value {
                let b: std::collections::BTreeMap<_, _> = m.into_iter().filter(|(_, v)| !v.is_empty()).collect();
                json!(b)
            };
            json!({"all": f(all), "ins": f(ins)})
        }
        _ => json!({"failed": true}),
    };
    let oracles = vec![
        oracle("parse_hunks_no_panic", imp.get("panic").is_none(), json!({"text": text}), "split3:parse-hunks-panic"),
        oracle("parse_hunks_exact", imp.get("hunks") == Some(&Value::Object(want.clone())), json!({"text": text, "want": want, "got": imp}), "split3:parse-hunks-mismatch"),
        oracle("hunks_agree_with_added_line_parser", lines == json!({"all": want_all, "ins": want_ins}),
            json!({"text": text, "from_hunks": {"all": want_all, "ins": want_ins}, "line_parser": lines}), "split3:hunks-vs-added-lines"),
    ];
    em.emit("split3", Value::Null, imp, oracles, vec!["difftext".into(), format!("files={}", want.len())]);
}

pub fn run(seed: u64, count: u64, corpus: Option<&str>, em: &mut Emitter) {
    if let Some(path) = corpus {
        if let Ok(f) = std::fs::File::open(path) {
            for line in std::io::BufReader::new(f).lines().map_while(Result::ok) {
                let Ok(v) = serde_json::from_str::<Value>(&line) else { continue };
                if let Some(segs) = v.get("script").and_then(|t| t.as_array()) {
                    let script: Vec<Seg> = segs.iter().map(|s| match s.as_array() {
                        Some(a) if a.len() == 2 => Seg::Chg(a[0].as_u64().unwrap_or(0) as u32, a[1].as_u64().unwrap_or(0) as u32),
                        _ => Seg::Eq,
                    }).collect();
                    script_case(&script, em, "corpus");
                }
            }
        }
    }
    let mut rng = Rng::new(seed ^ 0x5917_3);
    for i in 0..count {
        match i % 4 {
            0 | 1 => {
                let s = gen_script(&mut rng);
                script_case(&s, em, "script");
            }
            2 => hunks_case(&mut rng, em),
            _ => difftext_case(&mut rng, em),
        }
    }
}
