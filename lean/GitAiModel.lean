import GitAiModel.Base.Text
import GitAiModel.Model.NoteFormat
import GitAiModel.Props.C17
