import GitAiModel.Base.Text
import GitAiModel.Model.NoteFormat
