import GitAiModel.Base.Text
import GitAiModel.Model.NoteFormat
import GitAiModel.Props.C17
import GitAiModel.Props.C10
import GitAiModel.Props.C19
