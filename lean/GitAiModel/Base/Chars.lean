/-
  Base/Chars.lean — `chars% "lit"` elaborates to an explicit `List Char` literal, which the
  kernel can reduce (string literals and `String.toList` do not kernel-reduce).
  Imported by Props/Lemmas files only (needs `Lean`), never by model files.
-/
import Lean
open Lean Elab Term Meta

elab:max "chars% " s:str : term => do
  let cs := s.getString.toList
  let es := cs.map (fun c => toExpr c)
  mkListLit (mkConst ``Char) es
