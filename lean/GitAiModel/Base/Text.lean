/-
  Base/Text.lean — text primitives shared by all models.

  Strings are modelled as `List Char` (`Str`).  Every definition here mirrors a Rust
  standard-library routine that git-ai calls; the Rust routine is named next to it.
  No imports: model files stay core-only so the driver links as a native executable.
-/
namespace GitAi

abbrev Str := List Char

deriving instance DecidableEq for Except

/-- `str::split(sep)` on a single char: always yields at least one piece. -/
def splitOn (sep : Char) : Str → List Str
  | [] => [[]]
  | c :: cs =>
    if c = sep then [] :: splitOn sep cs
    else match splitOn sep cs with
      | [] => [[c]]
      | l :: ls => (c :: l) :: ls

/-- `[T]::join(sep)` for a one-char separator. -/
def joinWith (sep : Char) : List Str → Str
  | [] => []
  | [l] => l
  | l :: rest => l ++ sep :: joinWith sep rest

/-- Strip one trailing `\r` (what `str::lines` does to a `\n`-terminated line). -/
def stripCr (l : Str) : Str :=
  if l.getLast? = some '\r' then l.dropLast else l

/-- Auxiliary for `rustLines`: every piece but the last was terminated by `\n`. -/
def rustLinesAux : List Str → List Str
  | [] => []
  | [last] => if last.isEmpty then [] else [last]
  | p :: q :: rest => stripCr p :: rustLinesAux (q :: rest)

/-- Rust `str::lines()`: split on `\n`; a `\n`-terminated line loses one trailing `\r`;
    the final unterminated piece is kept as is, or dropped when empty. -/
def rustLines (s : Str) : List Str := rustLinesAux (splitOn '\n' s)

/-- Rust `char::is_whitespace` (Unicode `White_Space`). -/
def isWhitespace (c : Char) : Bool :=
  let n := c.toNat
  (0x9 ≤ n && n ≤ 0xD) || n = 0x20 || n = 0x85 || n = 0xA0 || n = 0x1680 ||
  (0x2000 ≤ n && n ≤ 0x200A) || n = 0x2028 || n = 0x2029 || n = 0x202F ||
  n = 0x205F || n = 0x3000

/-- Drop trailing elements satisfying `p`. -/
def dropTrailing (p : Char → Bool) : Str → Str
  | [] => []
  | c :: cs =>
    match dropTrailing p cs with
    | [] => if p c then [] else [c]
    | r => c :: r

/-- Rust `str::trim_end()`. -/
def trimEnd (s : Str) : Str := dropTrailing isWhitespace s

/-- Rust `str::find(c)` as a split: text before the first `c`, text after it. -/
def splitFirst (c : Char) : Str → Option (Str × Str)
  | [] => none
  | x :: xs =>
    if x = c then some ([], xs)
    else match splitFirst c xs with
      | none => none
      | some (a, b) => some (x :: a, b)

def isDigit (c : Char) : Bool := '0' ≤ c && c ≤ '9'

def digitVal (c : Char) : Nat := c.toNat - '0'.toNat

/-- Value of a digit string (most significant first), no validation. -/
def digitsVal : Str → Nat → Nat
  | [], acc => acc
  | c :: cs, acc => digitsVal cs (acc * 10 + digitVal c)

/-- Rust `str::parse::<u32>()`: optional leading `+`, at least one ASCII digit,
    overflow is an error. -/
def parseU32 (s : Str) : Option Nat :=
  let ds := match s with
    | '+' :: rest => rest
    | _ => s
  if ds.isEmpty then none
  else if ds.all isDigit then
    let v := digitsVal ds 0
    if v < 4294967296 then some v else none
  else none

def digitChar (d : Nat) : Char := Char.ofNat (48 + d)

/-- fuel-driven worker for `natToStr` (structural, so it reduces in the kernel). -/
def natToStrAux : Nat → Nat → Str
  | 0, _ => []
  | fuel + 1, n =>
    if n < 10 then [digitChar n] else natToStrAux fuel (n / 10) ++ [digitChar (n % 10)]

/-- Decimal rendering of a `Nat` (Rust `u32::to_string`). -/
def natToStr (n : Nat) : Str := natToStrAux (n + 1) n

end GitAi
