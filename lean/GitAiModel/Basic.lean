def hello := "world"
