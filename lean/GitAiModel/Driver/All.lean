/-
  Driver/All.lean — registry of driver op handlers. To add a model: one import line and one
  entry in `handlers`.
-/
import GitAiModel.Driver.NoteFormat
import GitAiModel.Driver.DiffSplit
import GitAiModel.Driver.Stats
import GitAiModel.Driver.Tracker
import GitAiModel.Driver.Cli
import GitAiModel.Driver.Sync
namespace GitAi.Driver
open Lean

def handlers : List (String → Json → Option (Except String Json)) := [
  NoteFormatD.handle,
  DiffSplitD.handle,
  StatsD.handle,
  TrackerD.handle,
  CliD.handle,
  SyncD.handle
]

end GitAi.Driver
