/-
  Driver/All.lean — registry of driver op handlers. To add a model: one import line and one
  entry in `handlers`.
-/
import GitAiModel.Driver.NoteFormat
import GitAiModel.Driver.NotesTree
import GitAiModel.Driver.DiffSplit
import GitAiModel.Driver.Stats
import GitAiModel.Driver.Tracker
import GitAiModel.Driver.Cli
import GitAiModel.Driver.Sync
import GitAiModel.Driver.BlameOverlay
import GitAiModel.Driver.Remap
import GitAiModel.Driver.Redact
import GitAiModel.Driver.Routing
import GitAiModel.Driver.Profile
import GitAiModel.Driver.Sys
import GitAiModel.Driver.SysMulti
import GitAiModel.Driver.Rewrite
import GitAiModel.Driver.Conc
import GitAiModel.Driver.Wrapper
import GitAiModel.Driver.HookMode
import GitAiModel.Driver.SquashNote
import GitAiModel.Driver.LineStep
import GitAiModel.Driver.Snapshot
import GitAiModel.Driver.Discard
namespace GitAi.Driver
open Lean

def handlers : List (String → Json → Option (Except String Json)) := [
  NoteFormatD.handle,
  NotesTreeD.handle,
  DiffSplitD.handle,
  StatsD.handle,
  TrackerD.handle,
  LineStepD.handle,
  CliD.handle,
  SyncD.handle,
  BlameOverlayD.handle,
  RemapD.handle,
  RedactD.handle,
  RoutingD.handle,
  ProfileD.handle,
  SysD.handle,
  SysMultiD.handle,
  RewriteD.handle,
  ConcD.handle,
  WrapperD.handle,
  HookModeD.handle,
  SquashNoteD.handle,
  SnapshotD.handle,
  DiscardD.handle
]

end GitAi.Driver
