/-
  Driver/All.lean — registry of driver op handlers. To add a model: one import line and one
  entry in `handlers`.
-/
import GitAiModel.Driver.NoteFormat
namespace GitAi.Driver
open Lean

def handlers : List (String → Json → Option (Except String Json)) := [
  NoteFormatD.handle
]

end GitAi.Driver
