import GitAiModel.Driver.Json
import GitAiModel.Driver.NoteFormat
import GitAiModel.Model.BlameOverlay
import GitAiModel.Model.BlameRange
namespace GitAi.Driver.BlameOverlayD
open Lean GitAi GitAi.Driver GitAi.NoteFormat GitAi.GitPath GitAi.BlameOverlay

def jBool (b : Bool) : Json := Json.bool b

def jHunk (h : Hunk) : Json :=
  jObj [("start", jNat h.start), ("stop", jNat h.stop), ("orig_start", jNat h.origStart),
        ("orig_stop", jNat h.origStop), ("commit", jStr h.commit), ("author", jStr h.author),
        ("boundary", jBool h.boundary), ("orig_path", jStr h.origPath)]

def optStrField (j : Json) (k : String) : Except String (Option Str) :=
  match j.getObjVal? k with
  | .ok Json.null => pure none
  | .ok v => do pure (some (← strOf v))
  | .error _ => pure none

def strFieldD (j : Json) (k : String) (d : Str) : Except String Str :=
  match j.getObjVal? k with
  | .ok v => strOf v
  | .error _ => pure d

def boolFieldD (j : Json) (k : String) (d : Bool) : Bool :=
  match j.getObjVal? k with
  | .ok (Json.bool b) => b
  | _ => d

def promptOf (j : Json) : Except String (Str × Prompt) := do
  let h ← getStrField j "hash"
  let t ← getStrField j "tool"
  let ha ← optStrField j "human_author"
  pure (h, { tool := t, humanAuthor := ha })

def noteOf (j : Json) : Except String (Str × Note) := do
  let sha ← getStrField j "sha"
  let fs ← (← getArrField j "files").toList.mapM NoteFormatD.fileOf
  let ps ← (← getArrField j "prompts").toList.mapM promptOf
  pure (sha, { files := fs, prompts := ps })

def optsOf (j : Json) : Opts :=
  match j.getObjVal? "opts" with
  | .ok o => { hashesAsNames := boolFieldD o "hashes_as_names" false,
               returnHuman := boolFieldD o "return_human" false,
               markUnknown := boolFieldD o "mark_unknown" false,
               splitHunks := boolFieldD o "split_hunks" true }
  | .error _ => {}

def infoOf (j : Json) : Except String Info := do
  let prev ← match j.getObjVal? "previous" with
    | .ok (Json.arr a) =>
      match a.toList with
      | [s, p] => do pure (some ((← strOf s), (← strOf p)))
      | _ => throw "bad previous"
    | _ => pure none
  pure { author := ← getStrField j "author", mail := ← getStrField j "mail",
         time := ← getStrField j "time", tz := ← getStrField j "tz",
         committer := ← getStrField j "committer", cmail := ← getStrField j "cmail",
         ctime := ← getStrField j "ctime", ctz := ← getStrField j "ctz",
         summary := ← getStrField j "summary", previous := prev,
         boundary := boolFieldD j "boundary" false }

def groupOf (j : Json) : Except String Group := do
  let contents ← (← getArrField j "contents").toList.mapM strOf
  match contents with
  | [] => throw "group without lines"
  | c :: cs =>
    pure { commit := ← getStrField j "commit", origStart := ← getNatField j "orig",
           finalStart := ← getNatField j "final", info := ← infoOf j,
           filename := ← getStrField j "filename", first := c, rest := cs }

/-- `HashMap` semantics made canonical: last insert per key wins, keys ascending -/
def insertKV (k : Nat) (v : Str) : List (Nat × Str) → List (Nat × Str)
  | [] => [(k, v)]
  | (k', v') :: rest =>
    if k < k' then (k, v) :: (k', v') :: rest
    else if k = k' then (k, v) :: rest
    else (k', v') :: insertKV k v rest

def canon (l : List (Nat × Str)) : List (Nat × Str) := l.foldl (fun acc x => insertKV x.1 x.2 acc) []

/-- `line_prompt_hashes` as a map: insert for an AI row, remove for any other; keys ascending -/
def removeK (k : Nat) : List (Nat × Str) → List (Nat × Str)
  | [] => []
  | (k', v') :: rest => if k = k' then rest else (k', v') :: removeK k rest

def canonAi (out : List (BlameLine × Label)) : List (Nat × Str) :=
  out.foldl (fun acc x =>
    match x.2 with
    | .ai h _ => insertKV x.1.final h acc
    | _ => removeK x.1.final acc) []

def dedup (l : List Str) : List Str := l.foldl (fun acc x => if acc.contains x then acc else acc ++ [x]) []

def jPair (x : Nat × Str) : Json := jArr [jNat x.1, jStr x.2]

def labelJson (x : BlameLine × Label) : Json :=
  match x.2 with
  | .ai h p => jArr [jNat x.1.final, Json.str "ai", jStr h, jStr p.tool]
  | .human => jArr [jNat x.1.final, Json.str "human"]
  | .noNote => jArr [jNat x.1.final, Json.str "no_note"]

def linesOf (j : Json) : Except String (List Str) :=
  match j.getObjVal? "lines" with
  | .ok (Json.arr a) => a.toList.mapM strOf
  | _ => do pure (rustLines (← getStrField j "text"))

def handle (op : String) (j : Json) : Option (Except String Json) :=
  match op with
  | "bo_parse" => some do
      let ls ← linesOf j
      match parsePorcelain ls with
      | .error _ => pure (jObj [("err", Json.str "panic")])
      | .ok hs => pure (jObj [("ok", jObj [("hunks", jArr (hs.map jHunk))])])
  | "bo_unquote" => some do
      let p ← getStrField j "path"
      pure (jObj [("path", jStr (unquotePath p))])
  | "bo_quote" => some do
      let p ← getStrField j "path"
      pure (jObj [("quoted", jStr (quoteC (boolFieldD j "full" true) p))])
  | "bo_render" => some do
      let gs ← (← getArrField j "groups").toList.mapM groupOf
      pure (jObj [("lines", jArr ((renderLinePorcelain (boolFieldD j "full" true) gs).map jStr))])
  | "bo_range" => some do
      let a ← getStrField j "arg"
      let jr : Option (Nat × Nat) → Json := fun r =>
        match r with
        | none => Json.null
        | some (s, e) => jArr [jNat s, jNat e]
      let base := [("range", jr (GitAi.BlameRange.parseLineRange a))]
      match j.getObjVal? "total" with
      | .ok t =>
        match t.getNat? with
        | .ok total => pure (jObj (base ++ [("resolved", jr (GitAi.BlameRange.lArg total a))]))
        | .error _ => pure (jObj base)
      | .error _ => pure (jObj base)
  | "bo_overlay" => some do
      let ls ← linesOf j
      let notes ← (← getArrField j "notes").toList.mapM noteOf
      let foreign ← (← getArrField j "foreign").toList.mapM promptOf
      let blamed ← getStrField j "blamed"
      let o := optsOf j
      match parsePorcelain ls with
      | .error _ => pure (jObj [("err", Json.str "panic")])
      | .ok hs =>
        let split := splitHunks o notes foreign blamed hs
        let outL := overlayL notes foreign blamed split
        let la := canon (overlay o notes foreign blamed split)
        let keys := dedup (promptKeys notes foreign blamed split)
        let ai := canonAi outL
        let jl := jsonLines ai
        pure (jObj [("ok", jObj [
          ("hunks", jArr (hs.map jHunk)),
          ("split_hunks", jArr (split.map jHunk)),
          ("labels", jArr (outL.map labelJson)),
          ("line_authors", jArr (la.map jPair)),
          ("prompt_keys", jArr (keys.map jStr)),
          ("line_prompt_hashes", jArr (ai.map jPair)),
          ("show_prompt", jArr ((showPromptRows o outL hs).map jPair)),
          ("json_lines", jArr (jl.map fun x => jArr [jStr x.1, jStr x.2])),
          ("default", jArr ((defaultRows la hs).map fun r =>
              jArr [jNat r.1, jStr r.2.1, jBool r.2.2.1, jStr r.2.2.2])),
          ("porcelain", jArr ((porcelainRows hs).map jPair)),
          ("incremental", jArr ((incrementalRows hs).map fun r =>
              jArr [jNat r.1, jNat r.2.1, jStr r.2.2]))])])
  | _ => none

end GitAi.Driver.BlameOverlayD
