import GitAiModel.Driver.Json
import GitAiModel.Model.Cli
import GitAiModel.Model.Alias
import GitAiModel.Model.GitRef
namespace GitAi.Driver.CliD
open Lean GitAi GitAi.Driver GitAi.Cli GitAi.Alias GitAi.GitRef

def strList (j : Json) (k : String) : Except String (List Str) := do
  (← getArrField j k).toList.mapM strOf

def jStrs (l : List Str) : Json := jArr (l.map jStr)

def jOptStr : Option Str → Json
  | none => Json.null
  | some s => jStr s

def jParsed (p : Parsed) : List (String × Json) :=
  [("global_args", jStrs p.globalArgs), ("command", jOptStr p.command),
   ("command_args", jStrs p.commandArgs), ("saw_end_of_opts", Json.bool p.sawEndOfOpts),
   ("is_help", Json.bool p.isHelp), ("argv", jStrs (toVec p))]

def parsedOf (j : Json) : Except String Parsed := do
  let g ← strList j "global_args"
  let c ← match j.getObjVal? "command" with
    | .ok Json.null => pure none
    | .ok v => pure (some (← strOf v))
    | .error _ => pure none
  let a ← strList j "command_args"
  let e ← getBoolField j "saw_end_of_opts"
  let h ← getBoolField j "is_help"
  pure ⟨g, c, a, e, h⟩

def kindName : Kind → String
  | .globalNoValue => "global_no_value" | .globalTakesValue => "global_takes_value"
  | .metaNoValue => "meta_no_value" | .unknown => "unknown"

def scanName : GScan → String
  | .command .. => "command" | .helpVersion .. => "help_version" | .noCommand .. => "no_command"
  | .exits .. => "exits" | .usage .. => "usage"

def splitErrName : SplitErr → String
  | .unclosedQuote => "unclosed_quote" | .badEnding q => if q then "bad_ending_quoted" else "bad_ending"

/-- lookup table sent by the harness: `[[command, value-or-null], …]` — what
    `config_get_str("alias.<command>")` returned for every command it could be asked about. -/
def lookupOf (j : Json) : Except String (List (Str × Str)) := do
  let rows ← getArrField j "lookup"
  let mut out : List (Str × Str) := []
  for r in rows.toList do
    match (← r.getArr?).toList with
    | [k, Json.null] => let _ ← strOf k; pure ()
    | [k, v] => out := out ++ [((← strOf k), (← strOf v))]
    | _ => throw "bad lookup row"
  pure out

def outcomeJson : Outcome → Json
  | .final p => jObj [("some", jObj (jParsed p))]
  | .cycle c => jObj [("none", Json.bool true), ("reason", Json.str "cycle"), ("at", jStr c)]
  | .shell c => jObj [("none", Json.bool true), ("reason", Json.str "shell"), ("at", jStr c)]
  | .unterminated c => jObj [("none", Json.bool true), ("reason", Json.str "unterminated"), ("at", jStr c)]
  | .outOfFuel => jObj [("driver_error", Json.str "model ran out of fuel")]

def handle (op : String) (j : Json) : Option (Except String Json) :=
  match op with
  | "cli_parse" => some do
      let a ← strList j "args"
      let p := parse a
      let s := scan a [] []
      pure (jObj (jParsed p ++ [("panicked", Json.bool s.panicked), ("pre_meta", jStrs s.pmeta),
        ("git_normalise", jStrs (gitNormalise a)), ("git_scan", Json.str (scanName (gitScan a [])))]))
  | "cli_classify" => some do
      let t ← getStrField j "tok"
      pure (jObj [("kind", Json.str (kindName (classify t)))])
  | "cli_flag_with_value" => some do
      let t ← getStrField j "flag"
      pure (jObj [("value", Json.bool (isFlagWithValue t))])
  | "alias_tokens" => some do
      let v ← getStrField j "value"
      let git := match gitSplit v with
        | .ok ts => jObj [("ok", jStrs ts)]
        | .error e => jObj [("err", Json.str (splitErrName e))]
      match tokens v with
      | none => pure (jObj [("none", Json.bool true), ("git_split", git)])
      | some ts => pure (jObj [("some", jStrs ts), ("git_split", git)])
  | "alias_resolve" => some do
      let p ← parsedOf (← j.getObjVal? "parsed")
      let tbl ← lookupOf j
      pure (outcomeJson (resolveO (lookupIn tbl) (tbl.length + 1) [] p))
  | _ => none

end GitAi.Driver.CliD
