/-
  Driver/Conc.lean — line-protocol op for the concurrency model (C11).

  conc_run {mode: "none"|"append"|"full"|{add: POS, batch: POS},   POS = "beforeRead"|"beforeWrite"|"never"
                                                         -- an object = `Mode.tbl`: lock position of the single / batch notes writer
            cells: [{key: [comp…], val: VAL}…],          -- initial cell contents (others: empty journal)
            procs: [[OP…]…],                             -- program of process 0, 1, …
            schedule: [pid…], query: [[comp…]…]}
    VAL = {journal: [ITEM…]} | {rlog: [ev…]} | {notes: {tip, map: [[commit, note]…]}}
    ITEM = {id, author, entries: [{file, lines: [[line, credit|null]…], fine}]}
    OP = {k:"ckpt", key, id, author, edits: [[file, [line…]]…]} | {k:"rw", key, ev}
       | {k:"noteAdd", key, id, commit, note} | {k:"noteBatch", key, id, entries: [[commit, note]…]}
  → {trace: [tag…]            what each schedule step did: idle | <ckpt|rw|note|batch>:<acq|blocked|snap|snap-noop|read|build|write|cas-fail>
     cells: [VAL…]            final contents of the queried cells
     serial: [VAL…]           the queried cells' initial contents after the completed updates run alone, in completion order
     done, acqd: [[[pid, op id]…]…]   per queried cell
     finished: bool, max_events}
  conc_table {writers: [{cls: "blind"|"cas", events: ["lock"|"read"|"write"…], held: bool}…]}
    → {add: POS, batch: POS, ok: bool, rows: [{pos: POS, ok: bool}…]}      `tableOf`, `NotesWriter.pos`, `lockReadWrite`
  conc_aidir {git_dir: [comp…], common: [comp…]} → {ai, rewrite_log, notes_ref, checkpoints (for sha "S")}
-/
import GitAiModel.Driver.Json
import GitAiModel.Model.Conc
namespace GitAi.Driver.ConcD
open Lean GitAi GitAi.Driver GitAi.Conc

def pathOf (j : Json) : Except String Path := do
  (← j.getArr?).toList.mapM strOf

def natList (j : Json) : Except String (List Nat) := do
  (← j.getArr?).toList.mapM (·.getNat?)

def pairList (j : Json) : Except String (List (Nat × Nat)) := do
  (← j.getArr?).toList.mapM fun x => do
    match (← x.getArr?).toList with
    | [a, b] => pure ((← a.getNat?), (← b.getNat?))
    | _ => throw "pair expected"

def entryOf (j : Json) : Except String Entry := do
  let ls ← (← getArrField j "lines").toList.mapM fun x => do
    match (← x.getArr?).toList with
    | [a, b] => pure ((← a.getNat?), (if b.isNull then none else b.getNat?.toOption))
    | _ => throw "line pair expected"
  pure ⟨← getNatField j "file", ls, ← getBoolField j "fine"⟩

def itemOf (j : Json) : Except String Item := do
  pure ⟨← getNatField j "id", ← getNatField j "author", ← (← getArrField j "entries").toList.mapM entryOf⟩

def valOf (j : Json) : Except String Val := do
  match j.getObjVal? "journal" with
  | .ok a => pure (.journal (← (← a.getArr?).toList.mapM itemOf))
  | .error _ =>
    match j.getObjVal? "rlog" with
    | .ok a => pure (.rlog (← natList a))
    | .error _ =>
      let n ← j.getObjVal? "notes"
      pure (.notes (← getNatField n "tip") (← pairList (← n.getObjVal? "map")))

def opOf (j : Json) : Except String Op := do
  let key ← pathOf (← j.getObjVal? "key")
  match (← (← j.getObjVal? "k").getStr?) with
  | "ckpt" =>
    let edits ← (← getArrField j "edits").toList.mapM fun x => do
      match (← x.getArr?).toList with
      | [f, c] => pure ((← f.getNat?), (← natList c))
      | _ => throw "edit pair expected"
    pure (.ckpt key (← getNatField j "id") (← getNatField j "author") edits)
  | "rw" => pure (.rw key (← getNatField j "ev"))
  | "noteAdd" => pure (.noteAdd key (← getNatField j "id") (← getNatField j "commit") (← getNatField j "note"))
  | "noteBatch" => pure (.noteBatch key (← getNatField j "id") (← pairList (← j.getObjVal? "entries")))
  | s => throw s!"bad op kind {s}"

def posOf (s : String) : Except String LockPos :=
  match s with
  | "beforeRead" => pure .beforeRead
  | "beforeWrite" => pure .beforeWrite
  | "never" => pure .never
  | _ => throw s!"bad lock position {s}"

def posStr : LockPos → String
  | .beforeRead => "beforeRead"
  | .beforeWrite => "beforeWrite"
  | .never => "never"

def modeOf (j : Json) : Except String Mode :=
  match j.getStr? with
  | .ok "none" => pure .none
  | .ok "append" => pure .append
  | .ok "full" => pure .full
  | .ok s => throw s!"bad mode {s}"
  | .error _ => do
    let a ← posOf (← (← j.getObjVal? "add").getStr?)
    let b ← posOf (← (← j.getObjVal? "batch").getStr?)
    pure (.tbl ⟨a, b⟩)

def writerOf (j : Json) : Except String NotesWriter := do
  let cls ← match (← (← j.getObjVal? "cls").getStr?) with
    | "blind" => pure WClass.blind
    | "cas" => pure WClass.cas
    | s => throw s!"bad writer class {s}"
  let evs ← (← getArrField j "events").toList.mapM fun e => do
    match (← e.getStr?) with
    | "lock" => pure Ev.lock
    | "read" => pure Ev.read
    | "write" => pure Ev.write
    | s => throw s!"bad event {s}"
  pure ⟨[], cls, evs, ← getBoolField j "held"⟩

def jOptNat : Option Nat → Json
  | some n => jNat n
  | none => Json.null

def jEntry (e : Entry) : Json :=
  jObj [("file", jNat e.file), ("lines", jArr (e.lines.map fun p => jArr [jNat p.1, jOptNat p.2])), ("fine", Json.bool e.fine)]

def jItem (i : Item) : Json :=
  jObj [("id", jNat i.id), ("author", jNat i.author), ("entries", jArr (i.entries.map jEntry))]

def jVal : Val → Json
  | .journal l => jObj [("journal", jArr (l.map jItem))]
  | .rlog l => jObj [("rlog", jArr (l.map jNat))]
  | .notes t m =>
    let es := (m.toArray.qsort (fun a b => a.1 < b.1)).toList
    jObj [("notes", jObj [("tip", jNat t), ("map", jArr (es.map fun p => jArr [jNat p.1, jNat p.2]))])]

def opId : Op → Nat
  | .ckpt _ id .. => id
  | .rw _ ev => ev
  | .noteAdd _ id .. => id
  | .noteBatch _ id _ => id

def jPath (p : Path) : Json := jArr (p.map jStr)

def kindTag : Op → String
  | .ckpt .. => "ckpt"
  | .rw .. => "rw"
  | .noteAdd .. => "note"
  | .noteBatch .. => "batch"

def tagOf (s : State) (p : Pid) : String :=
  match (s.procs p).ops with
  | [] => "idle"
  | op :: _ => kindTag op ++ ":" ++ String.ofList (stepTag s p)

def runTrace (m : Mode) : List Pid → State → List Json → State × List Json
  | [], s, acc => (s, acc.reverse)
  | p :: rest, s, acc => runTrace m rest (step m s p) (Json.str (tagOf s p) :: acc)

def handle (op : String) (j : Json) : Option (Except String Json) :=
  match op with
  | "conc_run" => some do
      let m ← modeOf (← j.getObjVal? "mode")
      let cells ← (← getArrField j "cells").toList.mapM fun c => do
        pure ((← pathOf (← c.getObjVal? "key")), (← valOf (← c.getObjVal? "val")))
      let procs ← (← getArrField j "procs").toList.mapM fun p => do (← p.getArr?).toList.mapM opOf
      let sched ← natList (← j.getObjVal? "schedule")
      let query ← (← getArrField j "query").toList.mapM pathOf
      let c₀ : Path → Val := fun k => match cells.find? (fun c => c.1 == k) with
        | some c => c.2
        | none => default
      let P₀ : Pid → List Op := fun p => procs.getD p []
      let (s, tr) := runTrace m sched (init m c₀ P₀) []
      let fin := (List.range procs.length).all fun p => (s.procs p).ops.isEmpty
      let jl (l : List (Pid × Op)) : Json := jArr (l.map fun x => jArr [jNat x.1, jNat (opId x.2)])
      pure (jObj [("trace", jArr tr),
                  ("cells", jArr (query.map fun k => jVal (s.cell k))),
                  ("serial", jArr (query.map fun k => jVal (seqRun (c₀ k) (s.done k)))),
                  ("done", jArr (query.map fun k => jl (s.done k))),
                  ("acqd", jArr (query.map fun k => jl (s.acqd k))),
                  ("finished", Json.bool fin),
                  ("max_events", jNat maxEvents)])
  | "conc_table" => some do
      let ws ← (← getArrField j "writers").toList.mapM writerOf
      let t := tableOf ws
      pure (jObj [("add", Json.str (posStr t.add)), ("batch", Json.str (posStr t.batch)),
                  ("ok", Json.bool (decide t.ok)),
                  ("rows", jArr (ws.map fun w => jObj [("pos", Json.str (posStr w.pos)), ("ok", Json.bool w.lockReadWrite)]))])
  | "conc_aidir" => some do
      let g ← pathOf (← j.getObjVal? "git_dir")
      let c ← pathOf (← j.getObjVal? "common")
      let ai := aiDir g c
      pure (jObj [("ai", jPath ai), ("rewrite_log", jPath (rewriteLogFile ai)),
                  ("notes_ref", jPath (notesRef c)), ("checkpoints", jPath (checkpointsFile ai ['S']))])
  | _ => none

end GitAi.Driver.ConcD
