import GitAiModel.Driver.Json
import GitAiModel.Model.DiffParse
import GitAiModel.Model.Split3
namespace GitAi.Driver.DiffSplitD
open Lean GitAi GitAi.Driver

def jLinesMap (m : List (Str × List Nat)) : Json :=
  jObj (m.map fun kv => (String.ofList kv.1, jArr (kv.2.map jNat)))

def natsOf (j : Json) : Except String (List Nat) := do
  (← j.getArr?).toList.mapM (·.getNat?)

def attrOf (j : Json) : Except String Split3.LineAttr := do
  pure ⟨← getNatField j "s", ← getNatField j "e", ← getStrField j "author"⟩

/-- a hunk travels as `[old_count, new_start, new_count]` -/
def hunkOf (j : Json) : Except String Split3.Hunk := do
  match ← natsOf j with
  | [oc, ns, nc] => pure ⟨oc, ns, nc⟩
  | _ => throw "hunk: expected [old_count, new_start, new_count]"

def jPos : Split3.Pos → Json
  | .unchanged c => jObj [("unchanged", jNat c)]
  | .replaces c => jObj [("replaces", jNat c)]
  | .added => jObj [("added", Json.bool true)]
  | .invalid => jObj [("invalid", Json.bool true)]

def handle (op : String) (j : Json) : Option (Except String Json) :=
  match op with
  | "dp_parse" => some do
      let t ← getStrField j "text"
      match DiffParse.parseWithInsertions DiffParse.unescapeAscii (rustLines t) with
      | none => pure (jObj [("panic", Json.bool true)])
      | some (all, ins) => pure (jObj [("all", jLinesMap all), ("ins", jLinesMap ins)])
  | "dp_hunk" => some do
      let t ← getStrField j "line"
      match DiffParse.parseHunkHeader t with
      | .none => pure (jObj [("none", Json.bool true)])
      | .overflow => pure (jObj [("panic", Json.bool true)])
      | .lines ls p => pure (jObj [("lines", jArr (ls.map jNat)), ("pure", Json.bool p)])
  | "s3_split" => some do
      let attrs ← (← getArrField j "attrs").toList.mapM attrOf
      let c ← natsOf (← j.getObjVal? "committed")
      let hs ← (← getArrField j "hunks").toList.mapM hunkOf
      let (com, unc) := Split3.splitFile attrs c hs
      pure (jObj [("committed", jLinesMap com), ("uncommitted", jLinesMap unc)])
  | "s3_locate" => some do
      let hs ← (← getArrField j "hunks").toList.mapM hunkOf
      let ws ← natsOf (← j.getObjVal? "lines")
      pure (jObj [("pos", jArr (ws.map fun w => jPos (Split3.locate hs w)))])
  | _ => none

end GitAi.Driver.DiffSplitD
