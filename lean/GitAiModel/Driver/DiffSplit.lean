import GitAiModel.Driver.Json
import GitAiModel.Model.DiffParse
import GitAiModel.Model.Split3
namespace GitAi.Driver.DiffSplitD
open Lean GitAi GitAi.Driver

def jLinesMap (m : List (Str × List Nat)) : Json :=
  jObj (m.map fun kv => (String.ofList kv.1, jArr (kv.2.map jNat)))

def natsOf (j : Json) : Except String (List Nat) := do
  (← j.getArr?).toList.mapM (·.getNat?)

def attrOf (j : Json) : Except String Split3.LineAttr := do
  pure ⟨← getNatField j "s", ← getNatField j "e", ← getStrField j "author"⟩

def handle (op : String) (j : Json) : Option (Except String Json) :=
  match op with
  | "dp_parse" => some do
      let t ← getStrField j "text"
      match DiffParse.parseWithInsertions DiffParse.unescapeAscii (rustLines t) with
      | none => pure (jObj [("panic", Json.bool true)])
      | some (all, ins) => pure (jObj [("all", jLinesMap all), ("ins", jLinesMap ins)])
  | "dp_hunk" => some do
      let t ← getStrField j "line"
      match DiffParse.parseHunkHeader t with
      | .none => pure (jObj [("none", Json.bool true)])
      | .overflow => pure (jObj [("panic", Json.bool true)])
      | .lines ls p => pure (jObj [("lines", jArr (ls.map jNat)), ("pure", Json.bool p)])
  | "s3_split" => some do
      let attrs ← (← getArrField j "attrs").toList.mapM attrOf
      let c ← natsOf (← j.getObjVal? "committed")
      let u ← natsOf (← j.getObjVal? "unstaged")
      let p ← natsOf (← j.getObjVal? "pure")
      let (com, unc) := Split3.splitFile attrs c u p
      pure (jObj [("committed", jLinesMap com), ("uncommitted", jLinesMap unc)])
  | _ => none

end GitAi.Driver.DiffSplitD
