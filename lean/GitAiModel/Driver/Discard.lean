/-
  Driver/Discard.lean — `disc_run`: a C03 walk / recipe (vlib/props/c03.py) replayed over the union
  alphabet `DOp` of Model/Discard.lean, one model state per file, all files in lockstep. The script is
  what the end-to-end runner did; the contents git produced where it merges (stash pop / apply) are
  inputs; notes and blame are the model's output.

  The glue that is NOT part of the theorems (and is therefore part of what the correspondence tests):
    * which files a step concerns (pathspec matching is done by the runner; the scope of a human
      checkpoint is `humanScope` of Model/SysMulti.lean re-stated over file names),
    * whether a stash entry has a note (some stashed file had an AI line): pop / apply read it for every
      file or for none,
    * branches: name ↦ per-file (log, notes, head).
-/
import GitAiModel.Driver.Json
import GitAiModel.Driver.Sys
import GitAiModel.Model.Discard
namespace GitAi.Driver.DiscardD
open Lean GitAi GitAi.Driver GitAi.Sys GitAi.Driver.SysD

abbrev Hist := List (List Nat × List Nat) × List Note × List Nat

structure World where
  files : List (String × RState)
  branches : List (String × List (String × Hist)) := []
  cur : String := "main"
  out : List Json := []
  desync : Option Json := none
  /-- files that were stashed while their INITIAL claims were still pending (reported, not used) -/
  pendingStash : List String := []
  /-- per file: the commits (content, parent) made with re-indented lines `re` and those among them that the
      commit's note does NOT list. Glue for `hum` of Model/Discard.lean: as of a history `log`, a line is in `hum`
      when the newest commit of `log` that changed its whitespace form does not list it (git blame stops there). -/
  wsTab : List (String × List ((List Nat × List Nat) × List Nat × List Nat)) := []

def World.get (w : World) (p : String) : RState :=
  match w.files.find? (·.1 = p) with
  | some x => x.2
  | none => { st := {} }

def World.mapFiles (w : World) (f : String → RState → RState) : World :=
  { w with files := w.files.map (fun x => (x.1, f x.1 x.2)) }

def World.onPaths (w : World) (ps : List String) (f : RState → RState) : World :=
  w.mapFiles (fun p r => if p ∈ ps then f r else r)

def World.all (w : World) (op : DOp) : World := w.mapFiles (fun _ r => dstep r op)

def World.humAt (w : World) (p : String) (log : List (List Nat × List Nat)) : List Nat :=
  let tab := match w.wsTab.find? (·.1 = p) with
    | some x => x.2
    | none => []
  log.reverse.foldl (fun hum cp =>
    match tab.find? (fun e => e.1 == cp) with
    | some (_, re, unlisted) => hum.filter (fun y => !re.contains y) ++ unlisted
    | none => hum) []

/-- after a commit / amend of file `p` with the re-indented lines `re`: remember which of them the note lists -/
def World.noteWs (w : World) (p : String) (re : List Nat) (st : State) : World :=
  let note := st.notes.head?.getD []
  let listed (y : Nat) : Bool := ((posOf y st.head).bind (noteAuthor note)).isSome
  match st.log.head? with
  | none => w
  | some cp =>
    let old := match w.wsTab.find? (·.1 = p) with
      | some x => x.2
      | none => []
    { w with wsTab := (p, (cp, re, re.filter (fun y => !listed y)) :: old) :: w.wsTab.filter (·.1 ≠ p) }

def strsOf (j : Json) : Except String (List String) := do
  (← j.getArr?).toList.mapM (·.getStr?)

def changed (st : State) : Bool := st.index != st.head || st.work != st.index

/-- `humanScope` of Model/SysMulti.lean over file names -/
def scope (w : World) (named : List String) : List String :=
  let paths := w.files.map (·.1)
  let st (p : String) := (w.get p).st
  let logFiles := paths.filter (fun p => !(st p).entries.isEmpty)
  let files0 := named ++ paths.filter (fun p => !(st p).initial.isEmpty) ++ logFiles
  let staged := paths.filter (fun p => (st p).index != (st p).head)
  let cands := if files0.isEmpty then (if staged.isEmpty then paths else staged) else staged ++ files0
  cands.filter (fun p => changed (st p)) ++ logFiles

def World.hcp (w : World) (named : List String) : World :=
  let sc := scope w named
  w.onPaths sc (fun r => dstep r (.r (.base .humanCheckpoint)))

def histOf (st : State) : Hist := (st.log, st.notes, st.head)

def World.saveBranch (w : World) (name : String) : World :=
  { w with branches := (name, w.files.map (fun x => (x.1, histOf x.2.st))) :: w.branches.filter (·.1 ≠ name) }

def World.branchHist (w : World) (name p : String) : Hist :=
  match w.branches.find? (·.1 = name) with
  | some b => match b.2.find? (·.1 = p) with
    | some x => x.2
    | none => ([], [], [])
  | none => histOf (w.get p).st

def idsOfField (j : Json) (p : String) : Except String (List Nat) :=
  match j.getObjVal? p with
  | .ok v => natsOf v
  | .error _ => pure []

/-- the newest stash entry carries a note: some file's saved claims are not empty -/
def topHasNote (w : World) : Bool :=
  w.files.any (fun x => match x.2.stash with
    | (_, saved) :: _ => !saved.isEmpty
    | [] => false)

def blameOut (st : State) : Json :=
  jPairs ((enum1 st.head).filterMap (fun p => (blame st.log st.notes p.2).map (fun s => (p.1, s))))

def obsOf (w : World) : Json :=
  jObj (w.files.map (fun x =>
    (x.1, jObj [("notes", jArr (x.2.st.notes.map jPairs)), ("blame", blameOut x.2.st),
                ("work", jArr (x.2.st.work.map jNat)), ("head", jArr (x.2.st.head.map jNat)),
                ("initial", jPairs x.2.st.initial), ("entries", jNat x.2.st.entries.length)])))

def stepW (w : World) (j : Json) : Except String World := do
  let k ← (← j.getObjVal? "k").getStr?
  match k with
  | "human" =>
    let p ← (← j.getObjVal? "p").getStr?
    let ys ← natsOf (← j.getObjVal? "ys")
    pure (w.onPaths [p] (fun r => dstep r (.r (.base (.humanEdit ys)))))
  | "ai" =>
    -- agent protocol: pre-edit human checkpoint naming the file, the edit, AI checkpoint naming the file
    let p ← (← j.getObjVal? "p").getStr?
    let ys ← natsOf (← j.getObjVal? "ys")
    let s ← getNatField j "s"
    let w1 := (w.hcp [p])
    pure (w1.onPaths [p] (fun r => dstep r (.r (.base (.aiEdit s ys)))))
  | "hcp" => pure (w.hcp (← strsOf (← j.getObjVal? "named")))
  | "add" => pure (w.onPaths (← strsOf (← j.getObjVal? "paths")) (fun r => dstep r (.r (.base .stageAll))))
  | "addAll" => pure (w.all (.r (.base .stageAll)))
  -- `re` (optional): per file, the ids git reports in another whitespace form than the older content holds
  -- (Model/Discard.lean, whitespace-sensitive reading); a file without such a line takes the alphabet's step
  | "commit" =>
    let re := (j.getObjVal? "re").toOption.getD Json.null
    w.files.foldlM (init := { w with files := [] }) (fun acc x => do
      let r ← idsOfField re x.1
      if r.isEmpty then pure { acc with files := acc.files ++ [(x.1, dstep x.2 (.r (.base .commit)))] }
      else
        let st' := commitStepWs r x.2.st
        pure { (acc.noteWs x.1 r st') with files := acc.files ++ [(x.1, { x.2 with st := st' })] })
  -- `ov` (optional, amend / reset): per file, the ids with an explicit human override in the working log
  | "amend" =>
    let re := (j.getObjVal? "re").toOption.getD Json.null
    let ov := (j.getObjVal? "ov").toOption.getD Json.null
    w.files.foldlM (init := { w with files := [] }) (fun acc x => do
      let r ← idsOfField re x.1
      let o ← idsOfField ov x.1
      if r.isEmpty && o.isEmpty then pure { acc with files := acc.files ++ [(x.1, dstep x.2 (.r .amend))] }
      else
        let st' := amendStepWs r (acc.humAt x.1 x.2.st.log ++ o) x.2.st
        pure { (acc.noteWs x.1 r st') with files := acc.files ++ [(x.1, { x.2 with st := st' })] })
  | "d" =>
    let ps ← strsOf (← j.getObjVal? "paths")
    let o ← (← j.getObjVal? "op").getStr?
    let op ← match o with
      | "discardFile" => pure DOp.discardFile
      | "restoreFile" => pure DOp.restoreFile
      | "unstage" => pure DOp.unstage
      | _ => throw s!"bad discard op {o}"
    match op with
    | .discardFile =>
      -- git restores the named files, then post_checkout_hook runs a human checkpoint without named files:
      -- the restored files are `DOp.discardFile` (restore + checkpoint), every other file in the
      -- checkpoint's scope (computed on the restored tree) gets its human checkpoint too
      let sc := scope (w.onPaths ps (fun r => dstep r .restoreFile)) []
      pure (w.mapFiles (fun p r =>
        if p ∈ ps then dstep r .discardFile
        else if p ∈ sc then dstep r (.r (.base .humanCheckpoint)) else r))
    | _ => pure (w.onPaths ps (fun r => dstep r op))
  | "unstageAll" => pure (w.all .unstageAll)
  | "resetHard" => pure (w.all (.resetHard (← getNatField j "n")))
  | "checkoutForceSame" => pure (w.all .checkoutForceSame)
  | "reset" =>
    let n ← getNatField j "n"
    let soft ← getBoolField j "soft"
    let re := (j.getObjVal? "re").toOption.getD Json.null
    let ov := (j.getObjVal? "ov").toOption.getD Json.null
    w.files.foldlM (init := { w with files := [] }) (fun acc x => do
      let r ← idsOfField re x.1
      let o ← idsOfField ov x.1
      let x' := if r.isEmpty && o.isEmpty then dstep x.2 (.r (.reset n soft))
        else { x.2 with st := resetStepWs n soft r (acc.humAt x.1 (x.2.st.log.drop n) ++ o) x.2.st }
      pure { acc with files := acc.files ++ [(x.1, x')] })
  | "stashPush" =>
    let pend := (w.files.filter (fun x => !x.2.st.initial.isEmpty)).map (·.1)
    pure { (w.all (.r .stashPush)) with pendingStash := w.pendingStash ++ pend }
  | "stashPushPaths" =>
    let ps ← strsOf (← j.getObjVal? "paths")
    let pend := (w.files.filter (fun x => x.1 ∈ ps && !x.2.st.initial.isEmpty)).map (·.1)
    pure { (w.mapFiles (fun p r => if p ∈ ps then dstep r (.r .stashPush) else dstep r .stashPushOther)) with
           pendingStash := w.pendingStash ++ pend }
  | "stashPop" | "stashApply" =>
    let ys ← j.getObjVal? "ys"
    let note := topHasNote w
    let fs ← w.files.mapM (fun x => do
      let y ← idsOfField ys x.1
      let op : DOp := if k = "stashApply" then (if note then .stashApply y else .r (.base (.humanEdit y)))
        else (if note then .r (.stashPop y) else .stashPopNoNote y)
      pure (x.1, dstep x.2 op))
    pure { w with files := fs }
  | "stashDrop" => pure (w.all .stashDrop)
  | "mkbranch" =>
    let name ← (← j.getObjVal? "name").getStr?
    pure (w.saveBranch name)
  | "switch" =>
    let name ← (← j.getObjVal? "name").getStr?
    let same ← getBoolField j "same"
    let force ← getBoolField j "force"
    let w0 := w.saveBranch w.cur
    if same then
      pure { (if force then w0.all .checkoutForceSame else w0) with cur := name }
    else
      let w1 := w0.mapFiles (fun p r =>
        let (l, n, h) := w0.branchHist name p
        if force then dstep r (.checkoutForce l n h) else dstep r (.r (.switchCarry l n h)))
      pure { w1 with cur := name }
  | "expect" =>
    if w.desync.isSome then pure w else
    let ws ← j.getObjVal? "w"
    let mut bad : Option Json := none
    for x in w.files do
      let y ← idsOfField ws x.1
      if y != x.2.st.work && bad.isNone then
        bad := some (jObj [("path", Json.str x.1), ("model", jArr (x.2.st.work.map jNat)), ("observed", jArr (y.map jNat)),
                           ("at", jNat w.out.length)])
    pure { w with desync := bad }
  | "obs" => pure { w with out := w.out ++ [obsOf w] }
  | _ => throw s!"bad disc step {k}"

def handle (op : String) (j : Json) : Option (Except String Json) :=
  match op with
  | "disc_run" => some do
      let names ← strsOf (← j.getObjVal? "files")
      let base ← j.getObjVal? "base"
      let files ← names.mapM (fun p => do
        let h ← idsOfField base p
        pure (p, ({ st := { head := h, index := h, work := h } } : RState)))
      let script ← getArrField j "script"
      let mut w : World := { files := files }
      for s in script.toList do
        w ← stepW w s
      pure (jObj [("obs", jArr w.out), ("desync", w.desync.getD Json.null),
                  ("pendingStash", jArr (w.pendingStash.map Json.str))])
  | _ => none

end GitAi.Driver.DiscardD
