/-
  Driver/HookMode.lean — line-protocol ops for the wrapper / git-hooks mode model (C13).

  hookmode_run {ops: [<op>…]}
    runs the sequence from the initial state in the three configurations and returns, per operation,
      {fires: [<hook event>…],                 -- the git kernel's prediction (model-relevant hooks only)
       W | H | B: {journal: [<event>…],        -- every rewrite_log event the operation appends, oldest first
                   handled: [<canonical handled event>…], actions: [<direct action>…]},
       side: {mask, pull, stashTx, cpBatch, cpState},      -- hook-mode side state after the operation
       wf, agree, journalOk, sideOk, stepOk}
    plus {good: <every step is inside the region of theorem modes_equivalent>}.

  <op>: {"k": "commit", "parent": n|null, "new": n, "unrecorded": b} … see `opOf`.
  Commit ids are scenario-local numbers.
-/
import GitAiModel.Driver.Json
import GitAiModel.Model.HookMode
namespace GitAi.Driver.HookModeD
open Lean GitAi GitAi.Driver GitAi.HookMode

def optNat (j : Json) (k : String) : Except String (Option Nat) :=
  match j.getObjVal? k with
  | .ok Json.null => pure none
  | .ok v => do let n ← v.getNat?; pure (some n)
  | .error _ => pure none

def boolD (j : Json) (k : String) (d : Bool) : Bool :=
  match j.getObjVal? k with
  | .ok (Json.bool b) => b
  | _ => d

def natList (j : Json) (k : String) : Except String (List Nat) := do
  match j.getObjVal? k with
  | .ok v => (← v.getArr?).toList.mapM (·.getNat?)
  | .error _ => pure []

def pairList (j : Json) (k : String) : Except String (List (Nat × Nat)) := do
  match j.getObjVal? k with
  | .ok v => (← v.getArr?).toList.mapM (fun p => do
      match (← p.getArr?).toList with
      | [a, b] => pure ((← a.getNat?), (← b.getNat?))
      | _ => throw "pair expected")
  | .error _ => pure []

def pairOf (j : Json) (k : String) : Except String (Nat × Nat) := do
  match (← (← j.getObjVal? k).getArr?).toList with
  | [a, b] => pure ((← a.getNat?), (← b.getNat?))
  | _ => throw "pair expected"

def innerOf (j : Json) : Except String Inner := do
  match (← j.getArr?).toList with
  | [Json.str "pre-commit"] => pure .preCommit
  | [Json.str "prepare-commit-msg"] => pure .prepareCommitMsg
  | [Json.str "commit-msg"] => pure .commitMsg
  | [Json.str "post-commit"] => pure .postCommit
  | [Json.str "ref-head", a, b] => pure (.refTxHead (← a.getNat?) (← b.getNat?))
  | Json.str "post-rewrite-amend" :: ps =>
    pure (.postRewriteAmend (← ps.mapM (fun p => do
      match (← p.getArr?).toList with
      | [a, b] => pure ((← a.getNat?), (← b.getNat?))
      | _ => throw "pair expected")))
  | _ => throw "bad inner event"

def rebaseOf (j : Json) : Except String RebaseFacts := do
  let inner ← match j.getObjVal? "inner" with
    | .ok v => (← v.getArr?).toList.mapM innerOf
    | .error _ => pure []
  pure { orig := ← getNatField j "orig", onto := ← getNatField j "onto",
         upstreamArg := ← getNatField j "upstreamArg", branchArg := ← optNat j "branchArg", interactive := boolD j "interactive" false,
         chain := ← natList j "chain", newChain := ← natList j "newChain", pairs := ← pairList j "pairs",
         newHead := ← getNatField j "newHead", inner := inner, wlAtOrig := boolD j "wlAtOrig" false,
         autostash := boolD j "autostash" false }

def resetKindOf : String → Except String ResetKind
  | "hard" => pure .hard | "soft" => pure .soft | "mixed" => pure .mixed
  | s => throw s!"bad reset kind {s}"

def modeOf : String → Except String CoMode
  | "plain" => pure .plain | "force" => pure .force | "merge" => pure .merge
  | s => throw s!"bad checkout mode {s}"

def opOf (j : Json) : Except String Op := do
  let k ← (← j.getObjVal? "k").getStr?
  match k with
  | "commit" => pure (.commit (← optNat j "parent") (← getNatField j "new") (boolD j "unrecorded" false))
  | "commitFails" => pure (.commitFails (← optNat j "head") (boolD j "unrecorded" false))
  | "amend" => pure (.amend (← getNatField j "old") (← getNatField j "new") (← optNat j "oldParent") (boolD j "unrecorded" false))
  | "rebase" => pure (.rebase (← rebaseOf j))
  | "rebaseStop" => pure (.rebaseStop (← rebaseOf j))
  | "rebaseContinue" => pure (.rebaseContinue (← rebaseOf j))
  | "rebaseAbort" => pure (.rebaseAbort (← rebaseOf j))
  | "pullRebase" => pure (.pullRebase (← rebaseOf j))
  | "cherryPick" => pure (.cherryPick (← getNatField j "head") (← pairList j "pairs"))
  | "cherryPickStop" => pure (.cherryPickStop (← getNatField j "head") (← natList j "srcs") (← pairList j "done"))
  | "cherryPickContinue" =>
    pure (.cherryPickContinue (← getNatField j "head") (← natList j "srcs") (← pairList j "done") (← pairOf j "res")
            (← pairList j "rest") (boolD j "multi" false))
  | "cherryPickAbort" => pure (.cherryPickAbort (← getNatField j "head"))
  | "cherryPickNoCommit" => pure (.cherryPickNoCommit (← getNatField j "head") (← getNatField j "src"))
  | "reset" =>
    pure (.reset (← resetKindOf (← (← j.getObjVal? "kind").getStr?)) (← getNatField j "old") (← getNatField j "new")
            (boolD j "backward" false) (boolD j "dirtyAfter" false) (boolD j "unrecorded" false))
  | "stashPush" =>
    pure (.stashPush (← getNatField j "head") (← getNatField j "stash") (← getNatField j "count") (← optNat j "prevStash")
            (boolD j "unrecorded" false))
  | "stashPop" =>
    pure (.stashPop (← getNatField j "head") (← getNatField j "stash") (← getNatField j "count") (← optNat j "next")
            (boolD j "dirtyAfter" true))
  | "stashApply" => pure (.stashApply (← getNatField j "head") (← getNatField j "stash"))
  | "mergeSquash" => pure (.mergeSquash (← getNatField j "src") (← getNatField j "base"))
  | "checkout" =>
    pure (.checkout (boolD j "switch" false) (← getNatField j "old") (← getNatField j "new")
            (← modeOf (← (← j.getObjVal? "mode").getStr?)) (boolD j "dirty" false) (boolD j "create" false) (boolD j "wl" false))
  | "checkoutPath" => pure (.checkoutPath (← getNatField j "head"))
  | "pullFF" => pure (.pullFF (← getNatField j "old") (← getNatField j "new") (boolD j "wl" false))
  | "agentCheckpoint" => pure (.agentCheckpoint (boolD j "rebaseDir" false))
  | s => throw s!"bad op kind {s}"

/-! ### output -/

def jOpt : Option Nat → Json
  | some n => jNat n
  | none => Json.null

def jNats (l : List Nat) : Json := jArr (l.map jNat)
def jPairs (l : List (Nat × Nat)) : Json := jArr (l.map fun p => jArr [jNat p.1, jNat p.2])

def jKind : ResetKind → String
  | .hard => "hard" | .soft => "soft" | .mixed => "mixed"

def jJEv : JEv → Json
  | .commit b s => jObj [("kind", "commit"), ("base", jOpt b), ("sha", jNat s)]
  | .commitAmend o n => jObj [("kind", "commit_amend"), ("orig", jNat o), ("new", jNat n)]
  | .mergeSquash nm s b => jObj [("kind", "merge_squash"), ("src_named", Json.bool nm), ("source_head", jNat s), ("base_head", jNat b)]
  | .rebaseStart o i onto => jObj [("kind", "rebase_start"), ("original_head", jNat o), ("is_interactive", Json.bool i), ("onto_head", jOpt onto)]
  | .rebaseComplete o n i os ns =>
    jObj [("kind", "rebase_complete"), ("original_head", jNat o), ("new_head", jNat n), ("is_interactive", Json.bool i),
          ("original_commits", jNats os), ("new_commits", jNats ns)]
  | .rebaseAbort o => jObj [("kind", "rebase_abort"), ("original_head", jNat o)]
  | .cherryPickStart o s => jObj [("kind", "cherry_pick_start"), ("original_head", jNat o), ("source_commits", jNats s)]
  | .cherryPickComplete o n s ns =>
    jObj [("kind", "cherry_pick_complete"), ("original_head", jNat o), ("new_head", jNat n), ("source_commits", jNats s), ("new_commits", jNats ns)]
  | .cherryPickAbort o => jObj [("kind", "cherry_pick_abort"), ("original_head", jNat o)]
  | .reset k kp m n o =>
    jObj [("kind", "reset"), ("reset_kind", jKind k), ("keep", Json.bool kp), ("merge", Json.bool m), ("new_head_sha", jNat n), ("old_head_sha", jNat o)]

def jCEv : CEv → Json
  | .commit b s => jObj [("kind", "commit"), ("base", jOpt b), ("sha", jNat s)]
  | .amend o n => jObj [("kind", "commit_amend"), ("orig", jNat o), ("new", jNat n)]
  | .squash s b => jObj [("kind", "merge_squash"), ("source_head", jNat s), ("base_head", jNat b)]
  | .rebase o n os ns => jObj [("kind", "rebase_complete"), ("original_head", jNat o), ("new_head", jNat n), ("original_commits", jNats os), ("new_commits", jNats ns)]
  | .cherryPick s n => jObj [("kind", "cherry_pick_complete"), ("source_commits", jNats s), ("new_commits", jNats n)]

def jEff : Eff → Json
  | .log e => jObj [("a", "log"), ("e", jJEv e)]
  | .handle e => jObj [("a", "handle"), ("e", jJEv e)]
  | .checkpoint u => jObj [("a", "checkpoint"), ("unrecorded", Json.bool u)]
  | .reconstruct t o => jObj [("a", "reconstruct"), ("target", jNat t), ("old", jNat o)]
  | .deleteWL s => jObj [("a", "deleteWL"), ("sha", jNat s)]
  | .renameWL o n p => jObj [("a", "renameWL"), ("old", jNat o), ("new", jNat n), ("present", Json.bool p)]
  | .stashSave => jObj [("a", "stashSave")]
  | .stashRestore s => jObj [("a", "stashRestore"), ("stash", jNat s)]
  | .restoreVA o n => jObj [("a", "restoreVA"), ("old", jNat o), ("new", jNat n)]
  | .dropPaths => jObj [("a", "dropPaths")]
  | .fetchNotes => jObj [("a", "fetchNotes")]
  | .pushNotes => jObj [("a", "pushNotes")]

def jAction : Action → String
  | .unset => "" | .pull => "pull" | .amend => "amend" | .reset => "reset" | .rebaseAbort => "rebase-abort"
  | .cherryPickAbort => "cherry-pick-abort" | .other => "other"

def jRef : RefName → String
  | .head => "HEAD" | .branch => "branch" | .stash => "refs/stash" | .other => "other"

def jPhase : Phase → String
  | .prepared => "prepared" | .committed => "committed" | .aborted => "aborted"

def jCtx (c : Ctx) : List (String × Json) :=
  [("rebaseDir", Json.bool c.rebaseDir), ("cpHead", jOpt c.cpHead), ("seqDir", Json.bool c.seqDir), ("action", jAction c.action),
   ("reflogReset", Json.bool c.reflogReset)]

def jHook (e : HookEv) : Json :=
  let nm : String := String.ofList e.name
  let extra : List (String × Json) :=
    match e with
    | .preRebase up br _ => [("upstream", jOpt up), ("branch", jOpt br)]
    | .postRewriteAmend ps _ => [("kind", "amend"), ("pairs", jPairs ps)]
    | .postRewriteRebase ps _ => [("kind", "rebase"), ("pairs", jPairs ps)]
    | .postCheckout o n f _ => [("old", jOpt o), ("new", jOpt n), ("flag", Json.bool f)]
    | .postMerge s _ => [("squash", Json.bool s)]
    | .refTx ph ups _ => [("phase", jPhase ph), ("ups", jArr (ups.map fun u => jArr [jOpt u.old, jOpt u.new, Json.str (jRef u.ref)]))]
    | _ => []
  jObj ([("hook", Json.str nm)] ++ extra ++ jCtx e.ctx)

def jSide (s : Side) : Json :=
  jObj [("mask", Json.bool s.mask), ("pull", jOpt s.pull), ("stashTx", jOpt s.stashTx),
        ("cpBatch", match s.cpBatch with
          | some (i, m) => jObj [("initial_head", jNat i), ("mappings", jPairs m)]
          | none => Json.null),
        ("cpState", match s.cpState with
          | some (a, b) => jArr [jNat a, jNat b]
          | none => Json.null)]

def jRun (e : List Eff) : Json :=
  jObj [("journal", jArr ((journalOf e).map jJEv)), ("handled", jArr ((canonJ e).map jCEv)),
        ("actions", jArr ((canonA e).map jEff)), ("all", jArr (e.map jEff))]

def runAll : St → St → St → List Op → List Json → List Json
  | _, _, _, [], acc => acc.reverse
  | sW, sH, sB, op :: r, acc =>
    let (sW', eW) := wrapper sW op
    let (sH', eH) := hooks sH op
    let (sB', eB) := both sB op
    let j := jObj [("fires", jArr ((fires op).map jHook)), ("W", jRun eW), ("H", jRun eH), ("B", jRun eB),
                   ("side", jSide sH'.side), ("wf", Json.bool op.wf), ("agree", Json.bool op.agree),
                   ("journalOk", Json.bool (journalOk sW.journal op)), ("sideOk", Json.bool (sideOk sH.side op)),
                   ("stepOk", Json.bool (stepOk sW sH op))]
    runAll sW' sH' sB' r (j :: acc)

def handle (op : String) (j : Json) : Option (Except String Json) :=
  match op with
  | "hookmode_run" => some do
      let ops ← (← getArrField j "ops").toList.mapM opOf
      pure (jObj [("steps", jArr (runAll St.init St.init St.init ops [])),
                  ("good", Json.bool (good St.init St.init ops))])
  | _ => none

end GitAi.Driver.HookModeD
