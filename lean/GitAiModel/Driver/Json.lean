/-
  Driver/Json.lean — helpers for the line protocol (JSON in, JSON out).
  Only the driver imports `Lean.Data.Json`; model files stay import-free.
-/
import Lean.Data.Json
import GitAiModel.Base.Text
namespace GitAi.Driver
open Lean

def strOf (j : Json) : Except String Str := do
  let s ← j.getStr?
  pure s.toList

def getStrField (j : Json) (k : String) : Except String Str := do
  strOf (← j.getObjVal? k)

def getNatField (j : Json) (k : String) : Except String Nat := do
  (← j.getObjVal? k).getNat?

def getArrField (j : Json) (k : String) : Except String (Array Json) := do
  (← j.getObjVal? k).getArr?

def getBoolField (j : Json) (k : String) : Except String Bool := do
  (← j.getObjVal? k).getBool?

def jStr (s : Str) : Json := Json.str (String.ofList s)
def jNat (n : Nat) : Json := Json.num (JsonNumber.fromNat n)
def jArr (l : List Json) : Json := Json.arr l.toArray
def jObj (kvs : List (String × Json)) : Json := Json.mkObj kvs

/-- bytes as a JSON array of numbers -/
def bytesOf (j : Json) : Except String (List UInt8) := do
  let a ← j.getArr?
  a.toList.mapM (fun x => do let n ← x.getNat?; pure n.toUInt8)

def jBytes (b : List UInt8) : Json := jArr (b.map (fun x => jNat x.toNat))

end GitAi.Driver
