/-
  Driver/LineStep.lean — line-protocol op `linestep` (bridge C16 ⇒ C01/C14).

  Request: `al` = `[[k, body, id] …]` (k: 0 keep, 1 delete, 2 insert; body = the line without its
  `\n`, a JSON string or an array of bytes; id = content id), `authors` = previous per-line authors
  and `who` = reporter as numbers (0 = a person, s > 0 = AI session s), `ts`, `ts0`, and optionally
  `tail` = a last inserted line WITHOUT final newline (legacy form; composed here from the same
  tracker functions), `onl` / `nnl` (default true) = does the previous / current content end with a
  newline (`LineStep.lineStepE`, substantive ranges by the segment contract: `tailSubst`).
  Response: `ok` = per-line authors computed by the byte-level model (`LineStep.lineStep`),
  `lsegs` = the same (the harness compares it with the real transform run on the line segments),
  `rule` = `LineStep.lineRule`, `sys` = `Sys.checkpointAttr` on the ids, `pre` = the hypotheses of
  `lineStep_refines_checkpointAttr` evaluated on the request.
-/
import GitAiModel.Driver.Json
import GitAiModel.Driver.Tracker
import GitAiModel.Model.LineStep
import GitAiModel.Model.Sys
namespace GitAi.Driver.LineStepD
open Lean GitAi GitAi.Driver GitAi.Tracker GitAi.LineStep

def enc : Sys.Author → Str
  | none => human
  | some s => ("ai_" ++ toString s).toList

def authorOf (n : Nat) : Sys.Author := if n = 0 then none else some n

def itemOf (j : Json) : Except String (Al × Nat) := do
  let a ← j.getArr?
  match a.toList with
  | [k, b, y] =>
    let kind ← k.getNat?
    let body ← TrackerD.textOf b
    let id ← y.getNat?
    pure ((if kind = 0 then .keep body else if kind = 1 then .delete body else .insert body), id)
  | _ => throw "bad alignment item"

def prevIdsOf (ial : List (Al × Nat)) : List Nat :=
  ial.filterMap (fun p => match p.1 with | .insert _ => none | _ => some p.2)
def newIdsOf (ial : List (Al × Nat)) : List Nat :=
  ial.filterMap (fun p => match p.1 with | .delete _ => none | _ => some p.2)
def insertedIdsOf (ial : List (Al × Nat)) : List Nat :=
  ial.filterMap (fun p => match p.1 with | .insert _ => some p.2 | _ => none)

/-- the pipeline with a last inserted line that has no final newline -/
def withTail (al : List Al) (tail : Text) (prevAuthors : List Str) (who : Str) (ts ts0 : Nat) :
    Except Err (List Str) :=
  let old := textOf (oldBodies al)
  let new := textOf (newBodies al) ++ tail
  let priors := lineAttrsToAttrs (priorLines 1 prevAuthors) old ts0
  let filled := fillUnattributed old priors human (ts - 1)
  -- segment contract: an insertion with non-whitespace content is substantive
  let np := (textOf (newBodies al)).length
  let subst := if allWs tail then [] else [(np, np + tail.length)]
  match update (segsOf al ++ [⟨.insert, tail⟩]) subst [] filled who ts with
  | .error e => .error e
  | .ok out =>
    match toLineAttrs out new with
    | .error e => .error e
    | .ok R => .ok (lineAuthors R ((newBodies al).length + 1))

def jStrs (l : List Str) : Json := jArr (l.map jStr)

def handle (op : String) (j : Json) : Option (Except String Json) :=
  match op with
  | "linestep" => some do
      let ial ← (← getArrField j "al").toList.mapM itemOf
      let authors := (← (← getArrField j "authors").toList.mapM (·.getNat?)).map authorOf
      let who := authorOf (← getNatField j "who")
      let ts ← getNatField j "ts"
      let ts0 ← getNatField j "ts0"
      let al := ial.map (·.1)
      let pids := prevIdsOf ial
      let tail ← match j.getObjVal? "tail" with
        | .ok (.null) => pure none
        | .ok t => do pure (some (← TrackerD.textOf t))
        | .error _ => pure none
      let flag (k : String) : Bool := match j.getObjVal? k with
        | .ok (.bool b) => b
        | _ => true
      let oNl := flag "onl"
      let nNl := flag "nnl"
      let res := match tail with
        | none =>
          if oNl && nNl then lineStep al (authors.map enc) (enc who) ts ts0 []
          else lineStepE oNl nNl al (authors.map enc) (enc who) ts ts0 (tailSubst nNl al)
        | some t => withTail al t (authors.map enc) (enc who) ts ts0
      let sys := (Sys.checkpointAttr ⟨pids, authors⟩ (newIdsOf ial) who).map enc
      let pre := jObj [("alOk", Json.bool (alOk al)), ("len", Json.bool (authors.length == pids.length)),
                       ("unique", Json.bool (decide pids.Nodup)),
                       ("fresh", Json.bool ((insertedIdsOf ial).all (fun y => !pids.contains y))),
                       ("lastOk", Json.bool (lastOk oNl (oldBodies al) && lastOk nNl (newBodies al))),
                       ("eofPlain", Json.bool (eofPlain oNl nNl al))]
      match res with
      | .error _ => pure (jObj [("err", Json.str "panic"), ("pre", pre)])
      | .ok r => pure (jObj [("ok", jStrs r), ("lsegs", jStrs r), ("rule", jStrs (lineRule al (authors.map enc) (enc who))),
                             ("sys", jStrs sys), ("pre", pre)])
  | _ => none

end GitAi.Driver.LineStepD
