import GitAiModel.Driver.Json
import GitAiModel.Model.NoteFormat
namespace GitAi.Driver.NoteFormatD
open Lean GitAi GitAi.Driver GitAi.NoteFormat

def rangeOf (j : Json) : Except String LineRange := do
  let a ← j.getArr?
  match a.toList with
  | [n] => pure (.single (← n.getNat?))
  | [s, e] => pure (.range (← s.getNat?) (← e.getNat?))
  | _ => throw "bad range"

def entryOf (j : Json) : Except String Entry := do
  let h ← getStrField j "hash"
  let rs ← (← getArrField j "ranges").toList.mapM rangeOf
  pure ⟨h, rs⟩

def fileOf (j : Json) : Except String FileAtt := do
  let p ← getStrField j "path"
  let es ← (← getArrField j "entries").toList.mapM entryOf
  pure ⟨p, es⟩

def jRange : LineRange → Json
  | .single n => jArr [jNat n]
  | .range s e => jArr [jNat s, jNat e]

def jFile (f : FileAtt) : Json :=
  jObj [("path", jStr f.path),
        ("entries", jArr (f.entries.map fun e =>
          jObj [("hash", jStr e.hash), ("ranges", jArr (e.ranges.map jRange))]))]

def errName : ParseErr → String
  | .noDivider => "no_divider" | .orphanEntry => "orphan_entry" | .badEntry => "bad_entry"
  | .badInt => "bad_int" | .panic => "panic"

def handle (op : String) (j : Json) : Option (Except String Json) :=
  match op with
  | "nf_serialize" => some do
      let fs ← (← getArrField j "files").toList.mapM fileOf
      let J ← getStrField j "json"
      pure (jObj [("text", jStr (serialize fs J))])
  | "nf_deserialize" => some do
      let t ← getStrField j "text"
      match deserialize t with
      | .error e => pure (jObj [("err", Json.str (errName e))])
      | .ok (fs, js) => pure (jObj [("ok", jObj [("files", jArr (fs.map jFile)), ("json", jStr js)])])
  | "nf_format_ranges" => some do
      let rs ← (← getArrField j "ranges").toList.mapM rangeOf
      pure (jObj [("text", jStr (formatRanges rs))])
  | "nf_parse_ranges" => some do
      let t ← getStrField j "text"
      match parseRanges t with
      | .error e => pure (jObj [("err", Json.str (errName e))])
      | .ok rs => pure (jObj [("ok", jArr (rs.map jRange))])
  | _ => none

end GitAi.Driver.NoteFormatD
