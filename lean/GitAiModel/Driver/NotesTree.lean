import GitAiModel.Driver.Json
import GitAiModel.Driver.NoteFormat
import GitAiModel.Model.NotesTree
namespace GitAi.Driver.NotesTreeD
open Lean GitAi GitAi.Driver GitAi.NoteFormat GitAi.NotesTree

def pairOf (j : Json) : Except String (Str × Str) := do
  let a ← j.getArr?
  match a.toList with
  | [x, y] => pure (← strOf x, ← strOf y)
  | _ => throw "bad pair"

def pairsOf (j : Json) (k : String) : Except String (List (Str × Str)) := do
  (← getArrField j k).toList.mapM pairOf

def strsOf (j : Json) (k : String) : Except String (List Str) := do
  (← getArrField j k).toList.mapM strOf

def insSorted {α} (key : α → String) (x : α) : List α → List α
  | [] => [x]
  | y :: ys => if key x ≤ key y then x :: y :: ys else y :: insSorted key x ys

def sortOn {α} (key : α → String) (l : List α) : List α := l.foldr (insSorted key) []

def jPairs (l : List (Str × Str)) : Json :=
  jArr ((sortOn (fun p => String.ofList p.1 ++ "\x00" ++ String.ofList p.2) l).map
    (fun p => jArr [jStr p.1, jStr p.2]))

def panicName : Panic → String
  | .slice => "slice" | .overflow => "overflow"

def jExc {α} (f : α → Json) : Except Panic α → Json
  | .ok v => jObj [("ok", f v)]
  | .error e => jObj [("panic", Json.str (panicName e))]

def cmdText : Cmd → Str
  | .D p => 'D' :: ' ' :: p ++ ['\n']
  | .M d p => "M 100644 ".toList ++ d ++ ' ' :: p ++ ['\n']

def attrOf (j : Json) : Except String LineAttr := do
  let a ← j.getArr?
  match a.toList with
  | [s, e, h] => pure ⟨← s.getNat?, ← e.getNat?, ← strOf h⟩
  | _ => throw "bad line attribution"

def canonFile (f : FileAtt) : FileAtt :=
  { f with entries := sortOn (fun e => String.ofList e.hash) f.entries }

def natPairOf (j : Json) : Except String (Str × Nat) := do
  let a ← j.getArr?
  match a.toList with
  | [x, y] => pure (← strOf x, ← y.getNat?)
  | _ => throw "bad pair"

def wfArgs (j : Json) : Except String (NoteMeta × CommitFacts) := do
  let base ← getStrField j "base_sha"
  let keys ← strsOf j "prompt_keys"
  let c ← j.getObjVal? "commit"
  let sha ← getStrField c "sha"
  let files ← (← getArrField c "files").toList.mapM natPairOf
  pure (⟨base, keys⟩, ⟨sha, files⟩)

def handle (op : String) (j : Json) : Option (Except String Json) :=
  match op with
  | "nt_paths" => some do
      let oid ← getStrField j "oid"
      pure (jObj [
        ("fanout", jExc jStr (notesPathForObject oid)),
        ("flat_pathspec", jStr (flatNotePathspec oid)),
        ("fanout_pathspec", jExc jStr (fanoutNotePathspec oid)),
        ("paths", jExc (fun ps => jArr (ps.map jStr)) (notePathsForObject oid)),
        ("pathspecs", jExc (fun ps => jArr (ps.map jStr)) (notePathspecsForCommit oid)),
        ("variants", jArr ((variants oid).map jStr))])
  | "nt_update_cmds" => some do
      let sha ← getStrField j "sha"
      let data ← getStrField j "data"
      pure (jExc (fun cs => jStr (cs.flatMap cmdText)) (noteTreeUpdate sha data))
  | "nt_batch" => some do
      let t ← pairsOf j "tree"
      let es ← pairsOf j "entries"
      pure (jExc (fun t' => jObj [("tree", jPairs t')]) (notesAddBatch t es))
  | "nt_batch_v0" => some do
      let t ← pairsOf j "tree"
      let es ← pairsOf j "entries"
      pure (jExc (fun t' => jObj [("tree", jPairs t')]) (notesAddBatchV0 t es))
  | "nt_git_add" => some do
      let t ← pairsOf j "tree"
      let sha ← getStrField j "sha"
      let b ← getStrField j "blob"
      let d := (j.getObjValAs? Nat "depth").toOption.getD 0
      let t' := notesAdd (fun _ => d) t sha b
      pure (jObj [("abs", jPairs (t'.map (fun e => (objOf e.1, e.2)))), ("tree", jPairs t')])
  | "nt_lookup" => some do
      let t ← pairsOf j "tree"
      let shas ← strsOf j "shas"
      pure (jExc (fun l => jObj [("found", jPairs l.eraseDups)]) (noteBlobOidsForCommits t shas))
  | "nt_lookup_v0" => some do
      let t ← pairsOf j "tree"
      let shas ← strsOf j "shas"
      pure (jExc (fun l => jObj [("found", jPairs l.eraseDups)]) (lookupAllV0 t shas))
  | "nt_show" => some do
      let t ← pairsOf j "tree"
      let sha ← getStrField j "sha"
      pure (jObj [("note", match gitNotesShow t sha with | some b => jStr b | none => Json.null),
                  ("count", jNat (notesOf t sha).length),
                  ("list", jArr ((sortOn String.ofList (gitNotesList t)).map jStr))])
  | "nt_compress" => some do
      let ls ← (← getArrField j "lines").toList.mapM (fun x => x.getNat?)
      pure (jExc (fun rs => jArr (rs.map NoteFormatD.jRange)) (compressLines ls))
  | "nt_entries" => some do
      let m ← (← getArrField j "map").toList.mapM (fun kv => do
        let a ← kv.getArr?
        match a.toList with
        | [k, v] => pure ((← strOf k), (← (← v.getArr?).toList.mapM (fun x => x.getNat?)))
        | _ => throw "bad map entry")
      pure (jExc (fun es => jArr ((sortOn (fun e => String.ofList e.hash) es).map fun e =>
          jObj [("hash", jStr e.hash), ("ranges", jArr (e.ranges.map NoteFormatD.jRange))]))
        (entriesOfCommitted m))
  | "nt_upsert" => some do
      let atts ← (← getArrField j "files").toList.mapM NoteFormatD.fileOf
      let path ← getStrField j "path"
      let attrs ← (← getArrField j "attrs").toList.mapM attrOf
      let ex ← getBoolField j "exists"
      pure (jObj [("files", jArr (((upsertFileAttestation atts path attrs ex).map canonFile).map NoteFormatD.jFile))])
  | "nt_wf" => some do
      let fs ← (← getArrField j "files").toList.mapM NoteFormatD.fileOf
      let (m, c) ← wfArgs j
      pure (jObj [("wf", Json.bool (WF ⟨fs, m⟩ c))])
  | "nt_wf_text" => some do
      let t ← getStrField j "text"
      let (m, c) ← wfArgs j
      pure (jObj [("wf", Json.bool (WFText t m c))])
  | _ => none

end GitAi.Driver.NotesTreeD
