import GitAiModel.Driver.Json
import GitAiModel.Model.Profile
namespace GitAi.Driver.ProfileD
open Lean GitAi GitAi.Driver GitAi.Profile

def profileOf (s : String) : Except String InternalGitProfile :=
  match s with
  | "General" => pure .general
  | "PatchParse" => pure .patchParse
  | "NumstatParse" => pure .numstatParse
  | "RawDiffParse" => pure .rawDiffParse
  | _ => throw s!"unknown profile {s}"

def strsOf (j : Json) (k : String) : Except String (List Str) := do
  (← getArrField j k).toList.mapM strOf

def jStrs (l : List Str) : Json := jArr (l.map jStr)

def knobName : Knob → String
  | .diffNoPrefix => "diff.noprefix" | .diffMnemonicPrefix => "diff.mnemonicPrefix"
  | .diffSrcPrefix => "diff.srcPrefix" | .diffDstPrefix => "diff.dstPrefix"
  | .diffExternal => "diff.external" | .textconv => "textconv" | .color => "color"
  | .diffRenames => "diff.renames" | .diffAlgorithm => "diff.algorithm"
  | .diffIndentHeuristic => "diff.indentHeuristic" | .diffInterHunkContext => "diff.interHunkContext"
  | .diffRelative => "diff.relative" | .quotePath => "core.quotePath" | .pager => "pager"
  | .blameDisplay => "blame.display" | .notesDisplayRef => "notes.displayRef" | .coreNotesRef => "core.notesRef"
  | .statusShowUntracked => "status.showUntrackedFiles" | .statusRelativePaths => "status.relativePaths"
  | .statusBranchShort => "status.branch/short"

def kindName : OutputKind → String
  | .patch => "patch" | .numstat => "numstat" | .numstatZ => "numstatZ" | .names => "names"
  | .namesZ => "namesZ" | .plumbingZ => "plumbingZ" | .statusV2Z => "statusV2Z" | .statusHuman => "statusHuman"
  | .blamePorcelain => "blamePorcelain" | .blameHuman => "blameHuman" | .prettyFormat => "prettyFormat"
  | .commitHuman => "commitHuman" | .grepOut => "grepOut" | .notes => "notes" | .blob => "blob"
  | .plumbing => "plumbing" | .unknown => "unknown"

def handle (op : String) (j : Json) : Option (Except String Json) :=
  match op with
  | "prof_rewrite" => some do
      let args ← strsOf j "args"
      let p ← profileOf (← (← j.getObjVal? "profile").getStr?)
      let idx := match firstSubIdx args with
        | some i => jNat i
        | none => Json.null
      pure (jObj [("out", jStrs (rewrite args p)), ("idx", idx)])
  | "prof_unescape" => some do
      let p ← getStrField j "path"
      pure (jObj [("out", jStr (unescape p))])
  | "prof_quote" => some do
      let p ← getStrField j "path"
      let q ← getBoolField j "quote_path"
      pure (jObj [("out", jStr (gitQuote q p))])
  | "prof_pinned_argv" => some do
      let argv ← strsOf j "argv"
      pure (jObj [("pinned", Json.bool (pinnedArgv argv)),
                  ("kind", Json.str (kindName (kindOfArgv argv))),
                  ("unpinned", jArr ((unpinnedKnobs argv).map (fun k => Json.str (knobName k))))])
  | "prof_basedir" => some do
      let cwd ← getStrField j "cwd"
      let g ← strsOf j "globals"
      match resolveBaseDir cwd g with
      | .ok b => pure (jObj [("ok", jStr b)])
      | .error _ => pure (jObj [("err", Json.str "missing_path")])
  | "prof_storage" => some do
      let g ← strsOf j "git_dir"
      let c ← strsOf j "common_dir"
      pure (jObj [("dir", jStrs (storageAiDir id g c))])
  | _ => none

end GitAi.Driver.ProfileD
