import GitAiModel.Driver.Json
import GitAiModel.Model.Redact
namespace GitAi.Driver.RedactD
open Lean GitAi GitAi.Driver GitAi.Redact

def boolsOf (j : Json) : Except String (List Bool) := do
  (← j.getArr?).toList.mapM (·.getBool?)

def remoteOf (j : Json) : Except String Remote := do
  pure ⟨← boolsOf (← j.getObjVal? "excl"), ← boolsOf (← j.getObjVal? "incl")⟩

def modeInOf (j : Json) : Except String ModeIn := do
  let ps ← getStrField j "prompt_storage"
  let dps ← match j.getObjVal? "default_prompt_storage" with
    | .ok Json.null => pure none
    | .ok v => pure (some (← strOf v))
    | .error _ => pure none
  let exclStar ← boolsOf (← j.getObjVal? "excl_star")
  let inclStar ← boolsOf (← j.getObjVal? "incl_star")
  let remotes ← match j.getObjVal? "remotes" with
    | .ok Json.null => pure none
    | .ok v => do pure (some (← (← v.getArr?).toList.mapM remoteOf))
    | .error _ => pure none
  pure ⟨ps, dps, exclStar, inclStar, remotes⟩

def modeName : Mode → String
  | .default => "default" | .notes => "notes" | .local => "local"

/-- the real classifier's verdict per token travels in the request -/
def verdictsOf (j : Json) : Except String (Str → Bool) := do
  let arr ← getArrField j "verdicts"
  let tbl ← arr.toList.mapM fun v => do
    let t ← getStrField v "tok"
    let s ← getBoolField v "secret"
    pure (t, s)
  pure fun tok => match tbl.find? (fun p => p.1 == tok) with
    | some p => p.2
    | none => false

/-- a JSON value in the tagged transport form (exact comparison, number literals kept as text, object
    entries in the map's iteration order): `["z"]`, `["b", bool]`, `["n", "literal"]`, `["s", "text"]`,
    `["a", [v, …]]`, `["o", [[key, v], …]]` -/
partial def jvOf (j : Json) : Except String J := do
  let a ← j.getArr?
  let tag ← (← (a[0]?).elim (throw "empty tagged value") pure).getStr?
  let arg ← match a[1]? with
    | some x => pure x
    | none => pure Json.null
  match tag with
  | "z" => pure .null
  | "b" => pure (.bool (← arg.getBool?))
  | "n" => pure (.num (← strOf arg))
  | "s" => pure (.str (← strOf arg))
  | "a" => do
      let xs ← (← arg.getArr?).toList.mapM jvOf
      pure (.arr (JList.ofList xs))
  | "o" => do
      let kvs ← (← arg.getArr?).toList.mapM fun e => do
        let p ← e.getArr?
        let k ← strOf (← (p[0]?).elim (throw "entry without key") pure)
        let v ← jvOf (← (p[1]?).elim (throw "entry without value") pure)
        pure (k, v)
      pure (.obj (JFields.ofList kvs))
  | _ => throw s!"bad tagged value {tag}"

mutual
def jJv : J → Json
  | .null => jArr [Json.str "z"]
  | .bool b => jArr [Json.str "b", Json.bool b]
  | .num l => jArr [Json.str "n", jStr l]
  | .str s => jArr [Json.str "s", jStr s]
  | .arr xs => jArr [Json.str "a", jArr (jJvList xs)]
  | .obj kvs => jArr [Json.str "o", jArr (jJvFields kvs)]
def jJvList : JList → List Json
  | .nil => []
  | .cons x xs => jJv x :: jJvList xs
def jJvFields : JFields → List Json
  | .nil => []
  | .cons k v rest => jArr [jStr k, jJv v] :: jJvFields rest
end

def msgOf (j : Json) : Except String Msg := do
  let k ← (← j.getObjVal? "k").getStr?
  match k with
  | "user" => pure (.user (← getStrField j "text"))
  | "assistant" => pure (.assistant (← getStrField j "text"))
  | "thinking" => pure (.thinking (← getStrField j "text"))
  | "plan" => pure (.plan (← getStrField j "text"))
  | "tool_use" => pure (.toolUse (← getStrField j "name") (← jvOf (← j.getObjVal? "input")))
  | _ => throw s!"bad message kind {k}"

def jMsg : Msg → Json
  | .user t => jObj [("k", "user"), ("text", jStr t)]
  | .assistant t => jObj [("k", "assistant"), ("text", jStr t)]
  | .thinking t => jObj [("k", "thinking"), ("text", jStr t)]
  | .plan t => jObj [("k", "plan"), ("text", jStr t)]
  | .toolUse n i => jObj [("k", "tool_use"), ("name", jStr n), ("input", jJv i)]

def promptOf (j : Json) : Except String Prompt := do
  let id ← getStrField j "id"
  let ms ← (← getArrField j "messages").toList.mapM msgOf
  pure ⟨id, ms, none⟩

def jPrompt (p : Prompt) : Json :=
  jObj [("id", jStr p.id), ("messages", jArr (p.messages.map jMsg))]

/-- a prompt record with its `messages_url` (`url`: string or null / absent) -/
def promptUOf (j : Json) : Except String Prompt := do
  let p ← promptOf j
  let u ← match j.getObjVal? "url" with
    | .ok Json.null => pure none
    | .ok v => pure (some (← strOf v))
    | .error _ => pure none
  pure { p with messagesUrl := u }

def jPromptU (p : Prompt) : Json :=
  jObj [("id", jStr p.id), ("messages", jArr (p.messages.map jMsg)),
        ("url", match p.messagesUrl with | some u => jStr u | none => Json.null)]

def outcomeOf (j : Json) : Except String Outcome := do
  let k ← (← j.getObjVal? "k").getStr?
  match k with
  | "ok" => pure (.ok (← getStrField j "url"))
  | "enqueue_err" => pure .enqueueErr
  | "serialize_err" => pure .serializeErr
  | _ => throw s!"bad outcome {k}"

def jPair (p : Nat × Nat) : Json := jArr [jNat p.1, jNat p.2]

def handle (op : String) (j : Json) : Option (Except String Json) :=
  match op with
  | "rd_effective_mode" => some do
      let i ← modeInOf j
      pure (jObj [("mode", Json.str (modeName (effectiveMode i))),
                  ("should_exclude", Json.bool (shouldExclude i))])
  | "rd_parse_mode" => some do
      let s ← getStrField j "s"
      pure (jObj [("mode", match parseMode s with
        | some m => Json.str (modeName m)
        | none => Json.null)])
  | "rd_extract_tokens" => some do
      let t ← getStrField j "text"
      pure (jObj [("tokens", jArr ((extractTokens t).map jPair))])
  | "rd_redact_secret" => some do
      let s ← getStrField j "s"
      match redactSecret s with
      | some r => pure (jObj [("ok", jStr r)])
      | none => pure (jObj [("err", "panic")])
  | "rd_redact_text" => some do
      let t ← getStrField j "text"
      let sel ← verdictsOf j
      match redactText sel t with
      | some (r, n) => pure (jObj [("ok", jObj [("text", jStr r), ("count", jNat n)])])
      | none => pure (jObj [("err", "panic")])
  | "rd_redact_prompts" => some do
      let ps ← (← getArrField j "prompts").toList.mapM promptOf
      let sel ← verdictsOf j
      match redactPrompts sel ps with
      | some (r, n) => pure (jObj [("ok", jObj [("prompts", jArr (r.map jPrompt)), ("count", jNat n)])])
      | none => pure (jObj [("err", "panic")])
  | "rd_redact_json" => some do
      let v ← jvOf (← j.getObjVal? "value")
      let sel ← verdictsOf j
      match redactJ sel v with
      | some (r, n) => pure (jObj [("ok", jObj [("value", jJv r), ("count", jNat n)])])
      | none => pure (jObj [("err", "panic")])
  | "rd_strip_prompts" => some do
      let ps ← (← getArrField j "prompts").toList.mapM promptOf
      pure (jObj [("prompts", jArr ((stripMessages ps).map jPrompt))])
  | "rd_default_arm" => some do
      -- the `Default` arm of apply_prompt_storage_mode on one prompt map (in map order), one
      -- database state and one vector of per-session enqueue outcomes
      let ps ← (← getArrField j "prompts").toList.mapM promptUOf
      let sel ← verdictsOf j
      let se ← getBoolField j "should_enqueue"
      let dbo ← getBoolField j "db_opens"
      let outs ← (← getArrField j "outs").toList.mapM outcomeOf
      match applyStorageMode sel ⟨se, fun _ => ⟨dbo, outs⟩⟩ .default ps with
      | some r => pure (jObj [("ok", jObj [("prompts", jArr (r.map jPromptU))])])
      | none => pure (jObj [("err", "panic")])
  | _ => none

end GitAi.Driver.RedactD
