import GitAiModel.Driver.Json
import GitAiModel.Model.Remap
namespace GitAi.Driver.RemapD
open Lean GitAi GitAi.Driver GitAi.NoteFormat GitAi.Remap

def strList (j : Json) : Except String (List Str) := do
  (← j.getArr?).toList.mapM strOf

def optStrField (j : Json) (k : String) : Except String (Option Str) := do
  match j.getObjVal? k with
  | .error _ => pure none
  | .ok v => if v.isNull then pure none else pure (some (← strOf v))

/-- bytes (array of numbers) as chars, one char per byte -/
def bytesAsChars (j : Json) : Except String Str := do
  let a ← j.getArr?
  a.toList.mapM (fun x => do let n ← x.getNat?; pure (Char.ofNat n))

def commitOf (j : Json) : Except String Commit := do
  let files ← (← getArrField j "files").toList.mapM (fun x => do
    match (← x.getArr?).toList with
    | [p, b] => pure (← strOf p, ← strOf b)
    | _ => throw "bad file pair")
  pure ⟨← getStrField j "id", ← getStrField j "tree", files⟩

def worldOf (j : Json) : Except String World := do
  let cs ← (← getArrField j "commits").toList.mapM commitOf
  let ns ← (← getArrField j "notes").toList.mapM (fun x => do
    match (← x.getArr?).toList with
    | [c, t] => pure (← strOf c, ← strOf t)
    | _ => throw "bad note pair")
  pure ⟨cs, ns⟩

def glineOf (j : Json) : Except String GLine := do
  match (← j.getArr?).toList with
  | [w, b] =>
    let n ← b.getNat?
    if w.isNull then pure ⟨none, n⟩ else do
      let h ← strOf w
      pure ⟨some h, n⟩
  | _ => throw "bad gline"

def gtreeOf (j : Json) : Except String GTree := do
  (← j.getArr?).toList.mapM (fun x => do
    let p ← getStrField x "path"
    let ls ← (← getArrField x "lines").toList.mapM glineOf
    pure (p, ls))

def jTriples (ts : List (Str × Str × Nat)) : Json :=
  jArr (ts.map fun t => jArr [jStr t.1, jStr t.2.1, jNat t.2.2])

def jView (v : NoteView) : Json :=
  jObj [("att", jArr (v.att.map fun kv =>
          jObj [("path", jStr kv.1.1), ("hash", jStr kv.1.2),
                ("lines", jArr (kv.2.map fun iv => jArr [jNat iv.1, jNat iv.2]))])),
        ("meta_pre", jStr v.metaPre), ("meta_post", jStr v.metaPost), ("base", jStr v.base)]

def handle (op : String) (j : Json) : Option (Except String Json) :=
  match op with
  | "c15_try_remap" => some do
      let t ← getStrField j "text"
      let c ← getStrField j "target"
      match tryRemap t c with
      | some r => pure (jObj [("some", jStr r)])
      | none => pure (jObj [("none", Json.bool true)])
  | "c15_remap" => some do
      let t ← getStrField j "text"
      let c ← getStrField j "target"
      let rs ← optStrField j "reser"
      let fast := (tryRemap t c).isSome
      pure (jObj [("text", jStr (remapNote (fun _ _ => rs) t c)), ("fast", Json.bool fast)])
  | "c15_json_escape" => some do
      let s ← getStrField j "s"
      pure (jObj [("text", jStr (jsonEscape s))])
  | "c15_meta_facts" => some do
      let m ← getStrField j "json"
      match splitField m with
      | none => pure (jObj [("split", Json.null)])
      | some (a, v, rest) =>
        -- the `pre` of `metaJson`: text before the field name that the scanner matched
        let pre := match findSplit fieldName m with
          | some (b, _) => b
          | none => []
        pure (jObj [("split", jObj [("head", jStr a), ("value", jStr v), ("rest", jStr rest)]),
                    ("prefix_ok", Json.bool (findSplit fieldName (pre ++ fieldName.dropLast)).isNone)])
  | "c15_scan" => some do
      let data ← bytesAsChars (← j.getObjVal? "data")
      let n ← getNatField j "pairs"
      pure (jObj [("ok", Json.bool (scanDiffTree data n))])
  | "c15_fast_path" => some do
      let w ← worldOf j
      let rebase ← getBoolField j "rebase"
      let orig ← strList (← j.getObjVal? "orig")
      let new ← strList (← j.getObjVal? "new")
      let tp ← strList (← j.getObjVal? "to_process")
      let tracked ← strList (← j.getObjVal? "tracked")
      let pairs := if rebase then (orig.zip new).filter (fun p => tp.contains p.2) else orig.zip new
      let dt := match diffTreeOutput w pairs tracked with
        | some out => jStr out
        | none => Json.null
      pure (jObj [("applies", Json.bool (fastPathApplies w rebase orig new tp tracked)),
                  ("paths_match", Json.bool (pathsMatch w pairs tracked)),
                  ("diff_tree", dt),
                  ("pairs", jNat pairs.length)])
  | "c15_equiv" => some do
      let a ← getStrField j "a"
      let b ← getStrField j "b"
      let c ← getStrField j "c"
      let va := match noteView a with
        | some v => jView v
        | none => Json.null
      pure (jObj [("equiv", Json.bool (noteEquiv a b c)), ("same", Json.bool (sameUpToBase a b)),
                  ("base_is", Json.bool (baseIs b c)), ("view_a", va)])
  | "c15_lines" => some do
      let tk ← gtreeOf (← j.getObjVal? "tree")
      let k ← getNatField j "k"
      pure (jObj [("per_commit", jTriples (perCommitLines k tk)),
                  ("slow", jTriples (replayLines k tk)),
                  ("state", jTriples (cumulativeLines tk))])
  | _ => none

end GitAi.Driver.RemapD
