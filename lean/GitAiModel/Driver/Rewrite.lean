/-
  Driver/Rewrite.lean — `rw_run`: a scripted history with branches over Model/Rewrite.lean, one
  file at a time. The script is what the end-to-end runner did; the contents git produced for
  rewritten commits are inputs, the attribution (notes, INITIAL, blame) is the model's output.
-/
import GitAiModel.Driver.Json
import GitAiModel.Driver.Sys
import GitAiModel.Model.Rewrite
namespace GitAi.Driver.RewriteD
open Lean GitAi GitAi.Driver GitAi.Sys GitAi.Driver.SysD

structure World where
  branches : List (String × State)
  cur : String
  stash : List (List Nat × List (Nat × Nat)) := []
  /-- claims recorded by checkpoints in the working logs of the commits a rebase / cherry-pick stopped on -/
  stopped : List (Nat × Nat) := []
  out : List Json := []

def World.get (w : World) (b : String) : State :=
  match w.branches.find? (·.1 = b) with
  | some p => p.2
  | none => {}

def World.set (w : World) (b : String) (st : State) : World :=
  { w with branches := (b, st) :: w.branches.filter (·.1 ≠ b) }

def World.here (w : World) : State := w.get w.cur

def World.rop (w : World) (op : ROp) : World :=
  let r := rstep { st := w.here, stash := w.stash } op
  { w.set w.cur r.st with stash := r.stash }

def contentsOf (j : Json) : Except String (List (List Nat)) := do
  (← j.getArr?).toList.mapM natsOf

def zipLog (st : State) : List ((List Nat × List Nat) × Note) := st.log.zip st.notes

def blameOut (st : State) : Json :=
  jPairs (st.head.filterMap (fun y => (blame st.log st.notes y).map (fun s => (y, s))))

def stepW (w : World) (j : Json) : Except String World := do
  let k ← (← j.getObjVal? "k").getStr?
  match k with
  | "branch" =>
    let name ← (← j.getObjVal? "name").getStr?
    pure { w.set name w.here with cur := name }
  | "mkbranch" =>
    let name ← (← j.getObjVal? "name").getStr?
    pure (w.set name w.here)
  | "switch" =>
    let name ← (← j.getObjVal? "name").getStr?
    pure { w with cur := name }
  | "amend" => pure (w.rop .amend)
  | "reset" => pure (w.rop (.reset (← getNatField j "n") (← getBoolField j "soft")))
  | "stashPush" => pure (w.rop .stashPush)
  | "stashPop" => pure (w.rop (.stashPop (← natsOf (← j.getObjVal? "ys"))))
  | "aborted" => pure (w.rop .aborted)
  | "typed" =>
    -- lines typed while the operation is stopped at a conflict (s = 0: a person)
    -- `rec`: the checkpoint that reported them was recorded (the file was not unmerged)
    let s ← getNatField j "s"
    let ids ← natsOf (← j.getObjVal? "ids")
    let recorded := match getBoolField j "rec" with
      | .ok b => b
      | .error _ => false
    let who : Author := if s = 0 then none else some s
    let w' := w.rop (.typed who ids)
    pure (if recorded then { w' with stopped := w'.stopped ++ stopClaims who ids } else w')
  | "switchCarry" =>
    -- the working tree goes along: the state under the new name is the carried one
    let name ← (← j.getObjVal? "name").getStr?
    let other := w.get name
    let r := rstep { st := w.here, stash := w.stash } (.switchCarry other.log other.notes other.head)
    pure { w.set name r.st with cur := name }
  | "switchMerge" =>
    let name ← (← j.getObjVal? "name").getStr?
    let other := w.get name
    let r := rstep { st := w.here, stash := w.stash }
      (.switchMerge other.log other.notes other.head (← natsOf (← j.getObjVal? "ys")))
    pure { w.set name r.st with cur := name }
  | "rebase" =>
    let onto := w.get (← (← j.getObjVal? "onto").getStr?)
    let drop ← getNatField j "drop"
    let news ← contentsOf (← j.getObjVal? "news")
    let keep := w.here.log.length - drop
    let mid := (zipLog onto).take (onto.log.length - keep)
    pure { (w.rop (.replayR w.stopped drop mid none news)) with stopped := [] }
  | "cherryPick" =>
    let src := w.get (← (← j.getObjVal? "src").getStr?)
    let news ← contentsOf (← j.getObjVal? "news")
    -- `skip` newest commits of the source branch come after the last picked commit
    let skip := match getNatField j "skip" with
      | .ok n => n
      | .error _ => 0
    pure { (w.rop (.replayR w.stopped 0 [] (some (src.log.drop skip, src.notes.drop skip)) news)) with stopped := [] }
  | "squash" =>
    let src := w.get (← (← j.getObjVal? "src").getStr?)
    pure (w.rop (.squash src.log src.notes (← natsOf (← j.getObjVal? "ys"))))
  | "blame" =>
    pure { w with out := w.out ++ [jObj [("blame", blameOut w.here), ("head", jArr (w.here.head.map jNat)),
                                        ("initial", jPairs w.here.initial)]] }
  | _ => do
    let op ← opOf j
    pure (w.rop (.base op))

def handle (op : String) (j : Json) : Option (Except String Json) :=
  match op with
  | "rw_run" => some do
      let script ← getArrField j "script"
      let mut w : World := { branches := [("main", {})], cur := "main" }
      for s in script.toList do
        w ← stepW w s
      pure (jObj [("obs", jArr w.out)])
  | _ => none

end GitAi.Driver.RewriteD
