import GitAiModel.Driver.Json
import GitAiModel.Model.Routing
namespace GitAi.Driver.RoutingD
open Lean GitAi GitAi.Driver GitAi.Routing

def dirOfStr (s : Str) : Dir := normalise (parsePath s).comps
def rawOfStr (s : Str) : RawPath := (parsePath s).comps

def jDir (d : Dir) : Json := jStr (renderDir d |> fun s => if s.isEmpty then ['/'] else s)

def compStr : Comp → Str
  | .cur => ['.'] | .up => ['.', '.'] | .name s => s

def jRaw (p : RawPath) : Json := jStr (joinWith '/' (p.map compStr))

def kindOf (s : String) : Except String RootKind :=
  match s with
  | "normal" => pure .normal | "submodule" => pure .submodule | "bare" => pure .bare
  | _ => throw s!"bad root kind {s}"

def fsOf (j : Json) : Except String FS := do
  let dirs ← (← getArrField j "dirs").toList.mapM (fun d => do pure (dirOfStr (← strOf d)))
  let files ← (← getArrField j "files").toList.mapM (fun d => do pure (dirOfStr (← strOf d)))
  let roots ← (← getArrField j "roots").toList.mapM (fun r => do
    let a ← r.getArr?
    match a.toList with
    | [p, k] => pure (dirOfStr (← strOf p), ← kindOf (← k.getStr?))
    | _ => throw "bad root")
  pure ⟨dirs, files, roots⟩

def optStrField (j : Json) (k : String) : Except String (Option Str) :=
  match j.getObjVal? k with
  | .ok Json.null => pure none
  | .ok v => do pure (some (← strOf v))
  | .error _ => pure none

def optStrsField (j : Json) (k : String) : Except String (Option (List Str)) :=
  match j.getObjVal? k with
  | .ok Json.null => pure none
  | .ok v => do pure (some (← (← v.getArr?).toList.mapM strOf))
  | .error _ => pure none

/-- JSON value trees travel tagged, so that duplicate keys and key order survive:
    null | {"b":bool} | {"i":int} | {"s":str} | {"a":[…]} | {"o":[[k,v],…]} -/
partial def jvalOf (j : Json) : Except String JVal :=
  match j with
  | Json.null => pure .null
  | _ =>
    match j.getObjVal? "b" with
    | .ok b => do pure (.bool (← b.getBool?))
    | .error _ =>
    match j.getObjVal? "i" with
    | .ok n => do pure (.num (← n.getInt?))
    | .error _ =>
    match j.getObjVal? "s" with
    | .ok s => do pure (.str (← strOf s))
    | .error _ =>
    match j.getObjVal? "a" with
    | .ok a => do pure (.arr (← (← a.getArr?).toList.mapM jvalOf))
    | .error _ =>
    match j.getObjVal? "o" with
    | .ok o => do
      let kvs ← (← o.getArr?).toList.mapM (fun kv => do
        let a ← kv.getArr?
        match a.toList with
        | [k, v] => pure ((← strOf k), (← jvalOf v))
        | _ => throw "bad kv")
      pure (.obj kvs)
    | .error _ => throw "bad json tree"

def jPathArg (p : PathArg) : Json := jStr ((if p.abs then ['/'] else []) ++ joinWith '/' (p.comps.map compStr))

def jOptPaths : Option (List PathArg) → Json
  | none => Json.null
  | some ps => jArr (ps.map jPathArg)

def kindName : CheckpointKind → String
  | .human => "human" | .aiAgent => "ai_agent" | .aiTab => "ai_tab"

def jRun (r : AgentRun) : Json :=
  jObj [("kind", Json.str (kindName r.kind)),
        ("dir", match r.repoDir with | some d => jPathArg d | none => Json.null),
        ("edited", jOptPaths r.edited), ("will_edit", jOptPaths r.willEdit)]

def runOf (j : Json) : Except String AgentRun := do
  let kind ← match (← (← j.getObjVal? "kind").getStr?) with
    | "human" => pure CheckpointKind.human
    | "ai_agent" => pure CheckpointKind.aiAgent
    | "ai_tab" => pure CheckpointKind.aiTab
    | k => throw s!"bad kind {k}"
  let dir ← optStrField j "dir"
  let edited ← optStrsField j "edited"
  let will ← optStrsField j "will_edit"
  pure ⟨kind, dir.map parsePath, edited.map (·.map parsePath), will.map (·.map parsePath)⟩

def siteName : ExitSite → String
  | .stdinReadErr => "stdin-read-err" | .stdinEmpty => "stdin-empty"
  | .hookInputBlank => "hook-input-blank" | .hookInputNoValue => "hook-input-no-value"
  | .presetErr p => "preset-err:" ++ String.ofList p.name
  | .notAllowed => "not-allowed" | .noRepoForFiles => "no-repo-for-files"
  | .noRepoNoFiles => "no-repo-no-files" | .localFailed => "local-failed"
  | .mainReturn => "return" | .other n => s!"other:{n}"

def jScope : Scope → Json
  | .all => jObj [("kind", "all")]
  | .skipped => jObj [("kind", "skipped")]
  | .only specs => jObj [("kind", "only"), ("specs", jArr (specs.map jRaw))]

def jEntries : Option (List Dir) → Json
  | none => Json.null
  | some ds => jArr (ds.map (fun d => jStr (joinWith '/' d)))

/-- dirty files per repository root: [[root, [rel…]], …] -/
def dirtyOf (j : Json) : Except String (List (Dir × List Dir)) := do
  match j.getObjVal? "dirty" with
  | .error _ => pure []
  | .ok d =>
    (← d.getArr?).toList.mapM (fun e => do
      let a ← e.getArr?
      match a.toList with
      | [r, fs] => do
        let rels ← (← fs.getArr?).toList.mapM (fun x => do pure (dirOfStr (← strOf x)))
        pure (dirOfStr (← strOf r), rels)
      | _ => throw "bad dirty")

def jCall (dirty : List (Dir × List Dir)) (c : Call) : Json :=
  jObj [("root", jDir c.root), ("bare", Json.bool c.bare), ("scope", jScope c.scope),
        ("entries", if c.bare then Json.null else jEntries (runEntries c.scope ((dirty.lookup c.root).getD [])))]

def handle (op : String) (j : Json) : Option (Except String Json) :=
  match op with
  | "rt_in_workdir" => some do
      let fs ← fsOf (← j.getObjVal? "fs")
      let root := dirOfStr (← getStrField j "root")
      let path := parsePath (← getStrField j "path")
      pure (jObj [("in", Json.bool (pathInWorkdir fs root (absOf (asRaw root) path)))])
  | "rt_find_repo" => some do
      let fs ← fsOf (← j.getObjVal? "fs")
      let file := rawOfStr (← getStrField j "file")
      let b ← optStrField j "boundary"
      pure (jObj [("root", match findRepoForFile fs file (b.map rawOfStr) with
                            | some r => jDir r | none => Json.null)])
  | "rt_group" => some do
      let fs ← fsOf (← j.getObjVal? "fs")
      let files ← (← getArrField j "files").toList.mapM (fun f => do pure (rawOfStr (← strOf f)))
      let b ← optStrField j "boundary"
      let g := groupFiles fs files (b.map rawOfStr)
      pure (jObj [("assign", jArr (g.map fun fr => match fr.2 with | some r => jDir r | none => Json.null)),
                  ("groups", jNat (groupsOf g).length)])
  | "rt_run" => some do
      let fs ← fsOf (← j.getObjVal? "fs")
      let root := dirOfStr (← getStrField j "root")
      let paths ← optStrsField j "paths"
      let dirty ← (← getArrField j "dirty").toList.mapM (fun x => do pure (dirOfStr (← strOf x)))
      let scope := scopeOf fs root (paths.map (·.map parsePath))
      pure (jObj [("scope", jScope scope), ("entries", jEntries (runEntries scope dirty))])
  | "rt_handle" => some do
      let fs ← fsOf (← j.getObjVal? "fs")
      let cwd := rawOfStr (← getStrField j "cwd")
      let args ← (← getArrField j "args").toList.mapM strOf
      let stdin ← optStrField j "stdin"
      let dirty ← dirtyOf j
      let wdirty ← optStrsField j "status_files"
      -- the preset result: explicit ("run": {...} / "run": "err") or decoded from an agent-v1 tree
      let presetRes : Except PresetError AgentRun ← match j.getObjVal? "av1" with
        | .ok t => do
          match decodeAgentV1 (← jvalOf t) with
          | .ok r => pure (.ok r)
          | .error _ => pure (.error .err)
        | .error _ =>
          match j.getObjVal? "run" with
          | .ok (Json.str _) => pure (.error .err)
          | .ok r => do pure (.ok (← runOf r))
          | .error _ => pure (.error .err)
      let w : World := { fs := fs, cwd := cwd, stdin := stdin, parser := fun _ _ => presetRes,
                         allowed := fun _ => true, runOk := fun _ => true,
                         dirty := (wdirty.getD []).map parsePath }
      let t := handleCheckpoint w args
      pure (jObj [("exit", Json.str (siteName t.exit)), ("calls", jArr (t.calls.map (jCall dirty)))])
  | "av1_decode" => some do
      let t ← jvalOf (← j.getObjVal? "j")
      match decodeAgentV1 t with
      | .ok r => pure (jObj [("ok", jRun r)])
      | .error _ => pure (jObj [("err", "rejected")])
  | "json_render" => some do
      let t ← jvalOf (← j.getObjVal? "j")
      pure (jObj [("text", jStr (render t))])
  | "jsonl_frame" => some do
      let ls ← (← getArrField j "lines").toList.mapM strOf
      let text := writeAll ls
      pure (jObj [("text", jStr text), ("lines", jArr ((readLines text).map jStr))])
  | _ => none

end GitAi.Driver.RoutingD
