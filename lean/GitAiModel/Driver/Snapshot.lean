import GitAiModel.Driver.Json
import GitAiModel.Model.Snapshot
import GitAiModel.Extracted.SnapshotReads
namespace GitAi.Driver.SnapshotD
open Lean GitAi GitAi.Driver GitAi.Snapshot GitAi.Sys

def natsOf (j : Json) : Except String (List Nat) := do
  (← j.getArr?).toList.mapM (·.getNat?)

def authorsOf (j : Json) : Except String (List Author) := do
  (← j.getArr?).toList.mapM (fun v => if v.isNull then pure none else do pure (some (← v.getNat?)))

def entryOf (j : Json) : Except String LogEntry := do
  pure ⟨← getNatField j "ref", ← authorsOf (← j.getObjVal? "attr")⟩

def jAuthors (l : List Author) : Json := jArr (l.map fun a => match a with | some s => jNat s | none => Json.null)

/-- `snapshot_commit`: the model's pre-commit checkpoint + note for one file, with the fallbacks named in the request
    (`"source"` = the parameters extracted from the source now). -/
def handle (op : String) (j : Json) : Option (Except String Json) :=
  match op with
  | "snapshot_commit" => some do
      let entries ← (← getArrField j "entries").toList.mapM entryOf
      let pj ← j.getObjVal? "pending"
      let pending ← if pj.isNull then pure none else do pure (some (← entryOf pj))
      let blobs ← (← getArrField j "store").toList.mapM (fun b => do
        let a ← b.getArr?
        match a.toList with
        | [r, c] => pure (← r.getNat?, ← natsOf c)
        | _ => throw "bad blob")
      let head ← natsOf (← j.getObjVal? "head")
      let cur ← natsOf (← j.getObjVal? "cur")
      let curRef ← getNatField j "cur_ref"
      let ck ← (← j.getObjVal? "ckpt_lost").getStr?
      let il ← (← j.getObjVal? "initial_lost").getStr?
      let src := Extracted.SnapshotReads.params
      let ckl ← match ck with
        | "empty" => pure CkptLost.empty | "current" => pure CkptLost.current | "source" => pure src.ckptLost
        | _ => throw "bad ckpt_lost"
      let inl ← match il with
        | "drop" => pure InitialLost.drop | "current" => pure InitialLost.current | "source" => pure src.initialLost
        | _ => throw "bad initial_lost"
      let P : Params := ⟨ckl, inl⟩
      let wl : WLog := { entries := entries, pending := pending }
      let store := storeOf blobs
      pure (jObj [("note", jArr ((commitNote P store wl head curRef cur).map fun p => jArr [jNat p.1, jNat p.2])),
                  ("pre_commit", match preCommit P (heal store curRef cur) (pendStore store curRef cur) wl cur with | some a => jAuthors a | none => Json.null),
                  ("params", jArr [Json.str (if ckl = .empty then "empty" else "current"),
                                   Json.str (if inl = .drop then "drop" else "current")])])
  | _ => none

end GitAi.Driver.SnapshotD
