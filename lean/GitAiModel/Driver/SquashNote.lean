/-
  Driver/SquashNote.lean — op `squash_note`: the note `rewrite_authorship_after_squash_or_rebase`
  writes (Model/SquashNote.lean) for the call-site arguments EXTRACTED from the current source
  (Extracted/SquashArgs.lean), so the prediction follows the code as it is.
-/
import GitAiModel.Driver.Json
import GitAiModel.Driver.NotesTree
import GitAiModel.Model.SquashNote
import GitAiModel.Extracted.SquashArgs
namespace GitAi.Driver.SquashNoteD
open Lean GitAi GitAi.Driver GitAi.NoteFormat GitAi.NotesTree GitAi.SquashNote

def natsOf (j : Json) : Except String (List Nat) := do
  (← j.getArr?).toList.mapM (fun x => x.getNat?)

def commitOf (j : Json) : Except String Commit := do
  let sha ← getStrField j "sha"
  let files ← (← getArrField j "files").toList.mapM (fun f => do
    match (← f.getArr?).toList with
    | [p, c] => pure ((← strOf p), (← natsOf c))
    | _ => throw "bad file")
  pure ⟨sha, files⟩

def authorOf (j : Json) : Except String (Option Str) :=
  if j.isNull then pure none else do pure (some (← strOf j))

def vaOf (j : Json) : Except String VA := do
  let files ← (← getArrField j "files").toList.mapM (fun f => do
    match (← f.getArr?).toList with
    | [p, c, a] => pure ((← strOf p), ((← natsOf c), (← (← a.getArr?).toList.mapM authorOf)))
    | _ => throw "bad va file")
  let keys ← NotesTreeD.strsOf j "prompt_keys"
  pure ⟨files, keys⟩

def linesOf (rs : List LineRange) : List Nat := rs.flatMap (fun r => List.range' (lo r) (hi r + 1 - lo r))

def whichName : Which → String
  | .sourceHead => "source_head" | .targetHead => "target_head" | .mergeCommit => "merge_commit"

def handle (op : String) (j : Json) : Option (Except String Json) :=
  match op with
  | "squash_note" => some do
      let i : Inputs := {
        source := ← commitOf (← j.getObjVal? "source"),
        target := ← commitOf (← j.getObjVal? "target"),
        merge := ← commitOf (← j.getObjVal? "merge"),
        changed := ← NotesTreeD.strsOf j "changed",
        sourceVA := ← vaOf (← j.getObjVal? "source_va"),
        targetVA := ← vaOf (← j.getObjVal? "target_va"),
        sourceHasNotes := ← getBoolField j "source_has_notes" }
      let args := Extracted.SquashArgs.args
      let common := [("final_state_read_at", Json.str (whichName args.finalState)),
                     ("args_intended", Json.bool (args == Args.intended)),
                     ("prompts_ok", Json.bool (promptsOkB i.sourceVA && promptsOkB i.targetVA))]
      match squashNote args i with
      | none => pure (jObj ([("written", Json.bool false)] ++ common))
      | some (c, note) =>
        let att := note.files.flatMap (fun f => f.entries.map (fun e =>
          (String.ofList f.path ++ "\x00" ++ String.ofList e.hash, jArr [jStr f.path, jStr e.hash, jArr ((linesOf e.ranges).map jNat)])))
        pure (jObj ([("written", Json.bool true), ("on", jStr c.sha), ("base", jStr note.md.baseSha),
          ("attested", jArr ((NotesTreeD.sortOn (fun p => p.1) att).map (·.2))),
          ("prompt_keys", jArr ((NotesTreeD.sortOn String.ofList note.md.promptKeys.eraseDups).map jStr)),
          ("wf_on_merge_commit", Json.bool (WF note (commitFacts i.merge)))] ++ common))
  | "sq_to_log" => some do
      -- `VirtualAttributions::to_authorship_log` on given line attributions: one block per file that has a
      -- non-human attribution (files in request order, which the harness sorts by path)
      let files ← (← getArrField j "files").toList.mapM (fun f => do
        match (← f.getArr?).toList with
        | [p, a] => pure ((← strOf p), (← (← a.getArr?).toList.mapM NotesTreeD.attrOf))
        | _ => throw "bad file")
      let out := files.filterMap (fun pa => buildFileAttestation pa.1 pa.2)
      pure (jObj [("files", jArr ((out.map NotesTreeD.canonFile).map NoteFormatD.jFile))])
  | _ => none

end GitAi.Driver.SquashNoteD
