import GitAiModel.Driver.Json
import GitAiModel.Driver.NoteFormat
import GitAiModel.Model.Stats
namespace GitAi.Driver.StatsD
open Lean GitAi GitAi.Driver GitAi.NoteFormat GitAi.Stats

def natList (j : Json) : Except String (List Nat) := do
  (← j.getArr?).toList.mapM (fun x => x.getNat?)

def promptOf (j : Json) : Except String (Str × Prompt) := do
  let h ← getStrField j "hash"
  pure (h, { tool := ← getStrField j "tool", model := ← getStrField j "model",
             totalAdd := ← getNatField j "total_additions",
             totalDel := ← getNatField j "total_deletions",
             overriden := ← getNatField j "overriden_lines" })

def logOf (j : Json) : Except String (Option Log) := do
  if !(← getBoolField j "has_log") then return none
  let fs ← (← getArrField j "files").toList.mapM NoteFormatD.fileOf
  let ps ← (← getArrField j "prompts").toList.mapM promptOf
  pure (some ⟨fs, ps⟩)

def addedOf (j : Json) (k : String) : Except String (List (Str × List Nat)) := do
  (← getArrField j k).toList.mapM (fun x => do
    pure (← getStrField x "path", ← natList (← x.getObjVal? "lines")))

def byToolOf (j : Json) : Except String (List (Str × Nat)) := do
  (← getArrField j "by_tool").toList.mapM (fun x => do
    match (← x.getArr?).toList with
    | [k, n] => pure (← strOf k, ← n.getNat?)
    | _ => throw "bad by_tool pair")

def ignOf (j : Json) : Except String (Str → Bool) := do
  let names ← (← getArrField j "ignored").toList.mapM strOf
  pure (fun f => names.contains f)

def overflow : Json := jObj [("overflow", Json.bool true)]

def jTool (t : ToolStats) : Json :=
  jObj [("ai_additions", jNat t.aiAdditions), ("mixed_additions", jNat t.mixed),
        ("ai_accepted", jNat t.aiAccepted), ("total_ai_additions", jNat t.totalAdd),
        ("total_ai_deletions", jNat t.totalDel)]

def jStats (s : CommitStats) : Json :=
  jObj [("human_additions", jNat s.human), ("mixed_additions", jNat s.mixed),
        ("ai_additions", jNat s.aiAdditions), ("ai_accepted", jNat s.aiAccepted),
        ("total_ai_additions", jNat s.totalAdd), ("total_ai_deletions", jNat s.totalDel),
        ("git_diff_deleted_lines", jNat s.gitDeleted), ("git_diff_added_lines", jNat s.gitAdded),
        ("tool_model_breakdown", jObj (s.tools.map fun kv => (String.ofList kv.1, jTool kv.2)))]

def jAccepted (a : Accepted) : Json :=
  jObj [("total", jNat a.total),
        ("per_tool", jObj (a.perTool.map fun kv => (String.ofList kv.1, jNat kv.2)))]

def handle (op : String) (j : Json) : Option (Except String Json) :=
  match op with
  | "st_overlap" => some do
      let r ← NoteFormatD.rangeOf (← j.getObjVal? "range")
      let added ← natList (← j.getObjVal? "added")
      pure (jObj [("n", jNat (overlapLen r added))])
  | "st_accepted" => some do
      let log ← logOf j
      let added ← addedOf j "added"
      let m ← getBoolField j "is_merge"
      match acceptedChecked log added m with
      | some a => pure (jAccepted a)
      | none => pure overflow
  | "st_from_log" => some do
      let log ← logOf j
      let r := fromLogChecked log (← getNatField j "git_added") (← getNatField j "git_deleted")
        (← getNatField j "ai_accepted") (← byToolOf j)
      match r with
      | some s => pure (jStats s)
      | none => pure overflow
  | "st_numstat" => some do
      let ign ← ignOf j
      match numstatChecked ign (← getStrField j "text") with
      | some (a, d) => pure (jObj [("added", jNat a), ("deleted", jNat d)])
      | none => pure overflow
  | "st_git_quote" => some do
      let bs ← natList (← j.getObjVal? "bytes")
      pure (jObj [("text", jStr (gitQuote bs))])
  | "st_unescape" => some do
      pure (jObj [("text", jStr (unescapeGitPath (← getStrField j "text")))])
  | "st_for_commit" => some do
      let ign ← ignOf j
      let log ← logOf j
      let s := forCommit ign (← getStrField j "text") log (← getNatField j "parent_count")
        (← addedOf j "diff_added")
      pure (jStats s)
  | _ => none

end GitAi.Driver.StatsD
