/-
  Driver/Sync.lean — line-protocol ops for the notes synchronisation model (C10).

  sync_run {n, probe?, steps: [[ [opname, i] | ["rewrite", i, c] | ["maintRemote"], … ], …]}
    runs the model from `init n` with the existence probe `probe` ("show-ref-verify" (default) |
    "rev-parse-verify" | "loose-file" | "unknown" — what extract/sync_ref_probes.py read off
    refs.rs:ref_exists); each element of `steps` is one *macro step* (a list of
    model ops executed in order: a raced push is one macro step of four ops); returns the
    observable state of every repository after every macro step:
      {steps: [{remote: ref|null, rst, rhas: [oid…],
                clones: [{loc: ref|null, trk: ref|null, locSt, trkSt, has: [oid…]}…]}…],
       (rst / locSt / trkSt: "absent" | "loose" | "packed" — where the ref is stored)
       wr: [[notes-commit id, commit oid, note id]…]   -- every `notes add`, oldest first
       log: [[commit oid, author clone, note id]…]}    -- oldest first
    ref = {notes: [[oid, note]…] sorted by oid, n: number of reachable notes commits}
-/
import GitAiModel.Driver.Json
import GitAiModel.Model.Sync
namespace GitAi.Driver.SyncD
open Lean GitAi GitAi.Driver GitAi.Sync

/-- an op, possibly depending on the state it is executed in: `["rewrite", i, k]` targets the
    commit of the k-th `notes add` of the run (scenario-local name `c<k>`). -/
def opOf (j : Json) : Except String (State → Op) := do
  let a ← j.getArr?
  match a.toList with
  | [nm, i] =>
    let i ← i.getNat?
    match (← nm.getStr?) with
    | "commit" => pure (fun _ => .commit i)
    | "fetch" => pure (fun _ => .fetch i)
    | "pull" => pure (fun _ => .pull i)
    | "push" => pure (fun _ => .push i)
    | "pFetch" => pure (fun _ => .pFetch i)
    | "pMerge" => pure (fun _ => .pMerge i)
    | "pSend" => pure (fun _ => .pSend i)
    | "maintenance" => pure (fun _ => .maintenance i)
    | s => throw s!"bad op {s}"
  | [nm] =>
    match (← nm.getStr?) with
    | "maintRemote" => pure (fun _ => .maintRemote)
    | s => throw s!"bad op {s}"
  | [nm, i, k] =>
    let i ← i.getNat?
    let k ← k.getNat?
    match (← nm.getStr?) with
    | "rewrite" => pure (fun s => .rewrite i (match s.wr.reverse[k]? with | some p => p.2.1 | none => 1000000000))
    | s => throw s!"bad op {s}"
  | _ => throw "bad op shape"

def sortNat (l : List Nat) : List Nat := (l.toArray.qsort (· < ·)).toList

def jRef : Option NRef → Json
  | none => Json.null
  | some r =>
    let es := (r.map.toArray.qsort (fun a b => a.1 < b.1)).toList
    jObj [("notes", jArr (es.map fun p => jArr [jNat p.1, jNat p.2])), ("n", jNat r.reach.length)]

def jSt (v : Option NRef) (st : Store) : Json :=
  match refSt v st with
  | .absent => Json.str "absent"
  | .loose => Json.str "loose"
  | .packed => Json.str "packed"

def jState (s : State) : Json :=
  jObj [("remote", jRef s.remote), ("rst", jSt s.remote s.rst), ("rhas", jArr ((sortNat s.rhas).map jNat)),
        ("clones", jArr (s.clones.map fun c =>
          jObj [("loc", jRef c.loc), ("trk", jRef c.trk), ("locSt", jSt c.loc c.locSt), ("trkSt", jSt c.trk c.trkSt),
                ("has", jArr ((sortNat c.has).map jNat))]))]

def probeOf : String → Except String Probe
  | "show-ref-verify" => pure (probeSem .showRefVerify)
  | "rev-parse-verify" => pure (probeSem .revParseVerify)
  | "loose-file" => pure (probeSem .looseFile)
  | "unknown" => pure (probeSem .unknown)
  | s => throw s!"bad probe {s}"

/-- which branch of the model an op takes in state `s` (coverage tags for the evidence):
    `cl` is the clone record the decision is taken on (tracking ref already updated). -/
def tagIntegrate (P : Probe) (s : State) (cl : Clone) : List String :=
  let lp := refSt cl.loc cl.locSt == .packed
  let stTag := (if lp then ["probe:loc-packed"] else []) ++
    (if refSt cl.trk cl.trkSt == .packed then ["probe:trk-packed"] else []) ++
    (if lp && refSt cl.trk cl.trkSt == .loose then ["probe:loc-packed-trk-loose"] else [])
  let br :=
    if !P (refSt cl.trk cl.trkSt) then (if cl.trk.isSome then "skip-EXISTING-TRK" else "notrk")
    else if !P (refSt cl.loc cl.locSt) then (if cl.loc.isSome then "copy-OVER-EXISTING" else "copy")
    else match cl.loc, cl.trk with
      | none, _ => "merge-unborn"
      | _, none => "merge-notrk"
      | some l, some t =>
        if subset t.reach l.reach then "uptodate"
        else if subset l.reach t.reach then "ff"
        else
          let b := baseMap s.objs l t
          let conflict := (mergeKeys b l.map t.map).any fun k =>
            get b k != get t.map k && get l.map k != get t.map k && get l.map k != get b k
          if conflict then "merge3-conflict" else "merge3"
  br :: stTag

def tagPrim (P : Probe) (s : State) : Op → List String
  | .commit i => match s.clones[i]? with
    | some cl => [if cl.loc.isSome then "commit" else "commit-first"]
    | none => ["noclone"]
  | .rewrite i c => match s.clones[i]? with
    | some cl => [if cl.has.contains c then "rewrite" else "rewrite-unheld"]
    | none => ["noclone"]
  | .fetch i | .pull i => match s.clones[i]?, s.remote with
    | some cl, some r =>
      match tagIntegrate P s { cl with trk := some r, trkSt := written cl.trk cl.trkSt r } with
      | b :: rest => ("fetch-" ++ b) :: rest
      | [] => []
    | some _, none => ["fetch-noremote"]
    | none, _ => ["noclone"]
  | .pFetch i => match s.clones[i]?, s.remote with
    | some _, some _ => ["pfetch-ok"]
    | some _, none => ["pfetch-fail"]
    | none, _ => ["noclone"]
  | .pMerge i => match s.clones[i]? with
    | some cl => if cl.fetchOk then
        match tagIntegrate P s cl with
        | b :: rest => ("pmerge-" ++ b) :: rest
        | [] => []
      else ["pmerge-skip"]
    | none => ["noclone"]
  | .pSend i => match s.clones[i]? with
    | some cl => match cl.loc, s.remote with
      | none, _ => ["send-nosrc"]
      | some _, none => ["send-create"]
      | some l, some r =>
        if subset r.reach l.reach then (if subset l.reach r.reach then ["send-noop"] else ["send-ff"])
        else ["send-rejected"]
    | none => ["noclone"]
  | .push _ => []
  | .maintenance i => match s.clones[i]? with
    | some cl => [if refSt cl.loc cl.locSt == .loose || refSt cl.trk cl.trkSt == .loose then "maint-packs" else "maint-noop"]
    | none => ["noclone"]
  | .maintRemote => [if refSt s.remote s.rst == .loose then "maintremote-packs" else "maintremote-noop"]

def runTag (P : Probe) : List (State → Op) → State → List String → State × List String
  | [], s, acc => (s, acc)
  | f :: ops, s, acc =>
    match f s with
    | .push i =>
      let s1 := step P s (.pFetch i); let s2 := step P s1 (.pMerge i)
      runTag P ops (step P s (.push i)) (acc ++ tagPrim P s (.pFetch i) ++ tagPrim P s1 (.pMerge i) ++ tagPrim P s2 (.pSend i))
    | op => runTag P ops (step P s op) (acc ++ tagPrim P s op)

def runSteps (P : Probe) : List (List (State → Op)) → State → List Json → State × List Json
  | [], s, acc => (s, acc.reverse)
  | ops :: rest, s, acc =>
    let (s', tags) := runTag P ops s []
    let j := (jState s').setObjVal! "tags" (jArr (tags.map Json.str))
    runSteps P rest s' (j :: acc)

def handle (op : String) (j : Json) : Option (Except String Json) :=
  match op with
  | "sync_run" => some do
      let n ← getNatField j "n"
      let steps ← (← getArrField j "steps").toList.mapM (fun st => do
        (← st.getArr?).toList.mapM opOf)
      let P ← match j.getObjVal? "probe" with
        | .ok p => do probeOf (← p.getStr?)
        | .error _ => pure gitSees
      let (s, out) := runSteps P steps (init n) []
      pure (jObj [("steps", jArr out),
                  ("wr", jArr (s.wr.reverse.map fun p => jArr [jNat p.1, jNat p.2.1, jNat p.2.2])),
                  ("log", jArr (s.log.reverse.map fun p => jArr [jNat p.1, jNat p.2.1, jNat p.2.2]))])
  | _ => none

end GitAi.Driver.SyncD
