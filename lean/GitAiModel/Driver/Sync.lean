/-
  Driver/Sync.lean — line-protocol ops for the notes synchronisation model (C10).

  sync_run {n, steps: [[ [opname, i] | ["rewrite", i, c] , … ], …]}
    runs the model from `init n`; each element of `steps` is one *macro step* (a list of
    model ops executed in order: a raced push is one macro step of four ops); returns the
    observable state of every repository after every macro step:
      {steps: [{remote: ref|null, rhas: [oid…], clones: [{loc: ref|null, trk: ref|null, has: [oid…]}…]}…],
       wr: [[notes-commit id, commit oid, note id]…]   -- every `notes add`, oldest first
       log: [[commit oid, author clone, note id]…]}    -- oldest first
    ref = {notes: [[oid, note]…] sorted by oid, n: number of reachable notes commits}
-/
import GitAiModel.Driver.Json
import GitAiModel.Model.Sync
namespace GitAi.Driver.SyncD
open Lean GitAi GitAi.Driver GitAi.Sync

def opOf (j : Json) : Except String Op := do
  let a ← j.getArr?
  match a.toList with
  | [nm, i] =>
    let i ← i.getNat?
    match (← nm.getStr?) with
    | "commit" => pure (.commit i)
    | "fetch" => pure (.fetch i)
    | "pull" => pure (.pull i)
    | "push" => pure (.push i)
    | "pFetch" => pure (.pFetch i)
    | "pMerge" => pure (.pMerge i)
    | "pSend" => pure (.pSend i)
    | s => throw s!"bad op {s}"
  | [nm, i, c] =>
    match (← nm.getStr?) with
    | "rewrite" => pure (.rewrite (← i.getNat?) (← c.getNat?))
    | s => throw s!"bad op {s}"
  | _ => throw "bad op shape"

def sortNat (l : List Nat) : List Nat := (l.toArray.qsort (· < ·)).toList

def jRef : Option NRef → Json
  | none => Json.null
  | some r =>
    let es := (r.map.toArray.qsort (fun a b => a.1 < b.1)).toList
    jObj [("notes", jArr (es.map fun p => jArr [jNat p.1, jNat p.2])), ("n", jNat r.reach.length)]

def jState (s : State) : Json :=
  jObj [("remote", jRef s.remote), ("rhas", jArr ((sortNat s.rhas).map jNat)),
        ("clones", jArr (s.clones.map fun c =>
          jObj [("loc", jRef c.loc), ("trk", jRef c.trk), ("has", jArr ((sortNat c.has).map jNat))]))]

def runSteps : List (List Op) → State → List Json → State × List Json
  | [], s, acc => (s, acc.reverse)
  | ops :: rest, s, acc => let s' := run ops s; runSteps rest s' (jState s' :: acc)

def handle (op : String) (j : Json) : Option (Except String Json) :=
  match op with
  | "sync_run" => some do
      let n ← getNatField j "n"
      let steps ← (← getArrField j "steps").toList.mapM (fun st => do
        (← st.getArr?).toList.mapM opOf)
      let (s, out) := runSteps steps (init n) []
      pure (jObj [("steps", jArr out),
                  ("wr", jArr (s.wr.reverse.map fun p => jArr [jNat p.1, jNat p.2.1, jNat p.2.2])),
                  ("log", jArr (s.log.reverse.map fun p => jArr [jNat p.1, jNat p.2.1, jNat p.2.2]))])
  | _ => none

end GitAi.Driver.SyncD
