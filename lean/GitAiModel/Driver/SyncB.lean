/-
  Driver/Sync.lean — line-protocol ops for the notes synchronisation model (C10).

  sync_run {n, steps: [[ [opname, i] | ["rewrite", i, c] , … ], …]}
    runs the model from `init n`; each element of `steps` is one *macro step* (a list of
    model ops executed in order: a raced push is one macro step of four ops); returns the
    observable state of every repository after every macro step:
      {steps: [{remote: ref|null, rhas: [oid…], clones: [{loc: ref|null, trk: ref|null, has: [oid…]}…]}…],
       wr: [[notes-commit id, commit oid, note id]…]   -- every `notes add`, oldest first
       log: [[commit oid, author clone, note id]…]}    -- oldest first
    ref = {notes: [[oid, note]…] sorted by oid, n: number of reachable notes commits}
-/
import GitAiModel.Driver.Json
import GitAiModel.Model.Sync
namespace GitAi.Driver.SyncD
open Lean GitAi GitAi.Driver GitAi.Sync

/-- an op, possibly depending on the state it is executed in: `["rewrite", i, k]` targets the
    commit of the k-th `notes add` of the run (scenario-local name `c<k>`). -/
def opOf (j : Json) : Except String (State → Op) := do
  let a ← j.getArr?
  match a.toList with
  | [nm, i] =>
    let i ← i.getNat?
    match (← nm.getStr?) with
    | "commit" => pure (fun _ => .commit i)
    | "fetch" => pure (fun _ => .fetch i)
    | "pull" => pure (fun _ => .pull i)
    | "push" => pure (fun _ => .push i)
    | "pFetch" => pure (fun _ => .pFetch i)
    | "pMerge" => pure (fun _ => .pMerge i)
    | "pSend" => pure (fun _ => .pSend i)
    | s => throw s!"bad op {s}"
  | [nm, i, k] =>
    let i ← i.getNat?
    let k ← k.getNat?
    match (← nm.getStr?) with
    | "rewrite" => pure (fun s => .rewrite i (match s.wr.reverse[k]? with | some p => p.2.1 | none => 1000000000))
    | s => throw s!"bad op {s}"
  | _ => throw "bad op shape"

def sortNat (l : List Nat) : List Nat := (l.toArray.qsort (· < ·)).toList

def jRef : Option NRef → Json
  | none => Json.null
  | some r =>
    let es := (r.map.toArray.qsort (fun a b => a.1 < b.1)).toList
    jObj [("notes", jArr (es.map fun p => jArr [jNat p.1, jNat p.2])), ("n", jNat r.reach.length)]

def jState (s : State) : Json :=
  jObj [("remote", jRef s.remote), ("rhas", jArr ((sortNat s.rhas).map jNat)),
        ("clones", jArr (s.clones.map fun c =>
          jObj [("loc", jRef c.loc), ("trk", jRef c.trk), ("has", jArr ((sortNat c.has).map jNat))]))]

/-- which branch of the model an op takes in state `s` (coverage tags for the evidence). -/
def tagIntegrate (s : State) (loc : Option NRef) (t : NRef) : String :=
  match loc with
  | none => "copy"
  | some l =>
    if subset t.reach l.reach then "uptodate"
    else if subset l.reach t.reach then "ff"
    else
      let b := baseMap s.objs l t
      let conflict := (mergeKeys b l.map t.map).any fun k =>
        get b k != get t.map k && get l.map k != get t.map k && get l.map k != get b k
      if conflict then "merge3-conflict" else "merge3"

def tagPrim (s : State) : Op → List String
  | .commit i => match s.clones[i]? with
    | some cl => [if cl.loc.isSome then "commit" else "commit-first"]
    | none => ["noclone"]
  | .rewrite i c => match s.clones[i]? with
    | some cl => [if cl.has.contains c then "rewrite" else "rewrite-unheld"]
    | none => ["noclone"]
  | .fetch i | .pull i => match s.clones[i]?, s.remote with
    | some cl, some r => ["fetch-" ++ tagIntegrate s cl.loc r]
    | some _, none => ["fetch-noremote"]
    | none, _ => ["noclone"]
  | .pFetch i => match s.clones[i]?, s.remote with
    | some _, some _ => ["pfetch-ok"]
    | some _, none => ["pfetch-fail"]
    | none, _ => ["noclone"]
  | .pMerge i => match s.clones[i]? with
    | some cl => if cl.fetchOk then
        match cl.trk with
        | some t => ["pmerge-" ++ tagIntegrate s cl.loc t]
        | none => ["pmerge-notrk"]
      else ["pmerge-skip"]
    | none => ["noclone"]
  | .pSend i => match s.clones[i]? with
    | some cl => match cl.loc, s.remote with
      | none, _ => ["send-nosrc"]
      | some _, none => ["send-create"]
      | some l, some r =>
        if subset r.reach l.reach then (if subset l.reach r.reach then ["send-noop"] else ["send-ff"])
        else ["send-rejected"]
    | none => ["noclone"]
  | .push _ => []

def runTag : List (State → Op) → State → List String → State × List String
  | [], s, acc => (s, acc)
  | f :: ops, s, acc =>
    match f s with
    | .push i =>
      let s1 := step s (.pFetch i); let s2 := step s1 (.pMerge i)
      runTag ops (step s (.push i)) (acc ++ tagPrim s (.pFetch i) ++ tagPrim s1 (.pMerge i) ++ tagPrim s2 (.pSend i))
    | op => runTag ops (step s op) (acc ++ tagPrim s op)

def runSteps : List (List (State → Op)) → State → List Json → State × List Json
  | [], s, acc => (s, acc.reverse)
  | ops :: rest, s, acc =>
    let (s', tags) := runTag ops s []
    let j := (jState s').setObjVal! "tags" (jArr (tags.map Json.str))
    runSteps rest s' (j :: acc)

def handle (op : String) (j : Json) : Option (Except String Json) :=
  match op with
  | "sync_run" => some do
      let n ← getNatField j "n"
      let steps ← (← getArrField j "steps").toList.mapM (fun st => do
        (← st.getArr?).toList.mapM opOf)
      let (s, out) := runSteps steps (init n) []
      pure (jObj [("steps", jArr out),
                  ("wr", jArr (s.wr.reverse.map fun p => jArr [jNat p.1, jNat p.2.1, jNat p.2.2])),
                  ("log", jArr (s.log.reverse.map fun p => jArr [jNat p.1, jNat p.2.1, jNat p.2.2]))])
  | _ => none

end GitAi.Driver.SyncD
