import GitAiModel.Driver.Json
import GitAiModel.Model.Sys
namespace GitAi.Driver.SysD
open Lean GitAi GitAi.Driver GitAi.Sys

def natsOf (j : Json) : Except String (List Nat) := do
  (← j.getArr?).toList.mapM (·.getNat?)

def opOf (j : Json) : Except String Op := do
  let k ← (← j.getObjVal? "k").getStr?
  match k with
  | "human" => pure (.humanEdit (← natsOf (← j.getObjVal? "ys")))
  | "ai" => pure (.aiEdit (← getNatField j "s") (← natsOf (← j.getObjVal? "ys")))
  | "hcp" => pure .humanCheckpoint
  | "stageAll" => pure .stageAll
  | "stage" => pure (.stage (← natsOf (← j.getObjVal? "ys")))
  | "commit" => pure .commit
  | _ => throw s!"bad sys op {k}"

def jPairs (l : List (Nat × Nat)) : Json := jArr (l.map fun p => jArr [jNat p.1, jNat p.2])

def handle (op : String) (j : Json) : Option (Except String Json) :=
  match op with
  | "sys_run" => some do
      let h ← natsOf (← j.getObjVal? "head")
      let ops ← (← getArrField j "ops").toList.mapM opOf
      let st := run { head := h, index := h, work := h } ops
      pure (jObj [("notes", jArr (st.notes.reverse.map jPairs)), ("initial", jPairs st.initial),
                  ("head", jArr (st.head.map jNat))])
  | _ => none

end GitAi.Driver.SysD
