import GitAiModel.Driver.Json
import GitAiModel.Driver.Sys
import GitAiModel.Model.SysMulti
namespace GitAi.Driver.SysMultiD
open Lean GitAi GitAi.Driver GitAi.Sys GitAi.SysMulti GitAi.Driver.SysD

def editOf (j : Json) : Except String (Nat × List Nat) := do
  let a ← j.getArr?
  match a.toList with
  | [p, ys] => pure (← p.getNat?, ← natsOf ys)
  | _ => throw "bad edit"

/-- the operations of the model, plus `report`: the agent's writes and its checkpoint WITHOUT the
    pre-edit human checkpoint (`aiReport`; used when a scenario takes the pre-edit checkpoint earlier,
    with other people's edits in between — `ai` = `hcp` naming the files directly followed by `report`) -/
inductive XOp where
  | m (op : MOp)
  | report (s : Nat) (edits : List (Path × List Nat))

def opOf (j : Json) : Except String XOp := do
  let k ← (← j.getObjVal? "k").getStr?
  match k with
  | "human" => pure (.m (.humanEdit (← getNatField j "f") (← natsOf (← j.getObjVal? "ys"))))
  | "ai" => pure (.m (.aiEdit (← getNatField j "s") (← (← getArrField j "edits").toList.mapM editOf)))
  | "report" => pure (.report (← getNatField j "s") (← (← getArrField j "edits").toList.mapM editOf))
  | "hcp" => pure (.m (.humanCheckpoint (← natsOf (← j.getObjVal? "fs"))))
  | "checkpoint" => pure (.m .plainCheckpoint)
  | "stageAll" => pure (.m (.stageAll (← natsOf (← j.getObjVal? "fs"))))
  | "stage" => pure (.m (.stage (← getNatField j "f") (← natsOf (← j.getObjVal? "ys"))))
  | "commit" => pure (.m .commit)
  | _ => throw s!"bad sysm op {k}"

def stepX (ms : MState) : XOp → MState
  | .m op => stepM ms op
  | .report s edits => aiReport ms s edits

def pureOps : List XOp → Option (List MOp)
  | [] => some []
  | .m op :: r => (pureOps r).map (op :: ·)
  | .report _ _ :: _ => none

def jAuthor : Author → Json
  | none => Json.null
  | some s => jNat s

def jEntry (e : MEntry) : Json :=
  jObj [("file", jNat e.file), ("snap", jArr (e.snap.map jNat)), ("attr", jArr (e.attr.map jAuthor)),
        ("pruned", Json.bool e.chars.isNone)]

/-- shape of a working log, oldest checkpoint first: who, and per entry the file, whether any line is an
    AI session's, and whether the character-level ranges were cleared -/
def jShape (cks : List Ckpt) : Json :=
  jArr (cks.reverse.map fun c => jObj [("who", jAuthor c.who),
    ("entries", jArr (c.entries.map fun e => jObj [("file", jNat e.file), ("ai", Json.bool (e.attr.any Option.isSome)),
                                                   ("pruned", Json.bool e.chars.isNone)]))])

/-- run, remembering the working log as it is right before every commit -/
def runX (ms : MState) : List XOp → List Json → MState × List Json
  | [], acc => (ms, acc.reverse)
  | op :: ops, acc =>
    match op with
    | .m .commit => runX (stepX ms op) ops (jShape ms.ckpts :: acc)
    | _ => runX (stepX ms op) ops acc

def jOp : Op → Json
  | .humanEdit ys => jObj [("k", Json.str "human"), ("ys", jArr (ys.map jNat))]
  | .aiEdit s ys => jObj [("k", Json.str "ai"), ("s", jNat s), ("ys", jArr (ys.map jNat))]
  | .humanCheckpoint => jObj [("k", Json.str "hcp")]
  | .stageAll => jObj [("k", Json.str "stageAll")]
  | .stage ys => jObj [("k", Json.str "stage"), ("ys", jArr (ys.map jNat))]
  | .commit => jObj [("k", Json.str "commit")]

/-- `sysm_run`: {paths:[p…], heads:[[ids]…] (same order), ops:[…]} ↦ per path the notes of every commit
    (oldest first), INITIAL and HEAD at the end; the working log at the end (oldest first); and (when no
    `report` is used), for the tie with the one-file model, per path the projected one-file operations and whether `Sys.run` of them
    ends in the same notes (theorem `file_isolation` says it must). -/
def handle (op : String) (j : Json) : Option (Except String Json) :=
  match op with
  | "sysm_run" => some do
      let paths ← natsOf (← j.getObjVal? "paths")
      let heads ← (← getArrField j "heads").toList.mapM natsOf
      let tbl := paths.zip heads
      let files : Path → FileSt := fun p =>
        match tbl.find? (fun q => q.1 = p) with
        | some q => { head := q.2, index := q.2, work := q.2 }
        | none => {}
      let ops ← (← getArrField j "ops").toList.mapM opOf
      let ms0 : MState := { files := files, paths := paths }
      let (ms, shapes) := runX ms0 ops []
      let perFile := paths.map fun p =>
        let x := ms.files p
        let basic := [("path", jNat p), ("notes", jArr (x.notes.reverse.map jPairs)), ("initial", jPairs x.initial),
                      ("head", jArr (x.head.map jNat))]
        match pureOps ops with
        | some mops =>
          let one := run (view ms0 p) (projOps ms0 p mops)
          jObj (basic ++ [("proj", jArr ((projOps ms0 p mops).map jOp)),
                ("one_file_agrees", Json.bool (one.notes == x.notes && one.initial == x.initial && one.head == x.head))])
        | none => jObj basic
      pure (jObj [("files", jArr perFile), ("logs_before_commit", jArr shapes),
                  ("log", jArr (ms.ckpts.reverse.map fun c => jObj [("who", jAuthor c.who), ("entries", jArr (c.entries.map jEntry))]))])
  | _ => none

end GitAi.Driver.SysMultiD
