/-
  Driver/Tracker.lean — line-protocol ops for the attribution tracker model (C16).

  Texts travel as JSON strings (UTF-8) when they are valid UTF-8, else as arrays of byte values.
  Attributions: `[start, end, "author", ts]`; line attributions: `[start, end, "author", overrode|null]`;
  segments: `[op, data]` with op 0 = Equal, 1 = Delete, 2 = Insert; moves:
  `[deletion_idx, insertion_idx, src_start, src_end, tgt_start, tgt_end]`.
-/
import GitAiModel.Driver.Json
import GitAiModel.Model.Tracker
namespace GitAi.Driver.TrackerD
open Lean GitAi GitAi.Driver GitAi.Tracker

def textOf (j : Json) : Except String Text :=
  match j with
  | .str s => pure (s.toUTF8.toList.map (·.toNat))
  | _ => do
    let a ← j.getArr?
    a.toList.mapM (fun x => x.getNat?)

def attrOf (j : Json) : Except String Attr := do
  let a ← j.getArr?
  match a.toList with
  | [s, e, au, ts] => pure ⟨← s.getNat?, ← e.getNat?, ← strOf au, ← ts.getNat?⟩
  | _ => throw "bad attribution"

def segOf (j : Json) : Except String Seg := do
  let a ← j.getArr?
  match a.toList with
  | [o, d] =>
    let op ← o.getNat?
    let data ← textOf d
    pure ⟨if op = 0 then .equal else if op = 1 then .delete else .insert, data⟩
  | _ => throw "bad segment"

def moveOf (j : Json) : Except String Move := do
  let a ← j.getArr?
  match a.toList with
  | [d, i, s0, s1, t0, t1] =>
    pure ⟨← d.getNat?, ← i.getNat?, ← s0.getNat?, ← s1.getNat?, ← t0.getNat?, ← t1.getNat?⟩
  | _ => throw "bad move"

def pairOf (j : Json) : Except String (Nat × Nat) := do
  let a ← j.getArr?
  match a.toList with
  | [s, e] => pure (← s.getNat?, ← e.getNat?)
  | _ => throw "bad pair"

def lineAttrOf (j : Json) : Except String LineAttr := do
  let a ← j.getArr?
  match a.toList with
  | [s, e, au, ov] =>
    let o ← match ov with
      | .null => pure none
      | x => do pure (some (← strOf x))
    pure ⟨← s.getNat?, ← e.getNat?, ← strOf au, o⟩
  | _ => throw "bad line attribution"

def jAttr (a : Attr) : Json := jArr [jNat a.start, jNat a.stop, jStr a.author, jNat a.ts]
def jAttrs (l : List Attr) : Json := jArr (l.map jAttr)
def jPair (p : Nat × Nat) : Json := jArr [jNat p.1, jNat p.2]
def jSpan (p : Span) : Json := jArr [jNat p.start, jNat p.stop]
def jLineAttr (l : LineAttr) : Json :=
  jArr [jNat l.startLine, jNat l.endLine, jStr l.author,
        match l.overrode with | some o => jStr o | none => Json.null]

def panicJ : Json := jObj [("err", Json.str "panic")]

def attrsField (j : Json) (k : String) : Except String (List Attr) := do
  (← getArrField j k).toList.mapM attrOf

structure Parts where
  segs : List Seg
  subst : List (Nat × Nat)
  moves : List Move
  attrs : List Attr
  author : Str
  ts : Nat

def partsOf (j : Json) : Except String Parts := do
  let segs ← (← getArrField j "segs").toList.mapM segOf
  let subst ← (← getArrField j "subst").toList.mapM pairOf
  let moves ← (← getArrField j "moves").toList.mapM moveOf
  let attrs ← attrsField j "attrs"
  pure ⟨segs, subst, moves, attrs, ← getStrField j "author", ← getNatField j "ts"⟩

def handle (op : String) (j : Json) : Option (Except String Json) :=
  match op with
  | "tr_update" => some do
      let p ← partsOf j
      match update p.segs p.subst p.moves p.attrs p.author p.ts with
      | .error _ => pure panicJ
      | .ok out => pure (jObj [("ok", jAttrs out),
                               ("new_len", jNat (newOf p.segs).length), ("old_len", jNat (oldOf p.segs).length)])
  | "tr_update_attributions" => some do
      let p ← partsOf j
      let oldC ← textOf (← j.getObjVal? "old")
      let newC ← textOf (← j.getObjVal? "new")
      match updateAttributions oldC newC p.segs p.subst p.moves p.attrs p.author p.ts with
      | .error _ => pure panicJ
      | .ok out => pure (jObj [("ok", jAttrs out)])
  | "tr_transform" => some do
      let p ← partsOf j
      match transform p.segs p.subst p.moves p.attrs p.author p.ts with
      | .error _ => pure panicJ
      | .ok out => pure (jObj [("ok", jAttrs out)])
  | "tr_merge" => some do
      pure (jObj [("ok", jAttrs (merge (← attrsField j "attrs")))])
  | "tr_catalog" => some do
      let segs ← (← getArrField j "segs").toList.mapM segOf
      pure (jObj [("deletions", jArr ((deletions segs).map jSpan)),
                  ("insertions", jArr ((insertions segs).map (fun i => jPair (i.start, i.stop))))])
  | "tr_fill" => some do
      let c ← textOf (← j.getObjVal? "content")
      pure (jObj [("ok", jAttrs (fillUnattributed c (← attrsField j "attrs") (← getStrField j "author") (← getNatField j "ts")))])
  | "tr_to_lines" => some do
      let c ← textOf (← j.getObjVal? "content")
      match toLineAttrs (← attrsField j "attrs") c with
      | .error _ => pure panicJ
      | .ok ls => pure (jObj [("ok", jArr (ls.map jLineAttr))])
  | "tr_from_lines" => some do
      let c ← textOf (← j.getObjVal? "content")
      let ls ← (← getArrField j "lines").toList.mapM lineAttrOf
      pure (jObj [("ok", jAttrs (lineAttrsToAttrs ls c (← getNatField j "ts")))])
  | _ => none

end GitAi.Driver.TrackerD
