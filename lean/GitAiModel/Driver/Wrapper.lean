import GitAiModel.Driver.Json
import GitAiModel.Model.Wrapper
import GitAiModel.Model.Journal
import GitAiModel.Extracted.WrapperTables
namespace GitAi.Driver.WrapperD
open Lean GitAi GitAi.Driver GitAi.Wrapper

def strsOf (j : Json) (k : String) : Except String (List Str) := do
  (← getArrField j k).toList.mapM strOf

def footName : Foot → String
  | .readOnly => "readOnly" | .objects => "objects" | .aiRefs => "aiRefs" | .aiRemote => "aiRemote"
  | .userState => "userState"

def tokOf (j : Json) : Except String Tok := do
  let k ← (← j.getObjVal? "k").getStr?
  let opt ← getBoolField j "opt"
  match k with
  | "lit" => pure ⟨.lit (← getStrField j "s"), opt⟩
  | "pat" => pure ⟨.pat (← getStrField j "s"), opt⟩
  | "dyn" => pure ⟨.dyn, opt⟩
  | "globals" => pure ⟨.globals, opt⟩
  | "rest" => pure ⟨.rest, opt⟩
  | _ => throw s!"unknown token kind {k}"

def kindName : Kind → String
  | .gitRan => "gitRan" | .refused => "refused" | .crashed => "crashed"
  | .killedBeforeGit => "killedBeforeGit" | .killedAfterGit => "killedAfterGit"

def handle (op : String) (j : Json) : Option (Except String Json) :=
  match op with
  /- footprint / hooks of a concrete internal argv (as traced by GIT_AI_VERIF_TRACE) -/
  | "wrap_classify" => some do
      let argv ← strsOf j "argv"
      let refs ← strsOf j "refs"
      pure (jObj [("foot", Json.str (footName (footprintArgv argv refs))),
                  ("hooks_off", Json.bool (hooksOffArgv argv)),
                  ("call_ok", Json.bool (callOk argv refs))])
  /- the same functions on an inventory entry's token patterns -/
  | "wrap_tokens" => some do
      let toks ← (← getArrField j "tokens").toList.mapM tokOf
      let refs ← strsOf j "refs"
      let args := toks.map Tok.toArg
      pure (jObj [("foot", Json.str (footName (footprint args refs))),
                  ("hooks_off", Json.bool (literalHooksOff args))])
  /- size of the tables the proofs were checked against (the check compares with what it extracted) -/
  | "wrap_tables" => some do
      pure (jObj [("calls", jNat WrapperTables.calls.length), ("writes", jNat WrapperTables.writes.length),
                  ("exits", jNat WrapperTables.exits.length),
                  ("feet", jArr (WrapperTables.calls.map (fun c => Json.str (footName c.foot)))),
                  ("hooks_off", jArr (WrapperTables.calls.map (fun c => Json.bool c.hooksOff)))])
  /- journal readers on a list of per-line decode results (true = the line parses) -/
  | "wrap_journal" => some do
      let text ← getStrField j "text"
      let mx ← getNatField j "max"
      -- the decoder is opaque in the model: the caller marks parsable lines by a leading '{' … '}' check done in
      -- Python with a real JSON parser and passes the verdict per non-blank line
      let verdicts ← (← getArrField j "ok").toList.mapM (fun v => v.getBool?)
      let lines := Journal.dataLines text
      let tagged := (lines.zip verdicts)
      let parse : Str → Option Str := fun l => match tagged.find? (fun p => p.1 == l) with
        | some (_, true) => some l
        | _ => none
      pure (jObj [("lines", jNat lines.length),
                  ("tolerant", jArr ((Journal.deserializeEvents parse mx text).map jStr)),
                  ("strict", match Journal.readCheckpointsStrict parse (fun _ => true) (some text) with
                    | some l => jArr (l.map jStr)
                    | none => Json.null)])
  | _ => none

end GitAi.Driver.WrapperD
