import GitAiModel.Driver.Json
import GitAiModel.Model.Wrapper
import GitAiModel.Model.Journal
import GitAiModel.Extracted.WrapperTables
import GitAiModel.Extracted.WrapperExitTables
namespace GitAi.Driver.WrapperD
open Lean GitAi GitAi.Driver GitAi.Wrapper

def strsOf (j : Json) (k : String) : Except String (List Str) := do
  (← getArrField j k).toList.mapM strOf

def footName : Foot → String
  | .readOnly => "readOnly" | .objects => "objects" | .aiRefs => "aiRefs" | .aiRemote => "aiRemote"
  | .userState => "userState"

def tokOf (j : Json) : Except String Tok := do
  let k ← (← j.getObjVal? "k").getStr?
  let opt ← getBoolField j "opt"
  match k with
  | "lit" => pure ⟨.lit (← getStrField j "s"), opt⟩
  | "pat" => pure ⟨.pat (← getStrField j "s"), opt⟩
  | "dyn" => pure ⟨.dyn, opt⟩
  | "globals" => pure ⟨.globals, opt⟩
  | "rest" => pure ⟨.rest, opt⟩
  | _ => throw s!"unknown token kind {k}"

def kindName : Kind → String
  | .gitRan => "gitRan" | .refused => "refused" | .crashed => "crashed"
  | .killedBeforeGit => "killedBeforeGit" | .killedAfterGit => "killedAfterGit"

def procEndJson : Exit.ProcEnd → Json
  | .exited c => jObj [("end", Json.str "exited"), ("value", jNat c)]
  | .signaled s => jObj [("end", Json.str "signaled"), ("value", jNat s)]

def atomName : Exit.Atom → String
  | .skipAll => "skipAll" | .skipManaged => "skipManaged" | .fwdExists => "fwdExists"
  | .noManagedBehavior => "noManagedBehavior" | .requiresLookup => "requiresLookup" | .usesManaged => "usesManaged"
  | .hasState => "hasState" | .explicitOverride => "explicitOverride"

def conjJson (c : Exit.Conj) : Json := jArr (c.map fun l => jArr [Json.str (atomName l.1), Json.bool l.2])

def resetJson : Exit.Reset → Json
  | .dying => Json.str "dying"
  | .fixed l => jArr (l.map jNat)

def dirName : Exit.Dir → String
  | .user => "user" | .managed => "managed" | .null => "null"

def handle (op : String) (j : Json) : Option (Except String Json) :=
  match op with
  /- `exit_with_status` on a child status, over the extracted statements; `ignored` = dispositions inherited as SIG_IGN -/
  | "wrap_exit" => some do
      let kind ← (← j.getObjVal? "kind").getStr?
      let v ← getNatField j "value"
      let setpgid ← getBoolField j "setpgid"
      let ign ← (← getArrField j "ignored").toList.mapM (fun x => x.getNat?)
      let inh : Exit.Disps := fun s => if ign.contains s then .ign else .dfl
      let st : Exit.ChildStatus := if kind == "signaled" then .signaled v else .exited v
      let spec := WrapperExitTables.exitSpec
      pure (jObj [("proxy", procEndJson (Exit.exitWithStatus spec st (Exit.atExit spec inh setpgid))),
                  ("can_kill", Json.bool (kind == "signaled" && Exit.canKill v))])
  /- one hook event of a command started by the wrapper, over the extracted decision tables -/
  | "wrap_userhook" => some do
      let cmd ← getStrField j "cmd"
      let loc ← (← j.getObjVal? "loc").getStr?
      let ai ← getBoolField j "ensured"
      let em ← getBoolField j "ev_managed"
      let user ← (← j.getObjVal? "user").getStr?
      let ex ← getBoolField j "explicit"
      let loc' : Exit.UserLoc ← match loc with
        | "default" => pure .defaultDir | "local" => pure .localPath | "global" => pure .globalPath
        | _ => throw s!"unknown loc {loc}"
      let user' : Exit.UserHook ← match user with
        | "none" => pure .none | "ok" => pure .ok | "veto" => pure .veto
        | _ => throw s!"unknown user hook {user}"
      let s : Exit.Scn := ⟨WrapperTables.managedCommands.contains cmd, loc', if ai then .ensured else .absent, em, user', ex⟩
      let f := Exit.viaProxy WrapperExitTables.hookEntry WrapperExitTables.override s false false
      let p := Exit.plain s
      pure (jObj [("uses_managed", Json.bool s.usesManaged), ("dir", Json.str (dirName (Exit.effectiveDir WrapperExitTables.override s false))),
                  ("runs", jNat f.runs), ("veto", Json.bool f.veto), ("plain_runs", jNat p.runs), ("plain_veto", Json.bool p.veto),
                  ("dead_default_dir", Json.bool s.deadDefaultDir)])
  /- the exit / user-hook tables the proofs were checked against (the check compares with what it extracted) -/
  | "wrap_exit_tables" => some do
      let e := WrapperExitTables.exitSpec
      let h := WrapperExitTables.hookEntry
      let o := WrapperExitTables.override
      pure (jObj [("resets", jArr (e.resets.map resetJson)), ("raises", Json.bool e.raisesDying), ("unreachable", Json.bool e.thenUnreachable),
                  ("else_exits_code", Json.bool e.elseExitsCode), ("forwarded", jArr (e.forwarded.map jNat)),
                  ("uninstalled", jArr (e.uninstalled.map jNat)), ("other_signal_sites", jNat e.otherSignalSites),
                  ("early_returns", jArr (h.earlyReturns.map conjJson)), ("managed_guard", conjJson h.managedGuard),
                  ("managed_failure_returns", Json.bool h.managedFailureReturns), ("tail_forwards", Json.bool h.tailForwards),
                  ("none_when", jArr (o.noneWhen.map conjJson)), ("fallback_null", Json.bool o.fallbackNull),
                  ("same_forward_resolver", Json.bool o.sameForwardResolver), ("inject_when", conjJson o.injectWhen),
                  ("child_skip_env", Json.bool o.childSkipEnv),
                  ("user_hooks_ok", Json.bool (Exit.userHooksOk h o))])
  /- footprint / hooks of a concrete internal argv (as traced by GIT_AI_VERIF_TRACE) -/
  | "wrap_classify" => some do
      let argv ← strsOf j "argv"
      let refs ← strsOf j "refs"
      pure (jObj [("foot", Json.str (footName (footprintArgv argv refs))),
                  ("hooks_off", Json.bool (hooksOffArgv argv)),
                  ("call_ok", Json.bool (callOk argv refs))])
  /- the same functions on an inventory entry's token patterns -/
  | "wrap_tokens" => some do
      let toks ← (← getArrField j "tokens").toList.mapM tokOf
      let refs ← strsOf j "refs"
      let args := toks.map Tok.toArg
      pure (jObj [("foot", Json.str (footName (footprint args refs))),
                  ("hooks_off", Json.bool (literalHooksOff args))])
  /- size of the tables the proofs were checked against (the check compares with what it extracted) -/
  | "wrap_tables" => some do
      pure (jObj [("calls", jNat WrapperTables.calls.length), ("writes", jNat WrapperTables.writes.length),
                  ("exits", jNat WrapperTables.exits.length),
                  ("feet", jArr (WrapperTables.calls.map (fun c => Json.str (footName c.foot)))),
                  ("hooks_off", jArr (WrapperTables.calls.map (fun c => Json.bool c.hooksOff)))])
  /- journal readers on a list of per-line decode results (true = the line parses) -/
  | "wrap_journal" => some do
      let text ← getStrField j "text"
      let mx ← getNatField j "max"
      -- the decoder is opaque in the model: the caller marks parsable lines by a leading '{' … '}' check done in
      -- Python with a real JSON parser and passes the verdict per non-blank line
      let verdicts ← (← getArrField j "ok").toList.mapM (fun v => v.getBool?)
      let lines := Journal.dataLines text
      let tagged := (lines.zip verdicts)
      let parse : Str → Option Str := fun l => match tagged.find? (fun p => p.1 == l) with
        | some (_, true) => some l
        | _ => none
      pure (jObj [("lines", jNat lines.length),
                  ("tolerant", jArr ((Journal.deserializeEvents parse mx text).map jStr)),
                  ("strict", match Journal.readCheckpointsStrict parse (fun _ => true) (some text) with
                    | some l => jArr (l.map jStr)
                    | none => Json.null)])
  | _ => none

end GitAi.Driver.WrapperD
