/-
  Lemmas/Alias.lean — the alias tokenizer simulates git's `split_cmdline` (C18), and
  counting lemmas for the termination of alias resolution.
-/
import GitAiModel.Model.Alias
import GitAiModel.Model.GitRef
namespace GitAi.Alias
open GitAi GitAi.Cli GitAi.GitRef

/-- the arguments of a marked `split_cmdline` result that were started by some character -/
def startedOnly (ms : List (Str × Bool)) : List Str := (ms.filter (·.2)).map (·.1)

theorem startedOnly_append_single (done : List (Str × Bool)) (cur : Str) (st : Bool) :
    startedOnly (done ++ [(cur, st)]) = if st then startedOnly done ++ [cur] else startedOnly done := by
  cases st <;> simp [startedOnly, List.filter_append]

/-- how the tokenizer's answer relates to `split_cmdline`'s -/
def SimRel (g : Except SplitErr (List (Str × Bool))) (r : Option (List Str)) : Prop :=
  match g with
  | .ok ms => r = some (startedOnly ms)
  | .error .unclosedQuote => r = none
  | .error (.badEnding true) => r = none
  | .error (.badEnding false) => ∃ ts, r = some ts

theorem isGitSpace_not_special {c : Char} (h : isGitSpace c = true) :
    c ≠ '\'' ∧ c ≠ '"' ∧ c ≠ '\\' := by
  simp only [isGitSpace, Bool.or_eq_true, decide_eq_true_eq] at h
  rcases h with ((rfl | rfl) | rfl) | rfl <;> decide

theorem sim (s : Str) (done : List (Str × Bool)) (cur : Str) (st : Bool) (q : Quote) (skip : Bool)
    (h1 : st = false → cur = [] ∧ q = .none) (h2 : skip = true → st = false) :
    SimRel (gitSplitGo s done cur st q skip) (tokGo s (startedOnly done) cur st q false) := by
  fun_induction gitSplitGo s done cur st q skip
  case case1 done cur st q skip hq =>
    -- end of input inside a quote
    simp [SimRel, tokGo, hq]
  case case2 done cur st q skip hq =>
    have hq' : q = .none := by simpa using hq
    subst hq'
    simp only [SimRel, tokGo, startedOnly_append_single]
    cases st <;> simp
  case case3 c cs done cur st q hsp ih =>
    -- whitespace while skipping
    obtain ⟨hq, hs⟩ := hsp
    subst hq
    obtain ⟨n1, n2, n3⟩ := isGitSpace_not_special hs
    have hst : st = false := h2 rfl
    subst hst
    have := ih h1 (fun _ => rfl)
    simpa [tokGo, n1, n2, n3, hs] using this
  case case4 c cs done cur st q skip hsp hskip ih =>
    -- whitespace ends the current argument
    obtain ⟨hq, hs⟩ := hsp
    subst hq
    obtain ⟨n1, n2, n3⟩ := isGitSpace_not_special hs
    have := ih (fun _ => ⟨rfl, rfl⟩) (fun _ => rfl)
    rw [startedOnly_append_single] at this
    cases st
    · obtain ⟨hc, _⟩ := h1 rfl
      subst hc
      simpa [tokGo, n1, n2, n3, hs] using this
    · simpa [tokGo, n1, n2, n3, hs] using this
  case case5 c cs done cur st q skip hnsp hquote ih =>
    -- opening quote
    obtain ⟨hq, hc⟩ := hquote
    subst hq
    have := ih (fun h => by cases h) (fun h => by cases h)
    rcases hc with rfl | rfl
    · simpa [tokGo, quoteOf] using this
    · simpa [tokGo, quoteOf] using this
  case case6 c cs done cur st q skip hnsp hnq hclose ih =>
    -- closing quote
    have hst : st = true := by
      cases st
      · obtain ⟨_, hq⟩ := h1 rfl
        subst hq; simp [quoteChar] at hclose
      · rfl
    subst hst
    have := ih (fun h => by cases h) (fun h => by cases h)
    cases q
    · simp [quoteChar] at hclose
    · simp only [quoteChar, Option.some.injEq] at hclose; subst hclose
      simpa [tokGo] using this
    · simp only [quoteChar, Option.some.injEq] at hclose; subst hclose
      simpa [tokGo] using this
  case case7 c done cur st q skip hnsp hnq hnclose hbs =>
    -- trailing backslash
    obtain ⟨hc, hq⟩ := hbs
    subst hc
    cases q
    · simp [SimRel, tokGo]
    · exact absurd rfl hq
    · simp [SimRel, tokGo]
  case case8 c done cur st q skip hnsp hnq hnclose hbs d cs' ih =>
    -- backslash takes the next character literally
    obtain ⟨hc, hq⟩ := hbs
    subst hc
    have := ih (fun h => by cases h) (fun h => by cases h)
    cases q
    · simpa [tokGo] using this
    · exact absurd rfl hq
    · have hst : st = true := by
        cases st
        · obtain ⟨_, hq'⟩ := h1 rfl; cases hq'
        · rfl
      subst hst
      simpa [tokGo] using this
  case case9 c cs done cur st q skip hnsp hnq hnclose hnbs ih =>
    -- ordinary character
    have := ih (fun h => by cases h) (fun h => by cases h)
    cases q
    · have n1 : c ≠ '\'' := fun h => hnq ⟨rfl, Or.inl h⟩
      have n2 : c ≠ '"' := fun h => hnq ⟨rfl, Or.inr h⟩
      have n3 : c ≠ '\\' := fun h => hnbs ⟨h, by decide⟩
      have n4 : isGitSpace c = false := by
        cases hh : isGitSpace c
        · rfl
        · exact absurd ⟨rfl, hh⟩ hnsp
      simpa [tokGo, n1, n2, n3, n4] using this
    · have n1 : c ≠ '\'' := fun h => hnclose (by simp [quoteChar, h])
      have hst : st = true := by
        cases st
        · obtain ⟨_, hq'⟩ := h1 rfl; cases hq'
        · rfl
      subst hst
      simpa [tokGo, n1] using this
    · have n2 : c ≠ '"' := fun h => hnclose (by simp [quoteChar, h])
      have n3 : c ≠ '\\' := fun h => hnbs ⟨h, by decide⟩
      have hst : st = true := by
        cases st
        · obtain ⟨_, hq'⟩ := h1 rfl; cases hq'
        · rfl
      subst hst
      simpa [tokGo, n2, n3] using this

/-- leading git-whitespace is a no-op for the tokenizer loop in its initial state -/
theorem tokGo_trim (v : Str) :
    tokGo (trimStartGit v) [] [] false .none false = tokGo v [] [] false .none false := by
  induction v with
  | nil => rfl
  | cons c cs ih =>
    unfold trimStartGit
    split
    · rename_i hs
      obtain ⟨n1, n2, n3⟩ := isGitSpace_not_special hs
      rw [ih]
      simp [tokGo, n1, n2, n3, hs]
    · rfl

/-- the tokenizer against `split_cmdline`, for every value that is not a `!` alias -/
theorem tokens_sim (v : Str) (h : isShell v = false) : SimRel (gitSplitM v) (tokens v) := by
  unfold tokens gitSplitM
  simp only [h, Bool.false_eq_true, if_false]
  rw [tokGo_trim]
  exact sim v [] [] false .none false (fun _ => ⟨rfl, rfl⟩) (fun h => by cases h)

/-- arguments `split_cmdline` creates without any character starting them are empty -/
theorem unstarted_empty (s : Str) (done : List (Str × Bool)) (cur : Str) (st : Bool) (q : Quote)
    (skip : Bool) (ms : List (Str × Bool))
    (hd : ∀ m ∈ done, m.2 = false → m.1 = []) (hc : st = false → cur = [])
    (h : gitSplitGo s done cur st q skip = .ok ms) : ∀ m ∈ ms, m.2 = false → m.1 = [] := by
  fun_induction gitSplitGo s done cur st q skip
  case case1 => cases h
  case case2 =>
    cases h
    intro m hm
    rcases List.mem_append.1 hm with hm | hm
    · exact hd m hm
    · simp only [List.mem_singleton] at hm; subst hm; exact hc
  case case3 ih => exact ih hd hc h
  case case4 ih =>
    refine ih ?_ (fun _ => rfl) h
    intro m hm
    rcases List.mem_append.1 hm with hm | hm
    · exact hd m hm
    · simp only [List.mem_singleton] at hm; subst hm; exact hc
  case case5 ih => exact ih hd (fun h => by cases h) h
  case case6 ih => exact ih hd (fun h => by cases h) h
  case case7 => cases h
  case case8 ih => exact ih hd (fun h => by cases h) h
  case case9 ih => exact ih hd (fun h => by cases h) h

theorem startedOnly_of_no_empty (ms : List (Str × Bool))
    (h1 : ∀ m ∈ ms, m.2 = false → m.1 = []) (h2 : [] ∉ ms.map Prod.fst) :
    startedOnly ms = ms.map Prod.fst := by
  unfold startedOnly
  rw [List.filter_eq_self.2]
  intro m hm
  cases hb : m.2
  · exfalso
    apply h2
    rw [List.mem_map]
    exact ⟨m, hm, h1 m hm hb⟩
  · rfl

/-- whenever git's split yields no empty argument at all, the two agree exactly -/
theorem tokens_eq_gitSplit (v : Str) (hs : isShell v = false) (ts : List Str)
    (h : gitSplit v = .ok ts) (hne : [] ∉ ts) : tokens v = some ts := by
  unfold gitSplit at h
  cases hm : gitSplitM v with
  | error e => rw [hm] at h; cases h
  | ok ms =>
    rw [hm] at h
    cases h
    have hsim := tokens_sim v hs
    rw [hm] at hsim
    simp only [SimRel] at hsim
    rw [hsim]
    congr 1
    refine startedOnly_of_no_empty ms ?_ hne
    exact unstarted_empty v [] [] false .none false ms (fun m hm => by cases hm) (fun _ => rfl) hm

/-- a value git rejects (other than an unquoted trailing backslash) is rejected by git-ai too -/
theorem tokens_none_of_error (v : Str) (hs : isShell v = false) (e : SplitErr)
    (h : gitSplit v = .error e) (hb : gitSplit v ≠ .error (.badEnding false)) : tokens v = none := by
  have hsim := tokens_sim v hs
  unfold gitSplit at h hb
  cases hm : gitSplitM v with
  | ok ms => rw [hm] at h; cases h
  | error e' =>
    rw [hm] at hsim hb
    cases e' with
    | unclosedQuote => exact hsim
    | badEnding b =>
      cases b
      · exact absurd rfl hb
      · exact hsim

/-! ### counting: a duplicate-free list inside another is no longer -/

theorem nodup_subset_length {α} [DecidableEq α] (l k : List α) (hn : l.Nodup)
    (hs : ∀ x ∈ l, x ∈ k) : l.length ≤ k.length := by
  induction l generalizing k with
  | nil => simp
  | cons a l ih =>
    rw [List.nodup_cons] at hn
    have ha : a ∈ k := hs a List.mem_cons_self
    have hsub : ∀ x ∈ l, x ∈ k.erase a := by
      intro x hx
      have hxa : x ≠ a := fun e => hn.1 (e ▸ hx)
      exact (List.mem_erase_of_ne hxa).2 (hs x (List.mem_cons_of_mem _ hx))
    have := ih (k.erase a) hn.2 hsub
    rw [List.length_erase_of_mem ha] at this
    have hpos : 0 < k.length := List.length_pos_of_mem ha
    simp only [List.length_cons]
    omega

theorem lookupIn_some_mem {tbl : List (Str × Str)} {c v : Str} (h : lookupIn tbl c = some v) :
    c ∈ tbl.map Prod.fst := by
  induction tbl with
  | nil => simp [lookupIn] at h
  | cons kv rest ih =>
    obtain ⟨k, w⟩ := kv
    simp only [lookupIn] at h
    split at h
    · rename_i hk; subst hk; simp
    · simp [ih h]

/-- the loop never runs out of fuel when given one more iteration than there are aliases
    still unseen -/
theorem resolveO_fuel (tbl : List (Str × Str)) (fuel : Nat) (seen : List Str) (p : Parsed)
    (hn : seen.Nodup) (hs : ∀ x ∈ seen, x ∈ tbl.map Prod.fst)
    (hf : tbl.length + 1 ≤ fuel + seen.length) :
    resolveO (lookupIn tbl) fuel seen p ≠ .outOfFuel := by
  induction fuel generalizing seen p with
  | zero =>
    have := nodup_subset_length seen (tbl.map Prod.fst) hn hs
    simp at this hf
    omega
  | succ n ih =>
    unfold resolveO
    split
    · simp
    · split
      · simp
      · rename_i c hc
        split
        · simp
        · rename_i v hv
          split
          · split <;> simp
          · apply ih
            · rw [List.nodup_cons]
              refine ⟨?_, hn⟩
              simpa using hc
            · intro x hx
              rcases List.mem_cons.1 hx with rfl | hx
              · exact lookupIn_some_mem hv
              · exact hs x hx
            · simp only [List.length_cons]; omega

end GitAi.Alias
