/-
  Lemmas/AliasGit.lean — git-ai's alias resolution against git's own alias loop (C18).
-/
import GitAiModel.Lemmas.CliGit
import GitAiModel.Lemmas.Alias
namespace GitAi.Alias
open GitAi GitAi.Cli GitAi.GitRef

/-- what `gitScan … = .command` says about the vector -/
theorem gitScan_command_inv (a p0 pre : List Str) (c : Str) (rest : List Str)
    (h : gitScan a p0 = .command pre c rest) :
    ∃ P, pre = p0 ++ P ∧ gitConsumes P = true ∧ a = P ++ c :: rest ∧ gitStep c = .stopWord := by
  fun_induction gitScan a p0
  case case1 => cases h
  case case2 hs => cases h; exact ⟨[], by simp, rfl, rfl, hs⟩
  case case3 => cases h
  case case4 tok rest0 pre1 hs ih =>
    obtain ⟨P, h1, h2, h3, h4⟩ := ih h
    refine ⟨tok :: P, by simp [h1], ?_, by simp [h3], h4⟩
    unfold gitConsumes; simp only [hs]; exact h2
  case case5 tok pre1 hs v rest' ih =>
    obtain ⟨P, h1, h2, h3, h4⟩ := ih h
    refine ⟨tok :: v :: P, by simp [h1], ?_, by simp [h3], h4⟩
    unfold gitConsumes; simp only [hs]; exact h2
  case case6 => cases h
  case case7 => cases h
  case case8 => cases h

theorem gitScan_command_of (P : List Str) (c : Str) (rest p0 : List Str)
    (hP : gitConsumes P = true) (hc : gitStep c = .stopWord) :
    gitScan (P ++ c :: rest) p0 = .command (p0 ++ P) c rest := by
  rw [gitScan_of_gitConsumes P _ _ hP, gitScan_cons, hc]

theorem gitConsumes_append (P Q : List Str) (hP : gitConsumes P = true) (hQ : gitConsumes Q = true) :
    gitConsumes (P ++ Q) = true := by
  fun_induction gitConsumes P
  case case1 => simpa using hQ
  case case2 ih =>
    rename_i t rest hs
    rw [List.cons_append]; unfold gitConsumes; simp only [hs]; exact ih hP
  case case3 ih =>
    rename_i t hs v rest'
    rw [List.cons_append, List.cons_append]; unfold gitConsumes; simp only [hs]; exact ih hP
  case case4 => simp at hP
  case case5 => simp at hP

/-- an alias value on which git-ai and git agree token by token and whose expansion is a
    well-formed git command line in the grammar both sides share -/
def AliasClean (v : Str) : Prop :=
  (isShell v = true ↔ v.head? = some '!') ∧
  gitSplit v ≠ .error (.badEnding false) ∧
  ∀ ts, gitSplit v = .ok ts →
    [] ∉ ts ∧ (∃ pre c r, gitScan ts [] = .command pre c r) ∧ ∀ t ∈ ts, t ∉ gitOnly

/-- a vector in which git finds a command, spelled without the `gitOnly` forms -/
def GitValid (a : List Str) : Prop :=
  (∃ pre c r, gitScan a [] = .command pre c r) ∧ ∀ t ∈ a, t ∉ gitOnly

theorem parse_of_gitValid (a pre rest : List Str) (c : Str)
    (h : gitScan a [] = .command pre c rest) (hC : ∀ t ∈ a, t ∉ gitOnly) :
    (parse a).command = some c ∧ (parse a).globalArgs = pre ∧ (parse a).commandArgs = rest ∧
      (parse a).sawEndOfOpts = false ∧ toVec (parse a) = a := by
  rcases scan_of_gitScan a [] pre c rest h with ⟨hs, hd⟩ | ⟨_, t, ht, hg⟩
  · have hm : preMeta a = [] := by unfold preMeta; rw [hs]
    refine ⟨?_, ?_, ?_, ?_, toVec_parse_of_no_meta a hm⟩
    all_goals (unfold parse; simp [hs, decideCommand, hd, rewrite_nil])
  · exact absurd hg (hC t ht)

theorem resolve_agrees (lookup : Str → Option Str) (isCommand : Str → Bool)
    (hclean : ∀ c v, lookup c = some v → isCommand c = false ∧ AliasClean v)
    (fuel : Nat) (seen : List Str) (a : List Str) (ha : GitValid a) (q : Parsed)
    (h : resolveO lookup fuel seen (parse a) = .final q) :
    gitExpand lookup isCommand fuel seen a = .runs (toVec q) := by
  induction fuel generalizing seen a with
  | zero => simp [resolveO] at h
  | succ n ih =>
    obtain ⟨⟨pre, c, rest, hscan⟩, hC⟩ := ha
    obtain ⟨hcmd, hg, hargs, heoo, hvec⟩ := parse_of_gitValid a pre rest c hscan hC
    obtain ⟨P, hpre, hPc, haP, hcw⟩ := gitScan_command_inv a [] pre c rest hscan
    simp only [List.nil_append] at hpre
    subst hpre
    unfold resolveO at h
    simp only [hcmd] at h
    unfold gitExpand
    simp only [hscan]
    by_cases hseen : seen.contains c = true
    · have hmem : c ∈ seen := by simpa using hseen
      simp [hmem] at h
    · simp only [hseen, Bool.false_eq_true, if_false] at h ⊢
      cases hl : lookup c with
      | none =>
        simp only [hl] at h
        cases h
        simp [hvec]
      | some v =>
        obtain ⟨hnc, hsh, hbad, hts⟩ := hclean c v hl
        simp only [hl, hnc, Bool.false_eq_true, if_false] at h ⊢
        cases htok : tokens v with
        | none =>
          simp only [htok] at h
          split at h <;> cases h
        | some ts =>
          simp only [htok] at h
          have hns : isShell v = false := by
            cases hs : isShell v
            · rfl
            · simp [tokens, hs] at htok
          have hhead : v.head? ≠ some '!' := fun e => by
            rw [hsh.2 e] at hns; cases hns
          simp only [hhead, if_false]
          cases hsp : gitSplit v with
          | error e =>
            exfalso
            have hnone := (tokens_none_of_error v hns e hsp hbad)
            rw [hnone] at htok; cases htok
          | ok gts =>
            obtain ⟨hne, ⟨pre', c', r', hscan'⟩, hC'⟩ := hts gts hsp
            have hts_eq : ts = gts := by
              have := tokens_eq_gitSplit v hns gts hsp hne
              rw [this] at htok; cases htok; rfl
            subst hts_eq
            simp only [hscan']
            obtain ⟨P', hpre', hPc', haP', hcw'⟩ := gitScan_command_inv ts [] pre' c' r' hscan'
            simp only [List.nil_append] at hpre'
            subst hpre'
            have hnext : pre ++ ts ++ rest = (pre ++ pre') ++ c' :: (r' ++ rest) := by
              rw [haP']; simp
            have hvalid : GitValid (pre ++ ts ++ rest) := by
              refine ⟨⟨pre ++ pre', c', r' ++ rest, ?_⟩, ?_⟩
              · rw [hnext]
                have := gitScan_command_of (pre ++ pre') c' (r' ++ rest) [] (gitConsumes_append pre pre' hPc hPc') hcw'
                simpa using this
              · intro t ht
                rcases List.mem_append.1 ht with ht | ht
                · rcases List.mem_append.1 ht with ht | ht
                  · exact hC t (by rw [haP]; exact List.mem_append_left _ ht)
                  · exact hC' t ht
                · exact hC t (by rw [haP]; exact List.mem_append_right _ (List.mem_cons_of_mem _ ht))
            have hrec : resolveO lookup n (c :: seen) (parse (pre ++ ts ++ rest)) = .final q := by
              simpa [hg, hargs, heoo] using h
            exact ih (c :: seen) (pre ++ ts ++ rest) hvalid hrec

end GitAi.Alias
