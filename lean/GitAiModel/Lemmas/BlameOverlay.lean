/-
  Lemmas/BlameOverlay.lean — helper lemmas for C09 (parser on rendered porcelain, hunk
  splitting, attribution characterisation, format reductions).
-/
import GitAiModel.Model.BlameOverlay
import GitAiModel.Lemmas.GitPath
import GitAiModel.Lemmas.NoteFormat
namespace GitAi.BlameOverlay
open GitAi GitAi.NoteFormat GitAi.GitPath

/-! ### characters -/

theorem hex_toNat (c : Char) (h : isHexDigit c = true) :
    (48 ≤ c.toNat ∧ c.toNat ≤ 57) ∨ (97 ≤ c.toNat ∧ c.toNat ≤ 102) ∨
      (65 ≤ c.toNat ∧ c.toNat ≤ 70) := by
  simp [isHexDigit, Char.le_def, UInt32.le_iff_toNat_le] at h
  omega

theorem hex_not_ws (c : Char) (h : isHexDigit c = true) : isWhitespace c = false := by
  have := hex_toNat c h
  simp [isWhitespace]
  omega

theorem space_ws : isWhitespace ' ' = true := by decide

theorem ne_of_toNat_ne' (c d : Char) (h : c.toNat ≠ d.toNat) : c ≠ d := fun e => h (by rw [e])

/-- the second character of every keyword is neither a hex digit nor a space -/
theorem second_char_facts (c : Char) (h : isHexDigit c = true ∨ c = ' ') :
    c ≠ 'u' ∧ c ≠ 'o' ∧ c ≠ 'i' := by
  rcases h with h | h
  · have := hex_toNat c h
    refine ⟨ne_of_toNat_ne' _ _ ?_, ne_of_toNat_ne' _ _ ?_, ne_of_toNat_ne' _ _ ?_⟩ <;>
      (show c.toNat ≠ _) <;> simp <;> omega
  · subst h; decide

theorem hex_ne_tab (c : Char) (h : isHexDigit c = true) : c ≠ '\t' := by
  have := hex_toNat c h
  apply ne_of_toNat_ne'
  show c.toNat ≠ _
  simp
  omega

/-! ### split_whitespace on space-separated tokens -/

def NoWs (t : Str) : Prop := ∀ c ∈ t, isWhitespace c = false

theorem noWs_of_all (t : Str) (h : t.all (fun c => !isWhitespace c) = true) : NoWs t := by
  intro c hc
  have := List.all_eq_true.1 h c hc
  simpa using this

theorem splitWsGo_tok (cur tok rest : Str) (h : NoWs tok) :
    splitWsGo cur (tok ++ rest) = splitWsGo (cur ++ tok) rest := by
  induction tok generalizing cur with
  | nil => simp
  | cons c tok ih =>
    have hc : isWhitespace c = false := h c (by simp)
    have ht : NoWs tok := fun x hx => h x (by simp [hx])
    rw [List.cons_append, splitWsGo]
    simp only [hc, Bool.false_eq_true, if_false]
    rw [ih _ ht]
    simp

theorem splitWsGo_space (cur rest : Str) (h : cur ≠ []) :
    splitWsGo cur (' ' :: rest) = cur :: splitWsGo [] rest := by
  rw [splitWsGo]
  have : cur.isEmpty = false := by cases cur <;> simp_all
  simp [space_ws, this]

/-- a non-empty whitespace-free token followed by a space is the first token -/
theorem splitWs_first (tok rest : Str) (h : NoWs tok) (hne : tok ≠ []) :
    splitWs (tok ++ ' ' :: rest) = tok :: splitWs rest := by
  unfold splitWs
  rw [splitWsGo_tok [] tok _ h, List.nil_append, splitWsGo_space _ _ hne]

theorem splitWs_last (tok : Str) (h : NoWs tok) (hne : tok ≠ []) : splitWs tok = [tok] := by
  unfold splitWs
  have := splitWsGo_tok [] tok [] h
  rw [List.append_nil, List.nil_append] at this
  rw [this, splitWsGo]
  have : tok.isEmpty = false := by cases tok <;> simp_all
  simp [this]

theorem natToStr_noWs (n : Nat) : NoWs (natToStr n) := by
  intro c hc
  obtain ⟨d, hd, rfl⟩ := natToStr_all_digit n c hc
  exact digit_not_ws d hd

/-! ### strip_prefix -/

theorem stripPrefix_append (pre x : Str) : stripPrefix pre (pre ++ x) = some x := by
  induction pre with
  | nil => simp [stripPrefix]
  | cons p ps ih => simp [stripPrefix, ih]

/-! ### classification of rendered lines -/

theorem classify_author (a : Str) : classify (kAuthor ++ a) = .author a := by
  simp [classify, kAuthor, stripPrefix]

theorem classify_authorMail (a : Str) : classify (kAuthorMail ++ a) = .consumed := by
  simp [classify, kAuthor, kAuthorMail, stripPrefix, isSome']

theorem classify_authorTime (a : Str) : classify (kAuthorTime ++ a) = .consumed := by
  simp [classify, kAuthor, kAuthorMail, kAuthorTime, stripPrefix, isSome']

theorem classify_authorTz (a : Str) : classify (kAuthorTz ++ a) = .consumed := by
  simp [classify, kAuthor, kAuthorMail, kAuthorTime, kAuthorTz, stripPrefix, isSome']

theorem classify_committer (a : Str) : classify (kCommitter ++ a) = .consumed := by
  simp [classify, kAuthor, kAuthorMail, kAuthorTime, kAuthorTz, kCommitter, stripPrefix, isSome']

theorem classify_committerMail (a : Str) : classify (kCommitterMail ++ a) = .consumed := by
  simp [classify, kAuthor, kAuthorMail, kAuthorTime, kAuthorTz, kCommitter, kCommitterMail,
    stripPrefix, isSome']

theorem classify_committerTime (a : Str) : classify (kCommitterTime ++ a) = .consumed := by
  simp [classify, kAuthor, kAuthorMail, kAuthorTime, kAuthorTz, kCommitter, kCommitterMail,
    kCommitterTime, stripPrefix, isSome']

theorem classify_committerTz (a : Str) : classify (kCommitterTz ++ a) = .consumed := by
  simp [classify, kAuthor, kAuthorMail, kAuthorTime, kAuthorTz, kCommitter, kCommitterMail,
    kCommitterTime, kCommitterTz, stripPrefix, isSome']

theorem classify_boundary : classify kBoundary = .boundary := by decide

theorem classify_content (c : Str) : classify ('\t' :: c) = .skip := by
  simp [classify]

theorem classify_filename (q : Str) : classify (kFilename ++ q) = .filename (unquotePath q) := by
  simp [classify, kAuthor, kAuthorMail, kAuthorTime, kAuthorTz, kCommitter, kCommitterMail,
    kCommitterTime, kCommitterTz, kBoundary, kFilename, stripPrefix, isSome']

theorem summary_tokens (s : Str) :
    headerTokens (kSummary ++ s) = none := by
  have h : kSummary ++ s = ['s', 'u', 'm', 'm', 'a', 'r', 'y'] ++ ' ' :: s := by simp [kSummary]
  unfold headerTokens
  rw [h, splitWs_first _ _ (noWs_of_all _ (by decide)) (by decide)]
  simp only
  rw [if_neg (by decide)]

theorem previous_tokens (s : Str) :
    headerTokens (kPrevious ++ s) = none := by
  have h : kPrevious ++ s = ['p', 'r', 'e', 'v', 'i', 'o', 'u', 's'] ++ ' ' :: s := by
    simp [kPrevious]
  unfold headerTokens
  rw [h, splitWs_first _ _ (noWs_of_all _ (by decide)) (by decide)]
  simp only
  rw [if_neg (by decide)]

theorem classify_summary (s : Str) : classify (kSummary ++ s) = .skip := by
  have ht := summary_tokens s
  simp only [kSummary, List.cons_append, List.nil_append] at ht
  simp [classify, kSummary, kAuthor, kAuthorMail, kAuthorTime, kAuthorTz, kCommitter,
    kCommitterMail, kCommitterTime, kCommitterTz, kBoundary, kFilename, stripPrefix, isSome', ht]

theorem classify_previous (s : Str) : classify (kPrevious ++ s) = .skip := by
  have ht := previous_tokens s
  simp only [kPrevious, List.cons_append, List.nil_append] at ht
  simp [classify, kPrevious, kAuthor, kAuthorMail, kAuthorTime, kAuthorTz, kCommitter,
    kCommitterMail, kCommitterTime, kCommitterTz, kBoundary, kFilename, stripPrefix, isSome', ht]

/-- a commit id as git prints it: non-empty, hex digits only -/
def HexId (s : Str) : Prop := s ≠ [] ∧ ∀ c ∈ s, isHexDigit c = true

theorem hexId_noWs (s : Str) (h : HexId s) : NoWs s := fun c hc => hex_not_ws c (h.2 c hc)

theorem hexId_all (s : Str) (h : HexId s) : s.all isHexDigit = true := by
  simp only [List.all_eq_true]
  exact h.2

/-- a line starting with a commit id and a space falls through every keyword test -/
theorem classify_hexline (sha rest a p2 p3 : Str) (p4 : Option Str) (h : HexId sha)
    (hT : headerTokens (sha ++ ' ' :: rest) = some (a, p2, p3, p4)) :
    classify (sha ++ ' ' :: rest) = .header a p2 p3 p4 := by
  obtain ⟨hne, hhex⟩ := h
  cases sha with
  | nil => exact absurd rfl hne
  | cons c0 t =>
    have h0 : isHexDigit c0 = true := hhex c0 (by simp)
    have h0t := hex_ne_tab c0 h0
    -- the second character
    have : ∃ c1 t', t ++ ' ' :: rest = c1 :: t' ∧ (isHexDigit c1 = true ∨ c1 = ' ') := by
      cases t with
      | nil => exact ⟨' ', rest, rfl, Or.inr rfl⟩
      | cons c1 t' => exact ⟨c1, t' ++ ' ' :: rest, rfl, Or.inl (hhex c1 (by simp))⟩
    obtain ⟨c1, t', e, hc1⟩ := this
    obtain ⟨n1, n2, n3⟩ := second_char_facts c1 hc1
    rw [List.cons_append, e] at hT ⊢
    have m1 : ('u' = c1) = False := by simp [eq_comm, n1]
    have m2 : ('o' = c1) = False := by simp [eq_comm, n2]
    have m3 : ('i' = c1) = False := by simp [eq_comm, n3]
    simp [classify, kAuthor, kAuthorMail, kAuthorTime, kAuthorTz, kCommitter, kCommitterMail,
      kCommitterTime, kCommitterTz, kBoundary, kFilename, stripPrefix, isSome', h0t, m1, m2, m3,
      n2, hT]

theorem tokens_header4 (sha : Str) (a b n : Nat) (h : HexId sha) :
    headerTokens (sha ++ ' ' :: (natToStr a ++ ' ' :: (natToStr b ++ ' ' :: natToStr n))) =
      some (sha, natToStr a, natToStr b, some (natToStr n)) := by
  unfold headerTokens
  rw [splitWs_first _ _ (hexId_noWs _ h) h.1,
    splitWs_first _ _ (natToStr_noWs a) (natToStr_ne_nil a),
    splitWs_first _ _ (natToStr_noWs b) (natToStr_ne_nil b),
    splitWs_last _ (natToStr_noWs n) (natToStr_ne_nil n)]
  simp [hexId_all _ h]

theorem tokens_header3 (sha : Str) (a b : Nat) (h : HexId sha) :
    headerTokens (sha ++ ' ' :: (natToStr a ++ ' ' :: natToStr b)) =
      some (sha, natToStr a, natToStr b, none) := by
  unfold headerTokens
  rw [splitWs_first _ _ (hexId_noWs _ h) h.1,
    splitWs_first _ _ (natToStr_noWs a) (natToStr_ne_nil a),
    splitWs_last _ (natToStr_noWs b) (natToStr_ne_nil b)]
  simp [hexId_all _ h]

theorem classify_header4 (sha : Str) (a b n : Nat) (h : HexId sha) :
    classify (sha ++ ' ' :: (natToStr a ++ ' ' :: (natToStr b ++ ' ' :: natToStr n))) =
      .header sha (natToStr a) (natToStr b) (some (natToStr n)) := by
  exact classify_hexline _ _ _ _ _ _ h (tokens_header4 _ _ _ _ h)

theorem classify_header3 (sha : Str) (a b : Nat) (h : HexId sha) :
    classify (sha ++ ' ' :: (natToStr a ++ ' ' :: natToStr b)) =
      .header sha (natToStr a) (natToStr b) none := by
  exact classify_hexline _ _ _ _ _ _ h (tokens_header3 _ _ _ h)

/-! ### running the state machine over rendered groups -/

def runLines : List Str → PState → Except PErr PState
  | [], st => .ok st
  | l :: ls, st =>
    match step st l with
    | .error e => .error e
    | .ok st' => runLines ls st'

theorem runLines_append (a b : List Str) (st st' : PState) (h : runLines a st = .ok st') :
    runLines (a ++ b) st = runLines b st' := by
  induction a generalizing st with
  | nil => simp [runLines] at h; subst h; rfl
  | cons l ls ih =>
    simp only [List.cons_append, runLines] at h ⊢
    split at h
    · cases h
    · rename_i s hs
      first | exact ih _ h | (rw [hs]; exact ih _ h)

theorem parseGo_append (a b : List Str) (st st' : PState) (h : runLines a st = .ok st') :
    parseGo (a ++ b) st = parseGo b st' := by
  induction a generalizing st with
  | nil => simp [runLines] at h; subst h; rfl
  | cons l ls ih =>
    simp only [List.cons_append, runLines, parseGo] at h ⊢
    split at h
    · cases h
    · rename_i s hs
      first | exact ih _ h | (rw [hs]; exact ih _ h)

/-- the metadata a group's info block leaves in the parser state -/
def setInfo (st : PState) (i : Info) (fn : Str) : PState :=
  { st with info := { author := i.author, boundary := st.info.boundary || i.boundary,
                      filename := fn } }

theorem run_info (full : Bool) (i : Info) (fn c : Str) (st : PState) :
    runLines (infoLines full i fn ++ ['\t' :: c]) st = .ok (setInfo st i fn) := by
  obtain ⟨a, m, t, z, ca, cm, ct, cz, su, pr, bd⟩ := i
  cases bd <;> cases pr <;>
    simp [infoLines, runLines, step, classify_author, classify_authorMail, classify_authorTime,
      classify_authorTz, classify_committer, classify_committerMail, classify_committerTime,
      classify_committerTz, classify_summary, classify_boundary, classify_previous,
      classify_filename, classify_content, unquote_quote, setInfo]

structure GroupOk (g : Group) : Prop where
  hex : HexId g.commit
  finalOk : g.finalStart + g.count ≤ u32Max
  origOk : g.origStart + g.count ≤ u32Max

theorem num_natToStr (n d : Nat) (h : n ≤ u32Max) : num (natToStr n) d = n := by
  unfold num
  rw [parseU32_natToStr n (by unfold u32Max at h; omega)]
  rfl

theorem step_header3 (g : Group) (k : Nat) (st : PState) (x : Str) (hg : HexId g.commit)
    (hc : st.cur = some x) : step st (header3 g k) = .ok st := by
  unfold step header3
  rw [classify_header3 _ _ _ hg]
  simp [hc]

theorem step_header4 (g : Group) (st st' : PState) (hg : GroupOk g) (hf : flush st = .ok st') :
    step st (header3 g 0 ++ ' ' :: natToStr g.count) =
      .ok { st' with cur := some g.commit, origStart := g.origStart, finalStart := g.finalStart,
                     group := g.count, info := {} } := by
  have e : header3 g 0 ++ ' ' :: natToStr g.count =
      g.commit ++ ' ' :: (natToStr g.origStart ++ ' ' :: (natToStr g.finalStart ++ ' ' ::
        natToStr g.count)) := by
    simp [header3, List.append_assoc]
  have c1 : g.count ≤ u32Max := by have := hg.finalOk; omega
  have c2 : g.origStart ≤ u32Max := by have := hg.origOk; omega
  have c3 : g.finalStart ≤ u32Max := by have := hg.finalOk; omega
  unfold step
  rw [e, classify_header4 _ _ _ _ hg.hex]
  simp only [hf, num_natToStr _ _ c1, num_natToStr _ _ c2, num_natToStr _ _ c3]

theorem run_cont (full : Bool) (g : Group) (hg : HexId g.commit) (cs : List Str) :
    ∀ (k : Nat) (st : PState) (x : Str), st.cur = some x →
      st.info = { author := g.info.author, boundary := g.info.boundary, filename := g.filename } →
      runLines (contLines full g k cs) st = .ok st := by
  induction cs with
  | nil => intro k st x _ _; rfl
  | cons c cs ih =>
    intro k st x hc hi
    have hset : setInfo st g.info g.filename = st := by
      obtain ⟨hs, cu, fs, os, gr, inf⟩ := st
      simp only at hi
      subst hi
      simp [setInfo]
    simp only [contLines, List.cons_append, runLines]
    rw [step_header3 g k st x hg hc]
    simp only
    rw [runLines_append _ _ _ _ (run_info full g.info g.filename c st), hset]
    exact ih (k + 1) st x hc hi

/-- the hunk the parser must produce for a blame entry -/
def groupHunk (g : Group) : Hunk :=
  { start := g.finalStart, stop := g.finalStart + g.count - 1, origStart := g.origStart,
    origStop := g.origStart + g.count - 1, commit := g.commit, author := g.info.author,
    boundary := g.info.boundary, origPath := g.filename }

def afterGroup (st' : PState) (g : Group) : PState :=
  { st' with cur := some g.commit, origStart := g.origStart, finalStart := g.finalStart,
             group := g.count,
             info := { author := g.info.author, boundary := g.info.boundary,
                       filename := g.filename } }

theorem run_group (full : Bool) (g : Group) (st st' : PState) (hg : GroupOk g)
    (hf : flush st = .ok st') :
    runLines (groupLines full g) st = .ok (afterGroup st' g) := by
  unfold groupLines
  simp only [List.cons_append, runLines]
  rw [step_header4 g st st' hg hf]
  simp only
  rw [runLines_append _ _ _ _ (run_info full g.info g.filename g.first _)]
  have e : setInfo ({ st' with cur := some g.commit, origStart := g.origStart,
                               finalStart := g.finalStart, group := g.count,
                               info := ({} : Meta) }) g.info g.filename = afterGroup st' g := by
    simp [setInfo, afterGroup]
  rw [e]
  exact run_cont full g hg.hex g.rest 1 (afterGroup st' g) g.commit rfl rfl

theorem flush_afterGroup (g : Group) (st' : PState) (hg : GroupOk g) :
    flush (afterGroup st' g) =
      .ok { afterGroup st' g with hunks := st'.hunks ++ [groupHunk g], cur := none } := by
  have h1 := hg.finalOk
  have h2 := hg.origOk
  have hc : g.count > 0 := by unfold Group.count; omega
  have hnot : ¬ (g.finalStart + g.count > u32Max ∨ g.origStart + g.count > u32Max) := by omega
  simp [flush, afterGroup, mkHunk, hc, hnot, groupHunk]

theorem parseGo_render (full : Bool) (gs : List Group) (hgs : ∀ g ∈ gs, GroupOk g) :
    ∀ st st' : PState, flush st = .ok st' →
      parseGo (renderLinePorcelain full gs) st = .ok (st'.hunks ++ gs.map groupHunk) := by
  induction gs with
  | nil =>
    intro st st' hf
    simp [renderLinePorcelain, parseGo, hf]
  | cons g gs ih =>
    intro st st' hf
    have hg := hgs g (by simp)
    rw [renderLinePorcelain, parseGo_append _ _ _ _ (run_group full g st st' hg hf)]
    rw [ih (fun x hx => hgs x (by simp [hx])) _ _ (flush_afterGroup g st' hg)]
    simp

/-! ### hunks and the lines they stand for -/

theorem hunkLines_groupHunk (g : Group) : hunkLines (groupHunk g) = groupBlameLines g := by
  unfold hunkLines groupHunk groupBlameLines
  have : g.finalStart + g.count - 1 - g.finalStart + 1 = g.count := by
    unfold Group.count; omega
  simp only [this]

theorem hunksLines_groupHunks (gs : List Group) :
    hunksLines (gs.map groupHunk) = blameLines gs := by
  induction gs with
  | nil => rfl
  | cons g gs ih => simp [hunksLines, blameLines, hunkLines_groupHunk, ih]

theorem hunksLines_append (a b : List Hunk) :
    hunksLines (a ++ b) = hunksLines a ++ hunksLines b := by
  induction a with
  | nil => rfl
  | cons h a ih => simp [hunksLines, ih]

theorem linesFrom_append (c p a : Str) (b : Bool) (m n : Nat) : ∀ f o : Nat,
    linesFrom c p a b f o (m + n) = linesFrom c p a b f o m ++ linesFrom c p a b (f + m) (o + m) n := by
  induction m with
  | zero => intro f o; simp [linesFrom]
  | succ k ih =>
    intro f o
    rw [Nat.succ_add, linesFrom, linesFrom, ih (f + 1) (o + 1)]
    simp [Nat.add_assoc, Nat.add_comm 1 k]

theorem linesFrom_length (c p a : Str) (b : Bool) (n : Nat) : ∀ f o : Nat,
    (linesFrom c p a b f o n).length = n := by
  induction n with
  | zero => intro f o; rfl
  | succ k ih => intro f o; simp [linesFrom, ih]

theorem runLens_facts {α : Type} [DecidableEq α] (l : List α) :
    (runLens l).sum = l.length ∧ (∀ n ∈ runLens l, 0 < n) ∧ (l ≠ [] → runLens l ≠ []) := by
  induction l with
  | nil => simp [runLens]
  | cons a t ih =>
    cases t with
    | nil => simp [runLens]
    | cons b t =>
      obtain ⟨hs, hp, hn⟩ := ih
      have hne := hn (by simp)
      rw [runLens]
      cases hr : runLens (b :: t) with
      | nil => exact absurd hr hne
      | cons n ns =>
        rw [hr] at hs hp
        simp only [List.sum_cons, List.length_cons] at hs
        simp only
        split
        · refine ⟨by simp only [List.sum_cons, List.length_cons]; omega, ?_, by simp⟩
          intro x hx
          simp only [List.mem_cons] at hx
          rcases hx with rfl | hx
          · omega
          · exact hp x (by simp [hx])
        · refine ⟨by simp only [List.sum_cons, List.length_cons]; omega, ?_, by simp⟩
          intro x hx
          simp only [List.mem_cons] at hx
          rcases hx with rfl | rfl | hx
          · omega
          · exact hp x (by simp)
          · exact hp x (by simp [hx])

theorem subHunks_lines (h : Hunk) (lens : List Nat) : ∀ off : Nat, lens ≠ [] →
    (∀ n ∈ lens, 0 < n) → off + lens.sum = h.stop - h.start + 1 →
    hunksLines (subHunks h off lens) =
      linesFrom h.commit h.origPath h.author h.boundary (h.start + off) (h.origStart + off)
        lens.sum := by
  induction lens with
  | nil => intro off hne; exact absurd rfl hne
  | cons n rest ih =>
    intro off _ hpos hsum
    have hn : 0 < n := hpos n (by simp)
    cases rest with
    | nil =>
      simp only [List.sum_cons, List.sum_nil, Nat.add_zero] at hsum ⊢
      simp only [subHunks, hunksLines, hunkLines, List.append_nil]
      have : h.stop - (h.start + off) + 1 = n := by omega
      rw [this]
    | cons m ns =>
      have ih' := ih (off + n) (by simp) (fun x hx => hpos x (by simp [hx]))
        (by simp only [List.sum_cons] at hsum ⊢; omega)
      rw [subHunks, hunksLines, ih']
      simp only [hunkLines]
      have e1 : h.start + (off + n) - 1 - (h.start + off) + 1 = n := by omega
      rw [e1]
      have e2 : (n :: m :: ns).sum = n + (m :: ns).sum := by simp
      rw [e2, linesFrom_append]
      simp [Nat.add_assoc]

theorem splitHunk_lines (notes : List (Str × Note)) (foreign : List (Str × Prompt))
    (blamed : Str) (h : Hunk) :
    hunksLines (splitHunk notes foreign blamed h) = hunkLines h := by
  unfold splitHunk
  split
  · simp [hunksLines]
  · have hl : (List.map (humanAuthorOf notes foreign blamed) (hunkLines h)).length =
        h.stop - h.start + 1 := by
      simp [hunkLines, linesFrom_length]
    obtain ⟨hs, hp, hn⟩ := runLens_facts (List.map (humanAuthorOf notes foreign blamed) (hunkLines h))
    have hne : List.map (humanAuthorOf notes foreign blamed) (hunkLines h) ≠ [] := by
      intro e
      rw [e] at hl
      simp at hl
    rw [subHunks_lines h _ 0 (hn hne) hp (by omega), hs, hl]
    simp [hunkLines]

/-- splitting hunks by AI-human author changes hunk boundaries only: the lines are the same -/
theorem splitHunks_lines (o : Opts) (notes : List (Str × Note)) (foreign : List (Str × Prompt))
    (blamed : Str) (hs : List Hunk) :
    hunksLines (splitHunks o notes foreign blamed hs) = hunksLines hs := by
  induction hs with
  | nil => rfl
  | cons h hs ih =>
    rw [splitHunks, hunksLines_append, ih]
    split
    · rw [splitHunk_lines]; rfl
    · simp [hunksLines]

/-! ### `get_line_attribution` characterised -/

/-- entry `e` would be picked for `line`: it covers the line and its hash resolves -/
def Picks (n : Note) (foreign : List (Str × Prompt)) (line : Nat) (e : Entry) : Prop :=
  covers e line = true ∧ (resolve n foreign e.hash).isSome = true

theorem firstCredit_iff (n : Note) (foreign : List (Str × Prompt)) (line : Nat) (S : Str)
    (p : Prompt) (rs : List Entry) :
    firstCredit n foreign line rs = some (S, p) ↔
      ∃ r1 e r2, rs = r1 ++ e :: r2 ∧ (∀ e' ∈ r1, ¬ Picks n foreign line e') ∧
        covers e line = true ∧ e.hash = S ∧ resolve n foreign S = some p := by
  induction rs with
  | nil => simp [firstCredit]
  | cons x xs ih =>
    constructor
    · intro h
      rw [firstCredit] at h
      split at h
      · rename_i hc
        split at h
        · rename_i p' hp'
          simp only [Option.some.injEq, Prod.mk.injEq] at h
          obtain ⟨rfl, rfl⟩ := h
          exact ⟨[], x, xs, rfl, by simp, hc, rfl, hp'⟩
        · rename_i hnone
          obtain ⟨r1, e, r2, he, hr1, hce, hS, hp⟩ := ih.1 h
          refine ⟨x :: r1, e, r2, by simp [he], ?_, hce, hS, hp⟩
          intro e' he'
          simp only [List.mem_cons] at he'
          rcases he' with rfl | he'
          · intro hpk; exact absurd hpk.2 (by simp [hnone])
          · exact hr1 e' he'
      · rename_i hc
        obtain ⟨r1, e, r2, he, hr1, hce, hS, hp⟩ := ih.1 h
        refine ⟨x :: r1, e, r2, by simp [he], ?_, hce, hS, hp⟩
        intro e' he'
        simp only [List.mem_cons] at he'
        rcases he' with rfl | he'
        · intro hpk; exact hc hpk.1
        · exact hr1 e' he'
    · rintro ⟨r1, e, r2, he, hr1, hce, hS, hp⟩
      cases r1 with
      | nil =>
        simp only [List.nil_append, List.cons.injEq] at he
        obtain ⟨rfl, rfl⟩ := he
        rw [firstCredit, if_pos hce, hS, hp]
      | cons y r1' =>
        simp only [List.cons_append, List.cons.injEq] at he
        obtain ⟨rfl, rfl⟩ := he
        have hy : ¬ Picks n foreign line x := hr1 x (by simp)
        have hrec := ih.2 ⟨r1', e, r2, rfl, fun e' he' => hr1 e' (by simp [he']), hce, hS, hp⟩
        rw [firstCredit]
        split
        · rename_i hc
          split
          · rename_i p' hp'
            exact absurd ⟨hc, by simp [hp']⟩ hy
          · exact hrec
        · exact hrec

/-- **Specification of the note lookup.** The note credits `line` of `file` to session `S`
    (prompt record `p`): `S` is the hash of the last entry, in the section of `file`, that
    lists the line and resolves to a prompt record. -/
def Credits (n : Note) (foreign : List (Str × Prompt)) (file : Str) (line : Nat) (S : Str)
    (p : Prompt) : Prop :=
  ∃ fa es1 e es2, findFile file n.files = some fa ∧ fa.entries = es1 ++ e :: es2 ∧
    e.hash = S ∧ covers e line = true ∧ resolve n foreign S = some p ∧
    ∀ e' ∈ es2, ¬ Picks n foreign line e'

theorem attribution_iff (n : Note) (foreign : List (Str × Prompt)) (file : Str) (line : Nat)
    (S : Str) (p : Prompt) :
    attribution n foreign file line = some (S, p) ↔ Credits n foreign file line S p := by
  unfold attribution Credits
  cases hf : findFile file n.files with
  | none => simp
  | some fa =>
    simp only []
    rw [firstCredit_iff]
    constructor
    · rintro ⟨r1, e, r2, he, hr1, hce, hS, hp⟩
      refine ⟨fa, r2.reverse, e, r1.reverse, rfl, ?_, hS, hce, hp, ?_⟩
      · have := congrArg List.reverse he
        simpa using this
      · intro e' he'
        exact hr1 e' (by simpa using he')
    · rintro ⟨fa', es1, e, es2, hfa, he, hS, hce, hp, hr⟩
      simp only [Option.some.injEq] at hfa
      subst hfa
      refine ⟨es2.reverse, e, es1.reverse, ?_, ?_, hce, hS, hp⟩
      · rw [he]; simp
      · intro e' he'
        exact hr e' (by simpa using he')

theorem findFile_some (file : Str) (fs : List FileAtt) (fa : FileAtt)
    (h : findFile file fs = some fa) : fa ∈ fs ∧ fa.path = file := by
  induction fs with
  | nil => simp [findFile] at h
  | cons f fs ih =>
    rw [findFile] at h
    split at h
    · rename_i hp
      simp only [Option.some.injEq] at h
      subst h
      exact ⟨by simp, hp⟩
    · obtain ⟨h1, h2⟩ := ih h
      exact ⟨by simp [h1], h2⟩

/-! ### `line_authors` look-ups and the format reductions -/

theorem lookupLast_none (k : Nat) (l : List (Nat × Str)) (h : k ∉ l.map (·.1)) :
    lookupLast k l = none := by
  induction l with
  | nil => rfl
  | cons x xs ih =>
    obtain ⟨k', v⟩ := x
    simp only [List.map_cons, List.mem_cons, not_or] at h
    rw [lookupLast, ih h.2]
    simp only
    rw [if_neg (fun e => h.1 e.symm)]

theorem lookupLast_map (f : BlameLine → Str) (l : List BlameLine)
    (hnd : (l.map (·.final)).Nodup) (bl : BlameLine) (h : bl ∈ l) :
    lookupLast bl.final (l.map (fun x => (x.final, f x))) = some (f bl) := by
  induction l with
  | nil => simp at h
  | cons x xs ih =>
    simp only [List.map_cons, List.nodup_cons] at hnd
    simp only [List.mem_cons] at h
    rw [List.map_cons, lookupLast]
    rcases h with rfl | h
    · have : bl.final ∉ (xs.map (fun x => (x.final, f x))).map (·.1) := by
        simpa [List.map_map] using hnd.1
      rw [lookupLast_none _ _ this]
      simp
    · rw [ih hnd.2 h]

theorem linesFrom_finals (c p a : Str) (b : Bool) (n : Nat) : ∀ f o : Nat,
    (linesFrom c p a b f o n).map (·.final) = List.range' f n := by
  induction n with
  | zero => intro f o; rfl
  | succ k ih => intro f o; simp [linesFrom, ih, List.range'_succ]

/-- blame entries in increasing, non-overlapping final-line order (git prints them so) -/
def Ascending : List Group → Prop
  | [] => True
  | g :: gs => (∀ g' ∈ gs, g.finalStart + g.count ≤ g'.finalStart) ∧ Ascending gs

theorem mem_blameLines_final (gs : List Group) (x : BlameLine) (h : x ∈ blameLines gs) :
    ∃ g ∈ gs, g.finalStart ≤ x.final ∧ x.final < g.finalStart + g.count := by
  induction gs with
  | nil => simp [blameLines] at h
  | cons g gs ih =>
    simp only [blameLines, List.mem_append] at h
    rcases h with h | h
    · have : x.final ∈ (groupBlameLines g).map (·.final) := List.mem_map_of_mem h
      rw [groupBlameLines, linesFrom_finals, List.mem_range'_1] at this
      exact ⟨g, by simp, this.1, this.2⟩
    · obtain ⟨g', hg', h1, h2⟩ := ih h
      exact ⟨g', by simp [hg'], h1, h2⟩

theorem mem_linesFrom_path (c p a : Str) (b : Bool) (n : Nat) (x : BlameLine) : ∀ f o : Nat,
    x ∈ linesFrom c p a b f o n → x.origPath = p := by
  induction n with
  | zero => intro f o h; simp [linesFrom] at h
  | succ k ih =>
    intro f o h
    simp only [linesFrom, List.mem_cons] at h
    rcases h with rfl | h
    · rfl
    · exact ih _ _ h

theorem mem_blameLines_group (gs : List Group) (x : BlameLine) (h : x ∈ blameLines gs) :
    ∃ g ∈ gs, x ∈ groupBlameLines g := by
  induction gs with
  | nil => simp [blameLines] at h
  | cons g gs ih =>
    simp only [blameLines, List.mem_append] at h
    rcases h with h | h
    · exact ⟨g, by simp, h⟩
    · obtain ⟨g', hg', h'⟩ := ih h
      exact ⟨g', by simp [hg'], h'⟩

theorem finals_nodup (gs : List Group) (h : Ascending gs) :
    ((blameLines gs).map (·.final)).Nodup := by
  induction gs with
  | nil => simp [blameLines]
  | cons g gs ih =>
    obtain ⟨h1, h2⟩ := h
    rw [blameLines, List.map_append, List.nodup_append]
    refine ⟨?_, ih h2, ?_⟩
    · rw [groupBlameLines, linesFrom_finals]
      exact List.nodup_range'
    · intro a ha b hb
      rw [groupBlameLines, linesFrom_finals, List.mem_range'_1] at ha
      obtain ⟨y, hy, rfl⟩ := List.mem_map.1 hb
      obtain ⟨g', hg', h3, _⟩ := mem_blameLines_final gs y hy
      have := h1 g' hg'
      omega

theorem jsonRuns_facts (l : List (Nat × Str)) :
    (∀ r ∈ jsonRuns l, r.1 ≤ r.2.1) ∧ expandRuns (jsonRuns l) = l := by
  induction l with
  | nil => simp [jsonRuns, expandRuns]
  | cons x rest ih =>
    obtain ⟨a, h⟩ := x
    obtain ⟨ih1, ih2⟩ := ih
    rw [jsonRuns]
    cases hr : jsonRuns rest with
    | nil =>
      rw [hr] at ih2
      simp only [expandRuns] at ih2
      subst ih2
      simp [expandRuns, List.range'_succ]
    | cons r more =>
      obtain ⟨s, e, h'⟩ := r
      rw [hr] at ih1 ih2
      have hse : s ≤ e := ih1 (s, e, h') (by simp)
      simp only
      split
      · rename_i hc
        obtain ⟨rfl, rfl⟩ := hc
        refine ⟨?_, ?_⟩
        · intro r hr'
          simp only [List.mem_cons] at hr'
          rcases hr' with rfl | hr'
          · simp only; omega
          · exact ih1 r (by simp [hr'])
        · rw [← ih2]
          simp only [expandRuns]
          have : e + 1 - a = (e + 1 - (a + 1)) + 1 := by omega
          rw [this, List.range'_succ]
          simp
      · refine ⟨?_, ?_⟩
        · intro r hr'
          simp only [List.mem_cons] at hr'
          rcases hr' with rfl | rfl | hr'
          · simp
          · exact hse
          · exact ih1 r (by simp [hr'])
        · rw [← ih2]
          simp [expandRuns, List.range'_succ]

theorem jsonKey_parse (s e : Nat) (hs : s < 4294967296) (he : e < 4294967296) :
    parsePart (jsonKey s e) = .ok (if s = e then .single s else .range s e) := by
  unfold jsonKey
  split
  · exact parsePart_fmtRange (.single s) (by simp [rangeOk, hs])
  · exact parsePart_fmtRange (.range s e) (by simp [rangeOk, hs, he])

theorem expandIncremental_rows (hs : List Hunk) :
    expandIncremental (incrementalRows hs) = porcelainRows hs := by
  induction hs with
  | nil => rfl
  | cons h hs ih =>
    simp only [incrementalRows, List.map_cons, expandIncremental, porcelainRows, hunksLines,
      List.map_append] at ih ⊢
    rw [ih]
    congr 1
    unfold hunkLines
    generalize h.stop - h.start + 1 = n
    generalize h.start = f
    generalize h.origStart = o
    induction n generalizing f o with
    | zero => rfl
    | succ k ihk =>
      simp only [linesFrom, List.range'_succ, List.map_cons]
      rw [ihk]

end GitAi.BlameOverlay
