/-
  Lemmas/BlameRange.lean — `git-ai blame -L <arg>` reads the numeric forms the way git does.
-/
import GitAiModel.Model.BlameRange
import GitAiModel.Lemmas.Text
import GitAiModel.Lemmas.Digits
import GitAiModel.Base.Chars
namespace GitAi.BlameRange
open GitAi

theorem natToStr_head_not (n : Nat) (c : Char) (hc : ∀ d : Fin 10, digitChar d.val ≠ c) (t : Str) :
    natToStr n ≠ c :: t := by
  intro h
  have : c ∈ natToStr n := by rw [h]; simp
  exact natToStr_not_mem n c hc this

theorem plus_not_digit : ∀ d : Fin 10, digitChar d.val ≠ '+' := by decide
theorem minus_not_digit : ∀ d : Fin 10, digitChar d.val ≠ '-' := by decide

theorem isEmpty_natToStr (n : Nat) : (natToStr n).isEmpty = false := by
  cases h : natToStr n with
  | nil => exact absurd h (natToStr_ne_nil n)
  | cons c cs => rfl

theorem resolve_one (total s e : Nat) (h1 : 1 ≤ s) (h2 : s ≤ e) (h3 : e ≤ total) (he : e ≠ openEnd) :
    resolveRanges total [(s, e)] = some [(s, e)] := by
  simp [resolveRanges, rangeBad, he]
  omega

theorem resolve_open (total s : Nat) (h1 : 1 ≤ s) (h2 : s ≤ total) :
    resolveRanges total [(s, openEnd)] = some [(s, total)] := by
  simp [resolveRanges, rangeBad]
  omega

/-- closed form `a,b` -/
theorem parse_closed (a b : Nat) (ha : a < 4294967296) (hb : b < 4294967296) :
    parseLineRange (natToStr a ++ ',' :: natToStr b) = some (a, b) := by
  unfold parseLineRange
  rw [splitFirst_append _ _ _ (natToStr_no_comma a)]
  simp only [isEmpty_natToStr, Bool.false_eq_true, if_false]
  cases hb' : natToStr b with
  | nil => exact absurd hb' (natToStr_ne_nil b)
  | cons c cs =>
    have hp : c ≠ '+' := by
      intro hc; subst hc; exact natToStr_head_not b '+' plus_not_digit cs hb'
    have hm : c ≠ '-' := by
      intro hc; subst hc; exact natToStr_head_not b '-' minus_not_digit cs hb'
    rw [← hb']
    have : (match natToStr b with
        | '+' :: cnt => (match startCount (natToStr a) cnt with
            | some (st, n) => if st + (n - 1) < 4294967296 then some (st, st + (n - 1)) else none
            | none => none)
        | '-' :: cnt => (match startCount (natToStr a) cnt with
            | some (st, n) => some (max (st - (n - 1)) 1, st)
            | none => none)
        | _ => (match parseU32 (natToStr a), parseU32 (natToStr b) with
            | some st, some e => some (st, e)
            | _, _ => none)) = some (a, b) := by
      rw [hb']
      split
      · rename_i heq; simp only [List.cons.injEq] at heq; exact absurd heq.1 hp
      · rename_i heq; simp only [List.cons.injEq] at heq; exact absurd heq.1 hm
      · rw [← hb', parseU32_natToStr a ha, parseU32_natToStr b hb]
    exact this

theorem parse_plus (a n : Nat) (ha : a < 4294967296) (hn : n < 4294967296) (hpos : 0 < n)
    (hfit : a + (n - 1) < 4294967296) :
    parseLineRange (natToStr a ++ ',' :: '+' :: natToStr n) = some (a, a + (n - 1)) := by
  unfold parseLineRange
  rw [splitFirst_append _ _ _ (natToStr_no_comma a)]
  have hn0 : n ≠ 0 := by omega
  simp [isEmpty_natToStr, startCount, parseU32_natToStr a ha, parseU32_natToStr n hn, hn0, hfit]

theorem parse_minus (a n : Nat) (ha : a < 4294967296) (hn : n < 4294967296) (hpos : 0 < n) :
    parseLineRange (natToStr a ++ ',' :: '-' :: natToStr n) = some (max (a - (n - 1)) 1, a) := by
  unfold parseLineRange
  rw [splitFirst_append _ _ _ (natToStr_no_comma a)]
  have hn0 : n ≠ 0 := by omega
  simp [isEmpty_natToStr, startCount, parseU32_natToStr a ha, parseU32_natToStr n hn, hn0]

theorem parse_open_end (a : Nat) (ha : a < 4294967296) :
    parseLineRange (natToStr a ++ [',']) = some (a, openEnd) := by
  unfold parseLineRange
  rw [splitFirst_append _ _ _ (natToStr_no_comma a)]
  simp [parseU32_natToStr a ha]

theorem parse_open_start (b : Nat) (hb : b < 4294967296) :
    parseLineRange (',' :: natToStr b) = some (1, b) := by
  unfold parseLineRange
  have : splitFirst ',' (',' :: natToStr b) = some ([], natToStr b) := by simp [splitFirst]
  rw [this]
  simp [isEmpty_natToStr, parseU32_natToStr b hb]

theorem parse_single (a : Nat) (ha : a < 4294967296) :
    parseLineRange (natToStr a) = some (a, openEnd) := by
  unfold parseLineRange
  rw [splitFirst_none _ _ (natToStr_no_comma a)]
  simp [parseU32_natToStr a ha]

end GitAi.BlameRange
