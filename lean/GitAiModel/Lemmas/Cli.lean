/-
  Lemmas/Cli.lean — helper lemmas about the parser model (C18): the first-pass scan, the
  reconstruction, and the agreement of the extracted tables with git's own grammar.
-/
import GitAiModel.Model.Cli
import GitAiModel.Model.GitRef
namespace GitAi.Cli
open GitAi CliTables

/-! ### small string facts -/

theorem startsWithDash_iff (t : Str) : startsWithDash t = true ↔ ∃ r, t = '-' :: r := by
  unfold startsWithDash
  split
  · simp
  · rename_i h
    constructor
    · intro hh; cases hh
    · rintro ⟨r, rfl⟩; exact absurd rfl (h r)

theorem dropPrefix?_eq_some {p s r : Str} (h : dropPrefix? p s = some r) : s = p ++ r := by
  induction p generalizing s with
  | nil => simp [dropPrefix?] at h; simp [h]
  | cons a p ih =>
    cases s with
    | nil => simp [dropPrefix?] at h
    | cons c cs =>
      simp only [dropPrefix?] at h
      split at h
      · rename_i hac; subst hac; simp [ih h]
      · cases h

theorem dropPrefix?_append (p r : Str) : dropPrefix? p (p ++ r) = some r := by
  induction p with
  | nil => simp [dropPrefix?]
  | cons a p ih => simp [dropPrefix?, ih]

theorem startsWith_iff (p s : Str) : startsWith p s = true ↔ ∃ r, s = p ++ r := by
  induction p generalizing s with
  | nil => simp [startsWith]
  | cons a p ih =>
    cases s with
    | nil => simp [startsWith]
    | cons c cs =>
      simp only [startsWith]
      split
      · rename_i hac; subst hac; simp [ih]
      · rename_i hac
        constructor
        · intro h; cases h
        · rintro ⟨r, h⟩
          simp only [List.cons_append, List.cons.injEq] at h
          exact absurd h.1.symm hac

/-! ### take_valueish -/

theorem takesNext_false (t k : Str) : takesNext t k false = false := by
  simp [takesNext]

/-- with a next token present, the answer does not depend on what follows -/
theorem takesNext_hasNext (t k : Str) (b : Bool) :
    takesNext t k b = (b && takesNext t k true) := by
  cases b
  · simp [takesNext_false]
  · simp

/-! ### the first-pass scan -/

theorem scan_not_panicked (a g m : List Str) : (scan a g m).panicked = false := by
  fun_induction scan a g m <;> simp_all [takesNext_false]

theorem scan_pmeta_prefix (a g m : List Str) : ∃ m', (scan a g m).pmeta = m ++ m' := by
  fun_induction scan a g m
  case case1 => exact ⟨[], (List.append_nil _).symm⟩
  case case2 => exact ⟨[], (List.append_nil _).symm⟩
  case case3 ih => exact ih
  case case4 ih => exact ih
  case case5 => exact ⟨[], (List.append_nil _).symm⟩
  case case6 ih => exact ih
  case case7 tok _ _ _ _ _ ih =>
    obtain ⟨m', h⟩ := ih
    exact ⟨tok :: m', by rw [h]; simp⟩
  case case8 => exact ⟨[], (List.append_nil _).symm⟩

/-- every buffered meta token was classified as meta -/
theorem scan_pmeta_mem (a g m : List Str) :
    ∀ t ∈ (scan a g m).pmeta, t ∈ m ∨ (t ∈ a ∧ classify t = .metaNoValue) := by
  fun_induction scan a g m
  case case1 => intro t ht; exact Or.inl ht
  case case2 => intro t ht; exact Or.inl ht
  case case3 ih =>
    intro t ht
    rcases ih t ht with h | ⟨h1, h2⟩
    · exact Or.inl h
    · exact Or.inr ⟨List.mem_cons_of_mem _ h1, h2⟩
  case case4 ih =>
    intro t ht
    rcases ih t ht with h | ⟨h1, h2⟩
    · exact Or.inl h
    · exact Or.inr ⟨List.mem_cons_of_mem _ (List.mem_cons_of_mem _ h1), h2⟩
  case case5 => intro t ht; exact Or.inl ht
  case case6 ih =>
    intro t ht
    rcases ih t ht with h | ⟨h1, h2⟩
    · exact Or.inl h
    · exact Or.inr ⟨List.mem_cons_of_mem _ h1, h2⟩
  case case7 tok _ _ _ _ hk ih =>
    intro t ht
    rcases ih t ht with h | ⟨h1, h2⟩
    · rcases List.mem_append.1 h with h | h
      · exact Or.inl h
      · simp only [List.mem_singleton] at h
        subst h
        exact Or.inr ⟨List.mem_cons_self, hk⟩
    · exact Or.inr ⟨List.mem_cons_of_mem _ h1, h2⟩
  case case8 => intro t ht; exact Or.inl ht

/-- Invariant of the loop when no meta token has been buffered: globals ++ [--]? ++ rest is
    the input, untouched and in order. -/
theorem scan_spec (a g m : List Str) (h : (scan a g m).pmeta = m) :
    (scan a g m).globals ++ (if (scan a g m).sawEoo then [dashDash] else []) ++ (scan a g m).rest
      = g ++ a := by
  fun_induction scan a g m
  case case1 => simp
  case case2 => simp_all
  case case3 ih => rw [ih h]; simp
  case case4 ih => rw [ih h]; simp
  case case5 hn => simp [takesNext_false] at hn
  case case6 ih => rw [ih h]; simp
  case case7 tok rest g m _ _ ih =>
    -- a meta token was buffered: contradicts `pmeta = m`
    obtain ⟨m', hm'⟩ := scan_pmeta_prefix rest g (m ++ [tok])
    rw [hm'] at h
    have := congrArg List.length h
    simp at this
  case case8 => simp

theorem decideCommand_spec (e : Bool) (r : List Str) :
    (decideCommand e r).1.toList ++ (decideCommand e r).2 = r := by
  unfold decideCommand
  split
  · rfl
  · split
    · rfl
    · split <;> rfl

theorem rewrite_nil (cmd : Option Str) (cargs : List Str) : rewrite [] cmd cargs = (cmd, cargs) := by
  unfold rewrite
  cases cmd <;> simp

/-! ### identity of the reconstruction when no meta token was buffered -/

theorem toVec_parse_of_no_meta (a : List Str) (h : preMeta a = []) : toVec (parse a) = a := by
  have hs := scan_spec a [] [] h
  unfold preMeta at h
  have hd := decideCommand_spec (scan a [] []).sawEoo (scan a [] []).rest
  simp only [List.nil_append] at hs
  unfold parse toVec
  simp only [h, rewrite_nil, List.nil_append]
  generalize decideCommand (scan a [] []).sawEoo (scan a [] []).rest = dc at hd ⊢
  obtain ⟨cmd, rest⟩ := dc
  cases cmd with
  | none =>
    simp only [Option.toList, List.nil_append] at hd
    simp only [Option.toList, List.append_nil, hd]
    exact hs
  | some c =>
    simp only at hd ⊢
    rw [List.append_assoc, hd]
    exact hs

/-! ### a prefix consumed entirely as global options -/

/-- `P` is consumed by the first pass as global options only (no meta, no `--`, no unknown
    token), whatever follows it. -/
def consumes : List Str → Bool
  | [] => true
  | t :: rest =>
    if t = dashDash then false
    else match classify t with
      | .globalNoValue => consumes rest
      | .globalTakesValue =>
        if takesNext t (keyOf t) true then
          match rest with
          | _ :: rest' => consumes rest'
          | [] => false
        else consumes rest
      | _ => false

theorem scan_cons (tok : Str) (rest g m : List Str) :
    scan (tok :: rest) g m =
      if tok = dashDash then ⟨g, m, true, rest, false⟩
      else match classify tok with
        | .globalNoValue => scan rest (g ++ [tok]) m
        | .globalTakesValue =>
          if takesNext tok (keyOf tok) (!rest.isEmpty) then
            match rest with
            | v :: rest' => scan rest' (g ++ [tok, v]) m
            | [] => ⟨g, m, false, [], true⟩
          else scan rest (g ++ [tok]) m
        | .metaNoValue => scan rest g (m ++ [tok])
        | .unknown => ⟨g, m, false, tok :: rest, false⟩ := by
  conv => lhs; rw [scan.eq_def]
  rfl

theorem scan_of_consumes (P a g m : List Str) (h : consumes P = true) :
    scan (P ++ a) g m = scan a (g ++ P) m := by
  fun_induction consumes P generalizing g
  case case1 => simp
  case case2 => simp at h
  case case3 ih =>
    rename_i t rest hne hk
    rw [List.cons_append, scan_cons]
    simp only [hne, if_false, hk]
    rw [ih _ h]; simp
  case case4 ih =>
    rename_i t hne hk htn v rest'
    rw [List.cons_append, List.cons_append, scan_cons]
    simp only [hne, if_false, hk, List.isEmpty_cons, Bool.not_false, htn, if_true]
    rw [ih _ h]; simp
  case case5 => simp at h
  case case6 ih =>
    rename_i t rest hne hk htn
    rw [List.cons_append, scan_cons]
    have : takesNext t (keyOf t) (!(rest ++ a).isEmpty) = false := by
      rw [takesNext_hasNext]; simp [htn]
    simp only [hne, if_false, hk, this]
    rw [ih _ h]; simp
  case case7 => simp at h

end GitAi.Cli
