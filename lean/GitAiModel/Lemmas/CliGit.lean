/-
  Lemmas/CliGit.lean — agreement of git-ai's extracted option tables with git's own grammar
  (GitRef.gitStep): token by token, then for the whole first pass (C18 command position and
  normalisation).  The `decide` / `rfl` instances below are re-checked against the freshly
  extracted tables on every run.
-/
import GitAiModel.Lemmas.Cli
import GitAiModel.Base.Chars
namespace GitAi.Cli
open GitAi CliTables GitRef

/-! ### words are never options -/

def ruleDashOnly : Rule → Bool
  | .exact toks _ => toks.all startsWithDash
  | .eqLong l _ => startsWithDash l
  | .pref p _ => startsWithDash p
  | .dash _ => true

theorem dash_of_prefix {p s : Str} (hp : startsWithDash p = true) (h : ∃ r, s = p ++ r) :
    startsWithDash s = true := by
  obtain ⟨r, rfl⟩ := h
  obtain ⟨q, rfl⟩ := (startsWithDash_iff p).1 hp
  rfl

theorem ruleMatch_none_of_not_dash (r : Rule) (h : ruleDashOnly r = true) (t : Str)
    (ht : startsWithDash t = false) : ruleMatch t r = none := by
  cases r with
  | exact toks k =>
    simp only [ruleMatch]
    split
    · rename_i hc
      simp only [ruleDashOnly, List.all_eq_true] at h
      have hm : t ∈ toks := by simpa using hc
      rw [h t hm] at ht; cases ht
    · rfl
  | eqLong l k =>
    simp only [ruleMatch]
    split
    · rename_i hc
      simp only [ruleDashOnly] at h
      rcases hc with rfl | hc
      · rw [h] at ht; cases ht
      · unfold isEqForm at hc
        split at hc
        · rename_i heq
          have := dash_of_prefix h ⟨_, dropPrefix?_eq_some heq⟩
          rw [this] at ht; cases ht
        · cases hc
    · rfl
  | pref p k =>
    simp only [ruleMatch]
    split
    · rename_i hc
      simp only [ruleDashOnly] at h
      rcases hc with rfl | hc
      · rw [h] at ht; cases ht
      · have := dash_of_prefix h ((startsWith_iff _ _).1 hc)
        rw [this] at ht; cases ht
    · rfl
  | dash k => simp [ruleMatch, ht]

theorem classifyWith_of_not_dash (d : Kind) (rules : List Rule)
    (h : rules.all ruleDashOnly = true) (t : Str) (ht : startsWithDash t = false) :
    classifyWith d rules t = d := by
  induction rules with
  | nil => rfl
  | cons r rs ih =>
    simp only [List.all_cons, Bool.and_eq_true] at h
    simp only [classifyWith, ruleMatch_none_of_not_dash r h.1 t ht]
    exact ih h.2

/-- table instance: every option the table knows starts with a dash, and the fall-through
    of `classify` is `Unknown`. -/
theorem tables_dash_only : classifyRules.all ruleDashOnly = true ∧ classifyDefault = .unknown := by
  decide

/-- a token that does not start with `-` is never classified as an option -/
theorem classify_of_not_dash (t : Str) (ht : startsWithDash t = false) : classify t = .unknown := by
  unfold classify
  rw [classifyWith_of_not_dash _ _ tables_dash_only.1 t ht]
  exact tables_dash_only.2

/-! ### table instances against git's grammar (git 2.39 git.c) -/

def shallowFile : Str := chars% "--shallow-file"

/-- options git accepts that the table does not know (`--shallow-file`) or does not accept in
    that spelling (an attached form with an empty value): git-ai then reports no command. -/
def gitOnly : List Str :=
  [shallowFile, chars% "--git-dir=", chars% "--namespace=", chars% "--work-tree=",
   chars% "--super-prefix=", chars% "--config-env=", chars% "--exec-path="]

theorem tbl_no_value : ∀ t ∈ gitNoValue, classify t = .globalNoValue ∧ t ≠ dashDash := by decide

theorem tbl_detached : ∀ t ∈ gitDetached, t ≠ shallowFile →
    classify t = .globalTakesValue ∧ takesNext t (keyOf t) true = true ∧ t ≠ dashDash := by decide

theorem tbl_git_only : ∀ t ∈ gitOnly,
    classify t = .unknown ∧ startsWithDash t = true ∧ t ≠ dashDash := by decide

theorem tbl_help_version : ∀ t ∈ helpTokens ++ versionTokens,
    classify t = .metaNoValue ∧ t ≠ dashDash ∧ gitStep t = .stopHelpVersion := by decide

theorem tbl_help_version_disjoint : ∀ t ∈ versionTokens, isHelpTok t = false := by decide

theorem tbl_help_git : (∀ t ∈ helpTokens, GitRef.versionToks.contains t = false) ∧
    (∀ t ∈ versionTokens, GitRef.versionToks.contains t = true) := by decide

theorem tbl_dashDash : classify dashDash = .unknown := by decide

/-- `--opt=value` with a non-empty value, for every attached form git accepts: classified as
    value-taking and consumed alone. -/
theorem tbl_attached (x : Char) (xs : Str) :
    ∀ p ∈ gitAttached ++ [chars% "--exec-path="],
      classify (p ++ x :: xs) = .globalTakesValue ∧
      takesNext (p ++ x :: xs) (keyOf (p ++ x :: xs)) true = false ∧ p ++ x :: xs ≠ dashDash := by
  intro p hp
  simp only [gitAttached, List.cons_append, List.nil_append, List.mem_cons, List.not_mem_nil,
    or_false] at hp
  rcases hp with rfl | rfl | rfl | rfl | rfl | rfl <;>
    exact ⟨rfl, rfl, by intro h; cases h⟩

/-! ### token by token -/

theorem agree_stopWord (t : Str) (h : gitStep t = .stopWord) :
    startsWithDash t = false ∧ classify t = .unknown ∧ t ≠ dashDash := by
  have hd : startsWithDash t = false := by
    unfold gitStep at h
    split at h
    · simpa using ‹(!startsWithDash t) = true›
    · repeat' split at h
      all_goals cases h
  refine ⟨hd, classify_of_not_dash t hd, ?_⟩
  rintro rfl
  cases hd

theorem agree_take2 (t : Str) (h : gitStep t = .take2) :
    (classify t = .globalTakesValue ∧ takesNext t (keyOf t) true = true ∧ t ≠ dashDash) ∨
    (t ∈ gitOnly) := by
  have hm : t ∈ gitDetached := by
    unfold gitStep at h
    repeat' split at h
    all_goals first | cases h | skip
    rename_i hc
    simpa using hc
  by_cases hs : t = shallowFile
  · right; subst hs; decide
  · left; exact tbl_detached t hm hs

theorem agree_take1 (t : Str) (h : gitStep t = .take1) :
    (classify t = .globalNoValue ∧ t ≠ dashDash) ∨
    (classify t = .globalTakesValue ∧ takesNext t (keyOf t) true = false ∧ t ≠ dashDash) ∨
    (t ∈ gitOnly) := by
  unfold gitStep at h
  split at h
  · cases h
  split at h
  · cases h
  split at h
  · -- --exec-path=…
    rename_i X heq
    have ht := dropPrefix?_eq_some heq
    cases X with
    | nil => right; right; subst ht; decide
    | cons x xs =>
      right; left
      have := tbl_attached x xs (chars% "--exec-path=") (by decide)
      subst ht
      exact this
  · cases h
  · split at h
    · cases h
    split at h
    · rename_i hc
      left
      exact tbl_no_value t (by simpa using hc)
    split at h
    · cases h
    split at h
    · rename_i hc
      simp only [List.any_eq_true] at hc
      obtain ⟨p, hp, hsw⟩ := hc
      obtain ⟨X, rfl⟩ := (startsWith_iff _ _).1 hsw
      cases X with
      | nil =>
        right; right
        simp only [List.append_nil]
        revert p
        decide
      | cons x xs =>
        right; left
        exact tbl_attached x xs p (List.mem_append_left _ hp)
    · split at h <;> cases h

/-! ### the whole first pass against git's `handle_options` -/

theorem gitScan_cons (tok : Str) (rest pre : List Str) :
    gitScan (tok :: rest) pre =
      match gitStep tok with
      | .stopWord => .command pre tok rest
      | .stopHelpVersion => .helpVersion pre tok rest
      | .take1 => gitScan rest (pre ++ [tok])
      | .take2 =>
        match rest with
        | v :: rest' => gitScan rest' (pre ++ [tok, v])
        | [] => .usage pre tok []
      | .queryExit => .exits pre tok rest
      | .usageErr => .usage pre tok rest := by
  conv => lhs; rw [gitScan.eq_def]
  rfl

/-- the first pass stopped at an option the table does not know, before any meta token -/
def StoppedAtDash (s : Scan) : Prop :=
  s.pmeta = [] ∧ s.sawEoo = false ∧ ∃ d r, s.rest = d :: r ∧ startsWithDash d = true

/-- When git's option scan ends at a command, git-ai's first pass has consumed exactly the
    same tokens and stands at the same word — or it stopped earlier at one of the `gitOnly`
    spellings (and will then report no command at all). -/
theorem scan_of_gitScan (a pre0 pre : List Str) (c : Str) (rest : List Str)
    (h : gitScan a pre0 = .command pre c rest) :
    (scan a pre0 [] = ⟨pre, [], false, c :: rest, false⟩ ∧ startsWithDash c = false) ∨
    (StoppedAtDash (scan a pre0 []) ∧ ∃ t ∈ a, t ∈ gitOnly) := by
  fun_induction gitScan a pre0
  case case1 => cases h
  case case2 tok rest0 pre1 hs =>
    -- a word: both stop here
    cases h
    obtain ⟨hd, hk, hne⟩ := agree_stopWord _ hs
    left
    refine ⟨?_, hd⟩
    rw [scan_cons]; simp [hne, hk]
  case case3 => cases h
  case case4 tok rest0 pre1 hs ih =>
    rcases agree_take1 tok hs with ⟨hk, hne⟩ | ⟨hk, htn, hne⟩ | hg
    · rcases ih h with hl | ⟨hr, t, ht, hg⟩
      · left; rw [scan_cons]; simp only [hne, if_false, hk]; exact hl
      · right
        refine ⟨?_, t, List.mem_cons_of_mem _ ht, hg⟩
        rw [scan_cons]; simp only [hne, if_false, hk]; exact hr
    · have htn' : takesNext tok (keyOf tok) (!rest0.isEmpty) = false := by
        rw [takesNext_hasNext]; simp [htn]
      rcases ih h with hl | ⟨hr, t, ht, hg⟩
      · left; rw [scan_cons]; simp only [hne, if_false, hk, htn']; exact hl
      · right
        refine ⟨?_, t, List.mem_cons_of_mem _ ht, hg⟩
        rw [scan_cons]; simp only [hne, if_false, hk, htn']; exact hr
    · right
      obtain ⟨hk, hd, hne⟩ := tbl_git_only tok hg
      refine ⟨?_, tok, List.mem_cons_self, hg⟩
      rw [scan_cons]; simp only [hne, if_false, hk]
      exact ⟨rfl, rfl, tok, rest0, rfl, hd⟩
  case case5 tok pre1 hs v rest' ih =>
    rcases agree_take2 tok hs with ⟨hk, htn, hne⟩ | hg
    · rcases ih h with hl | ⟨hr, t, ht, hg⟩
      · left
        rw [scan_cons]
        simp only [hne, if_false, hk, List.isEmpty_cons, Bool.not_false, htn, if_true]
        exact hl
      · right
        refine ⟨?_, t, List.mem_cons_of_mem _ (List.mem_cons_of_mem _ ht), hg⟩
        rw [scan_cons]
        simp only [hne, if_false, hk, List.isEmpty_cons, Bool.not_false, htn, if_true]
        exact hr
    · right
      obtain ⟨hk, hd, hne⟩ := tbl_git_only tok hg
      refine ⟨?_, tok, List.mem_cons_self, hg⟩
      rw [scan_cons]; simp only [hne, if_false, hk]
      exact ⟨rfl, rfl, tok, _, rfl, hd⟩
  case case6 => cases h
  case case7 => cases h
  case case8 => cases h

/-! ### prefixes both grammars consume -/

/-- git's `handle_options` consumes all of `P` (and nothing else of it is a stop token) -/
def gitConsumes : List Str → Bool
  | [] => true
  | t :: rest =>
    match gitStep t with
    | .take1 => gitConsumes rest
    | .take2 =>
      match rest with
      | _ :: rest' => gitConsumes rest'
      | [] => false
    | _ => false

theorem gitScan_of_gitConsumes (P a pre : List Str) (h : gitConsumes P = true) :
    gitScan (P ++ a) pre = gitScan a (pre ++ P) := by
  fun_induction gitConsumes P generalizing pre
  case case1 => simp
  case case2 ih =>
    rename_i t rest hs
    rw [List.cons_append, gitScan_cons, hs]
    simp only
    rw [ih _ h]; simp
  case case3 ih =>
    rename_i t hs v rest'
    rw [List.cons_append, List.cons_append, gitScan_cons, hs]
    simp only
    rw [ih _ h]; simp
  case case4 => simp at h
  case case5 => simp at h

theorem consumes_of_gitConsumes (P : List Str) (h : gitConsumes P = true)
    (hC : ∀ t ∈ P, t ∉ gitOnly) : consumes P = true := by
  fun_induction gitConsumes P
  case case1 => rfl
  case case2 ih =>
    rename_i t rest hs
    have hC' : ∀ t ∈ rest, t ∉ gitOnly := fun x hx => hC x (List.mem_cons_of_mem _ hx)
    rcases agree_take1 t hs with ⟨hk, hne⟩ | ⟨hk, htn, hne⟩ | hg
    · unfold consumes; simp only [hne, if_false, hk]; exact ih h hC'
    · unfold consumes; simp only [hne, if_false, hk, htn]; exact ih h hC'
    · exact absurd hg (hC t List.mem_cons_self)
  case case3 ih =>
    rename_i t hs v rest'
    have hC' : ∀ t ∈ rest', t ∉ gitOnly :=
      fun x hx => hC x (List.mem_cons_of_mem _ (List.mem_cons_of_mem _ hx))
    rcases agree_take2 t hs with ⟨hk, htn, hne⟩ | hg
    · unfold consumes; simp only [hne, if_false, hk, htn, if_true]; exact ih h hC'
    · exact absurd hg (hC t List.mem_cons_self)
  case case4 => simp at h
  case case5 => simp at h

/-! ### help / version conversion -/

/-- the word a help/version token is converted into -/
def normWord (t : Str) : Str := if isVersionTok t then versionWord else helpWord

/-- what may follow the help/version token for git-ai's rewrite to coincide with git's
    in-place conversion: nothing; or a token the table does not know (a word, or an unknown
    dash option) — after `--version` only dash tokens, after `--help` a word (then anything),
    or an unknown dash option with no further help/version token. -/
def tailOk (isVersion : Bool) : List Str → Bool
  | [] => true
  | d :: rest =>
    decide (classify d = .unknown) && decide (d ≠ dashDash) &&
    (if isVersion then (d :: rest).all startsWithDash
     else (!startsWithDash d || (d :: rest).all (fun r => !(isHelpTok r || isVersionTok r))))

theorem scan_meta_tail (P R : List Str) (t : Str) (v : Bool) (hP : consumes P = true)
    (ht : classify t = .metaNoValue ∧ t ≠ dashDash) (hR : tailOk v R = true) :
    scan (P ++ t :: R) [] [] = ⟨P, [t], false, R, false⟩ := by
  rw [scan_of_consumes P _ _ _ hP, scan_cons]
  simp only [ht.2, if_false, ht.1, List.nil_append]
  cases R with
  | nil => rfl
  | cons d rest =>
    simp only [tailOk, Bool.and_eq_true, decide_eq_true_eq] at hR
    rw [scan_cons]
    simp [hR.1.1, hR.1.2]

theorem filter_self_of_all {α} (p : α → Bool) (l : List α) (h : l.all p = true) : l.filter p = l := by
  rw [List.filter_eq_self]
  simpa using h

theorem toVec_parse_help (P R : List Str) (t : Str) (hP : consumes P = true)
    (ht : t ∈ helpTokens) (hR : tailOk false R = true) :
    toVec (parse (P ++ t :: R)) = P ++ helpWord :: R := by
  have htb := tbl_help_version t (List.mem_append_left _ ht)
  have hh : isHelpTok t = true := by simpa [isHelpTok] using ht
  have hs := scan_meta_tail P R t false hP ⟨htb.1, htb.2.1⟩ hR
  unfold parse toVec
  rw [hs]
  cases R with
  | nil =>
    simp [decideCommand, rewrite, hh, dropFirst]
  | cons d rest =>
    simp only [tailOk, Bool.and_eq_true, decide_eq_true_eq, Bool.false_eq_true, if_false,
      Bool.or_eq_true, Bool.not_eq_true'] at hR
    rcases hR.2 with hd | hall
    · simp [decideCommand, rewrite, hh, hd]
    · cases hdd : startsWithDash d
      · simp [decideCommand, rewrite, hh, hdd]
      · have hf := filter_self_of_all _ _ hall
        simp only [decideCommand, hdd, rewrite, List.any_cons, hh, Bool.true_or, dropFirst]
        simp [hh]
        simpa using hall

theorem toVec_parse_version (P R : List Str) (t : Str) (hP : consumes P = true)
    (ht : t ∈ versionTokens) (hR : tailOk true R = true) :
    toVec (parse (P ++ t :: R)) = P ++ versionWord :: R := by
  have htb := tbl_help_version t (List.mem_append_right _ ht)
  have hv : isVersionTok t = true := by simpa [isVersionTok] using ht
  have hh : isHelpTok t = false := tbl_help_version_disjoint t ht
  have hs := scan_meta_tail P R t true hP ⟨htb.1, htb.2.1⟩ hR
  unfold parse toVec
  rw [hs]
  cases R with
  | nil =>
    simp [decideCommand, rewrite, hh, hv, dropFirst]
  | cons d rest =>
    simp only [tailOk, Bool.and_eq_true, decide_eq_true_eq, if_true] at hR
    have hall := hR.2
    have hdd : startsWithDash d = true := by
      simp only [List.all_cons, Bool.and_eq_true] at hall; exact hall.1
    have hf := filter_self_of_all _ _ hall
    simp only [decideCommand, hdd, rewrite, List.any_cons, hh, hv, dropFirst]
    simp [hv, hf, dropFirst]

theorem gitNormalise_help_version (P R : List Str) (t : Str) (hG : gitConsumes P = true)
    (ht : t ∈ helpTokens ++ versionTokens) :
    gitNormalise (P ++ t :: R) = P ++ normWord t :: R := by
  have htb := tbl_help_version t ht
  unfold gitNormalise
  rw [gitScan_of_gitConsumes P _ _ hG, gitScan_cons, htb.2.2]
  simp only [List.nil_append, normWord]
  rcases List.mem_append.1 ht with h | h
  · have h1 : t ∉ GitRef.versionToks := by simpa using tbl_help_git.1 t h
    have h2 : isVersionTok t = false := by
      cases hv : isVersionTok t
      · rfl
      · have : t ∈ versionTokens := by simpa [isVersionTok] using hv
        have := tbl_help_version_disjoint t this
        simp [isHelpTok, h] at this
    simp [h1, h2]
  · have h1 : t ∈ GitRef.versionToks := by simpa using tbl_help_git.2 t h
    have h2 : isVersionTok t = true := by simpa [isVersionTok] using h
    simp [h1, h2]

end GitAi.Cli
