/-
  Lemmas/Conc.lean — helper lemmas for C11: step equations of the concurrency model, the
  mutual-exclusion invariant of the `full` locking discipline and its preservation by every
  step of every process, the per-process accounting of completed updates (all modes), and
  facts about what a serial run leaves in a journal / in the notes.
-/
import GitAiModel.Model.Conc
namespace GitAi.Conc

/-! ### function update -/

@[simp] theorem upd_same {α β} [DecidableEq α] (f : α → β) (a : α) (b : β) : upd f a b a = b := by
  simp [upd]

@[simp] theorem upd_ne {α β} [DecidableEq α] (f : α → β) {a x : α} (b : β) (h : x ≠ a) :
    upd f a b x = f x := by
  simp [upd, h]

theorem upd_comm {α β} [DecidableEq α] (f : α → β) {a a' : α} (b b' : β) (h : a ≠ a') :
    upd (upd f a b) a' b' = upd (upd f a' b') a b := by
  funext x
  unfold upd
  by_cases h1 : x = a'
  · by_cases h2 : x = a
    · exact absurd (h2.symm.trans h1) h
    · subst h1; simp [h2]
  · by_cases h2 : x = a
    · subst h2; simp [h1]
    · simp [h1, h2]

/-! ### step equations -/

theorem step_idle (m : Mode) (s : State) (p : Pid) (h : (s.procs p).ops = []) : step m s p = s := by
  simp [step, h]

theorem step_blocked (m : Mode) (s : State) (p q : Pid) (op : Op) (rest : List Op)
    (h : (s.procs p).ops = op :: rest) (hph : (s.procs p).ph = .acq) (hl : s.lock op.key = some q) :
    step m s p = s := by
  simp [step, h, hph, hl]

theorem step_acq (m : Mode) (s : State) (p : Pid) (op : Op) (rest : List Op)
    (h : (s.procs p).ops = op :: rest) (hph : (s.procs p).ph = .acq) (hl : s.lock op.key = none) :
    step m s p =
      { s with lock := upd s.lock op.key (some p), acqd := upd s.acqd op.key (s.acqd op.key ++ [(p, op)]),
               procs := upd s.procs p { s.procs p with ph := nextPh m op .acq } } := by
  simp [step, h, hph, hl]

theorem step_snap_noop (m : Mode) (s : State) (p : Pid) (op : Op) (rest : List Op)
    (h : (s.procs p).ops = op :: rest) (hph : (s.procs p).ph = .snap) (hn : op.noEffect (s.cell op.key) = true) :
    step m s p = finish m s p (s.procs p) op rest s.cell := by
  simp [step, h, hph, hn]

theorem step_snap (m : Mode) (s : State) (p : Pid) (op : Op) (rest : List Op)
    (h : (s.procs p).ops = op :: rest) (hph : (s.procs p).ph = .snap) (hn : op.noEffect (s.cell op.key) = false) :
    step m s p =
      { s with procs := upd s.procs p { s.procs p with snap := s.cell op.key, ph := nextPh m op .snap } } := by
  simp [step, h, hph, hn]

theorem step_read (m : Mode) (s : State) (p : Pid) (op : Op) (rest : List Op)
    (h : (s.procs p).ops = op :: rest) (hph : (s.procs p).ph = .read) :
    step m s p = { s with procs := upd s.procs p { s.procs p with loc := s.cell op.key, ph := .write } } := by
  simp [step, h, hph]

theorem step_write (m : Mode) (s : State) (p : Pid) (op : Op) (rest : List Op)
    (h : (s.procs p).ops = op :: rest) (hph : (s.procs p).ph = .write) :
    step m s p = finish m s p (s.procs p) op rest
      (upd s.cell op.key (op.write (s.procs p).snap (s.procs p).loc (s.cell op.key))) := by
  simp [step, h, hph]

theorem startProc_full_ph (ops : List Op) (a b : Val) : (startProc .full ops a b).ph = .acq := by
  cases ops <;> simp [startProc, firstPh]

@[simp] theorem startProc_ops (m : Mode) (ops : List Op) (a b : Val) : (startProc m ops a b).ops = ops := rfl

/-! ### a write whose reads saw the current value is the serial update -/

theorem write_eq_seq (op : Op) (snap loc cur : Val)
    (hs : op.isCkpt = true → snap = cur) (hl : loc = cur) (hn : op.noEffect cur = false) :
    op.write snap loc cur = op.seq cur := by
  subst hl
  unfold Op.seq
  rw [hn]
  cases op with
  | ckpt k id a e => have := hs rfl; subst this; simp
  | rw k ev => simp [Op.write]
  | noteAdd k id c n => simp [Op.write]
  | noteBatch k id es => simp [Op.write]

theorem seqRun_append (v : Val) (l : List (Pid × Op)) (x : Pid × Op) :
    seqRun v (l ++ [x]) = x.2.seq (seqRun v l) := by
  simp [seqRun, List.foldl_append]

theorem noEffect_nonckpt (op : Op) (v : Val) (h : op.isCkpt = false) : op.noEffect v = false := by
  cases op <;> simp_all [Op.noEffect, Op.isCkpt]

/-! ### the invariant of the `full` discipline -/

/-- the pending acquisition recorded for the holder of a lock -/
def holderEntry (s : State) (k : Path) : List (Pid × Op) :=
  match s.lock k with
  | none => []
  | some p => match (s.procs p).ops with
    | op :: _ => [(p, op)]
    | [] => []

structure Inv (c₀ : Path → Val) (s : State) : Prop where
  /-- a process past `acq` holds the lock of the cell it is updating -/
  holder : ∀ p op rest, (s.procs p).ops = op :: rest → (s.procs p).ph ≠ .acq → s.lock op.key = some p
  /-- a lock is held only by a process that is past `acq` on that cell -/
  owner : ∀ k p, s.lock k = some p → ∃ op rest, (s.procs p).ops = op :: rest ∧ op.key = k ∧ (s.procs p).ph ≠ .acq
  /-- the snapshot of a checkpoint in progress is the current content of the journal … -/
  snapEq : ∀ p op rest, (s.procs p).ops = op :: rest → op.isCkpt = true →
    ((s.procs p).ph = .read ∨ (s.procs p).ph = .write) →
    (s.procs p).snap = s.cell op.key ∧ op.noEffect (s.cell op.key) = false
  /-- … and so is the local copy of every update about to write -/
  locEq : ∀ p op rest, (s.procs p).ops = op :: rest → (s.procs p).ph = .write → (s.procs p).loc = s.cell op.key
  /-- every cell holds what the completed updates produce when run alone, one after the other -/
  ser : ∀ k, s.cell k = seqRun (c₀ k) (s.done k)
  /-- completions follow acquisitions; the only acquisition not yet completed is the holder's -/
  acqDone : ∀ k, s.acqd k = s.done k ++ holderEntry s k

theorem inv_init (c₀ : Path → Val) (P₀ : Pid → List Op) : Inv c₀ (init .full c₀ P₀) := by
  refine ⟨?_, ?_, ?_, ?_, ?_, ?_⟩
  · intro p op rest _ hph
    exact absurd (startProc_full_ph _ _ _) hph
  · intro k p h
    simp [init] at h
  · intro p op rest _ _ hph
    have : ((init .full c₀ P₀).procs p).ph = .acq := startProc_full_ph _ _ _
    rcases hph with h | h <;> rw [this] at h <;> cases h
  · intro p op rest _ hph
    have : ((init .full c₀ P₀).procs p).ph = .acq := startProc_full_ph _ _ _
    rw [this] at hph; cases hph
  · intro k; simp [init, seqRun]
  · intro k; simp [init, holderEntry]

/-- two processes past `acq` on the same cell are the same process -/
theorem Inv.excl {c₀ s} (I : Inv c₀ s) {p q : Pid} {op op' : Op} {rest rest' : List Op}
    (hp : (s.procs p).ops = op :: rest) (hpp : (s.procs p).ph ≠ .acq)
    (hq : (s.procs q).ops = op' :: rest') (hqp : (s.procs q).ph ≠ .acq)
    (hk : op.key = op'.key) : p = q := by
  have h1 := I.holder p op rest hp hpp
  have h2 := I.holder q op' rest' hq hqp
  rw [hk] at h1
  rw [h1] at h2
  exact Option.some.inj h2

theorem upd_self {α β} [DecidableEq α] (f : α → β) (a : α) : upd f a (f a) = f := by
  funext x
  unfold upd
  by_cases h : x = a
  · subst h; simp
  · simp [h]

/-- completing the current update of `p` (which is past `acq`) with the serial effect on its cell
    preserves the invariant -/
theorem inv_finish {c₀ s} (I : Inv c₀ s) (p : Pid) (op : Op) (rest : List Op)
    (h : (s.procs p).ops = op :: rest) (hph : (s.procs p).ph ≠ .acq) :
    Inv c₀ (finish .full s p (s.procs p) op rest (upd s.cell op.key (op.seq (s.cell op.key)))) := by
  have hl : s.lock op.key = some p := I.holder p op rest h hph
  have hpacq : ∀ a b, (startProc .full rest a b).ph = .acq := startProc_full_ph rest
  -- a process `q ≠ p` past `acq` works on another cell
  have other : ∀ q op' rest', q ≠ p → (s.procs q).ops = op' :: rest' → (s.procs q).ph ≠ .acq → op'.key ≠ op.key := by
    intro q op' rest' hqp hq hqph hk
    exact hqp (I.excl hq hqph h hph hk)
  refine ⟨?_, ?_, ?_, ?_, ?_, ?_⟩
  · intro q op' rest' hq hqph
    by_cases hqp : q = p
    · subst hqp
      simp [finish] at hqph
      exact absurd (hpacq _ _) hqph
    · simp [finish, hqp] at hq hqph
      have hk := other q op' rest' hqp hq hqph
      simp [finish, hl, upd_ne _ _ hk]
      exact I.holder q op' rest' hq hqph
  · intro k q hk
    simp only [finish, hl, if_true] at hk
    by_cases hkk : k = op.key
    · subst hkk; simp at hk
    · rw [upd_ne _ _ hkk] at hk
      obtain ⟨op', rest', h1, h2, h3⟩ := I.owner k q hk
      have hqp : q ≠ p := by
        intro e; subst e
        rw [h] at h1
        have : op' = op := by cases h1; rfl
        subst this
        exact hkk h2.symm
      exact ⟨op', rest', by simpa [finish, hqp] using h1, h2, by simpa [finish, hqp] using h3⟩
  · intro q op' rest' hq hck hqph
    by_cases hqp : q = p
    · subst hqp
      simp [finish] at hqph
      rw [hpacq] at hqph
      rcases hqph with e | e <;> cases e
    · simp [finish, hqp] at hq hqph ⊢
      have hne : (s.procs q).ph ≠ .acq := by
        rcases hqph with e | e <;> rw [e] <;> decide
      have hk := other q op' rest' hqp hq hne
      rw [upd_ne _ _ hk]
      exact I.snapEq q op' rest' hq hck hqph
  · intro q op' rest' hq hqph
    by_cases hqp : q = p
    · subst hqp
      simp [finish] at hqph
      rw [hpacq] at hqph
      cases hqph
    · simp [finish, hqp] at hq hqph ⊢
      have hne : (s.procs q).ph ≠ .acq := by rw [hqph]; decide
      have hk := other q op' rest' hqp hq hne
      rw [upd_ne _ _ hk]
      exact I.locEq q op' rest' hq hqph
  · intro k
    by_cases hkk : k = op.key
    · subst hkk
      simp only [finish, upd_same]
      rw [seqRun_append, ← I.ser]
    · simp only [finish]
      rw [upd_ne _ _ hkk, upd_ne _ _ hkk]
      exact I.ser k
  · intro k
    by_cases hkk : k = op.key
    · subst hkk
      have h0 := I.acqDone op.key
      simp only [holderEntry, hl, h] at h0
      simp only [finish, hl, if_true, upd_same, holderEntry]
      simpa using h0
    · have h0 := I.acqDone k
      simp only [finish, hl, if_true, holderEntry]
      rw [upd_ne _ _ hkk, upd_ne _ _ hkk]
      rw [h0, holderEntry]
      cases hlk : s.lock k with
      | none => rfl
      | some q =>
        obtain ⟨op', rest', h1, h2, _⟩ := I.owner k q hlk
        have hqp : q ≠ p := by
          intro e; subst e
          rw [h] at h1
          have : op' = op := by cases h1; rfl
          subst this
          exact hkk h2.symm
        simp [upd_ne _ _ hqp]

/-- every step of every process preserves the invariant -/
theorem inv_step {c₀ s} (I : Inv c₀ s) (p : Pid) : Inv c₀ (step .full s p) := by
  cases hops : (s.procs p).ops with
  | nil => rw [step_idle _ _ _ hops]; exact I
  | cons op rest =>
    cases hph : (s.procs p).ph with
    | acq =>
      cases hl : s.lock op.key with
      | some q => rw [step_blocked _ _ _ q op rest hops hph hl]; exact I
      | none =>
        rw [step_acq _ _ _ op rest hops hph hl]
        have hnext : nextPh .full op .acq ≠ .acq := by
          cases op <;> simp [nextPh, Op.isCkpt]
        -- nobody else is past `acq` on this cell
        have other : ∀ q op' rest', (s.procs q).ops = op' :: rest' → (s.procs q).ph ≠ .acq → op'.key ≠ op.key := by
          intro q op' rest' hq hqph hk
          have := I.holder q op' rest' hq hqph
          rw [hk, hl] at this
          cases this
        refine ⟨?_, ?_, ?_, ?_, ?_, ?_⟩
        · intro q op' rest' hq hqph
          by_cases hqp : q = p
          · subst hqp
            simp at hq
            rw [hops] at hq
            have : op' = op := by cases hq; rfl
            subst this
            simp
          · simp [hqp] at hq hqph
            have hk := other q op' rest' hq hqph
            simp [upd_ne _ _ hk]
            exact I.holder q op' rest' hq hqph
        · intro k q hk
          simp only at hk
          by_cases hkk : k = op.key
          · subst hkk
            simp at hk
            subst hk
            exact ⟨op, rest, by simp [hops], rfl, by simpa using hnext⟩
          · rw [upd_ne _ _ hkk] at hk
            obtain ⟨op', rest', h1, h2, h3⟩ := I.owner k q hk
            have hqp : q ≠ p := by
              intro e; subst e
              exact h3 hph
            exact ⟨op', rest', by simpa [hqp] using h1, h2, by simpa [hqp] using h3⟩
        · intro q op' rest' hq hck hqph
          by_cases hqp : q = p
          · subst hqp
            simp at hq hqph
            rw [hops] at hq
            have : op' = op := by cases hq; rfl
            subst this
            simp [nextPh, hck] at hqph
          · simp [hqp] at hq hqph ⊢
            exact I.snapEq q op' rest' hq hck hqph
        · intro q op' rest' hq hqph
          by_cases hqp : q = p
          · subst hqp
            simp at hqph
            cases op <;> simp [nextPh, Op.isCkpt] at hqph
          · simp [hqp] at hq hqph ⊢
            exact I.locEq q op' rest' hq hqph
        · intro k; exact I.ser k
        · intro k
          by_cases hkk : k = op.key
          · subst hkk
            have h0 := I.acqDone op.key
            simp only [holderEntry, hl] at h0
            simp [holderEntry, hops, h0]
          · have h0 := I.acqDone k
            simp only [holderEntry]
            rw [upd_ne _ _ hkk, upd_ne _ _ hkk, h0, holderEntry]
            cases hlk : s.lock k with
            | none => rfl
            | some q =>
              obtain ⟨op', rest', h1, h2, h3⟩ := I.owner k q hlk
              have hqp : q ≠ p := by
                intro e; subst e
                exact h3 hph
              simp [upd_ne _ _ hqp]
    | snap =>
      have hne : (s.procs p).ph ≠ .acq := by rw [hph]; decide
      cases hn : op.noEffect (s.cell op.key) with
      | true =>
        rw [step_snap_noop _ _ _ op rest hops hph hn]
        have hseq : op.seq (s.cell op.key) = s.cell op.key := by simp [Op.seq, hn]
        have := inv_finish I p op rest hops hne
        rw [hseq, upd_self] at this
        exact this
      | false =>
        rw [step_snap _ _ _ op rest hops hph hn]
        have hl := I.holder p op rest hops hne
        refine ⟨?_, ?_, ?_, ?_, ?_, ?_⟩
        · intro q op' rest' hq hqph
          by_cases hqp : q = p
          · subst hqp
            simp at hq
            rw [hops] at hq
            have : op' = op := by cases hq; rfl
            subst this
            exact hl
          · simp [hqp] at hq hqph
            exact I.holder q op' rest' hq hqph
        · intro k q hk
          obtain ⟨op', rest', h1, h2, h3⟩ := I.owner k q hk
          by_cases hqp : q = p
          · subst hqp
            exact ⟨op', rest', by simpa using h1, h2, by simp [nextPh]⟩
          · exact ⟨op', rest', by simpa [hqp] using h1, h2, by simpa [hqp] using h3⟩
        · intro q op' rest' hq hck hqph
          by_cases hqp : q = p
          · subst hqp
            simp at hq
            rw [hops] at hq
            have : op' = op := by cases hq; rfl
            subst this
            simp [hn]
          · simp [hqp] at hq hqph ⊢
            exact I.snapEq q op' rest' hq hck hqph
        · intro q op' rest' hq hqph
          by_cases hqp : q = p
          · subst hqp
            simp [nextPh] at hqph
          · simp [hqp] at hq hqph ⊢
            exact I.locEq q op' rest' hq hqph
        · intro k; exact I.ser k
        · intro k
          have h0 := I.acqDone k
          simp only [holderEntry] at h0 ⊢
          rw [h0]
          cases hlk : s.lock k with
          | none => rfl
          | some q =>
            by_cases hqp : q = p
            · subst hqp; simp [hops]
            · simp [upd_ne _ _ hqp]
    | read =>
      have hne : (s.procs p).ph ≠ .acq := by rw [hph]; decide
      rw [step_read _ _ _ op rest hops hph]
      have hl := I.holder p op rest hops hne
      refine ⟨?_, ?_, ?_, ?_, ?_, ?_⟩
      · intro q op' rest' hq hqph
        by_cases hqp : q = p
        · subst hqp
          simp at hq
          rw [hops] at hq
          have : op' = op := by cases hq; rfl
          subst this
          exact hl
        · simp [hqp] at hq hqph
          exact I.holder q op' rest' hq hqph
      · intro k q hk
        obtain ⟨op', rest', h1, h2, h3⟩ := I.owner k q hk
        by_cases hqp : q = p
        · subst hqp
          exact ⟨op', rest', by simpa using h1, h2, by simp⟩
        · exact ⟨op', rest', by simpa [hqp] using h1, h2, by simpa [hqp] using h3⟩
      · intro q op' rest' hq hck hqph
        by_cases hqp : q = p
        · subst hqp
          simp at hq
          rw [hops] at hq
          have : op' = op := by cases hq; rfl
          subst this
          simpa using I.snapEq q op' rest hops hck (Or.inl hph)
        · simp [hqp] at hq hqph ⊢
          exact I.snapEq q op' rest' hq hck hqph
      · intro q op' rest' hq hqph
        by_cases hqp : q = p
        · subst hqp
          simp at hq
          rw [hops] at hq
          have : op' = op := by cases hq; rfl
          subst this
          simp
        · simp [hqp] at hq hqph ⊢
          exact I.locEq q op' rest' hq hqph
      · intro k; exact I.ser k
      · intro k
        have h0 := I.acqDone k
        simp only [holderEntry] at h0 ⊢
        rw [h0]
        cases hlk : s.lock k with
        | none => rfl
        | some q =>
          by_cases hqp : q = p
          · subst hqp; simp [hops]
          · simp [upd_ne _ _ hqp]
    | write =>
      have hne : (s.procs p).ph ≠ .acq := by rw [hph]; decide
      rw [step_write _ _ _ op rest hops hph]
      have hloc := I.locEq p op rest hops hph
      have hw : op.write (s.procs p).snap (s.procs p).loc (s.cell op.key) = op.seq (s.cell op.key) := by
        cases hck : op.isCkpt with
        | true =>
          have := I.snapEq p op rest hops hck (Or.inr hph)
          exact write_eq_seq op _ _ _ (fun _ => this.1) hloc this.2
        | false =>
          exact write_eq_seq op _ _ _ (fun h => by rw [hck] at h; cases h) hloc (noEffect_nonckpt op _ hck)
      rw [hw]
      exact inv_finish I p op rest hops hne

theorem inv_run {c₀ s} (I : Inv c₀ s) (sched : List Pid) : Inv c₀ (run .full s sched) := by
  induction sched generalizing s with
  | nil => exact I
  | cons p rest ih => exact ih (inv_step I p)

end GitAi.Conc
