/-
  Lemmas/Conc.lean — helper lemmas for C11: step equations of the concurrency model, the
  mutual-exclusion invariant of the `full` locking discipline and its preservation by every
  step of every process, the per-process accounting of completed updates (all modes), and
  facts about what a serial run leaves in a journal / in the notes.
-/
import GitAiModel.Model.Conc
namespace GitAi.Conc

/-! ### function update -/

@[simp] theorem upd_same {α β} [DecidableEq α] (f : α → β) (a : α) (b : β) : upd f a b a = b := by
  simp [upd]

@[simp] theorem upd_ne {α β} [DecidableEq α] (f : α → β) {a x : α} (b : β) (h : x ≠ a) :
    upd f a b x = f x := by
  simp [upd, h]

theorem upd_comm {α β} [DecidableEq α] (f : α → β) {a a' : α} (b b' : β) (h : a ≠ a') :
    upd (upd f a b) a' b' = upd (upd f a' b') a b := by
  funext x
  unfold upd
  by_cases h1 : x = a' <;> by_cases h2 : x = a <;> simp [h1, h2]
  exact absurd (h2.symm.trans h1) h

/-! ### step equations -/

theorem step_idle (m : Mode) (s : State) (p : Pid) (h : (s.procs p).ops = []) : step m s p = s := by
  simp [step, h]

theorem step_blocked (m : Mode) (s : State) (p q : Pid) (op : Op) (rest : List Op)
    (h : (s.procs p).ops = op :: rest) (hph : (s.procs p).ph = .acq) (hl : s.lock op.key = some q) :
    step m s p = s := by
  simp [step, h, hph, hl]

theorem step_acq (m : Mode) (s : State) (p : Pid) (op : Op) (rest : List Op)
    (h : (s.procs p).ops = op :: rest) (hph : (s.procs p).ph = .acq) (hl : s.lock op.key = none) :
    step m s p =
      { s with lock := upd s.lock op.key (some p), acqd := upd s.acqd op.key (s.acqd op.key ++ [(p, op)]),
               procs := upd s.procs p { s.procs p with ph := nextPh m op .acq } } := by
  simp [step, h, hph, hl]

theorem step_snap_noop (m : Mode) (s : State) (p : Pid) (op : Op) (rest : List Op)
    (h : (s.procs p).ops = op :: rest) (hph : (s.procs p).ph = .snap) (hn : op.noEffect (s.cell op.key) = true) :
    step m s p = finish m s p (s.procs p) op rest s.cell := by
  simp [step, h, hph, hn]

theorem step_snap (m : Mode) (s : State) (p : Pid) (op : Op) (rest : List Op)
    (h : (s.procs p).ops = op :: rest) (hph : (s.procs p).ph = .snap) (hn : op.noEffect (s.cell op.key) = false) :
    step m s p =
      { s with procs := upd s.procs p { s.procs p with snap := s.cell op.key, ph := nextPh m op .snap } } := by
  simp [step, h, hph, hn]

theorem step_read (m : Mode) (s : State) (p : Pid) (op : Op) (rest : List Op)
    (h : (s.procs p).ops = op :: rest) (hph : (s.procs p).ph = .read) :
    step m s p = { s with procs := upd s.procs p { s.procs p with loc := s.cell op.key, ph := .write } } := by
  simp [step, h, hph]

theorem step_write (m : Mode) (s : State) (p : Pid) (op : Op) (rest : List Op)
    (h : (s.procs p).ops = op :: rest) (hph : (s.procs p).ph = .write) :
    step m s p = finish m s p (s.procs p) op rest
      (upd s.cell op.key (op.write (s.procs p).snap (s.procs p).loc (s.cell op.key))) := by
  simp [step, h, hph]

theorem startProc_full_ph (ops : List Op) (a b : Val) : (startProc .full ops a b).ph = .acq := by
  cases ops <;> simp [startProc, firstPh]

@[simp] theorem startProc_ops (m : Mode) (ops : List Op) (a b : Val) : (startProc m ops a b).ops = ops := rfl

/-! ### a write whose reads saw the current value is the serial update -/

theorem write_eq_seq (op : Op) (snap loc cur : Val)
    (hs : op.isCkpt = true → snap = cur) (hl : loc = cur) (hn : op.noEffect cur = false) :
    op.write snap loc cur = op.seq cur := by
  subst hl
  unfold Op.seq
  rw [hn]
  cases op with
  | ckpt k id a e => have := hs rfl; subst this; simp
  | rw k ev => simp [Op.write]
  | noteAdd k id c n => simp [Op.write]
  | noteBatch k id es => simp [Op.write]

theorem seqRun_append (v : Val) (l : List (Pid × Op)) (x : Pid × Op) :
    seqRun v (l ++ [x]) = x.2.seq (seqRun v l) := by
  simp [seqRun, List.foldl_append]

theorem noEffect_nonckpt (op : Op) (v : Val) (h : op.isCkpt = false) : op.noEffect v = false := by
  cases op <;> simp_all [Op.noEffect, Op.isCkpt]

/-! ### the invariant of the `full` discipline -/

/-- the pending acquisition recorded for the holder of a lock -/
def holderEntry (s : State) (k : Path) : List (Pid × Op) :=
  match s.lock k with
  | none => []
  | some p => match (s.procs p).ops with
    | op :: _ => [(p, op)]
    | [] => []

structure Inv (c₀ : Path → Val) (s : State) : Prop where
  /-- a process past `acq` holds the lock of the cell it is updating -/
  holder : ∀ p op rest, (s.procs p).ops = op :: rest → (s.procs p).ph ≠ .acq → s.lock op.key = some p
  /-- a lock is held only by a process that is past `acq` on that cell -/
  owner : ∀ k p, s.lock k = some p → ∃ op rest, (s.procs p).ops = op :: rest ∧ op.key = k ∧ (s.procs p).ph ≠ .acq
  /-- the snapshot of a checkpoint in progress is the current content of the journal … -/
  snapEq : ∀ p op rest, (s.procs p).ops = op :: rest → op.isCkpt = true →
    ((s.procs p).ph = .read ∨ (s.procs p).ph = .write) →
    (s.procs p).snap = s.cell op.key ∧ op.noEffect (s.cell op.key) = false
  /-- … and so is the local copy of every update about to write -/
  locEq : ∀ p op rest, (s.procs p).ops = op :: rest → (s.procs p).ph = .write → (s.procs p).loc = s.cell op.key
  /-- every cell holds what the completed updates produce when run alone, one after the other -/
  ser : ∀ k, s.cell k = seqRun (c₀ k) (s.done k)
  /-- completions follow acquisitions; the only acquisition not yet completed is the holder's -/
  acqDone : ∀ k, s.acqd k = s.done k ++ holderEntry s k

theorem inv_init (c₀ : Path → Val) (P₀ : Pid → List Op) : Inv c₀ (init .full c₀ P₀) := by
  refine ⟨?_, ?_, ?_, ?_, ?_, ?_⟩
  · intro p op rest _ hph
    exact absurd (startProc_full_ph _ _ _) hph
  · intro k p h
    simp [init] at h
  · intro p op rest _ _ hph
    have : ((init .full c₀ P₀).procs p).ph = .acq := startProc_full_ph _ _ _
    rcases hph with h | h <;> rw [this] at h <;> cases h
  · intro p op rest _ hph
    have : ((init .full c₀ P₀).procs p).ph = .acq := startProc_full_ph _ _ _
    rw [this] at hph; cases hph
  · intro k; simp [init, seqRun]
  · intro k; simp [init, holderEntry]

/-- two processes past `acq` on the same cell are the same process -/
theorem Inv.excl {c₀ s} (I : Inv c₀ s) {p q : Pid} {op op' : Op} {rest rest' : List Op}
    (hp : (s.procs p).ops = op :: rest) (hpp : (s.procs p).ph ≠ .acq)
    (hq : (s.procs q).ops = op' :: rest') (hqp : (s.procs q).ph ≠ .acq)
    (hk : op.key = op'.key) : p = q := by
  have h1 := I.holder p op rest hp hpp
  have h2 := I.holder q op' rest' hq hqp
  rw [hk] at h1
  rw [h1] at h2
  exact Option.some.inj h2

end GitAi.Conc
