/-
  Lemmas/Conc.lean — helper lemmas for C11: step equations of the concurrency model, the
  mutual-exclusion invariant of the `full` locking discipline and its preservation by every
  step of every process, the per-process accounting of completed updates (all modes), and
  facts about what a serial run leaves in a journal / in the notes.
-/
import GitAiModel.Model.Conc
namespace GitAi.Conc

/-! ### function update -/

@[simp] theorem upd_same {α β} [DecidableEq α] (f : α → β) (a : α) (b : β) : upd f a b a = b := by
  simp [upd]

@[simp] theorem upd_ne {α β} [DecidableEq α] (f : α → β) {a x : α} (b : β) (h : x ≠ a) :
    upd f a b x = f x := by
  simp [upd, h]

theorem upd_comm {α β} [DecidableEq α] (f : α → β) {a a' : α} (b b' : β) (h : a ≠ a') :
    upd (upd f a b) a' b' = upd (upd f a' b') a b := by
  funext x
  unfold upd
  by_cases h1 : x = a'
  · by_cases h2 : x = a
    · exact absurd (h2.symm.trans h1) h
    · subst h1; simp [h2]
  · by_cases h2 : x = a
    · subst h2; simp [h1]
    · simp [h1, h2]

/-! ### step equations -/

theorem step_idle (m : Mode) (s : State) (p : Pid) (h : (s.procs p).ops = []) : step m s p = s := by
  simp [step, h]

theorem step_blocked (m : Mode) (s : State) (p q : Pid) (op : Op) (rest : List Op)
    (h : (s.procs p).ops = op :: rest) (hph : (s.procs p).ph = .acq) (hl : s.lock op.key = some q) :
    step m s p = s := by
  simp [step, h, hph, hl]

theorem step_acq (m : Mode) (s : State) (p : Pid) (op : Op) (rest : List Op)
    (h : (s.procs p).ops = op :: rest) (hph : (s.procs p).ph = .acq) (hl : s.lock op.key = none) :
    step m s p =
      { s with lock := upd s.lock op.key (some p), acqd := upd s.acqd op.key (s.acqd op.key ++ [(p, op)]),
               procs := upd s.procs p { s.procs p with ph := nextPh m op .acq } } := by
  simp [step, h, hph, hl]

theorem step_snap_noop (m : Mode) (s : State) (p : Pid) (op : Op) (rest : List Op)
    (h : (s.procs p).ops = op :: rest) (hph : (s.procs p).ph = .snap) (hn : op.noEffect (s.cell op.key) = true) :
    step m s p = finish m s p (s.procs p) op rest s.cell := by
  simp [step, h, hph, hn]

theorem step_snap (m : Mode) (s : State) (p : Pid) (op : Op) (rest : List Op)
    (h : (s.procs p).ops = op :: rest) (hph : (s.procs p).ph = .snap) (hn : op.noEffect (s.cell op.key) = false) :
    step m s p =
      { s with procs := upd s.procs p { s.procs p with snap := s.cell op.key, ph := nextPh m op .snap } } := by
  simp [step, h, hph, hn]

theorem step_read (m : Mode) (s : State) (p : Pid) (op : Op) (rest : List Op)
    (h : (s.procs p).ops = op :: rest) (hph : (s.procs p).ph = .read) :
    step m s p = { s with procs := upd s.procs p { s.procs p with loc := s.cell op.key, ph := nextPh m op .read } } := by
  simp [step, h, hph]

theorem step_build (m : Mode) (s : State) (p : Pid) (op : Op) (rest : List Op)
    (h : (s.procs p).ops = op :: rest) (hph : (s.procs p).ph = .build) :
    step m s p = { s with procs := upd s.procs p { s.procs p with ph := nextPh m op .build } } := by
  simp [step, h, hph]

@[simp] theorem lockLate_full (op : Op) : Mode.lockLate .full op = false := rfl
@[simp] theorem lockLate_none (op : Op) : Mode.lockLate .none op = false := rfl
@[simp] theorem lockLate_append (op : Op) : Mode.lockLate .append op = false := rfl
@[simp] theorem ckptEarly_full : Mode.ckptEarly .full = true := rfl

/-- under `full` the phase after `read` / `build` is `build` / `write`: never `acq`, `snap`, `read` -/
theorem nextPh_full_read (op : Op) : nextPh .full op .read = .build ∨ nextPh .full op .read = .write := by
  cases op <;> simp [nextPh, afterBuild, Mode.lockLate, Op.isBatch]

theorem nextPh_full_build (op : Op) : nextPh .full op .build = .write := by
  simp [nextPh, afterBuild, Mode.lockLate]

theorem step_write (m : Mode) (s : State) (p : Pid) (op : Op) (rest : List Op)
    (h : (s.procs p).ops = op :: rest) (hph : (s.procs p).ph = .write) :
    step m s p = finish m s p (s.procs p) op rest
      (upd s.cell op.key (op.write (s.procs p).snap (s.procs p).loc (s.cell op.key))) := by
  simp [step, h, hph]

theorem startProc_full_ph (ops : List Op) (a b : Val) : (startProc .full ops a b).ph = .acq := by
  cases ops <;> simp [startProc, firstPh]

@[simp] theorem startProc_ops (m : Mode) (ops : List Op) (a b : Val) : (startProc m ops a b).ops = ops := rfl

/-! ### a write whose reads saw the current value is the serial update -/

theorem write_eq_seq (op : Op) (snap loc cur : Val)
    (hs : op.isCkpt = true → snap = cur) (hl : loc = cur) (hn : op.noEffect cur = false) :
    op.write snap loc cur = op.seq cur := by
  subst hl
  unfold Op.seq
  rw [hn]
  cases op with
  | ckpt k id a e => have := hs rfl; subst this; simp
  | rw k ev => simp [Op.write]
  | noteAdd k id c n => simp [Op.write]
  | noteBatch k id es => simp [Op.write]

theorem seqRun_append (v : Val) (l : List (Pid × Op)) (x : Pid × Op) :
    seqRun v (l ++ [x]) = x.2.seq (seqRun v l) := by
  simp [seqRun, List.foldl_append]

theorem noEffect_nonckpt (op : Op) (v : Val) (h : op.isCkpt = false) : op.noEffect v = false := by
  cases op <;> simp_all [Op.noEffect, Op.isCkpt]

/-! ### the invariant of the `full` discipline -/

/-- the pending acquisition recorded for the holder of a lock -/
def holderEntry (s : State) (k : Path) : List (Pid × Op) :=
  match s.lock k with
  | none => []
  | some p => match (s.procs p).ops with
    | op :: _ => [(p, op)]
    | [] => []

structure Inv (c₀ : Path → Val) (s : State) : Prop where
  /-- a process past `acq` holds the lock of the cell it is updating -/
  holder : ∀ p op rest, (s.procs p).ops = op :: rest → (s.procs p).ph ≠ .acq → s.lock op.key = some p
  /-- a lock is held only by a process that is past `acq` on that cell -/
  owner : ∀ k p, s.lock k = some p → ∃ op rest, (s.procs p).ops = op :: rest ∧ op.key = k ∧ (s.procs p).ph ≠ .acq
  /-- the snapshot of a checkpoint in progress is the current content of the journal … -/
  snapEq : ∀ p op rest, (s.procs p).ops = op :: rest → op.isCkpt = true →
    ((s.procs p).ph = .read ∨ (s.procs p).ph = .build ∨ (s.procs p).ph = .write) →
    (s.procs p).snap = s.cell op.key ∧ op.noEffect (s.cell op.key) = false
  /-- … and so is the local copy of every update about to write -/
  locEq : ∀ p op rest, (s.procs p).ops = op :: rest → ((s.procs p).ph = .build ∨ (s.procs p).ph = .write) →
    (s.procs p).loc = s.cell op.key
  /-- every cell holds what the completed updates produce when run alone, one after the other -/
  ser : ∀ k, s.cell k = seqRun (c₀ k) (s.done k)
  /-- completions follow acquisitions; the only acquisition not yet completed is the holder's -/
  acqDone : ∀ k, s.acqd k = s.done k ++ holderEntry s k

theorem inv_init (c₀ : Path → Val) (P₀ : Pid → List Op) : Inv c₀ (init .full c₀ P₀) := by
  refine ⟨?_, ?_, ?_, ?_, ?_, ?_⟩
  · intro p op rest _ hph
    exact absurd (startProc_full_ph _ _ _) hph
  · intro k p h
    simp [init] at h
  · intro p op rest _ _ hph
    have : ((init .full c₀ P₀).procs p).ph = .acq := startProc_full_ph _ _ _
    rcases hph with h | h | h <;> rw [this] at h <;> cases h
  · intro p op rest _ hph
    have : ((init .full c₀ P₀).procs p).ph = .acq := startProc_full_ph _ _ _
    rcases hph with h | h <;> rw [this] at h <;> cases h
  · intro k; simp [init, seqRun]
  · intro k; simp [init, holderEntry]

/-- two processes past `acq` on the same cell are the same process -/
theorem Inv.excl {c₀ s} (I : Inv c₀ s) {p q : Pid} {op op' : Op} {rest rest' : List Op}
    (hp : (s.procs p).ops = op :: rest) (hpp : (s.procs p).ph ≠ .acq)
    (hq : (s.procs q).ops = op' :: rest') (hqp : (s.procs q).ph ≠ .acq)
    (hk : op.key = op'.key) : p = q := by
  have h1 := I.holder p op rest hp hpp
  have h2 := I.holder q op' rest' hq hqp
  rw [hk] at h1
  rw [h1] at h2
  exact Option.some.inj h2

theorem upd_self {α β} [DecidableEq α] (f : α → β) (a : α) : upd f a (f a) = f := by
  funext x
  unfold upd
  by_cases h : x = a
  · subst h; simp
  · simp [h]

/-- completing the current update of `p` (which is past `acq`) with the serial effect on its cell
    preserves the invariant -/
theorem inv_finish {c₀ s} (I : Inv c₀ s) (p : Pid) (op : Op) (rest : List Op)
    (h : (s.procs p).ops = op :: rest) (hph : (s.procs p).ph ≠ .acq) :
    Inv c₀ (finish .full s p (s.procs p) op rest (upd s.cell op.key (op.seq (s.cell op.key)))) := by
  have hl : s.lock op.key = some p := I.holder p op rest h hph
  have hpacq : ∀ a b, (startProc .full rest a b).ph = .acq := startProc_full_ph rest
  -- a process `q ≠ p` past `acq` works on another cell
  have other : ∀ q op' rest', q ≠ p → (s.procs q).ops = op' :: rest' → (s.procs q).ph ≠ .acq → op'.key ≠ op.key := by
    intro q op' rest' hqp hq hqph hk
    exact hqp (I.excl hq hqph h hph hk)
  refine ⟨?_, ?_, ?_, ?_, ?_, ?_⟩
  · intro q op' rest' hq hqph
    by_cases hqp : q = p
    · subst hqp
      simp [finish] at hqph
      exact absurd (hpacq _ _) hqph
    · simp [finish, hqp] at hq hqph
      have hk := other q op' rest' hqp hq hqph
      simp [finish, hl, upd_ne _ _ hk]
      exact I.holder q op' rest' hq hqph
  · intro k q hk
    simp only [finish, hl, if_true] at hk
    by_cases hkk : k = op.key
    · subst hkk; simp at hk
    · rw [upd_ne _ _ hkk] at hk
      obtain ⟨op', rest', h1, h2, h3⟩ := I.owner k q hk
      have hqp : q ≠ p := by
        intro e; subst e
        rw [h] at h1
        have : op' = op := by cases h1; rfl
        subst this
        exact hkk h2.symm
      exact ⟨op', rest', by simpa [finish, hqp] using h1, h2, by simpa [finish, hqp] using h3⟩
  · intro q op' rest' hq hck hqph
    by_cases hqp : q = p
    · subst hqp
      simp [finish] at hqph
      rw [hpacq] at hqph
      rcases hqph with e | e | e <;> cases e
    · simp [finish, hqp] at hq hqph ⊢
      have hne : (s.procs q).ph ≠ .acq := by
        rcases hqph with e | e | e <;> rw [e] <;> decide
      have hk := other q op' rest' hqp hq hne
      rw [upd_ne _ _ hk]
      exact I.snapEq q op' rest' hq hck hqph
  · intro q op' rest' hq hqph
    by_cases hqp : q = p
    · subst hqp
      simp [finish] at hqph
      rw [hpacq] at hqph
      rcases hqph with e | e <;> cases e
    · simp [finish, hqp] at hq hqph ⊢
      have hne : (s.procs q).ph ≠ .acq := by
        rcases hqph with e | e <;> rw [e] <;> decide
      have hk := other q op' rest' hqp hq hne
      rw [upd_ne _ _ hk]
      exact I.locEq q op' rest' hq hqph
  · intro k
    by_cases hkk : k = op.key
    · subst hkk
      simp only [finish, upd_same]
      rw [seqRun_append, ← I.ser]
    · simp only [finish]
      rw [upd_ne _ _ hkk, upd_ne _ _ hkk]
      exact I.ser k
  · intro k
    by_cases hkk : k = op.key
    · subst hkk
      have h0 := I.acqDone op.key
      simp only [holderEntry, hl, h] at h0
      simp only [finish, hl, if_true, upd_same, holderEntry]
      simpa using h0
    · have h0 := I.acqDone k
      simp only [finish, hl, if_true, holderEntry]
      rw [upd_ne _ _ hkk, upd_ne _ _ hkk]
      rw [h0, holderEntry]
      cases hlk : s.lock k with
      | none => rfl
      | some q =>
        obtain ⟨op', rest', h1, h2, _⟩ := I.owner k q hlk
        have hqp : q ≠ p := by
          intro e; subst e
          rw [h] at h1
          have : op' = op := by cases h1; rfl
          subst this
          exact hkk h2.symm
        simp [upd_ne _ _ hqp]

/-- every step of every process preserves the invariant -/
theorem inv_step {c₀ s} (I : Inv c₀ s) (p : Pid) : Inv c₀ (step .full s p) := by
  cases hops : (s.procs p).ops with
  | nil => rw [step_idle _ _ _ hops]; exact I
  | cons op rest =>
    cases hph : (s.procs p).ph with
    | acq =>
      cases hl : s.lock op.key with
      | some q => rw [step_blocked _ _ _ q op rest hops hph hl]; exact I
      | none =>
        rw [step_acq _ _ _ op rest hops hph hl]
        have hnext : nextPh .full op .acq ≠ .acq := by
          cases op <;> simp [nextPh, Op.isCkpt]
        -- nobody else is past `acq` on this cell
        have other : ∀ q op' rest', (s.procs q).ops = op' :: rest' → (s.procs q).ph ≠ .acq → op'.key ≠ op.key := by
          intro q op' rest' hq hqph hk
          have := I.holder q op' rest' hq hqph
          rw [hk, hl] at this
          cases this
        refine ⟨?_, ?_, ?_, ?_, ?_, ?_⟩
        · intro q op' rest' hq hqph
          by_cases hqp : q = p
          · subst hqp
            simp at hq
            rw [hops] at hq
            have : op' = op := by cases hq; rfl
            subst this
            simp
          · simp [hqp] at hq hqph
            have hk := other q op' rest' hq hqph
            simp [upd_ne _ _ hk]
            exact I.holder q op' rest' hq hqph
        · intro k q hk
          simp only at hk
          by_cases hkk : k = op.key
          · subst hkk
            simp at hk
            subst hk
            exact ⟨op, rest, by simp [hops], rfl, by simpa using hnext⟩
          · rw [upd_ne _ _ hkk] at hk
            obtain ⟨op', rest', h1, h2, h3⟩ := I.owner k q hk
            have hqp : q ≠ p := by
              intro e; subst e
              exact h3 hph
            exact ⟨op', rest', by simpa [hqp] using h1, h2, by simpa [hqp] using h3⟩
        · intro q op' rest' hq hck hqph
          by_cases hqp : q = p
          · subst hqp
            simp at hq hqph
            rw [hops] at hq
            have : op' = op := by cases hq; rfl
            subst this
            simp [nextPh, hck] at hqph
          · simp [hqp] at hq hqph ⊢
            exact I.snapEq q op' rest' hq hck hqph
        · intro q op' rest' hq hqph
          by_cases hqp : q = p
          · subst hqp
            simp at hqph
            cases op <;> simp [nextPh, Op.isCkpt] at hqph
          · simp [hqp] at hq hqph ⊢
            exact I.locEq q op' rest' hq hqph
        · intro k; exact I.ser k
        · intro k
          by_cases hkk : k = op.key
          · subst hkk
            have h0 := I.acqDone op.key
            simp only [holderEntry, hl] at h0
            simp [holderEntry, hops, h0]
          · have h0 := I.acqDone k
            simp only [holderEntry]
            rw [upd_ne _ _ hkk, upd_ne _ _ hkk, h0, holderEntry]
            cases hlk : s.lock k with
            | none => rfl
            | some q =>
              obtain ⟨op', rest', h1, h2, h3⟩ := I.owner k q hlk
              have hqp : q ≠ p := by
                intro e; subst e
                exact h3 hph
              simp [upd_ne _ _ hqp]
    | snap =>
      have hne : (s.procs p).ph ≠ .acq := by rw [hph]; decide
      cases hn : op.noEffect (s.cell op.key) with
      | true =>
        rw [step_snap_noop _ _ _ op rest hops hph hn]
        have hseq : op.seq (s.cell op.key) = s.cell op.key := by simp [Op.seq, hn]
        have := inv_finish I p op rest hops hne
        rw [hseq, upd_self] at this
        exact this
      | false =>
        rw [step_snap _ _ _ op rest hops hph hn]
        have hl := I.holder p op rest hops hne
        refine ⟨?_, ?_, ?_, ?_, ?_, ?_⟩
        · intro q op' rest' hq hqph
          by_cases hqp : q = p
          · subst hqp
            simp at hq
            rw [hops] at hq
            have : op' = op := by cases hq; rfl
            subst this
            exact hl
          · simp [hqp] at hq hqph
            exact I.holder q op' rest' hq hqph
        · intro k q hk
          obtain ⟨op', rest', h1, h2, h3⟩ := I.owner k q hk
          by_cases hqp : q = p
          · subst hqp
            exact ⟨op', rest', by simpa using h1, h2, by simp [nextPh]⟩
          · exact ⟨op', rest', by simpa [hqp] using h1, h2, by simpa [hqp] using h3⟩
        · intro q op' rest' hq hck hqph
          by_cases hqp : q = p
          · subst hqp
            simp at hq
            rw [hops] at hq
            have : op' = op := by cases hq; rfl
            subst this
            simp [hn]
          · simp [hqp] at hq hqph ⊢
            exact I.snapEq q op' rest' hq hck hqph
        · intro q op' rest' hq hqph
          by_cases hqp : q = p
          · subst hqp
            simp [nextPh] at hqph
          · simp [hqp] at hq hqph ⊢
            exact I.locEq q op' rest' hq hqph
        · intro k; exact I.ser k
        · intro k
          have h0 := I.acqDone k
          simp only [holderEntry] at h0 ⊢
          rw [h0]
          cases hlk : s.lock k with
          | none => rfl
          | some q =>
            by_cases hqp : q = p
            · subst hqp; simp [hops]
            · simp [upd_ne _ _ hqp]
    | read =>
      have hne : (s.procs p).ph ≠ .acq := by rw [hph]; decide
      rw [step_read _ _ _ op rest hops hph]
      have hl := I.holder p op rest hops hne
      refine ⟨?_, ?_, ?_, ?_, ?_, ?_⟩
      · intro q op' rest' hq hqph
        by_cases hqp : q = p
        · subst hqp
          simp at hq
          rw [hops] at hq
          have : op' = op := by cases hq; rfl
          subst this
          exact hl
        · simp [hqp] at hq hqph
          exact I.holder q op' rest' hq hqph
      · intro k q hk
        obtain ⟨op', rest', h1, h2, h3⟩ := I.owner k q hk
        by_cases hqp : q = p
        · subst hqp
          have hop : op' = op := by rw [hops] at h1; cases h1; rfl
          subst hop
          refine ⟨op', rest', by simpa using h1, h2, ?_⟩
          simp only [upd_same]
          rcases nextPh_full_read op' with e | e <;> rw [e] <;> decide
        · exact ⟨op', rest', by simpa [hqp] using h1, h2, by simpa [hqp] using h3⟩
      · intro q op' rest' hq hck hqph
        by_cases hqp : q = p
        · subst hqp
          simp at hq
          rw [hops] at hq
          have : op' = op := by cases hq; rfl
          subst this
          simpa using I.snapEq q op' rest hops hck (Or.inl hph)
        · simp [hqp] at hq hqph ⊢
          exact I.snapEq q op' rest' hq hck hqph
      · intro q op' rest' hq hqph
        by_cases hqp : q = p
        · subst hqp
          simp at hq
          rw [hops] at hq
          have : op' = op := by cases hq; rfl
          subst this
          simp
        · simp [hqp] at hq hqph ⊢
          exact I.locEq q op' rest' hq hqph
      · intro k; exact I.ser k
      · intro k
        have h0 := I.acqDone k
        simp only [holderEntry] at h0 ⊢
        rw [h0]
        cases hlk : s.lock k with
        | none => rfl
        | some q =>
          by_cases hqp : q = p
          · subst hqp; simp [hops]
          · simp [upd_ne _ _ hqp]
    | build =>
      have hne : (s.procs p).ph ≠ .acq := by rw [hph]; decide
      rw [step_build _ _ _ op rest hops hph, nextPh_full_build]
      have hl := I.holder p op rest hops hne
      refine ⟨?_, ?_, ?_, ?_, ?_, ?_⟩
      · intro q op' rest' hq hqph
        by_cases hqp : q = p
        · subst hqp
          simp at hq
          rw [hops] at hq
          have : op' = op := by cases hq; rfl
          subst this
          exact hl
        · simp [hqp] at hq hqph
          exact I.holder q op' rest' hq hqph
      · intro k q hk
        obtain ⟨op', rest', h1, h2, h3⟩ := I.owner k q hk
        by_cases hqp : q = p
        · subst hqp
          exact ⟨op', rest', by simpa using h1, h2, by simp⟩
        · exact ⟨op', rest', by simpa [hqp] using h1, h2, by simpa [hqp] using h3⟩
      · intro q op' rest' hq hck hqph
        by_cases hqp : q = p
        · subst hqp
          simp at hq
          rw [hops] at hq
          have : op' = op := by cases hq; rfl
          subst this
          simpa using I.snapEq q op' rest hops hck (Or.inr (Or.inl hph))
        · simp [hqp] at hq hqph ⊢
          exact I.snapEq q op' rest' hq hck hqph
      · intro q op' rest' hq hqph
        by_cases hqp : q = p
        · subst hqp
          simp at hq
          rw [hops] at hq
          have : op' = op := by cases hq; rfl
          subst this
          simpa using I.locEq q op' rest hops (Or.inl hph)
        · simp [hqp] at hq hqph ⊢
          exact I.locEq q op' rest' hq hqph
      · intro k; exact I.ser k
      · intro k
        have h0 := I.acqDone k
        simp only [holderEntry] at h0 ⊢
        rw [h0]
        cases hlk : s.lock k with
        | none => rfl
        | some q =>
          by_cases hqp : q = p
          · subst hqp; simp [hops]
          · simp [upd_ne _ _ hqp]
    | write =>
      have hne : (s.procs p).ph ≠ .acq := by rw [hph]; decide
      rw [step_write _ _ _ op rest hops hph]
      have hloc := I.locEq p op rest hops (Or.inr hph)
      have hw : op.write (s.procs p).snap (s.procs p).loc (s.cell op.key) = op.seq (s.cell op.key) := by
        cases hck : op.isCkpt with
        | true =>
          have := I.snapEq p op rest hops hck (Or.inr (Or.inr hph))
          exact write_eq_seq op _ _ _ (fun _ => this.1) hloc this.2
        | false =>
          exact write_eq_seq op _ _ _ (fun h => by rw [hck] at h; cases h) hloc (noEffect_nonckpt op _ hck)
      rw [hw]
      exact inv_finish I p op rest hops hne

theorem inv_run {c₀ s} (I : Inv c₀ s) (sched : List Pid) : Inv c₀ (run .full s sched) := by
  induction sched generalizing s with
  | nil => exact I
  | cons p rest ih => exact ih (inv_step I p)

/-! ### accounting of completed updates (every mode) -/

structure Acct (P₀ : Pid → List Op) (s : State) : Prop where
  /-- what `p` has completed on cell `k`, followed by what it still has to do there, is its program -/
  prog : ∀ p k, ((s.done k).filter (fun x => decide (x.1 = p))).map (·.2) ++
      ((s.procs p).ops.filter (fun o => decide (o.key = k))) = (P₀ p).filter (fun o => decide (o.key = k))
  /-- completions are recorded at the cell they updated -/
  keyOk : ∀ k x, x ∈ s.done k → x.2.key = k

theorem acct_init (m : Mode) (c₀ : Path → Val) (P₀ : Pid → List Op) : Acct P₀ (init m c₀ P₀) := by
  refine ⟨?_, ?_⟩
  · intro p k; simp [init]
  · intro k x hx; simp [init] at hx

theorem acct_same {P₀ s s'} (A : Acct P₀ s) (hd : s'.done = s.done)
    (ho : ∀ q, (s'.procs q).ops = (s.procs q).ops) : Acct P₀ s' := by
  refine ⟨?_, ?_⟩
  · intro p k; rw [hd, ho]; exact A.prog p k
  · intro k x hx; rw [hd] at hx; exact A.keyOk k x hx

theorem acct_finish {P₀ s} (A : Acct P₀ s) (m : Mode) (p : Pid) (op : Op) (rest : List Op)
    (cell : Path → Val) (h : (s.procs p).ops = op :: rest) :
    Acct P₀ (finish m s p (s.procs p) op rest cell) := by
  refine ⟨?_, ?_⟩
  · intro q k
    have h0 := A.prog q k
    by_cases hk : k = op.key
    · subst hk
      by_cases hq : q = p
      · subst hq
        rw [h] at h0
        simp only [finish, upd_same, startProc_ops]
        simp only [List.filter_append, List.map_append]
        simpa using h0
      · have hq' : ¬ p = q := fun e => hq e.symm
        simp only [finish, upd_same, upd_ne _ _ hq]
        simp only [List.filter_append, List.map_append]
        simpa [hq'] using h0
    · by_cases hq : q = p
      · subst hq
        rw [h] at h0
        have hk' : ¬ op.key = k := fun e => hk e.symm
        simp only [finish, upd_ne _ _ hk, upd_same, startProc_ops]
        simpa [hk'] using h0
      · simp only [finish, upd_ne _ _ hk, upd_ne _ _ hq]
        exact h0
  · intro k x hx
    by_cases hk : k = op.key
    · subst hk
      simp only [finish, upd_same, List.mem_append, List.mem_singleton] at hx
      rcases hx with hx | hx
      · exact A.keyOk _ x hx
      · subst hx; rfl
    · simp only [finish, upd_ne _ _ hk] at hx
      exact A.keyOk k x hx

theorem acct_step {P₀ s} (A : Acct P₀ s) (m : Mode) (p : Pid) : Acct P₀ (step m s p) := by
  have same : ∀ (pr' : Proc), pr'.ops = (s.procs p).ops → ∀ q, (upd s.procs p pr' q).ops = (s.procs q).ops := by
    intro pr' hpr q
    by_cases hq : q = p
    · subst hq; simpa using hpr
    · simp [upd_ne _ _ hq]
  cases hops : (s.procs p).ops with
  | nil => rw [step_idle _ _ _ hops]; exact A
  | cons op rest =>
    cases hph : (s.procs p).ph with
    | acq =>
      cases hl : s.lock op.key with
      | some q => rw [step_blocked _ _ _ q op rest hops hph hl]; exact A
      | none =>
        rw [step_acq _ _ _ op rest hops hph hl]
        exact acct_same A rfl (same _ rfl)
    | snap =>
      cases hn : op.noEffect (s.cell op.key) with
      | true => rw [step_snap_noop _ _ _ op rest hops hph hn]; exact acct_finish A m p op rest _ hops
      | false => rw [step_snap _ _ _ op rest hops hph hn]; exact acct_same A rfl (same _ rfl)
    | read => rw [step_read _ _ _ op rest hops hph]; exact acct_same A rfl (same _ rfl)
    | build => rw [step_build _ _ _ op rest hops hph]; exact acct_same A rfl (same _ rfl)
    | write => rw [step_write _ _ _ op rest hops hph]; exact acct_finish A m p op rest _ hops

theorem acct_run {P₀ s} (A : Acct P₀ s) (m : Mode) (sched : List Pid) : Acct P₀ (run m s sched) := by
  induction sched generalizing s with
  | nil => exact A
  | cons p rest ih => exact ih (acct_step A m p)

/-! ### steps are local: a step touches one process and one cell -/

/-- the part of the state a step of `p` on cell `k` reads and writes -/
structure Loc where
  cell : Val
  lock : Option Pid
  proc : Proc
  done : List (Pid × Op)
  acqd : List (Pid × Op)

def getLoc (s : State) (p : Pid) (k : Path) : Loc := ⟨s.cell k, s.lock k, s.procs p, s.done k, s.acqd k⟩

def putLoc (s : State) (p : Pid) (k : Path) (l : Loc) : State :=
  { cell := upd s.cell k l.cell, lock := upd s.lock k l.lock, procs := upd s.procs p l.proc,
    done := upd s.done k l.done, acqd := upd s.acqd k l.acqd }

theorem putLoc_getLoc (s : State) (p : Pid) (k : Path) : putLoc s p k (getLoc s p k) = s := by
  simp [putLoc, getLoc, upd_self]

/-- the step of `p` (current update `op`, the others `rest`) as a function of that part only -/
def localStep (m : Mode) (p : Pid) (op : Op) (rest : List Op) (l : Loc) : Loc :=
  let fin (c : Val) : Loc :=
    ⟨c, if l.lock = some p then none else l.lock, startProc m rest l.proc.snap l.proc.loc, l.done ++ [(p, op)], l.acqd⟩
  match l.proc.ph with
  | .acq => match l.lock with
    | some _ => l
    | none => { l with lock := some p, acqd := l.acqd ++ [(p, op)], proc := { l.proc with ph := nextPh m op .acq } }
  | .snap => if op.noEffect l.cell then fin l.cell
             else { l with proc := { l.proc with snap := l.cell, ph := nextPh m op .snap } }
  | .read => { l with proc := { l.proc with loc := l.cell, ph := nextPh m op .read } }
  | .build => { l with proc := { l.proc with ph := nextPh m op .build } }
  | .write => fin (op.write l.proc.snap l.proc.loc l.cell)

theorem step_local (m : Mode) (s : State) (p : Pid) (op : Op) (rest : List Op)
    (h : (s.procs p).ops = op :: rest) :
    step m s p = putLoc s p op.key (localStep m p op rest (getLoc s p op.key)) := by
  cases hph : (s.procs p).ph with
  | acq =>
    cases hl : s.lock op.key with
    | some q =>
      rw [step_blocked _ _ _ q op rest h hph hl]
      have e : localStep m p op rest (getLoc s p op.key) = getLoc s p op.key := by
        simp [localStep, getLoc, hph, hl]
      rw [e]
      exact (putLoc_getLoc s p op.key).symm
    | none =>
      rw [step_acq _ _ _ op rest h hph hl]
      simp [localStep, getLoc, putLoc, hph, hl, upd_self]
  | snap =>
    cases hn : op.noEffect (s.cell op.key) with
    | true =>
      rw [step_snap_noop _ _ _ op rest h hph hn]
      simp only [localStep, getLoc, putLoc, hph, hn, finish, upd_self, if_true]
      by_cases hl : s.lock op.key = some p
      · simp [hl]
      · simp [hl, upd_self]
    | false =>
      rw [step_snap _ _ _ op rest h hph hn]
      simp [localStep, getLoc, putLoc, hph, hn, upd_self]
  | read =>
    rw [step_read _ _ _ op rest h hph]
    simp [localStep, getLoc, putLoc, hph, upd_self]
  | build =>
    rw [step_build _ _ _ op rest h hph]
    simp [localStep, getLoc, putLoc, hph, upd_self]
  | write =>
    rw [step_write _ _ _ op rest h hph]
    simp only [localStep, getLoc, putLoc, hph, finish]
    by_cases hl : s.lock op.key = some p
    · simp [hl, upd_self]
    · simp [hl, upd_self]

theorem putLoc_comm (s : State) {p q : Pid} {k k' : Path} (l l' : Loc) (hpq : p ≠ q) (hk : k ≠ k') :
    putLoc (putLoc s p k l) q k' l' = putLoc (putLoc s q k' l') p k l := by
  simp only [putLoc]
  rw [upd_comm s.cell _ _ hk, upd_comm s.lock _ _ hk, upd_comm s.procs _ _ hpq,
      upd_comm s.done _ _ hk, upd_comm s.acqd _ _ hk]

theorem getLoc_putLoc_ne (s : State) {p q : Pid} {k k' : Path} (l : Loc) (hpq : q ≠ p) (hk : k' ≠ k) :
    getLoc (putLoc s p k l) q k' = getLoc s q k' := by
  simp [getLoc, putLoc, upd_ne _ _ hpq, upd_ne _ _ hk]

/-- steps of two processes whose current updates are on different cells commute -/
theorem step_comm (m : Mode) (s : State) (p q : Pid) (hpq : p ≠ q)
    (hk : ∀ op rest op' rest', (s.procs p).ops = op :: rest → (s.procs q).ops = op' :: rest' → op.key ≠ op'.key) :
    step m (step m s p) q = step m (step m s q) p := by
  have hqp : q ≠ p := fun e => hpq e.symm
  cases hp : (s.procs p).ops with
  | nil =>
    rw [step_idle m s p hp]
    have : ((step m s q).procs p).ops = [] := by
      cases hq : (s.procs q).ops with
      | nil => rw [step_idle m s q hq]; exact hp
      | cons op' rest' =>
        rw [step_local m s q op' rest' hq]
        simp [putLoc, upd_ne _ _ hpq, hp]
    rw [step_idle m _ p this]
  | cons op rest =>
    cases hq : (s.procs q).ops with
    | nil =>
      rw [step_idle m s q hq]
      have : ((step m s p).procs q).ops = [] := by
        rw [step_local m s p op rest hp]
        simp [putLoc, upd_ne _ _ hqp, hq]
      rw [step_idle m _ q this]
    | cons op' rest' =>
      have hkk : op.key ≠ op'.key := hk op rest op' rest' hp hq
      have hkk' : op'.key ≠ op.key := fun e => hkk e.symm
      have e1 : step m s p = putLoc s p op.key (localStep m p op rest (getLoc s p op.key)) := step_local m s p op rest hp
      have e2 : step m s q = putLoc s q op'.key (localStep m q op' rest' (getLoc s q op'.key)) := step_local m s q op' rest' hq
      have hq1 : ((step m s p).procs q).ops = op' :: rest' := by
        rw [e1]; simp [putLoc, upd_ne _ _ hqp, hq]
      have hp2 : ((step m s q).procs p).ops = op :: rest := by
        rw [e2]; simp [putLoc, upd_ne _ _ hpq, hp]
      rw [step_local m _ q op' rest' hq1, step_local m _ p op rest hp2]
      rw [e1, e2, getLoc_putLoc_ne s _ hqp hkk', getLoc_putLoc_ne s _ hpq hkk]
      exact putLoc_comm s _ _ hpq hkk

/-! ### what a serial run leaves in a journal -/

/-- an entry / item without the prunable char-level detail -/
def Entry.core (e : Entry) : Entry := { e with fine := true }
def Item.core (i : Item) : Item := { i with entries := i.entries.map Entry.core }

theorem prune_core (j : List Item) : (prune j).map Item.core = j.map Item.core := by
  unfold prune
  rw [List.map_map]
  have : (Item.core ∘ fun (p : Item × Nat) =>
      { p.1 with entries := p.1.entries.map fun e =>
          if newestIdx j e.file = some p.2 then e else { e with fine := false } }) = Item.core ∘ Prod.fst := by
    funext p
    simp only [Function.comp, Item.core, List.map_map]
    congr 1
    apply List.map_congr_left
    intro e _
    simp only [Function.comp, Entry.core]
    split <;> rfl
  rw [this, ← List.map_map, List.zipIdx_map_fst]

/-- the items a serial run appends, each as computed when its turn came -/
def appended : Val → List (Pid × Op) → List Item
  | _, [] => []
  | v, (_, op) :: rest =>
    (match op with
     | .ckpt _ id a edits => if op.noEffect v then [] else [mkItem v.items id a edits]
     | _ => []) ++ appended (op.seq v) rest

theorem seqRun_cons (v : Val) (x : Pid × Op) (l : List (Pid × Op)) : seqRun v (x :: l) = seqRun (x.2.seq v) l := rfl

theorem seq_journal_cores (j : List Item) (ops : List (Pid × Op)) (hck : ∀ x ∈ ops, x.2.isCkpt = true) :
    (seqRun (.journal j) ops).items.map Item.core = j.map Item.core ++ (appended (.journal j) ops).map Item.core := by
  induction ops generalizing j with
  | nil => simp [seqRun, appended, Val.items]
  | cons x rest ih =>
    obtain ⟨p, op⟩ := x
    have hop := hck (p, op) (by simp)
    have hrest : ∀ x ∈ rest, x.2.isCkpt = true := fun x hx => hck x (by simp [hx])
    cases op with
    | ckpt k id a edits =>
      rw [seqRun_cons]
      simp only [appended]
      cases hn : (Op.ckpt k id a edits).noEffect (.journal j) with
      | true =>
        have hs : (Op.ckpt k id a edits).seq (.journal j) = .journal j := by simp [Op.seq, hn]
        rw [hs, ih j hrest]
        simp
      | false =>
        have hs : (Op.ckpt k id a edits).seq (.journal j) = .journal (prune (j ++ [mkItem j id a edits])) := by
          simp [Op.seq, hn, Op.write, Val.items]
        rw [hs, ih _ hrest, prune_core]
        simp [Val.items]
    | rw k ev => simp [Op.isCkpt] at hop
    | noteAdd k id c n => simp [Op.isCkpt] at hop
    | noteBatch k id es => simp [Op.isCkpt] at hop

/-! ### what a serial run leaves in the notes -/

theorem get_put (m : List (Nat × Nat)) (c n c' : Nat) :
    get (put m c n) c' = if c' = c then some n else get m c' := by
  unfold put
  by_cases h : c' = c
  · simp [get, h]
  · simp only [get, h, if_false]
    induction m with
    | nil => simp [get]
    | cons x m ih =>
      obtain ⟨a, b⟩ := x
      by_cases ha : a = c
      · subst ha
        simp [List.filter, get, h, ih]
      · have : (!(a == c)) = true := by simp [ha]
        simp only [List.filter, this, get]
        by_cases hc : c' = a
        · simp [hc]
        · simp [hc, ih]

/-- the note of `c` after `putAll`: the last pair for `c`, else what was there -/
theorem get_putAll (m ws : List (Nat × Nat)) (c : Nat) :
    get (putAll m ws) c = match ws.reverse.find? (fun p => p.1 == c) with
      | some p => some p.2
      | none => get m c := by
  induction ws generalizing m with
  | nil => simp [putAll]
  | cons w rest ih =>
    obtain ⟨c', n'⟩ := w
    simp only [putAll, List.reverse_cons, List.find?_append]
    rw [ih]
    cases hf : rest.reverse.find? (fun p => p.1 == c) with
    | some p => simp
    | none =>
      simp only [Option.none_or, get_put]
      by_cases h : c = c'
      · subst h; simp
      · have : ¬ c' = c := fun e => h e.symm
        simp [h, this]

/-- the (commit, note) pairs an update writes -/
def Op.pairs : Op → List (Nat × Nat)
  | .noteAdd _ _ c n => [(c, n)]
  | .noteBatch _ _ es => es
  | _ => []

def Op.isNote : Op → Bool
  | .noteAdd .. | .noteBatch .. => true
  | _ => false

theorem seq_notes_map (t : Nat) (m : List (Nat × Nat)) (ops : List (Pid × Op)) (hn : ∀ x ∈ ops, x.2.isNote = true) :
    (seqRun (.notes t m) ops).map = putAll m (ops.flatMap (fun x => x.2.pairs)) := by
  induction ops generalizing t m with
  | nil => simp [seqRun, putAll, Val.map]
  | cons x rest ih =>
    obtain ⟨p, op⟩ := x
    have hop := hn (p, op) (by simp)
    have hrest : ∀ x ∈ rest, x.2.isNote = true := fun x hx => hn x (by simp [hx])
    have pa : ∀ (a b : List (Nat × Nat)) (m : List (Nat × Nat)), putAll m (a ++ b) = putAll (putAll m a) b := by
      intro a
      induction a with
      | nil => intro b m; rfl
      | cons w a iha => intro b m; obtain ⟨c, n⟩ := w; simp [putAll, iha]
    cases op with
    | ckpt k id a e => simp [Op.isNote] at hop
    | rw k ev => simp [Op.isNote] at hop
    | noteAdd k id c n =>
      rw [seqRun_cons]
      have hs : (Op.noteAdd k id c n).seq (.notes t m) = .notes id (put m c n) := by
        simp [Op.seq, Op.noEffect, Op.write, Val.map]
      rw [hs, ih _ _ hrest]
      simp [List.flatMap_cons, Op.pairs, putAll]
    | noteBatch k id es =>
      rw [seqRun_cons]
      have hs : (Op.noteBatch k id es).seq (.notes t m) = .notes id (putAll m es) := by
        simp [Op.seq, Op.noEffect, Op.write, Val.map, Val.tip]
      rw [hs, ih _ _ hrest]
      simp [List.flatMap_cons, Op.pairs, pa]

/-! ### where the cells live -/

theorem stripPrefix_append (p q : Path) : stripPrefix p (p ++ q) = some q := by
  induction p with
  | nil => rfl
  | cons a p ih => simp [stripPrefix, ih]

theorem aiDir_main (c : Path) : aiDir c c = c ++ [sAi] := by simp [aiDir]

theorem aiDir_linked (c rel : Path) (h : rel ≠ []) :
    aiDir (c ++ [sWorktrees] ++ rel) c = c ++ [sAi, sWorktrees] ++ rel := by
  have hne : ¬ (c ++ [sWorktrees] ++ rel = c) := by
    intro e
    have := congrArg List.length e
    simp at this
  unfold aiDir
  rw [if_neg hne, stripPrefix_append]
  simp [h]

/-! ### what a serial run leaves in a rewrite log -/

theorem take_append_take (a b : List Nat) (M : Nat) : (a ++ b.take M).take M = (a ++ b).take M := by
  rw [List.take_append, List.take_append, List.take_take]
  congr 2
  omega

def Op.isRw : Op → Bool
  | .rw .. => true
  | _ => false

def Op.ev : Op → Nat
  | .rw _ e => e
  | _ => 0

theorem seq_rlog (l : List Nat) (ops : List (Pid × Op)) (h : ∀ x ∈ ops, x.2.isRw = true)
    (hl : l.length ≤ maxEvents) :
    (seqRun (.rlog l) ops).events = ((ops.map (fun x => x.2.ev)).reverse ++ l).take maxEvents := by
  induction ops generalizing l with
  | nil => simp [seqRun, Val.events, List.take_of_length_le hl]
  | cons x rest ih =>
    obtain ⟨p, op⟩ := x
    have hop := h (p, op) (by simp)
    have hrest : ∀ x ∈ rest, x.2.isRw = true := fun x hx => h x (by simp [hx])
    cases op with
    | ckpt k id a e => simp [Op.isRw] at hop
    | noteAdd k id c n => simp [Op.isRw] at hop
    | noteBatch k id es => simp [Op.isRw] at hop
    | rw k ev =>
      rw [seqRun_cons]
      have hs : (Op.rw k ev).seq (.rlog l) = .rlog ((ev :: l).take maxEvents) := by
        simp [Op.seq, Op.noEffect, Op.write, Val.events, List.take_of_length_le hl]
      rw [hs, ih _ hrest (List.length_take_le _ _)]
      simp only [List.map_cons, List.reverse_cons, Op.ev, List.append_assoc, List.singleton_append]
      exact take_append_take _ _ _

/-! ### the `tbl` discipline whose table has every lock before the read IS the `full` discipline -/

theorem pos_ok {t : LockTable} (h : t.ok) (op : Op) : t.pos op = .beforeRead := by
  cases op <;> simp [LockTable.pos, h.1, h.2]

theorem lockLate_tbl_ok {t : LockTable} (h : t.ok) (op : Op) : Mode.lockLate (.tbl t) op = false := by
  simp [Mode.lockLate, pos_ok h]

theorem firstPh_tbl_ok {t : LockTable} (h : t.ok) (op : Op) : firstPh (.tbl t) op = firstPh .full op := by
  simp [firstPh, pos_ok h]

theorem nextPh_tbl_ok {t : LockTable} (h : t.ok) (op : Op) (ph : Phase) :
    nextPh (.tbl t) op ph = nextPh .full op ph := by
  have e1 : (Mode.tbl t == Mode.append) = false := by
    cases hd : (Mode.tbl t == Mode.append) with
    | false => rfl
    | true => exact absurd (eq_of_beq hd) (by intro e; cases e)
  have e2 : (Mode.full == Mode.append) = false := by decide
  cases ph <;> simp [nextPh, afterBuild, lockLate_tbl_ok h, Mode.ckptEarly, e1, e2]

theorem startProc_tbl_ok {t : LockTable} (h : t.ok) (ops : List Op) (a b : Val) :
    startProc (.tbl t) ops a b = startProc .full ops a b := by
  cases ops <;> simp [startProc, firstPh_tbl_ok h]

theorem finish_tbl_ok {t : LockTable} (h : t.ok) (s : State) (p : Pid) (pr : Proc) (op : Op) (rest : List Op)
    (cell : Path → Val) : finish (.tbl t) s p pr op rest cell = finish .full s p pr op rest cell := by
  simp [finish, startProc_tbl_ok h]

theorem step_tbl_ok {t : LockTable} (h : t.ok) (s : State) (p : Pid) : step (.tbl t) s p = step .full s p := by
  cases hops : (s.procs p).ops with
  | nil => rw [step_idle _ _ _ hops, step_idle _ _ _ hops]
  | cons op rest =>
    cases hph : (s.procs p).ph with
    | acq =>
      cases hl : s.lock op.key with
      | some q => rw [step_blocked _ _ _ q op rest hops hph hl, step_blocked _ _ _ q op rest hops hph hl]
      | none => rw [step_acq _ _ _ op rest hops hph hl, step_acq _ _ _ op rest hops hph hl, nextPh_tbl_ok h]
    | snap =>
      cases hn : op.noEffect (s.cell op.key) with
      | true => rw [step_snap_noop _ _ _ op rest hops hph hn, step_snap_noop _ _ _ op rest hops hph hn, finish_tbl_ok h]
      | false => rw [step_snap _ _ _ op rest hops hph hn, step_snap _ _ _ op rest hops hph hn, nextPh_tbl_ok h]
    | read => rw [step_read _ _ _ op rest hops hph, step_read _ _ _ op rest hops hph, nextPh_tbl_ok h]
    | build => rw [step_build _ _ _ op rest hops hph, step_build _ _ _ op rest hops hph, nextPh_tbl_ok h]
    | write => rw [step_write _ _ _ op rest hops hph, step_write _ _ _ op rest hops hph, finish_tbl_ok h]

theorem run_tbl_ok {t : LockTable} (h : t.ok) (s : State) (sched : List Pid) :
    run (.tbl t) s sched = run .full s sched := by
  induction sched generalizing s with
  | nil => rfl
  | cons p rest ih =>
    show run (.tbl t) (step (.tbl t) s p) rest = run .full (step .full s p) rest
    rw [step_tbl_ok h, ih]

theorem init_tbl_ok {t : LockTable} (h : t.ok) (c₀ : Path → Val) (P₀ : Pid → List Op) :
    init (.tbl t) c₀ P₀ = init .full c₀ P₀ := by
  simp [init, startProc_tbl_ok h]

/-! ### from the extracted statement order to the table -/

theorem pos_of_lockReadWrite (w : NotesWriter) (h : w.lockReadWrite = true) : w.pos = .beforeRead := by
  simp only [NotesWriter.lockReadWrite, Bool.and_eq_true, decide_eq_true_eq] at h
  obtain ⟨⟨⟨hh, h1⟩, h2⟩, h3⟩ := h
  have hn : ¬ w.events.length ≤ idxOf .lock w.events := by omega
  have hw : idxOf .lock w.events < idxOf .write w.events := by omega
  simp [NotesWriter.pos, hh, hn, h1, hw]

theorem foldl_meet_ok (l : List NotesWriter) (h : ∀ w ∈ l, w.pos = .beforeRead) :
    l.foldl (fun (a : LockPos) w => a.meet w.pos) LockPos.beforeRead = LockPos.beforeRead := by
  induction l with
  | nil => rfl
  | cons w l ih =>
    simp only [List.foldl_cons]
    rw [h w (by simp)]
    exact ih (fun x hx => h x (by simp [hx]))

theorem classPos_ok (ws : List NotesWriter) (c : WClass) (h : ∀ w ∈ ws, w.lockReadWrite = true) :
    classPos ws c = .beforeRead := by
  apply foldl_meet_ok
  intro w hw
  exact pos_of_lockReadWrite w (h w (List.mem_filter.mp hw).1)

/-- every notes writer takes the lock before it reads and reads before it writes ⟹ the table is `ok` -/
theorem tableOf_ok (ws : List NotesWriter) (h : ∀ w ∈ ws, w.lockReadWrite = true) : (tableOf ws).ok :=
  ⟨classPos_ok ws .blind h, classPos_ok ws .cas h⟩

/-! ### a note written by exactly one writer is that writer's -/

theorem find?_unique {l : List (Nat × Nat)} {c n : Nat} (hm : (c, n) ∈ l)
    (hu : ∀ x ∈ l, x.1 = c → x = (c, n)) : l.find? (fun p => p.1 == c) = some (c, n) := by
  induction l with
  | nil => cases hm
  | cons x l ih =>
    by_cases hx : x.1 = c
    · have := hu x (by simp) hx
      subst this
      simp
    · have hb : (x.1 == c) = false := by simp [hx]
      rw [List.find?_cons, hb]
      apply ih
      · rcases List.mem_cons.mp hm with e | e
        · subst e; exact absurd rfl hx
        · exact e
      · intro y hy; exact hu y (by simp [hy])

theorem find?_isSome_of_mem {l : List (Nat × Nat)} {c n : Nat} (hm : (c, n) ∈ l) :
    ∃ n', (l.find? (fun p => p.1 == c)).map (·.2) = some n' := by
  cases hf : l.find? (fun p => p.1 == c) with
  | some p => exact ⟨p.2, rfl⟩
  | none =>
    have := List.find?_eq_none.mp hf (c, n) hm
    simp at this

end GitAi.Conc
