/-
  Lemmas/DiffParse.lean — the hunk-header parser on rendered headers, and the reference
  renderer of `git diff -U0` output ("git kernel": what git prints for a list of file diffs).
-/
import GitAiModel.Model.DiffParse
import GitAiModel.Lemmas.Text
import GitAiModel.Lemmas.Digits
namespace GitAi.DiffParse
open GitAi

/-! ### reference renderer -/

structure Hunk where
  oldStart : Nat
  oldCount : Nat
  newStart : Nat
  newCount : Nat
  omitOld : Bool           -- git omits ",count" when the count is 1
  omitNew : Bool
  heading : Str            -- function context after the closing @@ (arbitrary text)
  oldLines : List Str      -- removed content lines (arbitrary text, may look like headers)
  newLines : List Str      -- added content lines
  markOld : Bool           -- "\ No newline at end of file" after the removed block
  markNew : Bool
  deriving Repr

def numTok (s c : Nat) (om : Bool) : Str :=
  if om then natToStr s else natToStr s ++ ',' :: natToStr c

def headerLine (h : Hunk) : Str :=
  '@' :: '@' :: ' ' :: '-' :: (numTok h.oldStart h.oldCount h.omitOld ++
    ' ' :: '+' :: (numTok h.newStart h.newCount h.omitNew ++ ' ' :: '@' :: '@' :: h.heading))

def marker : Str := '\\' :: ' ' :: "No newline at end of file".toList

def bodyLines (h : Hunk) : List Str :=
  h.oldLines.map ('-' :: ·) ++ (if h.markOld then [marker] else []) ++
  h.newLines.map ('+' :: ·) ++ (if h.markNew then [marker] else [])

def renderHunk (h : Hunk) : List Str := headerLine h :: bodyLines h

structure Hunk.Wf (h : Hunk) : Prop where
  lenOld : h.oldLines.length = h.oldCount
  lenNew : h.newLines.length = h.newCount
  omitOld1 : h.omitOld = true → h.oldCount = 1
  omitNew1 : h.omitNew = true → h.newCount = 1
  oldCount32 : h.oldCount < 4294967296
  newStart32 : h.newStart < 4294967296
  newCount32 : h.newCount < 4294967296
  noOverflow : h.newStart + h.newCount ≤ 4294967295

/-! ### string lemmas for the header -/

theorem splitAtAt_noat (x : Str) (h : '@' ∉ x) : splitAtAt x = [x] := by
  induction x with
  | nil => simp [splitAtAt]
  | cons c cs ih =>
    have hc : c ≠ '@' := fun e => h (by simp [e])
    have hcs : '@' ∉ cs := fun e => h (by simp [e])
    rw [splitAtAt]
    · simp [ih hcs]
    · intro r he _; exact hc he

theorem splitAtAt_append (x rest : Str) (h : '@' ∉ x) :
    splitAtAt (x ++ '@' :: '@' :: rest) = x :: splitAtAt rest := by
  induction x with
  | nil => simp [splitAtAt]
  | cons c cs ih =>
    have hc : c ≠ '@' := fun e => h (by simp [e])
    have hcs : '@' ∉ cs := fun e => h (by simp [e])
    show splitAtAt (c :: (cs ++ '@' :: '@' :: rest)) = _
    rw [splitAtAt]
    · simp [ih hcs]
    · intro r he _; exact hc he

theorem dropLeading_of_head (p : Char → Bool) (c : Char) (cs : Str) (h : p c = false) :
    dropLeading p (c :: cs) = c :: cs := by simp [dropLeading, h]

/-- a whitespace-free non-empty token -/
def Tok (t : Str) : Prop := t ≠ [] ∧ ∀ c ∈ t, isWhitespace c = false

theorem splitBy_ne_nil (p : Char → Bool) (s : Str) : splitBy p s ≠ [] := by
  induction s with
  | nil => simp [splitBy]
  | cons c cs ih =>
    unfold splitBy
    split
    · simp
    · split <;> simp

theorem splitBy_none (p : Char → Bool) (t : Str) (h : ∀ c ∈ t, p c = false) : splitBy p t = [t] := by
  induction t with
  | nil => simp [splitBy]
  | cons c cs ih =>
    have hc := h c (by simp)
    simp [splitBy, hc, ih (fun x hx => h x (by simp [hx]))]

theorem splitBy_append (p : Char → Bool) (t rest : Str) (sep : Char) (h : ∀ c ∈ t, p c = false)
    (hs : p sep = true) : splitBy p (t ++ sep :: rest) = t :: splitBy p rest := by
  induction t with
  | nil => simp [splitBy, hs]
  | cons c cs ih =>
    have hc := h c (by simp)
    simp [splitBy, hc, ih (fun x hx => h x (by simp [hx]))]

theorem splitWs_tok (t : Str) (h : Tok t) : splitWs t = [t] := by
  obtain ⟨hne, hws⟩ := h
  unfold splitWs
  rw [splitBy_none _ _ hws]
  cases t with
  | nil => exact absurd rfl hne
  | cons _ _ => simp

theorem splitWs_tok_space (t rest : Str) (h : Tok t) :
    splitWs (t ++ ' ' :: rest) = t :: splitWs rest := by
  obtain ⟨hne, hws⟩ := h
  unfold splitWs
  rw [splitBy_append _ _ _ _ hws (by decide)]
  cases t with
  | nil => exact absurd rfl hne
  | cons _ _ => simp

theorem natToStr_tok (n : Nat) : Tok (natToStr n) := by
  refine ⟨natToStr_ne_nil n, ?_⟩
  intro c hc
  obtain ⟨d, hd, rfl⟩ := natToStr_all_digit n c hc
  exact (digitChar_props ⟨d, hd⟩).2.2.2.2.2.2.2.2

theorem natToStr_no_at (n : Nat) : '@' ∉ natToStr n :=
  natToStr_not_mem n _ (by decide)

theorem numTok_tok (s c : Nat) (o : Bool) : Tok (numTok s c o) := by
  unfold numTok
  split
  · exact natToStr_tok s
  · refine ⟨by simp, ?_⟩
    intro x hx
    simp only [List.mem_append, List.mem_cons] at hx
    rcases hx with hx | rfl | hx
    · exact (natToStr_tok s).2 x hx
    · decide
    · exact (natToStr_tok c).2 x hx

theorem numTok_no_at (s c : Nat) (o : Bool) : '@' ∉ numTok s c o := by
  unfold numTok
  split
  · exact natToStr_no_at s
  · simp only [List.mem_append, List.mem_cons, not_or]
    exact ⟨natToStr_no_at s, by decide, natToStr_no_at c⟩

/-- head of a rendered number is a digit: not '-', not '+' -/
theorem natToStr_head (n : Nat) : ∃ d r, natToStr n = d :: r ∧ d ≠ '-' ∧ d ≠ '+' := by
  cases h : natToStr n with
  | nil => exact absurd h (natToStr_ne_nil n)
  | cons d r =>
    refine ⟨d, r, rfl, ?_, ?_⟩
    · intro e; subst e
      exact natToStr_no_dash n (by rw [h]; simp)
    · intro e; subst e
      exact natToStr_not_mem n '+' (by decide) (by rw [h]; simp)

theorem numTok_head (s c : Nat) (o : Bool) : ∃ d r, numTok s c o = d :: r ∧ d ≠ '-' ∧ d ≠ '+' := by
  obtain ⟨d, r, h, h1, h2⟩ := natToStr_head s
  unfold numTok
  split
  · exact ⟨d, r, h, h1, h2⟩
  · exact ⟨d, r ++ ',' :: natToStr c, by simp [h], h1, h2⟩

/-- the count a rendered `start[,count]` token denotes -/
theorem splitOn_numTok (s c : Nat) (o : Bool) :
    splitOn ',' (numTok s c o) = if o then [natToStr s] else [natToStr s, natToStr c] := by
  cases o with
  | true => simp [numTok, splitOn_nosep _ _ (natToStr_no_comma s)]
  | false =>
    simp only [numTok, Bool.false_eq_true, if_false]
    rw [splitOn_append_sep _ _ _ (natToStr_no_comma s), splitOn_nosep _ _ (natToStr_no_comma c)]

/-- count denoted by the parts of a rendered token: second part, or 1 when omitted -/
theorem count_of_numTok (s c : Nat) (o : Bool) (hc : c < 4294967296) (ho : o = true → c = 1) :
    (match splitOn ',' (numTok s c o) with
      | _ :: x :: _ => parseU32 x
      | _ => some 1) = some c := by
  rw [splitOn_numTok]
  cases o with
  | true => simp [ho rfl]
  | false => simp [parseU32_natToStr c hc]

theorem trimEnd_append_space (a : Str) (c : Char) (h : a.getLast? = some c) (hc : isWhitespace c = false) :
    trimEnd (a ++ [' ']) = a := by
  unfold trimEnd
  induction a with
  | nil => simp at h
  | cons x xs ih =>
    cases xs with
    | nil =>
      simp at h
      subst h
      have hsp : isWhitespace ' ' = true := by decide
      simp [dropTrailing, hc, hsp]
    | cons y ys =>
      have ih' := ih (by simpa [List.getLast?_cons_cons] using h)
      show dropTrailing isWhitespace (x :: ((y :: ys) ++ [' '])) = _
      unfold dropTrailing
      rw [ih']

theorem tok_getLast (t : Str) (h : Tok t) : ∃ c, t.getLast? = some c ∧ isWhitespace c = false := by
  obtain ⟨hne, hws⟩ := h
  cases hl : t.getLast? with
  | none => simp at hl; exact absurd hl hne
  | some c => exact ⟨c, rfl, hws c (getLast?_mem _ _ hl)⟩

/-- **hunk header.** The parser recovers (old_count, new_start, new_count) from every rendered
    header, whatever the heading text after the closing `@@` is. -/
theorem parseHunkRanges_headerLine (h : Hunk) (wf : h.Wf) :
    parseHunkRanges (headerLine h) = some (h.oldCount, h.newStart, h.newCount) := by
  -- abbreviations
  generalize hA : numTok h.oldStart h.oldCount h.omitOld = A
  generalize hB : numTok h.newStart h.newCount h.omitNew = B
  have hAtok : Tok A := hA ▸ numTok_tok _ _ _
  have hBtok : Tok B := hB ▸ numTok_tok _ _ _
  have hAat : '@' ∉ A := hA ▸ numTok_no_at _ _ _
  have hBat : '@' ∉ B := hB ▸ numTok_no_at _ _ _
  -- the info part between the two @@
  let X : Str := ' ' :: '-' :: (A ++ ' ' :: '+' :: (B ++ [' ']))
  have hline : headerLine h = '@' :: '@' :: (X ++ '@' :: '@' :: h.heading) := by
    simp [headerLine, hA, hB, X, List.append_assoc]
  have hXat : '@' ∉ X := by
    simp only [X, List.mem_cons, List.mem_append, not_or]
    refine ⟨by decide, by decide, hAat, by decide, by decide, hBat, ?_⟩
    simp
  have hsplit : splitAtAt (headerLine h) = [] :: X :: splitAtAt h.heading := by
    rw [hline]
    show splitAtAt ('@' :: '@' :: (X ++ '@' :: '@' :: h.heading)) = _
    rw [splitAtAt, splitAtAt_append X _ hXat]
  -- trim X = "-A +B"
  obtain ⟨cb, hcb, hcbw⟩ := tok_getLast B hBtok
  have htrim : trim X = '-' :: (A ++ ' ' :: '+' :: B) := by
    unfold trim
    have h1 : dropLeading isWhitespace X = '-' :: (A ++ ' ' :: '+' :: (B ++ [' '])) := by
      simp only [X, dropLeading]
      have : isWhitespace ' ' = true := by decide
      have h2 : isWhitespace '-' = false := by decide
      simp [this, h2]
    rw [h1]
    have : '-' :: (A ++ ' ' :: '+' :: (B ++ [' '])) = ('-' :: (A ++ ' ' :: '+' :: B)) ++ [' '] := by simp
    rw [this]
    apply trimEnd_append_space _ cb
    · apply getLast?_cons_of_some
      apply getLast?_append_of_some
      apply getLast?_cons_of_some
      exact getLast?_cons_of_some _ _ _ hcb
    · exact hcbw
  -- tokens
  have hdashA : Tok ('-' :: A) := ⟨by simp, by
    intro c hc; simp at hc; rcases hc with rfl | hc
    · decide
    · exact hAtok.2 c hc⟩
  have hplusB : Tok ('+' :: B) := ⟨by simp, by
    intro c hc; simp at hc; rcases hc with rfl | hc
    · decide
    · exact hBtok.2 c hc⟩
  have htoks : splitWs (trim X) = ['-' :: A, '+' :: B] := by
    rw [htrim]
    show splitWs (('-' :: A) ++ ' ' :: ('+' :: B)) = _
    rw [splitWs_tok_space _ _ hdashA, splitWs_tok _ hplusB]
  obtain ⟨da, ra, hAeq, hda1, hda2⟩ : ∃ d r, A = d :: r ∧ d ≠ '-' ∧ d ≠ '+' := hA ▸ numTok_head _ _ _
  obtain ⟨db, rb, hBeq, hdb1, hdb2⟩ : ∃ d r, B = d :: r ∧ d ≠ '-' ∧ d ≠ '+' := hB ▸ numTok_head _ _ _
  have hfindOld : findStarting '-' ['-' :: A, '+' :: B] = some ('-' :: A) := by simp [findStarting]
  have hfindNew : findStarting '+' ['-' :: A, '+' :: B] = some ('+' :: B) := by simp [findStarting]
  have hdropA : dropLeading (· == '-') ('-' :: A) = A := by
    rw [hAeq]; simp [dropLeading, hda1]
  have hdropB : dropLeading (· == '+') ('+' :: B) = B := by
    rw [hBeq]; simp [dropLeading, hdb2]
  have hAparts : splitOn ',' A = if h.omitOld then [natToStr h.oldStart] else [natToStr h.oldStart, natToStr h.oldCount] := by
    rw [← hA]; exact splitOn_numTok _ _ _
  have hBparts : splitOn ',' B = if h.omitNew then [natToStr h.newStart] else [natToStr h.newStart, natToStr h.newCount] := by
    rw [← hB]; exact splitOn_numTok _ _ _
  unfold parseHunkRanges
  simp only [hsplit, htoks, hfindOld, hfindNew, hdropA, hdropB]
  simp only [List.length_cons, List.length_nil]
  have pS := parseU32_natToStr _ wf.newStart32
  have pN := parseU32_natToStr _ wf.newCount32
  have pO := parseU32_natToStr _ wf.oldCount32
  cases hoo : h.omitOld with
  | true =>
    have ho1 : h.oldCount = 1 := wf.omitOld1 hoo
    rw [hoo] at hAparts
    simp only [if_true] at hAparts
    rw [hAparts]
    cases hon : h.omitNew with
    | true =>
      have hn1 : h.newCount = 1 := wf.omitNew1 hon
      rw [hon] at hBparts
      simp only [if_true] at hBparts
      rw [hBparts]
      simp [pS, ho1, hn1]
    | false =>
      rw [hon] at hBparts
      simp only [Bool.false_eq_true, if_false] at hBparts
      rw [hBparts]
      simp [pS, pN, ho1]
  | false =>
    rw [hoo] at hAparts
    simp only [Bool.false_eq_true, if_false] at hAparts
    rw [hAparts]
    cases hon : h.omitNew with
    | true =>
      have hn1 : h.newCount = 1 := wf.omitNew1 hon
      rw [hon] at hBparts
      simp only [if_true] at hBparts
      rw [hBparts]
      simp [pS, pO, hn1]
    | false =>
      rw [hon] at hBparts
      simp only [Bool.false_eq_true, if_false] at hBparts
      rw [hBparts]
      simp [pS, pN, pO]

theorem parseHunkHeader_headerLine (h : Hunk) (wf : h.Wf) :
    parseHunkHeader (headerLine h) =
      if h.newCount = 0 then .lines [] false
      else .lines (List.range' h.newStart h.newCount) (h.oldCount = 0) := by
  unfold parseHunkHeader
  rw [parseHunkRanges_headerLine h wf]
  have hno : ¬ (h.newStart + h.newCount > 4294967295) := by have := wf.noOverflow; omega
  by_cases hz : h.newCount = 0
  · simp [hz]
  · simp [hz, hno]

end GitAi.DiffParse
