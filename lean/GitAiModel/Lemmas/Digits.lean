/-
  Lemmas/Digits.lean — decimal rendering and `u32` parsing round trip.
-/
import GitAiModel.Base.Text
namespace GitAi

theorem digitChar_props : ∀ d : Fin 10,
    isDigit (digitChar d.val) = true ∧ digitVal (digitChar d.val) = d.val ∧
    digitChar d.val ≠ '+' ∧ digitChar d.val ≠ '-' ∧ digitChar d.val ≠ ',' ∧
    digitChar d.val ≠ ' ' ∧ digitChar d.val ≠ '\n' ∧ digitChar d.val ≠ '\r' ∧
    isWhitespace (digitChar d.val) = false := by
  decide

theorem digitChar_isDigit (d : Nat) (h : d < 10) : isDigit (digitChar d) = true :=
  (digitChar_props ⟨d, h⟩).1

theorem digitChar_val (d : Nat) (h : d < 10) : digitVal (digitChar d) = d :=
  (digitChar_props ⟨d, h⟩).2.1

theorem natToStrAux_fuel (f1 f2 n : Nat) (h1 : n < f1) (h2 : n < f2) :
    natToStrAux f1 n = natToStrAux f2 n := by
  induction f1 generalizing f2 n with
  | zero => omega
  | succ f1 ih =>
    cases f2 with
    | zero => omega
    | succ f2 =>
      simp only [natToStrAux]
      split
      · rfl
      · rw [ih f2 (n / 10) (by omega) (by omega)]

/-- the defining equation of `natToStr` -/
theorem natToStr_eq (n : Nat) :
    natToStr n = if n < 10 then [digitChar n] else natToStr (n / 10) ++ [digitChar (n % 10)] := by
  show natToStrAux (n + 1) n = _
  rw [natToStrAux]
  split
  · rfl
  · show _ = natToStrAux (n / 10 + 1) (n / 10) ++ _
    rw [natToStrAux_fuel n (n / 10 + 1) (n / 10) (by omega) (by omega)]

/-- the characters of a rendered number are all digits -/
theorem natToStr_all_digit (n : Nat) : ∀ c ∈ natToStr n, ∃ d, d < 10 ∧ c = digitChar d := by
  induction n using Nat.strongRecOn with
  | _ n ih =>
    rw [natToStr_eq]
    split
    · rename_i h
      intro c hc
      simp at hc
      exact ⟨n, h, hc⟩
    · rename_i h
      intro c hc
      simp at hc
      rcases hc with hc | hc
      · exact ih (n / 10) (by omega) c hc
      · exact ⟨n % 10, by omega, hc⟩

theorem natToStr_ne_nil (n : Nat) : natToStr n ≠ [] := by
  rw [natToStr_eq]
  split <;> simp

theorem digitsVal_append (a : Str) (c : Char) (acc : Nat) :
    digitsVal (a ++ [c]) acc = digitsVal a acc * 10 + digitVal c := by
  induction a generalizing acc with
  | nil => simp [digitsVal]
  | cons x xs ih => simp [digitsVal, ih]

theorem digitsVal_natToStr (n : Nat) : digitsVal (natToStr n) 0 = n := by
  induction n using Nat.strongRecOn with
  | _ n ih =>
    rw [natToStr_eq]
    split
    · rename_i h
      simp [digitsVal, digitChar_val n h]
    · rename_i h
      rw [digitsVal_append, ih (n / 10) (by omega), digitChar_val _ (by omega)]
      omega

theorem natToStr_not_mem (n : Nat) (c : Char)
    (hc : ∀ d : Fin 10, digitChar d.val ≠ c) : c ∉ natToStr n := by
  intro h
  obtain ⟨d, hd, rfl⟩ := natToStr_all_digit n c h
  exact hc ⟨d, hd⟩ rfl

theorem natToStr_no_dash (n : Nat) : '-' ∉ natToStr n :=
  natToStr_not_mem n _ (fun d => (digitChar_props d).2.2.2.1)
theorem natToStr_no_comma (n : Nat) : ',' ∉ natToStr n :=
  natToStr_not_mem n _ (fun d => (digitChar_props d).2.2.2.2.1)
theorem natToStr_no_space (n : Nat) : ' ' ∉ natToStr n :=
  natToStr_not_mem n _ (fun d => (digitChar_props d).2.2.2.2.2.1)
theorem natToStr_no_nl (n : Nat) : '\n' ∉ natToStr n :=
  natToStr_not_mem n _ (fun d => (digitChar_props d).2.2.2.2.2.2.1)

theorem natToStr_all_isDigit (n : Nat) : (natToStr n).all isDigit = true := by
  rw [List.all_eq_true]
  intro c hc
  obtain ⟨d, hd, rfl⟩ := natToStr_all_digit n c hc
  exact digitChar_isDigit d hd

/-- the last character of a rendered number is a digit (so not whitespace, not `\r`) -/
theorem natToStr_getLast (n : Nat) : ∃ d, d < 10 ∧ (natToStr n).getLast? = some (digitChar d) := by
  rw [natToStr_eq]
  split
  · rename_i h; exact ⟨n, h, by simp⟩
  · exact ⟨n % 10, by omega, by simp⟩

theorem parseU32_natToStr (n : Nat) (h : n < 4294967296) : parseU32 (natToStr n) = some n := by
  unfold parseU32
  have hne := natToStr_ne_nil n
  have hplus : ∀ rest, natToStr n ≠ '+' :: rest := by
    intro rest he
    have : '+' ∈ natToStr n := by rw [he]; simp
    exact natToStr_not_mem n _ (fun d => (digitChar_props d).2.2.1) this
  have hds : (match natToStr n with | '+' :: rest => rest | _ => natToStr n) = natToStr n := by
    split
    · rename_i rest he; exact absurd he (hplus rest)
    · rfl
  simp only [hds]
  have he : (natToStr n).isEmpty = false := by
    cases hh : natToStr n with
    | nil => exact absurd hh hne
    | cons _ _ => rfl
  simp [he, natToStr_all_isDigit n, digitsVal_natToStr n, h]

end GitAi
